"""Equivalence check for refactoring 4: Array.__getitem__ and relocate_ranges in
ceos_alos2/array.py. Results, exceptions and the exact sequence of file
requests (open / seek / read / close) are compared.

Run: PYTHONPATH=/tmp/wt6/e42 python _eq/4/equiv.py   (or with pytest)
The EXPECTED table was recorded from the unchanged code (git HEAD).
"""
import io

import fsspec
import numpy as np

from ceos_alos2 import array


class LoggedFile:
    def __init__(self, content, log):
        self._f = io.BytesIO(content)
        self._log = log

    def __enter__(self):
        self._log.append("enter")
        return self

    def __exit__(self, exc_type, exc, tb):
        self._log.append(f"exit({exc_type.__name__ if exc_type else None})")
        return False

    def seek(self, offset, whence=0):
        self._log.append(f"seek({offset!r}, {whence!r})")
        return self._f.seek(offset, whence)

    def read(self, size=-1):
        self._log.append(f"read({size!r})")
        return self._f.read(size)


class LoggedFS:
    def __init__(self, files):
        self.files = files
        self.log = []

    def open(self, *args, **kwargs):
        self.log.append(f"open({args!r}, {kwargs!r})")
        url = args[0]
        if url not in self.files:
            raise FileNotFoundError(url)
        return LoggedFile(self.files[url], self.log)


class Indexers:
    """custom container of indexers: counts how it is accessed"""

    def __init__(self, *items):
        self.items = items

    def __getitem__(self, key):
        return self.items[key]


def image(n_rows, n_cols, dtype, header, prefix):
    """a fake image file: `prefix` bytes, then per row `header` bytes + big-endian samples"""
    rng = np.random.default_rng(n_rows * 1000 + n_cols)
    if dtype == "complex64":
        values = (
            rng.integers(-100, 100, (n_rows, n_cols)) + 1j * rng.integers(-100, 100, (n_rows, n_cols))
        ).astype(">c8")
        itemsize = 8
    else:
        values = rng.integers(0, 2**16, (n_rows, n_cols)).astype(">u2")
        itemsize = 2
    content = bytes(range(prefix % 256))[:prefix].ljust(prefix, b"\xaa")
    byte_ranges = []
    for row in values:
        content += b"\xff" * header
        start = len(content)
        content += row.tobytes()
        byte_ranges.append((start, start + n_cols * itemsize))
    content += b"\xee" * 5
    return content, byte_ranges


def run(
    indexers,
    *,
    n_rows=7,
    n_cols=5,
    dtype="uint16",
    type_code=None,
    records_per_chunk=3,
    header=4,
    prefix=11,
    truncate=None,
    mutate=None,
    url="IMG",
    stored="IMG",
    shape=None,
):
    content, byte_ranges = image(n_rows, n_cols, dtype, header, prefix)
    if truncate is not None:
        content = content[:truncate]
    fs = LoggedFS({stored: content})
    if type_code is None:
        type_code = {"uint16": "IU2", "complex64": "C*8"}[dtype]
    arr = array.Array(
        fs=fs,
        url=url,
        byte_ranges=byte_ranges,
        shape=(n_rows, n_cols) if shape is None else shape,
        dtype=dtype,
        type_code=type_code,
        records_per_chunk=records_per_chunk,
    )
    if mutate is not None:
        mutate(arr)
    try:
        result = arr[indexers]
    except Exception as e:  # noqa: BLE001
        result = e
    return [fs.log, result]


def relocate(chunk_info, ranges):
    result = array.relocate_ranges(chunk_info, ranges)
    return [result, result[0] is chunk_info]


def cases():
    out = []

    def add(name, func, *args, **kwargs):
        out.append((name, lambda: func(*args, **kwargs)))

    s = slice
    row_indexers = {
        "0": 0, "3": 3, "6": 6, "-1": -1, "-7": -7, "7": 7, "-8": -8, "True": True,
        "np3": np.int64(3),
        "all": s(None), "0:1": s(0, 1), "2:5": s(2, 5), "3:": s(3, None), ":3": s(None, 3),
        "::2": s(None, None, 2), "::-1": s(None, None, -1), "-1::-2": s(-1, None, -2),
        "1::3": s(1, None, 3), "5:2": s(5, 2), "0:0": s(0, 0), "2:100": s(2, 100),
        "::0": s(None, None, 0),
        "list": [0, 2], "list-neg": [6, -1, 0], "list-empty": [], "list-dup": [4, 4],
        "list-oob": [1, 9], "array": np.array([5, 1]), "tuple": (2, 3),
        "none": None, "ellipsis": Ellipsis, "str": "1", "float": 1.0,
    }
    col_indexers = {
        "all": s(None), "0": 0, "-1": -1, "5": 5, "1:4": s(1, 4), "::2": s(None, None, 2),
        "::-1": s(None, None, -1), "0:0": s(0, 0), "list": [0, 4], "ellipsis": Ellipsis,
        "none": None, "array": np.array([1, 1, 3]), "str": "a",
    }
    for dtype in ["uint16", "complex64"]:
        for rname, r in row_indexers.items():
            for cname, c in col_indexers.items():
                add(f"{dtype}[{rname},{cname}]", run, (r, c), dtype=dtype)

    # number / kind of indexers
    for rname in ["3", "2:5", "0:0", "list", "7"]:
        r = row_indexers[rname]
        add(f"one[{rname}]", run, (r,))
        add(f"three[{rname}]", run, (r, s(None), 0))
        add(f"newaxis[{rname}]", run, (r, None, s(1, 3)))
        add(f"list-indexers[{rname}]", run, [r, s(0, 2)])
        add(f"list-indexers-one[{rname}]", run, [r])
        add(f"custom-indexers[{rname}]", lambda r=r: run(Indexers(r, s(0, 2))))
        add(f"array-indexers[{rname}]", lambda r=r: run(np.array([r, 1], dtype=object)))
        add(f"bare[{rname}]", run, r)
    add("empty-tuple", run, ())
    add("empty-list", run, [])
    add("indexers-none", run, None)
    add("indexers-str", run, "01")
    add("indexers-dict", run, {0: 1, 1: 2})
    add("indexers-int-array", run, np.array([2, 1]))

    # chunking
    for rpc in [None, 1, 2, 3, 4, 7, 8, -1, "auto", "20B", "33B"]:
        for rname in ["3", "all", "::-1", "1::3", "list-neg", "0:0"]:
            add(f"rpc={rpc!r}[{rname}]", run, (row_indexers[rname], s(None)), records_per_chunk=rpc)

    # layouts
    for header, prefix in [(0, 0), (0, 7), (12, 0), (544, 720)]:
        for dtype in ["uint16", "complex64"]:
            for rname in ["0", "-1", "all", "-1::-2"]:
                add(
                    f"layout{header},{prefix},{dtype}[{rname}]",
                    run,
                    (row_indexers[rname], s(1, None)),
                    header=header,
                    prefix=prefix,
                    dtype=dtype,
                )
    for n_rows, n_cols in [(1, 1), (1, 6), (4, 1), (0, 3), (0, 0), (12, 2)]:
        for rname in ["0", "all", "::-1", "0:0", "-1"]:
            add(f"shape{n_rows}x{n_cols}[{rname}]", run, (row_indexers[rname], s(None)),
                n_rows=n_rows, n_cols=n_cols)
            add(f"shape{n_rows}x{n_cols}c[{rname}]", run, (row_indexers[rname], s(None)),
                n_rows=n_rows, n_cols=n_cols, dtype="complex64", records_per_chunk=5)

    # failures after / during / before the reads
    for rname in ["0", "6", "all", "::-1", "0:0"]:
        r = row_indexers[rname]
        add(f"unknown-code[{rname}]", run, (r, s(None)), type_code="F*8")
        add(f"wrong-code[{rname}]", run, (r, s(None)), type_code="C*8")
        add(f"wrong-code-c[{rname}]", run, (r, s(None)), dtype="complex64", type_code="IU2")
        add(f"missing-file[{rname}]", run, (r, s(None)), url="other")
        for truncate in [0, 20, 48, 60, 75]:
            add(f"truncated{truncate}[{rname}]", run, (r, s(None)), truncate=truncate)
            add(f"truncated{truncate}c[{rname}]", run, (r, s(None)), truncate=truncate,
                dtype="complex64")
        add(f"declared-shape[{rname}]", run, (r, s(None)), shape=(7, 9))
        add(f"declared-shape-1d[{rname}]", run, (r,), shape=(7,))
        add(f"declared-shape-3d[{rname}]", run, (r, s(None)), shape=(7, 5, 2))

        def stale_chunks(arr):
            arr.records_per_chunk = 1

        def odd_ranges(arr):
            arr.byte_ranges = arr.byte_ranges[:3] + [(0, 4)] + arr.byte_ranges[4:]

        def bad_ranges(arr):
            arr.byte_ranges = [(a, b, 0) for a, b in arr.byte_ranges]

        def bad_offsets(arr):
            arr.chunk_offsets = {k: {"offset": v["offset"]} for k, v in arr.chunk_offsets.items()}

        def extra_offsets(arr):
            arr.chunk_offsets = {k: dict(v, whence=0) for k, v in arr.chunk_offsets.items()}

        def no_offset_key(arr):
            arr.chunk_offsets = {k: {"size": v["size"]} for k, v in arr.chunk_offsets.items()}

        def zero_chunks(arr):
            arr.records_per_chunk = 0

        def dtype_other(arr):
            arr.dtype = "float32"

        for mutate in [stale_chunks, odd_ranges, bad_ranges, bad_offsets, extra_offsets,
                       no_offset_key, zero_chunks, dtype_other]:
            add(f"{mutate.__name__}[{rname}]", run, (r, s(None)), mutate=mutate)

    # a real fsspec file system
    def with_fsspec(indexers, dtype):
        content, byte_ranges = image(6, 4, dtype, 3, 9)
        memfs = fsspec.filesystem("memory")
        memfs.pipe_file("/e42/getitem/IMG", content)
        fs = fsspec.filesystem("dir", path="/e42/getitem", fs=memfs)
        type_code = {"uint16": "IU2", "complex64": "C*8"}[dtype]
        arr = array.Array(fs, "IMG", byte_ranges, (6, 4), dtype, type_code, 4)
        return arr[indexers]

    for dtype in ["uint16", "complex64"]:
        for name, indexers in {
            "scalar": (2, 1), "row": (-1, s(None)), "block": (s(1, 5), s(1, 3)),
            "rev": (s(None, None, -1), s(None, None, -1)), "empty": (s(0, 0), s(None)),
            "oob": (6, 0),
        }.items():
            add(f"fsspec-{dtype}-{name}", with_fsspec, indexers, dtype)

    # relocate_ranges
    info = {"offset": 10, "size": 200}
    for name, ranges in {
        "regular": [(40, 43), (43, 46), (46, 49)],
        "empty": [],
        "tuple": ((10, 12), (12, 15)),
        "before": [(0, 5)],
        "lists": [[12, 14], [14, 16]],
        "float": [(10.5, 11.5)],
        "np": [(np.int64(20), np.int64(30))],
        "three": [(1, 2, 3)],
        "one": [(1,)],
        "ints": [1, 2],
        "none": None,
        "str": ["ab"],
        "none-items": [(None, 4)],
        "mixed": [(11, 12), (1,)],
    }.items():
        add(f"relocate-{name}", relocate, info, ranges)
        add(f"relocate-zero-{name}", relocate, {"offset": 0}, ranges)
        add(f"relocate-missing-{name}", relocate, {"size": 3}, ranges)
        add(f"relocate-none-{name}", relocate, None, ranges)
        add(f"relocate-float-{name}", relocate, {"offset": 0.5, "size": 1}, ranges)
    add("relocate-gen", lambda: relocate(info, ((a, a + 2) for a in range(10, 20, 5))))
    add("relocate-kw", lambda: array.relocate_ranges(chunk_info=info, ranges=[(11, 12)]))

    return out


# recorded from the unchanged code
EXPECTED = {'uint16[0,all]': 'list(list(builtins.str:"open((\'IMG\',), {\'mode\': \'rb\'})", '
                  "builtins.str:'enter', builtins.str:'seek(15, 0)', builtins.str:'read(38)', "
                  "builtins.str:'exit(None)'), ndarray[<u2|(5,)|6629092f3a86a4e3c49e])",
 'uint16[0,0]': 'list(list(builtins.str:"open((\'IMG\',), {\'mode\': \'rb\'})", '
                "builtins.str:'enter', builtins.str:'seek(15, 0)', builtins.str:'read(38)', "
                "builtins.str:'exit(None)'), numpy.uint16(np.uint16(10598)))",
 'uint16[0,-1]': 'list(list(builtins.str:"open((\'IMG\',), {\'mode\': \'rb\'})", '
                 "builtins.str:'enter', builtins.str:'seek(15, 0)', builtins.str:'read(38)', "
                 "builtins.str:'exit(None)'), numpy.uint16(np.uint16(40644)))",
 'uint16[0,5]': 'list(list(builtins.str:"open((\'IMG\',), {\'mode\': \'rb\'})", '
                "builtins.str:'enter', builtins.str:'seek(15, 0)', builtins.str:'read(38)', "
                "builtins.str:'exit(None)'), raise builtins.IndexError: index 5 is out of bounds "
                'for axis 1 with size 5)',
 'uint16[0,1:4]': 'list(list(builtins.str:"open((\'IMG\',), {\'mode\': \'rb\'})", '
                  "builtins.str:'enter', builtins.str:'seek(15, 0)', builtins.str:'read(38)', "
                  "builtins.str:'exit(None)'), ndarray[<u2|(3,)|092f3a86a4e3])",
 'uint16[0,::2]': 'list(list(builtins.str:"open((\'IMG\',), {\'mode\': \'rb\'})", '
                  "builtins.str:'enter', builtins.str:'seek(15, 0)', builtins.str:'read(38)', "
                  "builtins.str:'exit(None)'), ndarray[<u2|(3,)|66293a86c49e])",
 'uint16[0,::-1]': 'list(list(builtins.str:"open((\'IMG\',), {\'mode\': \'rb\'})", '
                   "builtins.str:'enter', builtins.str:'seek(15, 0)', builtins.str:'read(38)', "
                   "builtins.str:'exit(None)'), ndarray[<u2|(5,)|c49ea4e33a86092f6629])",
 'uint16[0,0:0]': 'list(list(builtins.str:"open((\'IMG\',), {\'mode\': \'rb\'})", '
                  "builtins.str:'enter', builtins.str:'seek(15, 0)', builtins.str:'read(38)', "
                  "builtins.str:'exit(None)'), ndarray[<u2|(0,)|])",
 'uint16[0,list]': 'list(list(builtins.str:"open((\'IMG\',), {\'mode\': \'rb\'})", '
                   "builtins.str:'enter', builtins.str:'seek(15, 0)', builtins.str:'read(38)', "
                   "builtins.str:'exit(None)'), ndarray[<u2|(2,)|6629c49e])",
 'uint16[0,ellipsis]': 'list(list(builtins.str:"open((\'IMG\',), {\'mode\': \'rb\'})", '
                       "builtins.str:'enter', builtins.str:'seek(15, 0)', builtins.str:'read(38)', "
                       "builtins.str:'exit(None)'), ndarray[<u2|(5,)|6629092f3a86a4e3c49e])",
 'uint16[0,none]': 'list(list(builtins.str:"open((\'IMG\',), {\'mode\': \'rb\'})", '
                   "builtins.str:'enter', builtins.str:'seek(15, 0)', builtins.str:'read(38)', "
                   "builtins.str:'exit(None)'), ndarray[<u2|(1, 5)|6629092f3a86a4e3c49e])",
 'uint16[0,array]': 'list(list(builtins.str:"open((\'IMG\',), {\'mode\': \'rb\'})", '
                    "builtins.str:'enter', builtins.str:'seek(15, 0)', builtins.str:'read(38)', "
                    "builtins.str:'exit(None)'), ndarray[<u2|(3,)|092f092fa4e3])",
 'uint16[0,str]': 'list(list(builtins.str:"open((\'IMG\',), {\'mode\': \'rb\'})", '
                  "builtins.str:'enter', builtins.str:'seek(15, 0)', builtins.str:'read(38)', "
                  "builtins.str:'exit(None)'), raise builtins.IndexError: only integers, slices "
                  '(`:`), ellipsis (`...`), numpy.newaxis (`None`) and integer or boolean arrays '
                  'are valid indices)',
 'uint16[3,all]': 'list(list(builtins.str:"open((\'IMG\',), {\'mode\': \'rb\'})", '
                  "builtins.str:'enter', builtins.str:'seek(57, 0)', builtins.str:'read(38)', "
                  "builtins.str:'exit(None)'), ndarray[<u2|(5,)|98d2e0b1e97993aa3d42])",
 'uint16[3,0]': 'list(list(builtins.str:"open((\'IMG\',), {\'mode\': \'rb\'})", '
                "builtins.str:'enter', builtins.str:'seek(57, 0)', builtins.str:'read(38)', "
                "builtins.str:'exit(None)'), numpy.uint16(np.uint16(53912)))",
 'uint16[3,-1]': 'list(list(builtins.str:"open((\'IMG\',), {\'mode\': \'rb\'})", '
                 "builtins.str:'enter', builtins.str:'seek(57, 0)', builtins.str:'read(38)', "
                 "builtins.str:'exit(None)'), numpy.uint16(np.uint16(16957)))",
 'uint16[3,5]': 'list(list(builtins.str:"open((\'IMG\',), {\'mode\': \'rb\'})", '
                "builtins.str:'enter', builtins.str:'seek(57, 0)', builtins.str:'read(38)', "
                "builtins.str:'exit(None)'), raise builtins.IndexError: index 5 is out of bounds "
                'for axis 1 with size 5)',
 'uint16[3,1:4]': 'list(list(builtins.str:"open((\'IMG\',), {\'mode\': \'rb\'})", '
                  "builtins.str:'enter', builtins.str:'seek(57, 0)', builtins.str:'read(38)', "
                  "builtins.str:'exit(None)'), ndarray[<u2|(3,)|e0b1e97993aa])",
 'uint16[3,::2]': 'list(list(builtins.str:"open((\'IMG\',), {\'mode\': \'rb\'})", '
                  "builtins.str:'enter', builtins.str:'seek(57, 0)', builtins.str:'read(38)', "
                  "builtins.str:'exit(None)'), ndarray[<u2|(3,)|98d2e9793d42])",
 'uint16[3,::-1]': 'list(list(builtins.str:"open((\'IMG\',), {\'mode\': \'rb\'})", '
                   "builtins.str:'enter', builtins.str:'seek(57, 0)', builtins.str:'read(38)', "
                   "builtins.str:'exit(None)'), ndarray[<u2|(5,)|3d4293aae979e0b198d2])",
 'uint16[3,0:0]': 'list(list(builtins.str:"open((\'IMG\',), {\'mode\': \'rb\'})", '
                  "builtins.str:'enter', builtins.str:'seek(57, 0)', builtins.str:'read(38)', "
                  "builtins.str:'exit(None)'), ndarray[<u2|(0,)|])",
 'uint16[3,list]': 'list(list(builtins.str:"open((\'IMG\',), {\'mode\': \'rb\'})", '
                   "builtins.str:'enter', builtins.str:'seek(57, 0)', builtins.str:'read(38)', "
                   "builtins.str:'exit(None)'), ndarray[<u2|(2,)|98d23d42])",
 'uint16[3,ellipsis]': 'list(list(builtins.str:"open((\'IMG\',), {\'mode\': \'rb\'})", '
                       "builtins.str:'enter', builtins.str:'seek(57, 0)', builtins.str:'read(38)', "
                       "builtins.str:'exit(None)'), ndarray[<u2|(5,)|98d2e0b1e97993aa3d42])",
 'uint16[3,none]': 'list(list(builtins.str:"open((\'IMG\',), {\'mode\': \'rb\'})", '
                   "builtins.str:'enter', builtins.str:'seek(57, 0)', builtins.str:'read(38)', "
                   "builtins.str:'exit(None)'), ndarray[<u2|(1, 5)|98d2e0b1e97993aa3d42])",
 'uint16[3,array]': 'list(list(builtins.str:"open((\'IMG\',), {\'mode\': \'rb\'})", '
                    "builtins.str:'enter', builtins.str:'seek(57, 0)', builtins.str:'read(38)', "
                    "builtins.str:'exit(None)'), ndarray[<u2|(3,)|e0b1e0b193aa])",
 'uint16[3,str]': 'list(list(builtins.str:"open((\'IMG\',), {\'mode\': \'rb\'})", '
                  "builtins.str:'enter', builtins.str:'seek(57, 0)', builtins.str:'read(38)', "
                  "builtins.str:'exit(None)'), raise builtins.IndexError: only integers, slices "
                  '(`:`), ellipsis (`...`), numpy.newaxis (`None`) and integer or boolean arrays '
                  'are valid indices)',
 'uint16[6,all]': 'list(list(builtins.str:"open((\'IMG\',), {\'mode\': \'rb\'})", '
                  "builtins.str:'enter', builtins.str:'seek(99, 0)', builtins.str:'read(10)', "
                  "builtins.str:'exit(None)'), ndarray[<u2|(5,)|91b9aa159cc2ea440bd3])",
 'uint16[6,0]': 'list(list(builtins.str:"open((\'IMG\',), {\'mode\': \'rb\'})", '
                "builtins.str:'enter', builtins.str:'seek(99, 0)', builtins.str:'read(10)', "
                "builtins.str:'exit(None)'), numpy.uint16(np.uint16(47505)))",
 'uint16[6,-1]': 'list(list(builtins.str:"open((\'IMG\',), {\'mode\': \'rb\'})", '
                 "builtins.str:'enter', builtins.str:'seek(99, 0)', builtins.str:'read(10)', "
                 "builtins.str:'exit(None)'), numpy.uint16(np.uint16(54027)))",
 'uint16[6,5]': 'list(list(builtins.str:"open((\'IMG\',), {\'mode\': \'rb\'})", '
                "builtins.str:'enter', builtins.str:'seek(99, 0)', builtins.str:'read(10)', "
                "builtins.str:'exit(None)'), raise builtins.IndexError: index 5 is out of bounds "
                'for axis 1 with size 5)',
 'uint16[6,1:4]': 'list(list(builtins.str:"open((\'IMG\',), {\'mode\': \'rb\'})", '
                  "builtins.str:'enter', builtins.str:'seek(99, 0)', builtins.str:'read(10)', "
                  "builtins.str:'exit(None)'), ndarray[<u2|(3,)|aa159cc2ea44])",
 'uint16[6,::2]': 'list(list(builtins.str:"open((\'IMG\',), {\'mode\': \'rb\'})", '
                  "builtins.str:'enter', builtins.str:'seek(99, 0)', builtins.str:'read(10)', "
                  "builtins.str:'exit(None)'), ndarray[<u2|(3,)|91b99cc20bd3])",
 'uint16[6,::-1]': 'list(list(builtins.str:"open((\'IMG\',), {\'mode\': \'rb\'})", '
                   "builtins.str:'enter', builtins.str:'seek(99, 0)', builtins.str:'read(10)', "
                   "builtins.str:'exit(None)'), ndarray[<u2|(5,)|0bd3ea449cc2aa1591b9])",
 'uint16[6,0:0]': 'list(list(builtins.str:"open((\'IMG\',), {\'mode\': \'rb\'})", '
                  "builtins.str:'enter', builtins.str:'seek(99, 0)', builtins.str:'read(10)', "
                  "builtins.str:'exit(None)'), ndarray[<u2|(0,)|])",
 'uint16[6,list]': 'list(list(builtins.str:"open((\'IMG\',), {\'mode\': \'rb\'})", '
                   "builtins.str:'enter', builtins.str:'seek(99, 0)', builtins.str:'read(10)', "
                   "builtins.str:'exit(None)'), ndarray[<u2|(2,)|91b90bd3])",
 'uint16[6,ellipsis]': 'list(list(builtins.str:"open((\'IMG\',), {\'mode\': \'rb\'})", '
                       "builtins.str:'enter', builtins.str:'seek(99, 0)', builtins.str:'read(10)', "
                       "builtins.str:'exit(None)'), ndarray[<u2|(5,)|91b9aa159cc2ea440bd3])",
 'uint16[6,none]': 'list(list(builtins.str:"open((\'IMG\',), {\'mode\': \'rb\'})", '
                   "builtins.str:'enter', builtins.str:'seek(99, 0)', builtins.str:'read(10)', "
                   "builtins.str:'exit(None)'), ndarray[<u2|(1, 5)|91b9aa159cc2ea440bd3])",
 'uint16[6,array]': 'list(list(builtins.str:"open((\'IMG\',), {\'mode\': \'rb\'})", '
                    "builtins.str:'enter', builtins.str:'seek(99, 0)', builtins.str:'read(10)', "
                    "builtins.str:'exit(None)'), ndarray[<u2|(3,)|aa15aa15ea44])",
 'uint16[6,str]': 'list(list(builtins.str:"open((\'IMG\',), {\'mode\': \'rb\'})", '
                  "builtins.str:'enter', builtins.str:'seek(99, 0)', builtins.str:'read(10)', "
                  "builtins.str:'exit(None)'), raise builtins.IndexError: only integers, slices "
                  '(`:`), ellipsis (`...`), numpy.newaxis (`None`) and integer or boolean arrays '
                  'are valid indices)',
 'uint16[-1,all]': 'list(list(builtins.str:"open((\'IMG\',), {\'mode\': \'rb\'})", '
                   "builtins.str:'enter', builtins.str:'seek(99, 0)', builtins.str:'read(10)', "
                   "builtins.str:'exit(None)'), ndarray[<u2|(5,)|91b9aa159cc2ea440bd3])",
 'uint16[-1,0]': 'list(list(builtins.str:"open((\'IMG\',), {\'mode\': \'rb\'})", '
                 "builtins.str:'enter', builtins.str:'seek(99, 0)', builtins.str:'read(10)', "
                 "builtins.str:'exit(None)'), numpy.uint16(np.uint16(47505)))",
 'uint16[-1,-1]': 'list(list(builtins.str:"open((\'IMG\',), {\'mode\': \'rb\'})", '
                  "builtins.str:'enter', builtins.str:'seek(99, 0)', builtins.str:'read(10)', "
                  "builtins.str:'exit(None)'), numpy.uint16(np.uint16(54027)))",
 'uint16[-1,5]': 'list(list(builtins.str:"open((\'IMG\',), {\'mode\': \'rb\'})", '
                 "builtins.str:'enter', builtins.str:'seek(99, 0)', builtins.str:'read(10)', "
                 "builtins.str:'exit(None)'), raise builtins.IndexError: index 5 is out of bounds "
                 'for axis 1 with size 5)',
 'uint16[-1,1:4]': 'list(list(builtins.str:"open((\'IMG\',), {\'mode\': \'rb\'})", '
                   "builtins.str:'enter', builtins.str:'seek(99, 0)', builtins.str:'read(10)', "
                   "builtins.str:'exit(None)'), ndarray[<u2|(3,)|aa159cc2ea44])",
 'uint16[-1,::2]': 'list(list(builtins.str:"open((\'IMG\',), {\'mode\': \'rb\'})", '
                   "builtins.str:'enter', builtins.str:'seek(99, 0)', builtins.str:'read(10)', "
                   "builtins.str:'exit(None)'), ndarray[<u2|(3,)|91b99cc20bd3])",
 'uint16[-1,::-1]': 'list(list(builtins.str:"open((\'IMG\',), {\'mode\': \'rb\'})", '
                    "builtins.str:'enter', builtins.str:'seek(99, 0)', builtins.str:'read(10)', "
                    "builtins.str:'exit(None)'), ndarray[<u2|(5,)|0bd3ea449cc2aa1591b9])",
 'uint16[-1,0:0]': 'list(list(builtins.str:"open((\'IMG\',), {\'mode\': \'rb\'})", '
                   "builtins.str:'enter', builtins.str:'seek(99, 0)', builtins.str:'read(10)', "
                   "builtins.str:'exit(None)'), ndarray[<u2|(0,)|])",
 'uint16[-1,list]': 'list(list(builtins.str:"open((\'IMG\',), {\'mode\': \'rb\'})", '
                    "builtins.str:'enter', builtins.str:'seek(99, 0)', builtins.str:'read(10)', "
                    "builtins.str:'exit(None)'), ndarray[<u2|(2,)|91b90bd3])",
 'uint16[-1,ellipsis]': 'list(list(builtins.str:"open((\'IMG\',), {\'mode\': \'rb\'})", '
                        "builtins.str:'enter', builtins.str:'seek(99, 0)', "
                        "builtins.str:'read(10)', builtins.str:'exit(None)'), "
                        'ndarray[<u2|(5,)|91b9aa159cc2ea440bd3])',
 'uint16[-1,none]': 'list(list(builtins.str:"open((\'IMG\',), {\'mode\': \'rb\'})", '
                    "builtins.str:'enter', builtins.str:'seek(99, 0)', builtins.str:'read(10)', "
                    "builtins.str:'exit(None)'), ndarray[<u2|(1, 5)|91b9aa159cc2ea440bd3])",
 'uint16[-1,array]': 'list(list(builtins.str:"open((\'IMG\',), {\'mode\': \'rb\'})", '
                     "builtins.str:'enter', builtins.str:'seek(99, 0)', builtins.str:'read(10)', "
                     "builtins.str:'exit(None)'), ndarray[<u2|(3,)|aa15aa15ea44])",
 'uint16[-1,str]': 'list(list(builtins.str:"open((\'IMG\',), {\'mode\': \'rb\'})", '
                   "builtins.str:'enter', builtins.str:'seek(99, 0)', builtins.str:'read(10)', "
                   "builtins.str:'exit(None)'), raise builtins.IndexError: only integers, slices "
                   '(`:`), ellipsis (`...`), numpy.newaxis (`None`) and integer or boolean arrays '
                   'are valid indices)',
 'uint16[-7,all]': 'list(list(builtins.str:"open((\'IMG\',), {\'mode\': \'rb\'})", '
                   "builtins.str:'enter', builtins.str:'seek(15, 0)', builtins.str:'read(38)', "
                   "builtins.str:'exit(None)'), ndarray[<u2|(5,)|6629092f3a86a4e3c49e])",
 'uint16[-7,0]': 'list(list(builtins.str:"open((\'IMG\',), {\'mode\': \'rb\'})", '
                 "builtins.str:'enter', builtins.str:'seek(15, 0)', builtins.str:'read(38)', "
                 "builtins.str:'exit(None)'), numpy.uint16(np.uint16(10598)))",
 'uint16[-7,-1]': 'list(list(builtins.str:"open((\'IMG\',), {\'mode\': \'rb\'})", '
                  "builtins.str:'enter', builtins.str:'seek(15, 0)', builtins.str:'read(38)', "
                  "builtins.str:'exit(None)'), numpy.uint16(np.uint16(40644)))",
 'uint16[-7,5]': 'list(list(builtins.str:"open((\'IMG\',), {\'mode\': \'rb\'})", '
                 "builtins.str:'enter', builtins.str:'seek(15, 0)', builtins.str:'read(38)', "
                 "builtins.str:'exit(None)'), raise builtins.IndexError: index 5 is out of bounds "
                 'for axis 1 with size 5)',
 'uint16[-7,1:4]': 'list(list(builtins.str:"open((\'IMG\',), {\'mode\': \'rb\'})", '
                   "builtins.str:'enter', builtins.str:'seek(15, 0)', builtins.str:'read(38)', "
                   "builtins.str:'exit(None)'), ndarray[<u2|(3,)|092f3a86a4e3])",
 'uint16[-7,::2]': 'list(list(builtins.str:"open((\'IMG\',), {\'mode\': \'rb\'})", '
                   "builtins.str:'enter', builtins.str:'seek(15, 0)', builtins.str:'read(38)', "
                   "builtins.str:'exit(None)'), ndarray[<u2|(3,)|66293a86c49e])",
 'uint16[-7,::-1]': 'list(list(builtins.str:"open((\'IMG\',), {\'mode\': \'rb\'})", '
                    "builtins.str:'enter', builtins.str:'seek(15, 0)', builtins.str:'read(38)', "
                    "builtins.str:'exit(None)'), ndarray[<u2|(5,)|c49ea4e33a86092f6629])",
 'uint16[-7,0:0]': 'list(list(builtins.str:"open((\'IMG\',), {\'mode\': \'rb\'})", '
                   "builtins.str:'enter', builtins.str:'seek(15, 0)', builtins.str:'read(38)', "
                   "builtins.str:'exit(None)'), ndarray[<u2|(0,)|])",
 'uint16[-7,list]': 'list(list(builtins.str:"open((\'IMG\',), {\'mode\': \'rb\'})", '
                    "builtins.str:'enter', builtins.str:'seek(15, 0)', builtins.str:'read(38)', "
                    "builtins.str:'exit(None)'), ndarray[<u2|(2,)|6629c49e])",
 'uint16[-7,ellipsis]': 'list(list(builtins.str:"open((\'IMG\',), {\'mode\': \'rb\'})", '
                        "builtins.str:'enter', builtins.str:'seek(15, 0)', "
                        "builtins.str:'read(38)', builtins.str:'exit(None)'), "
                        'ndarray[<u2|(5,)|6629092f3a86a4e3c49e])',
 'uint16[-7,none]': 'list(list(builtins.str:"open((\'IMG\',), {\'mode\': \'rb\'})", '
                    "builtins.str:'enter', builtins.str:'seek(15, 0)', builtins.str:'read(38)', "
                    "builtins.str:'exit(None)'), ndarray[<u2|(1, 5)|6629092f3a86a4e3c49e])",
 'uint16[-7,array]': 'list(list(builtins.str:"open((\'IMG\',), {\'mode\': \'rb\'})", '
                     "builtins.str:'enter', builtins.str:'seek(15, 0)', builtins.str:'read(38)', "
                     "builtins.str:'exit(None)'), ndarray[<u2|(3,)|092f092fa4e3])",
 'uint16[-7,str]': 'list(list(builtins.str:"open((\'IMG\',), {\'mode\': \'rb\'})", '
                   "builtins.str:'enter', builtins.str:'seek(15, 0)', builtins.str:'read(38)', "
                   "builtins.str:'exit(None)'), raise builtins.IndexError: only integers, slices "
                   '(`:`), ellipsis (`...`), numpy.newaxis (`None`) and integer or boolean arrays '
                   'are valid indices)',
 'uint16[7,all]': 'list(list(), raise builtins.IndexError: list index out of range)',
 'uint16[7,0]': 'list(list(), raise builtins.IndexError: list index out of range)',
 'uint16[7,-1]': 'list(list(), raise builtins.IndexError: list index out of range)',
 'uint16[7,5]': 'list(list(), raise builtins.IndexError: list index out of range)',
 'uint16[7,1:4]': 'list(list(), raise builtins.IndexError: list index out of range)',
 'uint16[7,::2]': 'list(list(), raise builtins.IndexError: list index out of range)',
 'uint16[7,::-1]': 'list(list(), raise builtins.IndexError: list index out of range)',
 'uint16[7,0:0]': 'list(list(), raise builtins.IndexError: list index out of range)',
 'uint16[7,list]': 'list(list(), raise builtins.IndexError: list index out of range)',
 'uint16[7,ellipsis]': 'list(list(), raise builtins.IndexError: list index out of range)',
 'uint16[7,none]': 'list(list(), raise builtins.IndexError: list index out of range)',
 'uint16[7,array]': 'list(list(), raise builtins.IndexError: list index out of range)',
 'uint16[7,str]': 'list(list(), raise builtins.IndexError: list index out of range)',
 'uint16[-8,all]': 'list(list(), raise builtins.IndexError: list index out of range)',
 'uint16[-8,0]': 'list(list(), raise builtins.IndexError: list index out of range)',
 'uint16[-8,-1]': 'list(list(), raise builtins.IndexError: list index out of range)',
 'uint16[-8,5]': 'list(list(), raise builtins.IndexError: list index out of range)',
 'uint16[-8,1:4]': 'list(list(), raise builtins.IndexError: list index out of range)',
 'uint16[-8,::2]': 'list(list(), raise builtins.IndexError: list index out of range)',
 'uint16[-8,::-1]': 'list(list(), raise builtins.IndexError: list index out of range)',
 'uint16[-8,0:0]': 'list(list(), raise builtins.IndexError: list index out of range)',
 'uint16[-8,list]': 'list(list(), raise builtins.IndexError: list index out of range)',
 'uint16[-8,ellipsis]': 'list(list(), raise builtins.IndexError: list index out of range)',
 'uint16[-8,none]': 'list(list(), raise builtins.IndexError: list index out of range)',
 'uint16[-8,array]': 'list(list(), raise builtins.IndexError: list index out of range)',
 'uint16[-8,str]': 'list(list(), raise builtins.IndexError: list index out of range)',
 'uint16[True,all]': 'list(list(builtins.str:"open((\'IMG\',), {\'mode\': \'rb\'})", '
                     "builtins.str:'enter', builtins.str:'seek(15, 0)', builtins.str:'read(38)', "
                     "builtins.str:'exit(None)'), ndarray[<u2|(5,)|217bf9cbeaa366ae3051])",
 'uint16[True,0]': 'list(list(builtins.str:"open((\'IMG\',), {\'mode\': \'rb\'})", '
                   "builtins.str:'enter', builtins.str:'seek(15, 0)', builtins.str:'read(38)', "
                   "builtins.str:'exit(None)'), numpy.uint16(np.uint16(31521)))",
 'uint16[True,-1]': 'list(list(builtins.str:"open((\'IMG\',), {\'mode\': \'rb\'})", '
                    "builtins.str:'enter', builtins.str:'seek(15, 0)', builtins.str:'read(38)', "
                    "builtins.str:'exit(None)'), numpy.uint16(np.uint16(20784)))",
 'uint16[True,5]': 'list(list(builtins.str:"open((\'IMG\',), {\'mode\': \'rb\'})", '
                   "builtins.str:'enter', builtins.str:'seek(15, 0)', builtins.str:'read(38)', "
                   "builtins.str:'exit(None)'), raise builtins.IndexError: index 5 is out of "
                   'bounds for axis 1 with size 5)',
 'uint16[True,1:4]': 'list(list(builtins.str:"open((\'IMG\',), {\'mode\': \'rb\'})", '
                     "builtins.str:'enter', builtins.str:'seek(15, 0)', builtins.str:'read(38)', "
                     "builtins.str:'exit(None)'), ndarray[<u2|(3,)|f9cbeaa366ae])",
 'uint16[True,::2]': 'list(list(builtins.str:"open((\'IMG\',), {\'mode\': \'rb\'})", '
                     "builtins.str:'enter', builtins.str:'seek(15, 0)', builtins.str:'read(38)', "
                     "builtins.str:'exit(None)'), ndarray[<u2|(3,)|217beaa33051])",
 'uint16[True,::-1]': 'list(list(builtins.str:"open((\'IMG\',), {\'mode\': \'rb\'})", '
                      "builtins.str:'enter', builtins.str:'seek(15, 0)', builtins.str:'read(38)', "
                      "builtins.str:'exit(None)'), ndarray[<u2|(5,)|305166aeeaa3f9cb217b])",
 'uint16[True,0:0]': 'list(list(builtins.str:"open((\'IMG\',), {\'mode\': \'rb\'})", '
                     "builtins.str:'enter', builtins.str:'seek(15, 0)', builtins.str:'read(38)', "
                     "builtins.str:'exit(None)'), ndarray[<u2|(0,)|])",
 'uint16[True,list]': 'list(list(builtins.str:"open((\'IMG\',), {\'mode\': \'rb\'})", '
                      "builtins.str:'enter', builtins.str:'seek(15, 0)', builtins.str:'read(38)', "
                      "builtins.str:'exit(None)'), ndarray[<u2|(2,)|217b3051])",
 'uint16[True,ellipsis]': 'list(list(builtins.str:"open((\'IMG\',), {\'mode\': \'rb\'})", '
                          "builtins.str:'enter', builtins.str:'seek(15, 0)', "
                          "builtins.str:'read(38)', builtins.str:'exit(None)'), "
                          'ndarray[<u2|(5,)|217bf9cbeaa366ae3051])',
 'uint16[True,none]': 'list(list(builtins.str:"open((\'IMG\',), {\'mode\': \'rb\'})", '
                      "builtins.str:'enter', builtins.str:'seek(15, 0)', builtins.str:'read(38)', "
                      "builtins.str:'exit(None)'), ndarray[<u2|(1, 5)|217bf9cbeaa366ae3051])",
 'uint16[True,array]': 'list(list(builtins.str:"open((\'IMG\',), {\'mode\': \'rb\'})", '
                       "builtins.str:'enter', builtins.str:'seek(15, 0)', builtins.str:'read(38)', "
                       "builtins.str:'exit(None)'), ndarray[<u2|(3,)|f9cbf9cb66ae])",
 'uint16[True,str]': 'list(list(builtins.str:"open((\'IMG\',), {\'mode\': \'rb\'})", '
                     "builtins.str:'enter', builtins.str:'seek(15, 0)', builtins.str:'read(38)', "
                     "builtins.str:'exit(None)'), raise builtins.IndexError: only integers, slices "
                     '(`:`), ellipsis (`...`), numpy.newaxis (`None`) and integer or boolean '
                     'arrays are valid indices)',
 'uint16[np3,all]': "list(list(), raise builtins.TypeError: 'numpy.int64' object is not iterable)",
 'uint16[np3,0]': "list(list(), raise builtins.TypeError: 'numpy.int64' object is not iterable)",
 'uint16[np3,-1]': "list(list(), raise builtins.TypeError: 'numpy.int64' object is not iterable)",
 'uint16[np3,5]': "list(list(), raise builtins.TypeError: 'numpy.int64' object is not iterable)",
 'uint16[np3,1:4]': "list(list(), raise builtins.TypeError: 'numpy.int64' object is not iterable)",
 'uint16[np3,::2]': "list(list(), raise builtins.TypeError: 'numpy.int64' object is not iterable)",
 'uint16[np3,::-1]': "list(list(), raise builtins.TypeError: 'numpy.int64' object is not iterable)",
 'uint16[np3,0:0]': "list(list(), raise builtins.TypeError: 'numpy.int64' object is not iterable)",
 'uint16[np3,list]': "list(list(), raise builtins.TypeError: 'numpy.int64' object is not iterable)",
 'uint16[np3,ellipsis]': "list(list(), raise builtins.TypeError: 'numpy.int64' object is not "
                         'iterable)',
 'uint16[np3,none]': "list(list(), raise builtins.TypeError: 'numpy.int64' object is not iterable)",
 'uint16[np3,array]': "list(list(), raise builtins.TypeError: 'numpy.int64' object is not "
                      'iterable)',
 'uint16[np3,str]': "list(list(), raise builtins.TypeError: 'numpy.int64' object is not iterable)",
 'uint16[all,all]': 'list(list(builtins.str:"open((\'IMG\',), {\'mode\': \'rb\'})", '
                    "builtins.str:'enter', builtins.str:'seek(15, 0)', builtins.str:'read(38)', "
                    "builtins.str:'seek(57, 0)', builtins.str:'read(38)', builtins.str:'seek(99, "
                    "0)', builtins.str:'read(10)', builtins.str:'exit(None)'), ndarray[<u2|(7, "
                    '5)|6629092f3a86a4e3c49e217bf9cbeaa366ae3051ae2fd1cefbfaa7339b0298d2e0b1e97993aa3d423662f39290b23fa7c4c6487238c56716f687576791b9aa159cc2ea440bd3])',
 'uint16[all,0]': 'list(list(builtins.str:"open((\'IMG\',), {\'mode\': \'rb\'})", '
                  "builtins.str:'enter', builtins.str:'seek(15, 0)', builtins.str:'read(38)', "
                  "builtins.str:'seek(57, 0)', builtins.str:'read(38)', builtins.str:'seek(99, "
                  "0)', builtins.str:'read(10)', builtins.str:'exit(None)'), "
                  'ndarray[<u2|(7,)|6629217bae2f98d23662487291b9])',
 'uint16[all,-1]': 'list(list(builtins.str:"open((\'IMG\',), {\'mode\': \'rb\'})", '
                   "builtins.str:'enter', builtins.str:'seek(15, 0)', builtins.str:'read(38)', "
                   "builtins.str:'seek(57, 0)', builtins.str:'read(38)', builtins.str:'seek(99, "
                   "0)', builtins.str:'read(10)', builtins.str:'exit(None)'), "
                   'ndarray[<u2|(7,)|c49e30519b023d42c4c657670bd3])',
 'uint16[all,5]': 'list(list(builtins.str:"open((\'IMG\',), {\'mode\': \'rb\'})", '
                  "builtins.str:'enter', builtins.str:'seek(15, 0)', builtins.str:'read(38)', "
                  "builtins.str:'seek(57, 0)', builtins.str:'read(38)', builtins.str:'seek(99, "
                  "0)', builtins.str:'read(10)', builtins.str:'exit(None)'), raise "
                  'builtins.IndexError: index 5 is out of bounds for axis 1 with size 5)',
 'uint16[all,1:4]': 'list(list(builtins.str:"open((\'IMG\',), {\'mode\': \'rb\'})", '
                    "builtins.str:'enter', builtins.str:'seek(15, 0)', builtins.str:'read(38)', "
                    "builtins.str:'seek(57, 0)', builtins.str:'read(38)', builtins.str:'seek(99, "
                    "0)', builtins.str:'read(10)', builtins.str:'exit(None)'), ndarray[<u2|(7, "
                    '3)|092f3a86a4e3f9cbeaa366aed1cefbfaa733e0b1e97993aaf39290b23fa738c56716f687aa159cc2ea44])',
 'uint16[all,::2]': 'list(list(builtins.str:"open((\'IMG\',), {\'mode\': \'rb\'})", '
                    "builtins.str:'enter', builtins.str:'seek(15, 0)', builtins.str:'read(38)', "
                    "builtins.str:'seek(57, 0)', builtins.str:'read(38)', builtins.str:'seek(99, "
                    "0)', builtins.str:'read(10)', builtins.str:'exit(None)'), ndarray[<u2|(7, "
                    '3)|66293a86c49e217beaa33051ae2ffbfa9b0298d2e9793d42366290b2c4c648726716576791b99cc20bd3])',
 'uint16[all,::-1]': 'list(list(builtins.str:"open((\'IMG\',), {\'mode\': \'rb\'})", '
                     "builtins.str:'enter', builtins.str:'seek(15, 0)', builtins.str:'read(38)', "
                     "builtins.str:'seek(57, 0)', builtins.str:'read(38)', builtins.str:'seek(99, "
                     "0)', builtins.str:'read(10)', builtins.str:'exit(None)'), ndarray[<u2|(7, "
                     '5)|c49ea4e33a86092f6629305166aeeaa3f9cb217b9b02a733fbfad1ceae2f3d4293aae979e0b198d2c4c63fa790b2f39236625767f687671638c548720bd3ea449cc2aa1591b9])',
 'uint16[all,0:0]': 'list(list(builtins.str:"open((\'IMG\',), {\'mode\': \'rb\'})", '
                    "builtins.str:'enter', builtins.str:'seek(15, 0)', builtins.str:'read(38)', "
                    "builtins.str:'seek(57, 0)', builtins.str:'read(38)', builtins.str:'seek(99, "
                    "0)', builtins.str:'read(10)', builtins.str:'exit(None)'), ndarray[<u2|(7, "
                    '0)|])',
 'uint16[all,list]': 'list(list(builtins.str:"open((\'IMG\',), {\'mode\': \'rb\'})", '
                     "builtins.str:'enter', builtins.str:'seek(15, 0)', builtins.str:'read(38)', "
                     "builtins.str:'seek(57, 0)', builtins.str:'read(38)', builtins.str:'seek(99, "
                     "0)', builtins.str:'read(10)', builtins.str:'exit(None)'), ndarray[<u2|(7, "
                     '2)|6629c49e217b3051ae2f9b0298d23d423662c4c64872576791b90bd3])',
 'uint16[all,ellipsis]': 'list(list(builtins.str:"open((\'IMG\',), {\'mode\': \'rb\'})", '
                         "builtins.str:'enter', builtins.str:'seek(15, 0)', "
                         "builtins.str:'read(38)', builtins.str:'seek(57, 0)', "
                         "builtins.str:'read(38)', builtins.str:'seek(99, 0)', "
                         "builtins.str:'read(10)', builtins.str:'exit(None)'), ndarray[<u2|(7, "
                         '5)|6629092f3a86a4e3c49e217bf9cbeaa366ae3051ae2fd1cefbfaa7339b0298d2e0b1e97993aa3d423662f39290b23fa7c4c6487238c56716f687576791b9aa159cc2ea440bd3])',
 'uint16[all,none]': 'list(list(builtins.str:"open((\'IMG\',), {\'mode\': \'rb\'})", '
                     "builtins.str:'enter', builtins.str:'seek(15, 0)', builtins.str:'read(38)', "
                     "builtins.str:'seek(57, 0)', builtins.str:'read(38)', builtins.str:'seek(99, "
                     "0)', builtins.str:'read(10)', builtins.str:'exit(None)'), ndarray[<u2|(7, 1, "
                     '5)|6629092f3a86a4e3c49e217bf9cbeaa366ae3051ae2fd1cefbfaa7339b0298d2e0b1e97993aa3d423662f39290b23fa7c4c6487238c56716f687576791b9aa159cc2ea440bd3])',
 'uint16[all,array]': 'list(list(builtins.str:"open((\'IMG\',), {\'mode\': \'rb\'})", '
                      "builtins.str:'enter', builtins.str:'seek(15, 0)', builtins.str:'read(38)', "
                      "builtins.str:'seek(57, 0)', builtins.str:'read(38)', builtins.str:'seek(99, "
                      "0)', builtins.str:'read(10)', builtins.str:'exit(None)'), ndarray[<u2|(7, "
                      '3)|092f092fa4e3f9cbf9cb66aed1ced1cea733e0b1e0b193aaf392f3923fa738c538c5f687aa15aa15ea44])',
 'uint16[all,str]': 'list(list(builtins.str:"open((\'IMG\',), {\'mode\': \'rb\'})", '
                    "builtins.str:'enter', builtins.str:'seek(15, 0)', builtins.str:'read(38)', "
                    "builtins.str:'seek(57, 0)', builtins.str:'read(38)', builtins.str:'seek(99, "
                    "0)', builtins.str:'read(10)', builtins.str:'exit(None)'), raise "
                    'builtins.IndexError: only integers, slices (`:`), ellipsis (`...`), '
                    'numpy.newaxis (`None`) and integer or boolean arrays are valid indices)',
 'uint16[0:1,all]': 'list(list(builtins.str:"open((\'IMG\',), {\'mode\': \'rb\'})", '
                    "builtins.str:'enter', builtins.str:'seek(15, 0)', builtins.str:'read(38)', "
                    "builtins.str:'exit(None)'), ndarray[<u2|(1, 5)|6629092f3a86a4e3c49e])",
 'uint16[0:1,0]': 'list(list(builtins.str:"open((\'IMG\',), {\'mode\': \'rb\'})", '
                  "builtins.str:'enter', builtins.str:'seek(15, 0)', builtins.str:'read(38)', "
                  "builtins.str:'exit(None)'), ndarray[<u2|(1,)|6629])",
 'uint16[0:1,-1]': 'list(list(builtins.str:"open((\'IMG\',), {\'mode\': \'rb\'})", '
                   "builtins.str:'enter', builtins.str:'seek(15, 0)', builtins.str:'read(38)', "
                   "builtins.str:'exit(None)'), ndarray[<u2|(1,)|c49e])",
 'uint16[0:1,5]': 'list(list(builtins.str:"open((\'IMG\',), {\'mode\': \'rb\'})", '
                  "builtins.str:'enter', builtins.str:'seek(15, 0)', builtins.str:'read(38)', "
                  "builtins.str:'exit(None)'), raise builtins.IndexError: index 5 is out of bounds "
                  'for axis 1 with size 5)',
 'uint16[0:1,1:4]': 'list(list(builtins.str:"open((\'IMG\',), {\'mode\': \'rb\'})", '
                    "builtins.str:'enter', builtins.str:'seek(15, 0)', builtins.str:'read(38)', "
                    "builtins.str:'exit(None)'), ndarray[<u2|(1, 3)|092f3a86a4e3])",
 'uint16[0:1,::2]': 'list(list(builtins.str:"open((\'IMG\',), {\'mode\': \'rb\'})", '
                    "builtins.str:'enter', builtins.str:'seek(15, 0)', builtins.str:'read(38)', "
                    "builtins.str:'exit(None)'), ndarray[<u2|(1, 3)|66293a86c49e])",
 'uint16[0:1,::-1]': 'list(list(builtins.str:"open((\'IMG\',), {\'mode\': \'rb\'})", '
                     "builtins.str:'enter', builtins.str:'seek(15, 0)', builtins.str:'read(38)', "
                     "builtins.str:'exit(None)'), ndarray[<u2|(1, 5)|c49ea4e33a86092f6629])",
 'uint16[0:1,0:0]': 'list(list(builtins.str:"open((\'IMG\',), {\'mode\': \'rb\'})", '
                    "builtins.str:'enter', builtins.str:'seek(15, 0)', builtins.str:'read(38)', "
                    "builtins.str:'exit(None)'), ndarray[<u2|(1, 0)|])",
 'uint16[0:1,list]': 'list(list(builtins.str:"open((\'IMG\',), {\'mode\': \'rb\'})", '
                     "builtins.str:'enter', builtins.str:'seek(15, 0)', builtins.str:'read(38)', "
                     "builtins.str:'exit(None)'), ndarray[<u2|(1, 2)|6629c49e])",
 'uint16[0:1,ellipsis]': 'list(list(builtins.str:"open((\'IMG\',), {\'mode\': \'rb\'})", '
                         "builtins.str:'enter', builtins.str:'seek(15, 0)', "
                         "builtins.str:'read(38)', builtins.str:'exit(None)'), ndarray[<u2|(1, "
                         '5)|6629092f3a86a4e3c49e])',
 'uint16[0:1,none]': 'list(list(builtins.str:"open((\'IMG\',), {\'mode\': \'rb\'})", '
                     "builtins.str:'enter', builtins.str:'seek(15, 0)', builtins.str:'read(38)', "
                     "builtins.str:'exit(None)'), ndarray[<u2|(1, 1, 5)|6629092f3a86a4e3c49e])",
 'uint16[0:1,array]': 'list(list(builtins.str:"open((\'IMG\',), {\'mode\': \'rb\'})", '
                      "builtins.str:'enter', builtins.str:'seek(15, 0)', builtins.str:'read(38)', "
                      "builtins.str:'exit(None)'), ndarray[<u2|(1, 3)|092f092fa4e3])",
 'uint16[0:1,str]': 'list(list(builtins.str:"open((\'IMG\',), {\'mode\': \'rb\'})", '
                    "builtins.str:'enter', builtins.str:'seek(15, 0)', builtins.str:'read(38)', "
                    "builtins.str:'exit(None)'), raise builtins.IndexError: only integers, slices "
                    '(`:`), ellipsis (`...`), numpy.newaxis (`None`) and integer or boolean arrays '
                    'are valid indices)',
 'uint16[2:5,all]': 'list(list(builtins.str:"open((\'IMG\',), {\'mode\': \'rb\'})", '
                    "builtins.str:'enter', builtins.str:'seek(15, 0)', builtins.str:'read(38)', "
                    "builtins.str:'seek(57, 0)', builtins.str:'read(38)', "
                    "builtins.str:'exit(None)'), ndarray[<u2|(3, "
                    '5)|ae2fd1cefbfaa7339b0298d2e0b1e97993aa3d423662f39290b23fa7c4c6])',
 'uint16[2:5,0]': 'list(list(builtins.str:"open((\'IMG\',), {\'mode\': \'rb\'})", '
                  "builtins.str:'enter', builtins.str:'seek(15, 0)', builtins.str:'read(38)', "
                  "builtins.str:'seek(57, 0)', builtins.str:'read(38)', "
                  "builtins.str:'exit(None)'), ndarray[<u2|(3,)|ae2f98d23662])",
 'uint16[2:5,-1]': 'list(list(builtins.str:"open((\'IMG\',), {\'mode\': \'rb\'})", '
                   "builtins.str:'enter', builtins.str:'seek(15, 0)', builtins.str:'read(38)', "
                   "builtins.str:'seek(57, 0)', builtins.str:'read(38)', "
                   "builtins.str:'exit(None)'), ndarray[<u2|(3,)|9b023d42c4c6])",
 'uint16[2:5,5]': 'list(list(builtins.str:"open((\'IMG\',), {\'mode\': \'rb\'})", '
                  "builtins.str:'enter', builtins.str:'seek(15, 0)', builtins.str:'read(38)', "
                  "builtins.str:'seek(57, 0)', builtins.str:'read(38)', "
                  "builtins.str:'exit(None)'), raise builtins.IndexError: index 5 is out of bounds "
                  'for axis 1 with size 5)',
 'uint16[2:5,1:4]': 'list(list(builtins.str:"open((\'IMG\',), {\'mode\': \'rb\'})", '
                    "builtins.str:'enter', builtins.str:'seek(15, 0)', builtins.str:'read(38)', "
                    "builtins.str:'seek(57, 0)', builtins.str:'read(38)', "
                    "builtins.str:'exit(None)'), ndarray[<u2|(3, "
                    '3)|d1cefbfaa733e0b1e97993aaf39290b23fa7])',
 'uint16[2:5,::2]': 'list(list(builtins.str:"open((\'IMG\',), {\'mode\': \'rb\'})", '
                    "builtins.str:'enter', builtins.str:'seek(15, 0)', builtins.str:'read(38)', "
                    "builtins.str:'seek(57, 0)', builtins.str:'read(38)', "
                    "builtins.str:'exit(None)'), ndarray[<u2|(3, "
                    '3)|ae2ffbfa9b0298d2e9793d42366290b2c4c6])',
 'uint16[2:5,::-1]': 'list(list(builtins.str:"open((\'IMG\',), {\'mode\': \'rb\'})", '
                     "builtins.str:'enter', builtins.str:'seek(15, 0)', builtins.str:'read(38)', "
                     "builtins.str:'seek(57, 0)', builtins.str:'read(38)', "
                     "builtins.str:'exit(None)'), ndarray[<u2|(3, "
                     '5)|9b02a733fbfad1ceae2f3d4293aae979e0b198d2c4c63fa790b2f3923662])',
 'uint16[2:5,0:0]': 'list(list(builtins.str:"open((\'IMG\',), {\'mode\': \'rb\'})", '
                    "builtins.str:'enter', builtins.str:'seek(15, 0)', builtins.str:'read(38)', "
                    "builtins.str:'seek(57, 0)', builtins.str:'read(38)', "
                    "builtins.str:'exit(None)'), ndarray[<u2|(3, 0)|])",
 'uint16[2:5,list]': 'list(list(builtins.str:"open((\'IMG\',), {\'mode\': \'rb\'})", '
                     "builtins.str:'enter', builtins.str:'seek(15, 0)', builtins.str:'read(38)', "
                     "builtins.str:'seek(57, 0)', builtins.str:'read(38)', "
                     "builtins.str:'exit(None)'), ndarray[<u2|(3, 2)|ae2f9b0298d23d423662c4c6])",
 'uint16[2:5,ellipsis]': 'list(list(builtins.str:"open((\'IMG\',), {\'mode\': \'rb\'})", '
                         "builtins.str:'enter', builtins.str:'seek(15, 0)', "
                         "builtins.str:'read(38)', builtins.str:'seek(57, 0)', "
                         "builtins.str:'read(38)', builtins.str:'exit(None)'), ndarray[<u2|(3, "
                         '5)|ae2fd1cefbfaa7339b0298d2e0b1e97993aa3d423662f39290b23fa7c4c6])',
 'uint16[2:5,none]': 'list(list(builtins.str:"open((\'IMG\',), {\'mode\': \'rb\'})", '
                     "builtins.str:'enter', builtins.str:'seek(15, 0)', builtins.str:'read(38)', "
                     "builtins.str:'seek(57, 0)', builtins.str:'read(38)', "
                     "builtins.str:'exit(None)'), ndarray[<u2|(3, 1, "
                     '5)|ae2fd1cefbfaa7339b0298d2e0b1e97993aa3d423662f39290b23fa7c4c6])',
 'uint16[2:5,array]': 'list(list(builtins.str:"open((\'IMG\',), {\'mode\': \'rb\'})", '
                      "builtins.str:'enter', builtins.str:'seek(15, 0)', builtins.str:'read(38)', "
                      "builtins.str:'seek(57, 0)', builtins.str:'read(38)', "
                      "builtins.str:'exit(None)'), ndarray[<u2|(3, "
                      '3)|d1ced1cea733e0b1e0b193aaf392f3923fa7])',
 'uint16[2:5,str]': 'list(list(builtins.str:"open((\'IMG\',), {\'mode\': \'rb\'})", '
                    "builtins.str:'enter', builtins.str:'seek(15, 0)', builtins.str:'read(38)', "
                    "builtins.str:'seek(57, 0)', builtins.str:'read(38)', "
                    "builtins.str:'exit(None)'), raise builtins.IndexError: only integers, slices "
                    '(`:`), ellipsis (`...`), numpy.newaxis (`None`) and integer or boolean arrays '
                    'are valid indices)',
 'uint16[3:,all]': 'list(list(builtins.str:"open((\'IMG\',), {\'mode\': \'rb\'})", '
                   "builtins.str:'enter', builtins.str:'seek(57, 0)', builtins.str:'read(38)', "
                   "builtins.str:'seek(99, 0)', builtins.str:'read(10)', "
                   "builtins.str:'exit(None)'), ndarray[<u2|(4, "
                   '5)|98d2e0b1e97993aa3d423662f39290b23fa7c4c6487238c56716f687576791b9aa159cc2ea440bd3])',
 'uint16[3:,0]': 'list(list(builtins.str:"open((\'IMG\',), {\'mode\': \'rb\'})", '
                 "builtins.str:'enter', builtins.str:'seek(57, 0)', builtins.str:'read(38)', "
                 "builtins.str:'seek(99, 0)', builtins.str:'read(10)', builtins.str:'exit(None)'), "
                 'ndarray[<u2|(4,)|98d23662487291b9])',
 'uint16[3:,-1]': 'list(list(builtins.str:"open((\'IMG\',), {\'mode\': \'rb\'})", '
                  "builtins.str:'enter', builtins.str:'seek(57, 0)', builtins.str:'read(38)', "
                  "builtins.str:'seek(99, 0)', builtins.str:'read(10)', "
                  "builtins.str:'exit(None)'), ndarray[<u2|(4,)|3d42c4c657670bd3])",
 'uint16[3:,5]': 'list(list(builtins.str:"open((\'IMG\',), {\'mode\': \'rb\'})", '
                 "builtins.str:'enter', builtins.str:'seek(57, 0)', builtins.str:'read(38)', "
                 "builtins.str:'seek(99, 0)', builtins.str:'read(10)', builtins.str:'exit(None)'), "
                 'raise builtins.IndexError: index 5 is out of bounds for axis 1 with size 5)',
 'uint16[3:,1:4]': 'list(list(builtins.str:"open((\'IMG\',), {\'mode\': \'rb\'})", '
                   "builtins.str:'enter', builtins.str:'seek(57, 0)', builtins.str:'read(38)', "
                   "builtins.str:'seek(99, 0)', builtins.str:'read(10)', "
                   "builtins.str:'exit(None)'), ndarray[<u2|(4, "
                   '3)|e0b1e97993aaf39290b23fa738c56716f687aa159cc2ea44])',
 'uint16[3:,::2]': 'list(list(builtins.str:"open((\'IMG\',), {\'mode\': \'rb\'})", '
                   "builtins.str:'enter', builtins.str:'seek(57, 0)', builtins.str:'read(38)', "
                   "builtins.str:'seek(99, 0)', builtins.str:'read(10)', "
                   "builtins.str:'exit(None)'), ndarray[<u2|(4, "
                   '3)|98d2e9793d42366290b2c4c648726716576791b99cc20bd3])',
 'uint16[3:,::-1]': 'list(list(builtins.str:"open((\'IMG\',), {\'mode\': \'rb\'})", '
                    "builtins.str:'enter', builtins.str:'seek(57, 0)', builtins.str:'read(38)', "
                    "builtins.str:'seek(99, 0)', builtins.str:'read(10)', "
                    "builtins.str:'exit(None)'), ndarray[<u2|(4, "
                    '5)|3d4293aae979e0b198d2c4c63fa790b2f39236625767f687671638c548720bd3ea449cc2aa1591b9])',
 'uint16[3:,0:0]': 'list(list(builtins.str:"open((\'IMG\',), {\'mode\': \'rb\'})", '
                   "builtins.str:'enter', builtins.str:'seek(57, 0)', builtins.str:'read(38)', "
                   "builtins.str:'seek(99, 0)', builtins.str:'read(10)', "
                   "builtins.str:'exit(None)'), ndarray[<u2|(4, 0)|])",
 'uint16[3:,list]': 'list(list(builtins.str:"open((\'IMG\',), {\'mode\': \'rb\'})", '
                    "builtins.str:'enter', builtins.str:'seek(57, 0)', builtins.str:'read(38)', "
                    "builtins.str:'seek(99, 0)', builtins.str:'read(10)', "
                    "builtins.str:'exit(None)'), ndarray[<u2|(4, "
                    '2)|98d23d423662c4c64872576791b90bd3])',
 'uint16[3:,ellipsis]': 'list(list(builtins.str:"open((\'IMG\',), {\'mode\': \'rb\'})", '
                        "builtins.str:'enter', builtins.str:'seek(57, 0)', "
                        "builtins.str:'read(38)', builtins.str:'seek(99, 0)', "
                        "builtins.str:'read(10)', builtins.str:'exit(None)'), ndarray[<u2|(4, "
                        '5)|98d2e0b1e97993aa3d423662f39290b23fa7c4c6487238c56716f687576791b9aa159cc2ea440bd3])',
 'uint16[3:,none]': 'list(list(builtins.str:"open((\'IMG\',), {\'mode\': \'rb\'})", '
                    "builtins.str:'enter', builtins.str:'seek(57, 0)', builtins.str:'read(38)', "
                    "builtins.str:'seek(99, 0)', builtins.str:'read(10)', "
                    "builtins.str:'exit(None)'), ndarray[<u2|(4, 1, "
                    '5)|98d2e0b1e97993aa3d423662f39290b23fa7c4c6487238c56716f687576791b9aa159cc2ea440bd3])',
 'uint16[3:,array]': 'list(list(builtins.str:"open((\'IMG\',), {\'mode\': \'rb\'})", '
                     "builtins.str:'enter', builtins.str:'seek(57, 0)', builtins.str:'read(38)', "
                     "builtins.str:'seek(99, 0)', builtins.str:'read(10)', "
                     "builtins.str:'exit(None)'), ndarray[<u2|(4, "
                     '3)|e0b1e0b193aaf392f3923fa738c538c5f687aa15aa15ea44])',
 'uint16[3:,str]': 'list(list(builtins.str:"open((\'IMG\',), {\'mode\': \'rb\'})", '
                   "builtins.str:'enter', builtins.str:'seek(57, 0)', builtins.str:'read(38)', "
                   "builtins.str:'seek(99, 0)', builtins.str:'read(10)', "
                   "builtins.str:'exit(None)'), raise builtins.IndexError: only integers, slices "
                   '(`:`), ellipsis (`...`), numpy.newaxis (`None`) and integer or boolean arrays '
                   'are valid indices)',
 'uint16[:3,all]': 'list(list(builtins.str:"open((\'IMG\',), {\'mode\': \'rb\'})", '
                   "builtins.str:'enter', builtins.str:'seek(15, 0)', builtins.str:'read(38)', "
                   "builtins.str:'exit(None)'), ndarray[<u2|(3, "
                   '5)|6629092f3a86a4e3c49e217bf9cbeaa366ae3051ae2fd1cefbfaa7339b02])',
 'uint16[:3,0]': 'list(list(builtins.str:"open((\'IMG\',), {\'mode\': \'rb\'})", '
                 "builtins.str:'enter', builtins.str:'seek(15, 0)', builtins.str:'read(38)', "
                 "builtins.str:'exit(None)'), ndarray[<u2|(3,)|6629217bae2f])",
 'uint16[:3,-1]': 'list(list(builtins.str:"open((\'IMG\',), {\'mode\': \'rb\'})", '
                  "builtins.str:'enter', builtins.str:'seek(15, 0)', builtins.str:'read(38)', "
                  "builtins.str:'exit(None)'), ndarray[<u2|(3,)|c49e30519b02])",
 'uint16[:3,5]': 'list(list(builtins.str:"open((\'IMG\',), {\'mode\': \'rb\'})", '
                 "builtins.str:'enter', builtins.str:'seek(15, 0)', builtins.str:'read(38)', "
                 "builtins.str:'exit(None)'), raise builtins.IndexError: index 5 is out of bounds "
                 'for axis 1 with size 5)',
 'uint16[:3,1:4]': 'list(list(builtins.str:"open((\'IMG\',), {\'mode\': \'rb\'})", '
                   "builtins.str:'enter', builtins.str:'seek(15, 0)', builtins.str:'read(38)', "
                   "builtins.str:'exit(None)'), ndarray[<u2|(3, "
                   '3)|092f3a86a4e3f9cbeaa366aed1cefbfaa733])',
 'uint16[:3,::2]': 'list(list(builtins.str:"open((\'IMG\',), {\'mode\': \'rb\'})", '
                   "builtins.str:'enter', builtins.str:'seek(15, 0)', builtins.str:'read(38)', "
                   "builtins.str:'exit(None)'), ndarray[<u2|(3, "
                   '3)|66293a86c49e217beaa33051ae2ffbfa9b02])',
 'uint16[:3,::-1]': 'list(list(builtins.str:"open((\'IMG\',), {\'mode\': \'rb\'})", '
                    "builtins.str:'enter', builtins.str:'seek(15, 0)', builtins.str:'read(38)', "
                    "builtins.str:'exit(None)'), ndarray[<u2|(3, "
                    '5)|c49ea4e33a86092f6629305166aeeaa3f9cb217b9b02a733fbfad1ceae2f])',
 'uint16[:3,0:0]': 'list(list(builtins.str:"open((\'IMG\',), {\'mode\': \'rb\'})", '
                   "builtins.str:'enter', builtins.str:'seek(15, 0)', builtins.str:'read(38)', "
                   "builtins.str:'exit(None)'), ndarray[<u2|(3, 0)|])",
 'uint16[:3,list]': 'list(list(builtins.str:"open((\'IMG\',), {\'mode\': \'rb\'})", '
                    "builtins.str:'enter', builtins.str:'seek(15, 0)', builtins.str:'read(38)', "
                    "builtins.str:'exit(None)'), ndarray[<u2|(3, 2)|6629c49e217b3051ae2f9b02])",
 'uint16[:3,ellipsis]': 'list(list(builtins.str:"open((\'IMG\',), {\'mode\': \'rb\'})", '
                        "builtins.str:'enter', builtins.str:'seek(15, 0)', "
                        "builtins.str:'read(38)', builtins.str:'exit(None)'), ndarray[<u2|(3, "
                        '5)|6629092f3a86a4e3c49e217bf9cbeaa366ae3051ae2fd1cefbfaa7339b02])',
 'uint16[:3,none]': 'list(list(builtins.str:"open((\'IMG\',), {\'mode\': \'rb\'})", '
                    "builtins.str:'enter', builtins.str:'seek(15, 0)', builtins.str:'read(38)', "
                    "builtins.str:'exit(None)'), ndarray[<u2|(3, 1, "
                    '5)|6629092f3a86a4e3c49e217bf9cbeaa366ae3051ae2fd1cefbfaa7339b02])',
 'uint16[:3,array]': 'list(list(builtins.str:"open((\'IMG\',), {\'mode\': \'rb\'})", '
                     "builtins.str:'enter', builtins.str:'seek(15, 0)', builtins.str:'read(38)', "
                     "builtins.str:'exit(None)'), ndarray[<u2|(3, "
                     '3)|092f092fa4e3f9cbf9cb66aed1ced1cea733])',
 'uint16[:3,str]': 'list(list(builtins.str:"open((\'IMG\',), {\'mode\': \'rb\'})", '
                   "builtins.str:'enter', builtins.str:'seek(15, 0)', builtins.str:'read(38)', "
                   "builtins.str:'exit(None)'), raise builtins.IndexError: only integers, slices "
                   '(`:`), ellipsis (`...`), numpy.newaxis (`None`) and integer or boolean arrays '
                   'are valid indices)',
 'uint16[::2,all]': 'list(list(builtins.str:"open((\'IMG\',), {\'mode\': \'rb\'})", '
                    "builtins.str:'enter', builtins.str:'seek(15, 0)', builtins.str:'read(38)', "
                    "builtins.str:'seek(57, 0)', builtins.str:'read(38)', builtins.str:'seek(99, "
                    "0)', builtins.str:'read(10)', builtins.str:'exit(None)'), ndarray[<u2|(4, "
                    '5)|6629092f3a86a4e3c49eae2fd1cefbfaa7339b023662f39290b23fa7c4c691b9aa159cc2ea440bd3])',
 'uint16[::2,0]': 'list(list(builtins.str:"open((\'IMG\',), {\'mode\': \'rb\'})", '
                  "builtins.str:'enter', builtins.str:'seek(15, 0)', builtins.str:'read(38)', "
                  "builtins.str:'seek(57, 0)', builtins.str:'read(38)', builtins.str:'seek(99, "
                  "0)', builtins.str:'read(10)', builtins.str:'exit(None)'), "
                  'ndarray[<u2|(4,)|6629ae2f366291b9])',
 'uint16[::2,-1]': 'list(list(builtins.str:"open((\'IMG\',), {\'mode\': \'rb\'})", '
                   "builtins.str:'enter', builtins.str:'seek(15, 0)', builtins.str:'read(38)', "
                   "builtins.str:'seek(57, 0)', builtins.str:'read(38)', builtins.str:'seek(99, "
                   "0)', builtins.str:'read(10)', builtins.str:'exit(None)'), "
                   'ndarray[<u2|(4,)|c49e9b02c4c60bd3])',
 'uint16[::2,5]': 'list(list(builtins.str:"open((\'IMG\',), {\'mode\': \'rb\'})", '
                  "builtins.str:'enter', builtins.str:'seek(15, 0)', builtins.str:'read(38)', "
                  "builtins.str:'seek(57, 0)', builtins.str:'read(38)', builtins.str:'seek(99, "
                  "0)', builtins.str:'read(10)', builtins.str:'exit(None)'), raise "
                  'builtins.IndexError: index 5 is out of bounds for axis 1 with size 5)',
 'uint16[::2,1:4]': 'list(list(builtins.str:"open((\'IMG\',), {\'mode\': \'rb\'})", '
                    "builtins.str:'enter', builtins.str:'seek(15, 0)', builtins.str:'read(38)', "
                    "builtins.str:'seek(57, 0)', builtins.str:'read(38)', builtins.str:'seek(99, "
                    "0)', builtins.str:'read(10)', builtins.str:'exit(None)'), ndarray[<u2|(4, "
                    '3)|092f3a86a4e3d1cefbfaa733f39290b23fa7aa159cc2ea44])',
 'uint16[::2,::2]': 'list(list(builtins.str:"open((\'IMG\',), {\'mode\': \'rb\'})", '
                    "builtins.str:'enter', builtins.str:'seek(15, 0)', builtins.str:'read(38)', "
                    "builtins.str:'seek(57, 0)', builtins.str:'read(38)', builtins.str:'seek(99, "
                    "0)', builtins.str:'read(10)', builtins.str:'exit(None)'), ndarray[<u2|(4, "
                    '3)|66293a86c49eae2ffbfa9b02366290b2c4c691b99cc20bd3])',
 'uint16[::2,::-1]': 'list(list(builtins.str:"open((\'IMG\',), {\'mode\': \'rb\'})", '
                     "builtins.str:'enter', builtins.str:'seek(15, 0)', builtins.str:'read(38)', "
                     "builtins.str:'seek(57, 0)', builtins.str:'read(38)', builtins.str:'seek(99, "
                     "0)', builtins.str:'read(10)', builtins.str:'exit(None)'), ndarray[<u2|(4, "
                     '5)|c49ea4e33a86092f66299b02a733fbfad1ceae2fc4c63fa790b2f39236620bd3ea449cc2aa1591b9])',
 'uint16[::2,0:0]': 'list(list(builtins.str:"open((\'IMG\',), {\'mode\': \'rb\'})", '
                    "builtins.str:'enter', builtins.str:'seek(15, 0)', builtins.str:'read(38)', "
                    "builtins.str:'seek(57, 0)', builtins.str:'read(38)', builtins.str:'seek(99, "
                    "0)', builtins.str:'read(10)', builtins.str:'exit(None)'), ndarray[<u2|(4, "
                    '0)|])',
 'uint16[::2,list]': 'list(list(builtins.str:"open((\'IMG\',), {\'mode\': \'rb\'})", '
                     "builtins.str:'enter', builtins.str:'seek(15, 0)', builtins.str:'read(38)', "
                     "builtins.str:'seek(57, 0)', builtins.str:'read(38)', builtins.str:'seek(99, "
                     "0)', builtins.str:'read(10)', builtins.str:'exit(None)'), ndarray[<u2|(4, "
                     '2)|6629c49eae2f9b023662c4c691b90bd3])',
 'uint16[::2,ellipsis]': 'list(list(builtins.str:"open((\'IMG\',), {\'mode\': \'rb\'})", '
                         "builtins.str:'enter', builtins.str:'seek(15, 0)', "
                         "builtins.str:'read(38)', builtins.str:'seek(57, 0)', "
                         "builtins.str:'read(38)', builtins.str:'seek(99, 0)', "
                         "builtins.str:'read(10)', builtins.str:'exit(None)'), ndarray[<u2|(4, "
                         '5)|6629092f3a86a4e3c49eae2fd1cefbfaa7339b023662f39290b23fa7c4c691b9aa159cc2ea440bd3])',
 'uint16[::2,none]': 'list(list(builtins.str:"open((\'IMG\',), {\'mode\': \'rb\'})", '
                     "builtins.str:'enter', builtins.str:'seek(15, 0)', builtins.str:'read(38)', "
                     "builtins.str:'seek(57, 0)', builtins.str:'read(38)', builtins.str:'seek(99, "
                     "0)', builtins.str:'read(10)', builtins.str:'exit(None)'), ndarray[<u2|(4, 1, "
                     '5)|6629092f3a86a4e3c49eae2fd1cefbfaa7339b023662f39290b23fa7c4c691b9aa159cc2ea440bd3])',
 'uint16[::2,array]': 'list(list(builtins.str:"open((\'IMG\',), {\'mode\': \'rb\'})", '
                      "builtins.str:'enter', builtins.str:'seek(15, 0)', builtins.str:'read(38)', "
                      "builtins.str:'seek(57, 0)', builtins.str:'read(38)', builtins.str:'seek(99, "
                      "0)', builtins.str:'read(10)', builtins.str:'exit(None)'), ndarray[<u2|(4, "
                      '3)|092f092fa4e3d1ced1cea733f392f3923fa7aa15aa15ea44])',
 'uint16[::2,str]': 'list(list(builtins.str:"open((\'IMG\',), {\'mode\': \'rb\'})", '
                    "builtins.str:'enter', builtins.str:'seek(15, 0)', builtins.str:'read(38)', "
                    "builtins.str:'seek(57, 0)', builtins.str:'read(38)', builtins.str:'seek(99, "
                    "0)', builtins.str:'read(10)', builtins.str:'exit(None)'), raise "
                    'builtins.IndexError: only integers, slices (`:`), ellipsis (`...`), '
                    'numpy.newaxis (`None`) and integer or boolean arrays are valid indices)',
 'uint16[::-1,all]': 'list(list(builtins.str:"open((\'IMG\',), {\'mode\': \'rb\'})", '
                     "builtins.str:'enter', builtins.str:'seek(99, 0)', builtins.str:'read(10)', "
                     "builtins.str:'seek(57, 0)', builtins.str:'read(38)', builtins.str:'seek(15, "
                     "0)', builtins.str:'read(38)', builtins.str:'exit(None)'), ndarray[<u2|(7, "
                     '5)|91b9aa159cc2ea440bd3487238c56716f68757673662f39290b23fa7c4c698d2e0b1e97993aa3d42ae2fd1cefbfaa7339b02217bf9cbeaa366ae30516629092f3a86a4e3c49e])',
 'uint16[::-1,0]': 'list(list(builtins.str:"open((\'IMG\',), {\'mode\': \'rb\'})", '
                   "builtins.str:'enter', builtins.str:'seek(99, 0)', builtins.str:'read(10)', "
                   "builtins.str:'seek(57, 0)', builtins.str:'read(38)', builtins.str:'seek(15, "
                   "0)', builtins.str:'read(38)', builtins.str:'exit(None)'), "
                   'ndarray[<u2|(7,)|91b94872366298d2ae2f217b6629])',
 'uint16[::-1,-1]': 'list(list(builtins.str:"open((\'IMG\',), {\'mode\': \'rb\'})", '
                    "builtins.str:'enter', builtins.str:'seek(99, 0)', builtins.str:'read(10)', "
                    "builtins.str:'seek(57, 0)', builtins.str:'read(38)', builtins.str:'seek(15, "
                    "0)', builtins.str:'read(38)', builtins.str:'exit(None)'), "
                    'ndarray[<u2|(7,)|0bd35767c4c63d429b023051c49e])',
 'uint16[::-1,5]': 'list(list(builtins.str:"open((\'IMG\',), {\'mode\': \'rb\'})", '
                   "builtins.str:'enter', builtins.str:'seek(99, 0)', builtins.str:'read(10)', "
                   "builtins.str:'seek(57, 0)', builtins.str:'read(38)', builtins.str:'seek(15, "
                   "0)', builtins.str:'read(38)', builtins.str:'exit(None)'), raise "
                   'builtins.IndexError: index 5 is out of bounds for axis 1 with size 5)',
 'uint16[::-1,1:4]': 'list(list(builtins.str:"open((\'IMG\',), {\'mode\': \'rb\'})", '
                     "builtins.str:'enter', builtins.str:'seek(99, 0)', builtins.str:'read(10)', "
                     "builtins.str:'seek(57, 0)', builtins.str:'read(38)', builtins.str:'seek(15, "
                     "0)', builtins.str:'read(38)', builtins.str:'exit(None)'), ndarray[<u2|(7, "
                     '3)|aa159cc2ea4438c56716f687f39290b23fa7e0b1e97993aad1cefbfaa733f9cbeaa366ae092f3a86a4e3])',
 'uint16[::-1,::2]': 'list(list(builtins.str:"open((\'IMG\',), {\'mode\': \'rb\'})", '
                     "builtins.str:'enter', builtins.str:'seek(99, 0)', builtins.str:'read(10)', "
                     "builtins.str:'seek(57, 0)', builtins.str:'read(38)', builtins.str:'seek(15, "
                     "0)', builtins.str:'read(38)', builtins.str:'exit(None)'), ndarray[<u2|(7, "
                     '3)|91b99cc20bd3487267165767366290b2c4c698d2e9793d42ae2ffbfa9b02217beaa3305166293a86c49e])',
 'uint16[::-1,::-1]': 'list(list(builtins.str:"open((\'IMG\',), {\'mode\': \'rb\'})", '
                      "builtins.str:'enter', builtins.str:'seek(99, 0)', builtins.str:'read(10)', "
                      "builtins.str:'seek(57, 0)', builtins.str:'read(38)', builtins.str:'seek(15, "
                      "0)', builtins.str:'read(38)', builtins.str:'exit(None)'), ndarray[<u2|(7, "
                      '5)|0bd3ea449cc2aa1591b95767f687671638c54872c4c63fa790b2f39236623d4293aae979e0b198d29b02a733fbfad1ceae2f305166aeeaa3f9cb217bc49ea4e33a86092f6629])',
 'uint16[::-1,0:0]': 'list(list(builtins.str:"open((\'IMG\',), {\'mode\': \'rb\'})", '
                     "builtins.str:'enter', builtins.str:'seek(99, 0)', builtins.str:'read(10)', "
                     "builtins.str:'seek(57, 0)', builtins.str:'read(38)', builtins.str:'seek(15, "
                     "0)', builtins.str:'read(38)', builtins.str:'exit(None)'), ndarray[<u2|(7, "
                     '0)|])',
 'uint16[::-1,list]': 'list(list(builtins.str:"open((\'IMG\',), {\'mode\': \'rb\'})", '
                      "builtins.str:'enter', builtins.str:'seek(99, 0)', builtins.str:'read(10)', "
                      "builtins.str:'seek(57, 0)', builtins.str:'read(38)', builtins.str:'seek(15, "
                      "0)', builtins.str:'read(38)', builtins.str:'exit(None)'), ndarray[<u2|(7, "
                      '2)|91b90bd3487257673662c4c698d23d42ae2f9b02217b30516629c49e])',
 'uint16[::-1,ellipsis]': 'list(list(builtins.str:"open((\'IMG\',), {\'mode\': \'rb\'})", '
                          "builtins.str:'enter', builtins.str:'seek(99, 0)', "
                          "builtins.str:'read(10)', builtins.str:'seek(57, 0)', "
                          "builtins.str:'read(38)', builtins.str:'seek(15, 0)', "
                          "builtins.str:'read(38)', builtins.str:'exit(None)'), ndarray[<u2|(7, "
                          '5)|91b9aa159cc2ea440bd3487238c56716f68757673662f39290b23fa7c4c698d2e0b1e97993aa3d42ae2fd1cefbfaa7339b02217bf9cbeaa366ae30516629092f3a86a4e3c49e])',
 'uint16[::-1,none]': 'list(list(builtins.str:"open((\'IMG\',), {\'mode\': \'rb\'})", '
                      "builtins.str:'enter', builtins.str:'seek(99, 0)', builtins.str:'read(10)', "
                      "builtins.str:'seek(57, 0)', builtins.str:'read(38)', builtins.str:'seek(15, "
                      "0)', builtins.str:'read(38)', builtins.str:'exit(None)'), ndarray[<u2|(7, "
                      '1, '
                      '5)|91b9aa159cc2ea440bd3487238c56716f68757673662f39290b23fa7c4c698d2e0b1e97993aa3d42ae2fd1cefbfaa7339b02217bf9cbeaa366ae30516629092f3a86a4e3c49e])',
 'uint16[::-1,array]': 'list(list(builtins.str:"open((\'IMG\',), {\'mode\': \'rb\'})", '
                       "builtins.str:'enter', builtins.str:'seek(99, 0)', builtins.str:'read(10)', "
                       "builtins.str:'seek(57, 0)', builtins.str:'read(38)', "
                       "builtins.str:'seek(15, 0)', builtins.str:'read(38)', "
                       "builtins.str:'exit(None)'), ndarray[<u2|(7, "
                       '3)|aa15aa15ea4438c538c5f687f392f3923fa7e0b1e0b193aad1ced1cea733f9cbf9cb66ae092f092fa4e3])',
 'uint16[::-1,str]': 'list(list(builtins.str:"open((\'IMG\',), {\'mode\': \'rb\'})", '
                     "builtins.str:'enter', builtins.str:'seek(99, 0)', builtins.str:'read(10)', "
                     "builtins.str:'seek(57, 0)', builtins.str:'read(38)', builtins.str:'seek(15, "
                     "0)', builtins.str:'read(38)', builtins.str:'exit(None)'), raise "
                     'builtins.IndexError: only integers, slices (`:`), ellipsis (`...`), '
                     'numpy.newaxis (`None`) and integer or boolean arrays are valid indices)',
 'uint16[-1::-2,all]': 'list(list(builtins.str:"open((\'IMG\',), {\'mode\': \'rb\'})", '
                       "builtins.str:'enter', builtins.str:'seek(99, 0)', builtins.str:'read(10)', "
                       "builtins.str:'seek(57, 0)', builtins.str:'read(38)', "
                       "builtins.str:'seek(15, 0)', builtins.str:'read(38)', "
                       "builtins.str:'exit(None)'), ndarray[<u2|(4, "
                       '5)|91b9aa159cc2ea440bd33662f39290b23fa7c4c6ae2fd1cefbfaa7339b026629092f3a86a4e3c49e])',
 'uint16[-1::-2,0]': 'list(list(builtins.str:"open((\'IMG\',), {\'mode\': \'rb\'})", '
                     "builtins.str:'enter', builtins.str:'seek(99, 0)', builtins.str:'read(10)', "
                     "builtins.str:'seek(57, 0)', builtins.str:'read(38)', builtins.str:'seek(15, "
                     "0)', builtins.str:'read(38)', builtins.str:'exit(None)'), "
                     'ndarray[<u2|(4,)|91b93662ae2f6629])',
 'uint16[-1::-2,-1]': 'list(list(builtins.str:"open((\'IMG\',), {\'mode\': \'rb\'})", '
                      "builtins.str:'enter', builtins.str:'seek(99, 0)', builtins.str:'read(10)', "
                      "builtins.str:'seek(57, 0)', builtins.str:'read(38)', builtins.str:'seek(15, "
                      "0)', builtins.str:'read(38)', builtins.str:'exit(None)'), "
                      'ndarray[<u2|(4,)|0bd3c4c69b02c49e])',
 'uint16[-1::-2,5]': 'list(list(builtins.str:"open((\'IMG\',), {\'mode\': \'rb\'})", '
                     "builtins.str:'enter', builtins.str:'seek(99, 0)', builtins.str:'read(10)', "
                     "builtins.str:'seek(57, 0)', builtins.str:'read(38)', builtins.str:'seek(15, "
                     "0)', builtins.str:'read(38)', builtins.str:'exit(None)'), raise "
                     'builtins.IndexError: index 5 is out of bounds for axis 1 with size 5)',
 'uint16[-1::-2,1:4]': 'list(list(builtins.str:"open((\'IMG\',), {\'mode\': \'rb\'})", '
                       "builtins.str:'enter', builtins.str:'seek(99, 0)', builtins.str:'read(10)', "
                       "builtins.str:'seek(57, 0)', builtins.str:'read(38)', "
                       "builtins.str:'seek(15, 0)', builtins.str:'read(38)', "
                       "builtins.str:'exit(None)'), ndarray[<u2|(4, "
                       '3)|aa159cc2ea44f39290b23fa7d1cefbfaa733092f3a86a4e3])',
 'uint16[-1::-2,::2]': 'list(list(builtins.str:"open((\'IMG\',), {\'mode\': \'rb\'})", '
                       "builtins.str:'enter', builtins.str:'seek(99, 0)', builtins.str:'read(10)', "
                       "builtins.str:'seek(57, 0)', builtins.str:'read(38)', "
                       "builtins.str:'seek(15, 0)', builtins.str:'read(38)', "
                       "builtins.str:'exit(None)'), ndarray[<u2|(4, "
                       '3)|91b99cc20bd3366290b2c4c6ae2ffbfa9b0266293a86c49e])',
 'uint16[-1::-2,::-1]': 'list(list(builtins.str:"open((\'IMG\',), {\'mode\': \'rb\'})", '
                        "builtins.str:'enter', builtins.str:'seek(99, 0)', "
                        "builtins.str:'read(10)', builtins.str:'seek(57, 0)', "
                        "builtins.str:'read(38)', builtins.str:'seek(15, 0)', "
                        "builtins.str:'read(38)', builtins.str:'exit(None)'), ndarray[<u2|(4, "
                        '5)|0bd3ea449cc2aa1591b9c4c63fa790b2f39236629b02a733fbfad1ceae2fc49ea4e33a86092f6629])',
 'uint16[-1::-2,0:0]': 'list(list(builtins.str:"open((\'IMG\',), {\'mode\': \'rb\'})", '
                       "builtins.str:'enter', builtins.str:'seek(99, 0)', builtins.str:'read(10)', "
                       "builtins.str:'seek(57, 0)', builtins.str:'read(38)', "
                       "builtins.str:'seek(15, 0)', builtins.str:'read(38)', "
                       "builtins.str:'exit(None)'), ndarray[<u2|(4, 0)|])",
 'uint16[-1::-2,list]': 'list(list(builtins.str:"open((\'IMG\',), {\'mode\': \'rb\'})", '
                        "builtins.str:'enter', builtins.str:'seek(99, 0)', "
                        "builtins.str:'read(10)', builtins.str:'seek(57, 0)', "
                        "builtins.str:'read(38)', builtins.str:'seek(15, 0)', "
                        "builtins.str:'read(38)', builtins.str:'exit(None)'), ndarray[<u2|(4, "
                        '2)|91b90bd33662c4c6ae2f9b026629c49e])',
 'uint16[-1::-2,ellipsis]': 'list(list(builtins.str:"open((\'IMG\',), {\'mode\': \'rb\'})", '
                            "builtins.str:'enter', builtins.str:'seek(99, 0)', "
                            "builtins.str:'read(10)', builtins.str:'seek(57, 0)', "
                            "builtins.str:'read(38)', builtins.str:'seek(15, 0)', "
                            "builtins.str:'read(38)', builtins.str:'exit(None)'), ndarray[<u2|(4, "
                            '5)|91b9aa159cc2ea440bd33662f39290b23fa7c4c6ae2fd1cefbfaa7339b026629092f3a86a4e3c49e])',
 'uint16[-1::-2,none]': 'list(list(builtins.str:"open((\'IMG\',), {\'mode\': \'rb\'})", '
                        "builtins.str:'enter', builtins.str:'seek(99, 0)', "
                        "builtins.str:'read(10)', builtins.str:'seek(57, 0)', "
                        "builtins.str:'read(38)', builtins.str:'seek(15, 0)', "
                        "builtins.str:'read(38)', builtins.str:'exit(None)'), ndarray[<u2|(4, 1, "
                        '5)|91b9aa159cc2ea440bd33662f39290b23fa7c4c6ae2fd1cefbfaa7339b026629092f3a86a4e3c49e])',
 'uint16[-1::-2,array]': 'list(list(builtins.str:"open((\'IMG\',), {\'mode\': \'rb\'})", '
                         "builtins.str:'enter', builtins.str:'seek(99, 0)', "
                         "builtins.str:'read(10)', builtins.str:'seek(57, 0)', "
                         "builtins.str:'read(38)', builtins.str:'seek(15, 0)', "
                         "builtins.str:'read(38)', builtins.str:'exit(None)'), ndarray[<u2|(4, "
                         '3)|aa15aa15ea44f392f3923fa7d1ced1cea733092f092fa4e3])',
 'uint16[-1::-2,str]': 'list(list(builtins.str:"open((\'IMG\',), {\'mode\': \'rb\'})", '
                       "builtins.str:'enter', builtins.str:'seek(99, 0)', builtins.str:'read(10)', "
                       "builtins.str:'seek(57, 0)', builtins.str:'read(38)', "
                       "builtins.str:'seek(15, 0)', builtins.str:'read(38)', "
                       "builtins.str:'exit(None)'), raise builtins.IndexError: only integers, "
                       'slices (`:`), ellipsis (`...`), numpy.newaxis (`None`) and integer or '
                       'boolean arrays are valid indices)',
 'uint16[1::3,all]': 'list(list(builtins.str:"open((\'IMG\',), {\'mode\': \'rb\'})", '
                     "builtins.str:'enter', builtins.str:'seek(15, 0)', builtins.str:'read(38)', "
                     "builtins.str:'seek(57, 0)', builtins.str:'read(38)', "
                     "builtins.str:'exit(None)'), ndarray[<u2|(2, "
                     '5)|217bf9cbeaa366ae30513662f39290b23fa7c4c6])',
 'uint16[1::3,0]': 'list(list(builtins.str:"open((\'IMG\',), {\'mode\': \'rb\'})", '
                   "builtins.str:'enter', builtins.str:'seek(15, 0)', builtins.str:'read(38)', "
                   "builtins.str:'seek(57, 0)', builtins.str:'read(38)', "
                   "builtins.str:'exit(None)'), ndarray[<u2|(2,)|217b3662])",
 'uint16[1::3,-1]': 'list(list(builtins.str:"open((\'IMG\',), {\'mode\': \'rb\'})", '
                    "builtins.str:'enter', builtins.str:'seek(15, 0)', builtins.str:'read(38)', "
                    "builtins.str:'seek(57, 0)', builtins.str:'read(38)', "
                    "builtins.str:'exit(None)'), ndarray[<u2|(2,)|3051c4c6])",
 'uint16[1::3,5]': 'list(list(builtins.str:"open((\'IMG\',), {\'mode\': \'rb\'})", '
                   "builtins.str:'enter', builtins.str:'seek(15, 0)', builtins.str:'read(38)', "
                   "builtins.str:'seek(57, 0)', builtins.str:'read(38)', "
                   "builtins.str:'exit(None)'), raise builtins.IndexError: index 5 is out of "
                   'bounds for axis 1 with size 5)',
 'uint16[1::3,1:4]': 'list(list(builtins.str:"open((\'IMG\',), {\'mode\': \'rb\'})", '
                     "builtins.str:'enter', builtins.str:'seek(15, 0)', builtins.str:'read(38)', "
                     "builtins.str:'seek(57, 0)', builtins.str:'read(38)', "
                     "builtins.str:'exit(None)'), ndarray[<u2|(2, 3)|f9cbeaa366aef39290b23fa7])",
 'uint16[1::3,::2]': 'list(list(builtins.str:"open((\'IMG\',), {\'mode\': \'rb\'})", '
                     "builtins.str:'enter', builtins.str:'seek(15, 0)', builtins.str:'read(38)', "
                     "builtins.str:'seek(57, 0)', builtins.str:'read(38)', "
                     "builtins.str:'exit(None)'), ndarray[<u2|(2, 3)|217beaa33051366290b2c4c6])",
 'uint16[1::3,::-1]': 'list(list(builtins.str:"open((\'IMG\',), {\'mode\': \'rb\'})", '
                      "builtins.str:'enter', builtins.str:'seek(15, 0)', builtins.str:'read(38)', "
                      "builtins.str:'seek(57, 0)', builtins.str:'read(38)', "
                      "builtins.str:'exit(None)'), ndarray[<u2|(2, "
                      '5)|305166aeeaa3f9cb217bc4c63fa790b2f3923662])',
 'uint16[1::3,0:0]': 'list(list(builtins.str:"open((\'IMG\',), {\'mode\': \'rb\'})", '
                     "builtins.str:'enter', builtins.str:'seek(15, 0)', builtins.str:'read(38)', "
                     "builtins.str:'seek(57, 0)', builtins.str:'read(38)', "
                     "builtins.str:'exit(None)'), ndarray[<u2|(2, 0)|])",
 'uint16[1::3,list]': 'list(list(builtins.str:"open((\'IMG\',), {\'mode\': \'rb\'})", '
                      "builtins.str:'enter', builtins.str:'seek(15, 0)', builtins.str:'read(38)', "
                      "builtins.str:'seek(57, 0)', builtins.str:'read(38)', "
                      "builtins.str:'exit(None)'), ndarray[<u2|(2, 2)|217b30513662c4c6])",
 'uint16[1::3,ellipsis]': 'list(list(builtins.str:"open((\'IMG\',), {\'mode\': \'rb\'})", '
                          "builtins.str:'enter', builtins.str:'seek(15, 0)', "
                          "builtins.str:'read(38)', builtins.str:'seek(57, 0)', "
                          "builtins.str:'read(38)', builtins.str:'exit(None)'), ndarray[<u2|(2, "
                          '5)|217bf9cbeaa366ae30513662f39290b23fa7c4c6])',
 'uint16[1::3,none]': 'list(list(builtins.str:"open((\'IMG\',), {\'mode\': \'rb\'})", '
                      "builtins.str:'enter', builtins.str:'seek(15, 0)', builtins.str:'read(38)', "
                      "builtins.str:'seek(57, 0)', builtins.str:'read(38)', "
                      "builtins.str:'exit(None)'), ndarray[<u2|(2, 1, "
                      '5)|217bf9cbeaa366ae30513662f39290b23fa7c4c6])',
 'uint16[1::3,array]': 'list(list(builtins.str:"open((\'IMG\',), {\'mode\': \'rb\'})", '
                       "builtins.str:'enter', builtins.str:'seek(15, 0)', builtins.str:'read(38)', "
                       "builtins.str:'seek(57, 0)', builtins.str:'read(38)', "
                       "builtins.str:'exit(None)'), ndarray[<u2|(2, 3)|f9cbf9cb66aef392f3923fa7])",
 'uint16[1::3,str]': 'list(list(builtins.str:"open((\'IMG\',), {\'mode\': \'rb\'})", '
                     "builtins.str:'enter', builtins.str:'seek(15, 0)', builtins.str:'read(38)', "
                     "builtins.str:'seek(57, 0)', builtins.str:'read(38)', "
                     "builtins.str:'exit(None)'), raise builtins.IndexError: only integers, slices "
                     '(`:`), ellipsis (`...`), numpy.newaxis (`None`) and integer or boolean '
                     'arrays are valid indices)',
 'uint16[5:2,all]': 'list(list(builtins.str:"open((\'IMG\',), {\'mode\': \'rb\'})", '
                    "builtins.str:'enter', builtins.str:'exit(None)'), ndarray[<u2|(0, 5)|])",
 'uint16[5:2,0]': 'list(list(builtins.str:"open((\'IMG\',), {\'mode\': \'rb\'})", '
                  "builtins.str:'enter', builtins.str:'exit(None)'), ndarray[<u2|(0,)|])",
 'uint16[5:2,-1]': 'list(list(builtins.str:"open((\'IMG\',), {\'mode\': \'rb\'})", '
                   "builtins.str:'enter', builtins.str:'exit(None)'), ndarray[<u2|(0,)|])",
 'uint16[5:2,5]': 'list(list(builtins.str:"open((\'IMG\',), {\'mode\': \'rb\'})", '
                  "builtins.str:'enter', builtins.str:'exit(None)'), raise builtins.IndexError: "
                  'index 5 is out of bounds for axis 1 with size 5)',
 'uint16[5:2,1:4]': 'list(list(builtins.str:"open((\'IMG\',), {\'mode\': \'rb\'})", '
                    "builtins.str:'enter', builtins.str:'exit(None)'), ndarray[<u2|(0, 3)|])",
 'uint16[5:2,::2]': 'list(list(builtins.str:"open((\'IMG\',), {\'mode\': \'rb\'})", '
                    "builtins.str:'enter', builtins.str:'exit(None)'), ndarray[<u2|(0, 3)|])",
 'uint16[5:2,::-1]': 'list(list(builtins.str:"open((\'IMG\',), {\'mode\': \'rb\'})", '
                     "builtins.str:'enter', builtins.str:'exit(None)'), ndarray[<u2|(0, 5)|])",
 'uint16[5:2,0:0]': 'list(list(builtins.str:"open((\'IMG\',), {\'mode\': \'rb\'})", '
                    "builtins.str:'enter', builtins.str:'exit(None)'), ndarray[<u2|(0, 0)|])",
 'uint16[5:2,list]': 'list(list(builtins.str:"open((\'IMG\',), {\'mode\': \'rb\'})", '
                     "builtins.str:'enter', builtins.str:'exit(None)'), ndarray[<u2|(0, 2)|])",
 'uint16[5:2,ellipsis]': 'list(list(builtins.str:"open((\'IMG\',), {\'mode\': \'rb\'})", '
                         "builtins.str:'enter', builtins.str:'exit(None)'), ndarray[<u2|(0, 5)|])",
 'uint16[5:2,none]': 'list(list(builtins.str:"open((\'IMG\',), {\'mode\': \'rb\'})", '
                     "builtins.str:'enter', builtins.str:'exit(None)'), ndarray[<u2|(0, 1, 5)|])",
 'uint16[5:2,array]': 'list(list(builtins.str:"open((\'IMG\',), {\'mode\': \'rb\'})", '
                      "builtins.str:'enter', builtins.str:'exit(None)'), ndarray[<u2|(0, 3)|])",
 'uint16[5:2,str]': 'list(list(builtins.str:"open((\'IMG\',), {\'mode\': \'rb\'})", '
                    "builtins.str:'enter', builtins.str:'exit(None)'), raise builtins.IndexError: "
                    'only integers, slices (`:`), ellipsis (`...`), numpy.newaxis (`None`) and '
                    'integer or boolean arrays are valid indices)',
 'uint16[0:0,all]': 'list(list(builtins.str:"open((\'IMG\',), {\'mode\': \'rb\'})", '
                    "builtins.str:'enter', builtins.str:'exit(None)'), ndarray[<u2|(0, 5)|])",
 'uint16[0:0,0]': 'list(list(builtins.str:"open((\'IMG\',), {\'mode\': \'rb\'})", '
                  "builtins.str:'enter', builtins.str:'exit(None)'), ndarray[<u2|(0,)|])",
 'uint16[0:0,-1]': 'list(list(builtins.str:"open((\'IMG\',), {\'mode\': \'rb\'})", '
                   "builtins.str:'enter', builtins.str:'exit(None)'), ndarray[<u2|(0,)|])",
 'uint16[0:0,5]': 'list(list(builtins.str:"open((\'IMG\',), {\'mode\': \'rb\'})", '
                  "builtins.str:'enter', builtins.str:'exit(None)'), raise builtins.IndexError: "
                  'index 5 is out of bounds for axis 1 with size 5)',
 'uint16[0:0,1:4]': 'list(list(builtins.str:"open((\'IMG\',), {\'mode\': \'rb\'})", '
                    "builtins.str:'enter', builtins.str:'exit(None)'), ndarray[<u2|(0, 3)|])",
 'uint16[0:0,::2]': 'list(list(builtins.str:"open((\'IMG\',), {\'mode\': \'rb\'})", '
                    "builtins.str:'enter', builtins.str:'exit(None)'), ndarray[<u2|(0, 3)|])",
 'uint16[0:0,::-1]': 'list(list(builtins.str:"open((\'IMG\',), {\'mode\': \'rb\'})", '
                     "builtins.str:'enter', builtins.str:'exit(None)'), ndarray[<u2|(0, 5)|])",
 'uint16[0:0,0:0]': 'list(list(builtins.str:"open((\'IMG\',), {\'mode\': \'rb\'})", '
                    "builtins.str:'enter', builtins.str:'exit(None)'), ndarray[<u2|(0, 0)|])",
 'uint16[0:0,list]': 'list(list(builtins.str:"open((\'IMG\',), {\'mode\': \'rb\'})", '
                     "builtins.str:'enter', builtins.str:'exit(None)'), ndarray[<u2|(0, 2)|])",
 'uint16[0:0,ellipsis]': 'list(list(builtins.str:"open((\'IMG\',), {\'mode\': \'rb\'})", '
                         "builtins.str:'enter', builtins.str:'exit(None)'), ndarray[<u2|(0, 5)|])",
 'uint16[0:0,none]': 'list(list(builtins.str:"open((\'IMG\',), {\'mode\': \'rb\'})", '
                     "builtins.str:'enter', builtins.str:'exit(None)'), ndarray[<u2|(0, 1, 5)|])",
 'uint16[0:0,array]': 'list(list(builtins.str:"open((\'IMG\',), {\'mode\': \'rb\'})", '
                      "builtins.str:'enter', builtins.str:'exit(None)'), ndarray[<u2|(0, 3)|])",
 'uint16[0:0,str]': 'list(list(builtins.str:"open((\'IMG\',), {\'mode\': \'rb\'})", '
                    "builtins.str:'enter', builtins.str:'exit(None)'), raise builtins.IndexError: "
                    'only integers, slices (`:`), ellipsis (`...`), numpy.newaxis (`None`) and '
                    'integer or boolean arrays are valid indices)',
 'uint16[2:100,all]': 'list(list(builtins.str:"open((\'IMG\',), {\'mode\': \'rb\'})", '
                      "builtins.str:'enter', builtins.str:'seek(15, 0)', builtins.str:'read(38)', "
                      "builtins.str:'seek(57, 0)', builtins.str:'read(38)', builtins.str:'seek(99, "
                      "0)', builtins.str:'read(10)', builtins.str:'exit(None)'), ndarray[<u2|(5, "
                      '5)|ae2fd1cefbfaa7339b0298d2e0b1e97993aa3d423662f39290b23fa7c4c6487238c56716f687576791b9aa159cc2ea440bd3])',
 'uint16[2:100,0]': 'list(list(builtins.str:"open((\'IMG\',), {\'mode\': \'rb\'})", '
                    "builtins.str:'enter', builtins.str:'seek(15, 0)', builtins.str:'read(38)', "
                    "builtins.str:'seek(57, 0)', builtins.str:'read(38)', builtins.str:'seek(99, "
                    "0)', builtins.str:'read(10)', builtins.str:'exit(None)'), "
                    'ndarray[<u2|(5,)|ae2f98d23662487291b9])',
 'uint16[2:100,-1]': 'list(list(builtins.str:"open((\'IMG\',), {\'mode\': \'rb\'})", '
                     "builtins.str:'enter', builtins.str:'seek(15, 0)', builtins.str:'read(38)', "
                     "builtins.str:'seek(57, 0)', builtins.str:'read(38)', builtins.str:'seek(99, "
                     "0)', builtins.str:'read(10)', builtins.str:'exit(None)'), "
                     'ndarray[<u2|(5,)|9b023d42c4c657670bd3])',
 'uint16[2:100,5]': 'list(list(builtins.str:"open((\'IMG\',), {\'mode\': \'rb\'})", '
                    "builtins.str:'enter', builtins.str:'seek(15, 0)', builtins.str:'read(38)', "
                    "builtins.str:'seek(57, 0)', builtins.str:'read(38)', builtins.str:'seek(99, "
                    "0)', builtins.str:'read(10)', builtins.str:'exit(None)'), raise "
                    'builtins.IndexError: index 5 is out of bounds for axis 1 with size 5)',
 'uint16[2:100,1:4]': 'list(list(builtins.str:"open((\'IMG\',), {\'mode\': \'rb\'})", '
                      "builtins.str:'enter', builtins.str:'seek(15, 0)', builtins.str:'read(38)', "
                      "builtins.str:'seek(57, 0)', builtins.str:'read(38)', builtins.str:'seek(99, "
                      "0)', builtins.str:'read(10)', builtins.str:'exit(None)'), ndarray[<u2|(5, "
                      '3)|d1cefbfaa733e0b1e97993aaf39290b23fa738c56716f687aa159cc2ea44])',
 'uint16[2:100,::2]': 'list(list(builtins.str:"open((\'IMG\',), {\'mode\': \'rb\'})", '
                      "builtins.str:'enter', builtins.str:'seek(15, 0)', builtins.str:'read(38)', "
                      "builtins.str:'seek(57, 0)', builtins.str:'read(38)', builtins.str:'seek(99, "
                      "0)', builtins.str:'read(10)', builtins.str:'exit(None)'), ndarray[<u2|(5, "
                      '3)|ae2ffbfa9b0298d2e9793d42366290b2c4c648726716576791b99cc20bd3])',
 'uint16[2:100,::-1]': 'list(list(builtins.str:"open((\'IMG\',), {\'mode\': \'rb\'})", '
                       "builtins.str:'enter', builtins.str:'seek(15, 0)', builtins.str:'read(38)', "
                       "builtins.str:'seek(57, 0)', builtins.str:'read(38)', "
                       "builtins.str:'seek(99, 0)', builtins.str:'read(10)', "
                       "builtins.str:'exit(None)'), ndarray[<u2|(5, "
                       '5)|9b02a733fbfad1ceae2f3d4293aae979e0b198d2c4c63fa790b2f39236625767f687671638c548720bd3ea449cc2aa1591b9])',
 'uint16[2:100,0:0]': 'list(list(builtins.str:"open((\'IMG\',), {\'mode\': \'rb\'})", '
                      "builtins.str:'enter', builtins.str:'seek(15, 0)', builtins.str:'read(38)', "
                      "builtins.str:'seek(57, 0)', builtins.str:'read(38)', builtins.str:'seek(99, "
                      "0)', builtins.str:'read(10)', builtins.str:'exit(None)'), ndarray[<u2|(5, "
                      '0)|])',
 'uint16[2:100,list]': 'list(list(builtins.str:"open((\'IMG\',), {\'mode\': \'rb\'})", '
                       "builtins.str:'enter', builtins.str:'seek(15, 0)', builtins.str:'read(38)', "
                       "builtins.str:'seek(57, 0)', builtins.str:'read(38)', "
                       "builtins.str:'seek(99, 0)', builtins.str:'read(10)', "
                       "builtins.str:'exit(None)'), ndarray[<u2|(5, "
                       '2)|ae2f9b0298d23d423662c4c64872576791b90bd3])',
 'uint16[2:100,ellipsis]': 'list(list(builtins.str:"open((\'IMG\',), {\'mode\': \'rb\'})", '
                           "builtins.str:'enter', builtins.str:'seek(15, 0)', "
                           "builtins.str:'read(38)', builtins.str:'seek(57, 0)', "
                           "builtins.str:'read(38)', builtins.str:'seek(99, 0)', "
                           "builtins.str:'read(10)', builtins.str:'exit(None)'), ndarray[<u2|(5, "
                           '5)|ae2fd1cefbfaa7339b0298d2e0b1e97993aa3d423662f39290b23fa7c4c6487238c56716f687576791b9aa159cc2ea440bd3])',
 'uint16[2:100,none]': 'list(list(builtins.str:"open((\'IMG\',), {\'mode\': \'rb\'})", '
                       "builtins.str:'enter', builtins.str:'seek(15, 0)', builtins.str:'read(38)', "
                       "builtins.str:'seek(57, 0)', builtins.str:'read(38)', "
                       "builtins.str:'seek(99, 0)', builtins.str:'read(10)', "
                       "builtins.str:'exit(None)'), ndarray[<u2|(5, 1, "
                       '5)|ae2fd1cefbfaa7339b0298d2e0b1e97993aa3d423662f39290b23fa7c4c6487238c56716f687576791b9aa159cc2ea440bd3])',
 'uint16[2:100,array]': 'list(list(builtins.str:"open((\'IMG\',), {\'mode\': \'rb\'})", '
                        "builtins.str:'enter', builtins.str:'seek(15, 0)', "
                        "builtins.str:'read(38)', builtins.str:'seek(57, 0)', "
                        "builtins.str:'read(38)', builtins.str:'seek(99, 0)', "
                        "builtins.str:'read(10)', builtins.str:'exit(None)'), ndarray[<u2|(5, "
                        '3)|d1ced1cea733e0b1e0b193aaf392f3923fa738c538c5f687aa15aa15ea44])',
 'uint16[2:100,str]': 'list(list(builtins.str:"open((\'IMG\',), {\'mode\': \'rb\'})", '
                      "builtins.str:'enter', builtins.str:'seek(15, 0)', builtins.str:'read(38)', "
                      "builtins.str:'seek(57, 0)', builtins.str:'read(38)', builtins.str:'seek(99, "
                      "0)', builtins.str:'read(10)', builtins.str:'exit(None)'), raise "
                      'builtins.IndexError: only integers, slices (`:`), ellipsis (`...`), '
                      'numpy.newaxis (`None`) and integer or boolean arrays are valid indices)',
 'uint16[::0,all]': 'list(list(), raise builtins.ValueError: slice step cannot be zero)',
 'uint16[::0,0]': 'list(list(), raise builtins.ValueError: slice step cannot be zero)',
 'uint16[::0,-1]': 'list(list(), raise builtins.ValueError: slice step cannot be zero)',
 'uint16[::0,5]': 'list(list(), raise builtins.ValueError: slice step cannot be zero)',
 'uint16[::0,1:4]': 'list(list(), raise builtins.ValueError: slice step cannot be zero)',
 'uint16[::0,::2]': 'list(list(), raise builtins.ValueError: slice step cannot be zero)',
 'uint16[::0,::-1]': 'list(list(), raise builtins.ValueError: slice step cannot be zero)',
 'uint16[::0,0:0]': 'list(list(), raise builtins.ValueError: slice step cannot be zero)',
 'uint16[::0,list]': 'list(list(), raise builtins.ValueError: slice step cannot be zero)',
 'uint16[::0,ellipsis]': 'list(list(), raise builtins.ValueError: slice step cannot be zero)',
 'uint16[::0,none]': 'list(list(), raise builtins.ValueError: slice step cannot be zero)',
 'uint16[::0,array]': 'list(list(), raise builtins.ValueError: slice step cannot be zero)',
 'uint16[::0,str]': 'list(list(), raise builtins.ValueError: slice step cannot be zero)',
 'uint16[list,all]': 'list(list(builtins.str:"open((\'IMG\',), {\'mode\': \'rb\'})", '
                     "builtins.str:'enter', builtins.str:'seek(15, 0)', builtins.str:'read(38)', "
                     "builtins.str:'exit(None)'), ndarray[<u2|(2, "
                     '5)|6629092f3a86a4e3c49eae2fd1cefbfaa7339b02])',
 'uint16[list,0]': 'list(list(builtins.str:"open((\'IMG\',), {\'mode\': \'rb\'})", '
                   "builtins.str:'enter', builtins.str:'seek(15, 0)', builtins.str:'read(38)', "
                   "builtins.str:'exit(None)'), ndarray[<u2|(2,)|6629ae2f])",
 'uint16[list,-1]': 'list(list(builtins.str:"open((\'IMG\',), {\'mode\': \'rb\'})", '
                    "builtins.str:'enter', builtins.str:'seek(15, 0)', builtins.str:'read(38)', "
                    "builtins.str:'exit(None)'), ndarray[<u2|(2,)|c49e9b02])",
 'uint16[list,5]': 'list(list(builtins.str:"open((\'IMG\',), {\'mode\': \'rb\'})", '
                   "builtins.str:'enter', builtins.str:'seek(15, 0)', builtins.str:'read(38)', "
                   "builtins.str:'exit(None)'), raise builtins.IndexError: index 5 is out of "
                   'bounds for axis 1 with size 5)',
 'uint16[list,1:4]': 'list(list(builtins.str:"open((\'IMG\',), {\'mode\': \'rb\'})", '
                     "builtins.str:'enter', builtins.str:'seek(15, 0)', builtins.str:'read(38)', "
                     "builtins.str:'exit(None)'), ndarray[<u2|(2, 3)|092f3a86a4e3d1cefbfaa733])",
 'uint16[list,::2]': 'list(list(builtins.str:"open((\'IMG\',), {\'mode\': \'rb\'})", '
                     "builtins.str:'enter', builtins.str:'seek(15, 0)', builtins.str:'read(38)', "
                     "builtins.str:'exit(None)'), ndarray[<u2|(2, 3)|66293a86c49eae2ffbfa9b02])",
 'uint16[list,::-1]': 'list(list(builtins.str:"open((\'IMG\',), {\'mode\': \'rb\'})", '
                      "builtins.str:'enter', builtins.str:'seek(15, 0)', builtins.str:'read(38)', "
                      "builtins.str:'exit(None)'), ndarray[<u2|(2, "
                      '5)|c49ea4e33a86092f66299b02a733fbfad1ceae2f])',
 'uint16[list,0:0]': 'list(list(builtins.str:"open((\'IMG\',), {\'mode\': \'rb\'})", '
                     "builtins.str:'enter', builtins.str:'seek(15, 0)', builtins.str:'read(38)', "
                     "builtins.str:'exit(None)'), ndarray[<u2|(2, 0)|])",
 'uint16[list,list]': 'list(list(builtins.str:"open((\'IMG\',), {\'mode\': \'rb\'})", '
                      "builtins.str:'enter', builtins.str:'seek(15, 0)', builtins.str:'read(38)', "
                      "builtins.str:'exit(None)'), ndarray[<u2|(2, 2)|6629c49eae2f9b02])",
 'uint16[list,ellipsis]': 'list(list(builtins.str:"open((\'IMG\',), {\'mode\': \'rb\'})", '
                          "builtins.str:'enter', builtins.str:'seek(15, 0)', "
                          "builtins.str:'read(38)', builtins.str:'exit(None)'), ndarray[<u2|(2, "
                          '5)|6629092f3a86a4e3c49eae2fd1cefbfaa7339b02])',
 'uint16[list,none]': 'list(list(builtins.str:"open((\'IMG\',), {\'mode\': \'rb\'})", '
                      "builtins.str:'enter', builtins.str:'seek(15, 0)', builtins.str:'read(38)', "
                      "builtins.str:'exit(None)'), ndarray[<u2|(2, 1, "
                      '5)|6629092f3a86a4e3c49eae2fd1cefbfaa7339b02])',
 'uint16[list,array]': 'list(list(builtins.str:"open((\'IMG\',), {\'mode\': \'rb\'})", '
                       "builtins.str:'enter', builtins.str:'seek(15, 0)', builtins.str:'read(38)', "
                       "builtins.str:'exit(None)'), ndarray[<u2|(2, 3)|092f092fa4e3d1ced1cea733])",
 'uint16[list,str]': 'list(list(builtins.str:"open((\'IMG\',), {\'mode\': \'rb\'})", '
                     "builtins.str:'enter', builtins.str:'seek(15, 0)', builtins.str:'read(38)', "
                     "builtins.str:'exit(None)'), raise builtins.IndexError: only integers, slices "
                     '(`:`), ellipsis (`...`), numpy.newaxis (`None`) and integer or boolean '
                     'arrays are valid indices)',
 'uint16[list-neg,all]': 'list(list(builtins.str:"open((\'IMG\',), {\'mode\': \'rb\'})", '
                         "builtins.str:'enter', builtins.str:'seek(99, 0)', "
                         "builtins.str:'read(10)', builtins.str:'seek(15, 0)', "
                         "builtins.str:'read(38)', builtins.str:'exit(None)'), ndarray[<u2|(3, "
                         '5)|91b9aa159cc2ea440bd391b9aa159cc2ea440bd36629092f3a86a4e3c49e])',
 'uint16[list-neg,0]': 'list(list(builtins.str:"open((\'IMG\',), {\'mode\': \'rb\'})", '
                       "builtins.str:'enter', builtins.str:'seek(99, 0)', builtins.str:'read(10)', "
                       "builtins.str:'seek(15, 0)', builtins.str:'read(38)', "
                       "builtins.str:'exit(None)'), ndarray[<u2|(3,)|91b991b96629])",
 'uint16[list-neg,-1]': 'list(list(builtins.str:"open((\'IMG\',), {\'mode\': \'rb\'})", '
                        "builtins.str:'enter', builtins.str:'seek(99, 0)', "
                        "builtins.str:'read(10)', builtins.str:'seek(15, 0)', "
                        "builtins.str:'read(38)', builtins.str:'exit(None)'), "
                        'ndarray[<u2|(3,)|0bd30bd3c49e])',
 'uint16[list-neg,5]': 'list(list(builtins.str:"open((\'IMG\',), {\'mode\': \'rb\'})", '
                       "builtins.str:'enter', builtins.str:'seek(99, 0)', builtins.str:'read(10)', "
                       "builtins.str:'seek(15, 0)', builtins.str:'read(38)', "
                       "builtins.str:'exit(None)'), raise builtins.IndexError: index 5 is out of "
                       'bounds for axis 1 with size 5)',
 'uint16[list-neg,1:4]': 'list(list(builtins.str:"open((\'IMG\',), {\'mode\': \'rb\'})", '
                         "builtins.str:'enter', builtins.str:'seek(99, 0)', "
                         "builtins.str:'read(10)', builtins.str:'seek(15, 0)', "
                         "builtins.str:'read(38)', builtins.str:'exit(None)'), ndarray[<u2|(3, "
                         '3)|aa159cc2ea44aa159cc2ea44092f3a86a4e3])',
 'uint16[list-neg,::2]': 'list(list(builtins.str:"open((\'IMG\',), {\'mode\': \'rb\'})", '
                         "builtins.str:'enter', builtins.str:'seek(99, 0)', "
                         "builtins.str:'read(10)', builtins.str:'seek(15, 0)', "
                         "builtins.str:'read(38)', builtins.str:'exit(None)'), ndarray[<u2|(3, "
                         '3)|91b99cc20bd391b99cc20bd366293a86c49e])',
 'uint16[list-neg,::-1]': 'list(list(builtins.str:"open((\'IMG\',), {\'mode\': \'rb\'})", '
                          "builtins.str:'enter', builtins.str:'seek(99, 0)', "
                          "builtins.str:'read(10)', builtins.str:'seek(15, 0)', "
                          "builtins.str:'read(38)', builtins.str:'exit(None)'), ndarray[<u2|(3, "
                          '5)|0bd3ea449cc2aa1591b90bd3ea449cc2aa1591b9c49ea4e33a86092f6629])',
 'uint16[list-neg,0:0]': 'list(list(builtins.str:"open((\'IMG\',), {\'mode\': \'rb\'})", '
                         "builtins.str:'enter', builtins.str:'seek(99, 0)', "
                         "builtins.str:'read(10)', builtins.str:'seek(15, 0)', "
                         "builtins.str:'read(38)', builtins.str:'exit(None)'), ndarray[<u2|(3, "
                         '0)|])',
 'uint16[list-neg,list]': 'list(list(builtins.str:"open((\'IMG\',), {\'mode\': \'rb\'})", '
                          "builtins.str:'enter', builtins.str:'seek(99, 0)', "
                          "builtins.str:'read(10)', builtins.str:'seek(15, 0)', "
                          "builtins.str:'read(38)', builtins.str:'exit(None)'), ndarray[<u2|(3, "
                          '2)|91b90bd391b90bd36629c49e])',
 'uint16[list-neg,ellipsis]': 'list(list(builtins.str:"open((\'IMG\',), {\'mode\': \'rb\'})", '
                              "builtins.str:'enter', builtins.str:'seek(99, 0)', "
                              "builtins.str:'read(10)', builtins.str:'seek(15, 0)', "
                              "builtins.str:'read(38)', builtins.str:'exit(None)'), "
                              'ndarray[<u2|(3, '
                              '5)|91b9aa159cc2ea440bd391b9aa159cc2ea440bd36629092f3a86a4e3c49e])',
 'uint16[list-neg,none]': 'list(list(builtins.str:"open((\'IMG\',), {\'mode\': \'rb\'})", '
                          "builtins.str:'enter', builtins.str:'seek(99, 0)', "
                          "builtins.str:'read(10)', builtins.str:'seek(15, 0)', "
                          "builtins.str:'read(38)', builtins.str:'exit(None)'), ndarray[<u2|(3, 1, "
                          '5)|91b9aa159cc2ea440bd391b9aa159cc2ea440bd36629092f3a86a4e3c49e])',
 'uint16[list-neg,array]': 'list(list(builtins.str:"open((\'IMG\',), {\'mode\': \'rb\'})", '
                           "builtins.str:'enter', builtins.str:'seek(99, 0)', "
                           "builtins.str:'read(10)', builtins.str:'seek(15, 0)', "
                           "builtins.str:'read(38)', builtins.str:'exit(None)'), ndarray[<u2|(3, "
                           '3)|aa15aa15ea44aa15aa15ea44092f092fa4e3])',
 'uint16[list-neg,str]': 'list(list(builtins.str:"open((\'IMG\',), {\'mode\': \'rb\'})", '
                         "builtins.str:'enter', builtins.str:'seek(99, 0)', "
                         "builtins.str:'read(10)', builtins.str:'seek(15, 0)', "
                         "builtins.str:'read(38)', builtins.str:'exit(None)'), raise "
                         'builtins.IndexError: only integers, slices (`:`), ellipsis (`...`), '
                         'numpy.newaxis (`None`) and integer or boolean arrays are valid indices)',
 'uint16[list-empty,all]': 'list(list(builtins.str:"open((\'IMG\',), {\'mode\': \'rb\'})", '
                           "builtins.str:'enter', builtins.str:'exit(None)'), ndarray[<u2|(0, "
                           '5)|])',
 'uint16[list-empty,0]': 'list(list(builtins.str:"open((\'IMG\',), {\'mode\': \'rb\'})", '
                         "builtins.str:'enter', builtins.str:'exit(None)'), ndarray[<u2|(0,)|])",
 'uint16[list-empty,-1]': 'list(list(builtins.str:"open((\'IMG\',), {\'mode\': \'rb\'})", '
                          "builtins.str:'enter', builtins.str:'exit(None)'), ndarray[<u2|(0,)|])",
 'uint16[list-empty,5]': 'list(list(builtins.str:"open((\'IMG\',), {\'mode\': \'rb\'})", '
                         "builtins.str:'enter', builtins.str:'exit(None)'), raise "
                         'builtins.IndexError: index 5 is out of bounds for axis 1 with size 5)',
 'uint16[list-empty,1:4]': 'list(list(builtins.str:"open((\'IMG\',), {\'mode\': \'rb\'})", '
                           "builtins.str:'enter', builtins.str:'exit(None)'), ndarray[<u2|(0, "
                           '3)|])',
 'uint16[list-empty,::2]': 'list(list(builtins.str:"open((\'IMG\',), {\'mode\': \'rb\'})", '
                           "builtins.str:'enter', builtins.str:'exit(None)'), ndarray[<u2|(0, "
                           '3)|])',
 'uint16[list-empty,::-1]': 'list(list(builtins.str:"open((\'IMG\',), {\'mode\': \'rb\'})", '
                            "builtins.str:'enter', builtins.str:'exit(None)'), ndarray[<u2|(0, "
                            '5)|])',
 'uint16[list-empty,0:0]': 'list(list(builtins.str:"open((\'IMG\',), {\'mode\': \'rb\'})", '
                           "builtins.str:'enter', builtins.str:'exit(None)'), ndarray[<u2|(0, "
                           '0)|])',
 'uint16[list-empty,list]': 'list(list(builtins.str:"open((\'IMG\',), {\'mode\': \'rb\'})", '
                            "builtins.str:'enter', builtins.str:'exit(None)'), ndarray[<u2|(0, "
                            '2)|])',
 'uint16[list-empty,ellipsis]': 'list(list(builtins.str:"open((\'IMG\',), {\'mode\': \'rb\'})", '
                                "builtins.str:'enter', builtins.str:'exit(None)'), ndarray[<u2|(0, "
                                '5)|])',
 'uint16[list-empty,none]': 'list(list(builtins.str:"open((\'IMG\',), {\'mode\': \'rb\'})", '
                            "builtins.str:'enter', builtins.str:'exit(None)'), ndarray[<u2|(0, 1, "
                            '5)|])',
 'uint16[list-empty,array]': 'list(list(builtins.str:"open((\'IMG\',), {\'mode\': \'rb\'})", '
                             "builtins.str:'enter', builtins.str:'exit(None)'), ndarray[<u2|(0, "
                             '3)|])',
 'uint16[list-empty,str]': 'list(list(builtins.str:"open((\'IMG\',), {\'mode\': \'rb\'})", '
                           "builtins.str:'enter', builtins.str:'exit(None)'), raise "
                           'builtins.IndexError: only integers, slices (`:`), ellipsis (`...`), '
                           'numpy.newaxis (`None`) and integer or boolean arrays are valid '
                           'indices)',
 'uint16[list-dup,all]': 'list(list(builtins.str:"open((\'IMG\',), {\'mode\': \'rb\'})", '
                         "builtins.str:'enter', builtins.str:'seek(57, 0)', "
                         "builtins.str:'read(38)', builtins.str:'exit(None)'), ndarray[<u2|(2, "
                         '5)|3662f39290b23fa7c4c63662f39290b23fa7c4c6])',
 'uint16[list-dup,0]': 'list(list(builtins.str:"open((\'IMG\',), {\'mode\': \'rb\'})", '
                       "builtins.str:'enter', builtins.str:'seek(57, 0)', builtins.str:'read(38)', "
                       "builtins.str:'exit(None)'), ndarray[<u2|(2,)|36623662])",
 'uint16[list-dup,-1]': 'list(list(builtins.str:"open((\'IMG\',), {\'mode\': \'rb\'})", '
                        "builtins.str:'enter', builtins.str:'seek(57, 0)', "
                        "builtins.str:'read(38)', builtins.str:'exit(None)'), "
                        'ndarray[<u2|(2,)|c4c6c4c6])',
 'uint16[list-dup,5]': 'list(list(builtins.str:"open((\'IMG\',), {\'mode\': \'rb\'})", '
                       "builtins.str:'enter', builtins.str:'seek(57, 0)', builtins.str:'read(38)', "
                       "builtins.str:'exit(None)'), raise builtins.IndexError: index 5 is out of "
                       'bounds for axis 1 with size 5)',
 'uint16[list-dup,1:4]': 'list(list(builtins.str:"open((\'IMG\',), {\'mode\': \'rb\'})", '
                         "builtins.str:'enter', builtins.str:'seek(57, 0)', "
                         "builtins.str:'read(38)', builtins.str:'exit(None)'), ndarray[<u2|(2, "
                         '3)|f39290b23fa7f39290b23fa7])',
 'uint16[list-dup,::2]': 'list(list(builtins.str:"open((\'IMG\',), {\'mode\': \'rb\'})", '
                         "builtins.str:'enter', builtins.str:'seek(57, 0)', "
                         "builtins.str:'read(38)', builtins.str:'exit(None)'), ndarray[<u2|(2, "
                         '3)|366290b2c4c6366290b2c4c6])',
 'uint16[list-dup,::-1]': 'list(list(builtins.str:"open((\'IMG\',), {\'mode\': \'rb\'})", '
                          "builtins.str:'enter', builtins.str:'seek(57, 0)', "
                          "builtins.str:'read(38)', builtins.str:'exit(None)'), ndarray[<u2|(2, "
                          '5)|c4c63fa790b2f3923662c4c63fa790b2f3923662])',
 'uint16[list-dup,0:0]': 'list(list(builtins.str:"open((\'IMG\',), {\'mode\': \'rb\'})", '
                         "builtins.str:'enter', builtins.str:'seek(57, 0)', "
                         "builtins.str:'read(38)', builtins.str:'exit(None)'), ndarray[<u2|(2, "
                         '0)|])',
 'uint16[list-dup,list]': 'list(list(builtins.str:"open((\'IMG\',), {\'mode\': \'rb\'})", '
                          "builtins.str:'enter', builtins.str:'seek(57, 0)', "
                          "builtins.str:'read(38)', builtins.str:'exit(None)'), ndarray[<u2|(2, "
                          '2)|3662c4c63662c4c6])',
 'uint16[list-dup,ellipsis]': 'list(list(builtins.str:"open((\'IMG\',), {\'mode\': \'rb\'})", '
                              "builtins.str:'enter', builtins.str:'seek(57, 0)', "
                              "builtins.str:'read(38)', builtins.str:'exit(None)'), "
                              'ndarray[<u2|(2, 5)|3662f39290b23fa7c4c63662f39290b23fa7c4c6])',
 'uint16[list-dup,none]': 'list(list(builtins.str:"open((\'IMG\',), {\'mode\': \'rb\'})", '
                          "builtins.str:'enter', builtins.str:'seek(57, 0)', "
                          "builtins.str:'read(38)', builtins.str:'exit(None)'), ndarray[<u2|(2, 1, "
                          '5)|3662f39290b23fa7c4c63662f39290b23fa7c4c6])',
 'uint16[list-dup,array]': 'list(list(builtins.str:"open((\'IMG\',), {\'mode\': \'rb\'})", '
                           "builtins.str:'enter', builtins.str:'seek(57, 0)', "
                           "builtins.str:'read(38)', builtins.str:'exit(None)'), ndarray[<u2|(2, "
                           '3)|f392f3923fa7f392f3923fa7])',
 'uint16[list-dup,str]': 'list(list(builtins.str:"open((\'IMG\',), {\'mode\': \'rb\'})", '
                         "builtins.str:'enter', builtins.str:'seek(57, 0)', "
                         "builtins.str:'read(38)', builtins.str:'exit(None)'), raise "
                         'builtins.IndexError: only integers, slices (`:`), ellipsis (`...`), '
                         'numpy.newaxis (`None`) and integer or boolean arrays are valid indices)',
 'uint16[list-oob,all]': 'list(list(), raise builtins.IndexError: list index out of range)',
 'uint16[list-oob,0]': 'list(list(), raise builtins.IndexError: list index out of range)',
 'uint16[list-oob,-1]': 'list(list(), raise builtins.IndexError: list index out of range)',
 'uint16[list-oob,5]': 'list(list(), raise builtins.IndexError: list index out of range)',
 'uint16[list-oob,1:4]': 'list(list(), raise builtins.IndexError: list index out of range)',
 'uint16[list-oob,::2]': 'list(list(), raise builtins.IndexError: list index out of range)',
 'uint16[list-oob,::-1]': 'list(list(), raise builtins.IndexError: list index out of range)',
 'uint16[list-oob,0:0]': 'list(list(), raise builtins.IndexError: list index out of range)',
 'uint16[list-oob,list]': 'list(list(), raise builtins.IndexError: list index out of range)',
 'uint16[list-oob,ellipsis]': 'list(list(), raise builtins.IndexError: list index out of range)',
 'uint16[list-oob,none]': 'list(list(), raise builtins.IndexError: list index out of range)',
 'uint16[list-oob,array]': 'list(list(), raise builtins.IndexError: list index out of range)',
 'uint16[list-oob,str]': 'list(list(), raise builtins.IndexError: list index out of range)',
 'uint16[array,all]': 'list(list(builtins.str:"open((\'IMG\',), {\'mode\': \'rb\'})", '
                      "builtins.str:'enter', builtins.str:'seek(57, 0)', builtins.str:'read(38)', "
                      "builtins.str:'seek(15, 0)', builtins.str:'read(38)', "
                      "builtins.str:'exit(None)'), ndarray[<u2|(2, "
                      '5)|487238c56716f6875767217bf9cbeaa366ae3051])',
 'uint16[array,0]': 'list(list(builtins.str:"open((\'IMG\',), {\'mode\': \'rb\'})", '
                    "builtins.str:'enter', builtins.str:'seek(57, 0)', builtins.str:'read(38)', "
                    "builtins.str:'seek(15, 0)', builtins.str:'read(38)', "
                    "builtins.str:'exit(None)'), ndarray[<u2|(2,)|4872217b])",
 'uint16[array,-1]': 'list(list(builtins.str:"open((\'IMG\',), {\'mode\': \'rb\'})", '
                     "builtins.str:'enter', builtins.str:'seek(57, 0)', builtins.str:'read(38)', "
                     "builtins.str:'seek(15, 0)', builtins.str:'read(38)', "
                     "builtins.str:'exit(None)'), ndarray[<u2|(2,)|57673051])",
 'uint16[array,5]': 'list(list(builtins.str:"open((\'IMG\',), {\'mode\': \'rb\'})", '
                    "builtins.str:'enter', builtins.str:'seek(57, 0)', builtins.str:'read(38)', "
                    "builtins.str:'seek(15, 0)', builtins.str:'read(38)', "
                    "builtins.str:'exit(None)'), raise builtins.IndexError: index 5 is out of "
                    'bounds for axis 1 with size 5)',
 'uint16[array,1:4]': 'list(list(builtins.str:"open((\'IMG\',), {\'mode\': \'rb\'})", '
                      "builtins.str:'enter', builtins.str:'seek(57, 0)', builtins.str:'read(38)', "
                      "builtins.str:'seek(15, 0)', builtins.str:'read(38)', "
                      "builtins.str:'exit(None)'), ndarray[<u2|(2, 3)|38c56716f687f9cbeaa366ae])",
 'uint16[array,::2]': 'list(list(builtins.str:"open((\'IMG\',), {\'mode\': \'rb\'})", '
                      "builtins.str:'enter', builtins.str:'seek(57, 0)', builtins.str:'read(38)', "
                      "builtins.str:'seek(15, 0)', builtins.str:'read(38)', "
                      "builtins.str:'exit(None)'), ndarray[<u2|(2, 3)|487267165767217beaa33051])",
 'uint16[array,::-1]': 'list(list(builtins.str:"open((\'IMG\',), {\'mode\': \'rb\'})", '
                       "builtins.str:'enter', builtins.str:'seek(57, 0)', builtins.str:'read(38)', "
                       "builtins.str:'seek(15, 0)', builtins.str:'read(38)', "
                       "builtins.str:'exit(None)'), ndarray[<u2|(2, "
                       '5)|5767f687671638c54872305166aeeaa3f9cb217b])',
 'uint16[array,0:0]': 'list(list(builtins.str:"open((\'IMG\',), {\'mode\': \'rb\'})", '
                      "builtins.str:'enter', builtins.str:'seek(57, 0)', builtins.str:'read(38)', "
                      "builtins.str:'seek(15, 0)', builtins.str:'read(38)', "
                      "builtins.str:'exit(None)'), ndarray[<u2|(2, 0)|])",
 'uint16[array,list]': 'list(list(builtins.str:"open((\'IMG\',), {\'mode\': \'rb\'})", '
                       "builtins.str:'enter', builtins.str:'seek(57, 0)', builtins.str:'read(38)', "
                       "builtins.str:'seek(15, 0)', builtins.str:'read(38)', "
                       "builtins.str:'exit(None)'), ndarray[<u2|(2, 2)|48725767217b3051])",
 'uint16[array,ellipsis]': 'list(list(builtins.str:"open((\'IMG\',), {\'mode\': \'rb\'})", '
                           "builtins.str:'enter', builtins.str:'seek(57, 0)', "
                           "builtins.str:'read(38)', builtins.str:'seek(15, 0)', "
                           "builtins.str:'read(38)', builtins.str:'exit(None)'), ndarray[<u2|(2, "
                           '5)|487238c56716f6875767217bf9cbeaa366ae3051])',
 'uint16[array,none]': 'list(list(builtins.str:"open((\'IMG\',), {\'mode\': \'rb\'})", '
                       "builtins.str:'enter', builtins.str:'seek(57, 0)', builtins.str:'read(38)', "
                       "builtins.str:'seek(15, 0)', builtins.str:'read(38)', "
                       "builtins.str:'exit(None)'), ndarray[<u2|(2, 1, "
                       '5)|487238c56716f6875767217bf9cbeaa366ae3051])',
 'uint16[array,array]': 'list(list(builtins.str:"open((\'IMG\',), {\'mode\': \'rb\'})", '
                        "builtins.str:'enter', builtins.str:'seek(57, 0)', "
                        "builtins.str:'read(38)', builtins.str:'seek(15, 0)', "
                        "builtins.str:'read(38)', builtins.str:'exit(None)'), ndarray[<u2|(2, "
                        '3)|38c538c5f687f9cbf9cb66ae])',
 'uint16[array,str]': 'list(list(builtins.str:"open((\'IMG\',), {\'mode\': \'rb\'})", '
                      "builtins.str:'enter', builtins.str:'seek(57, 0)', builtins.str:'read(38)', "
                      "builtins.str:'seek(15, 0)', builtins.str:'read(38)', "
                      "builtins.str:'exit(None)'), raise builtins.IndexError: only integers, "
                      'slices (`:`), ellipsis (`...`), numpy.newaxis (`None`) and integer or '
                      'boolean arrays are valid indices)',
 'uint16[tuple,all]': 'list(list(builtins.str:"open((\'IMG\',), {\'mode\': \'rb\'})", '
                      "builtins.str:'enter', builtins.str:'seek(15, 0)', builtins.str:'read(38)', "
                      "builtins.str:'seek(57, 0)', builtins.str:'read(38)', "
                      "builtins.str:'exit(None)'), ndarray[<u2|(2, "
                      '5)|ae2fd1cefbfaa7339b0298d2e0b1e97993aa3d42])',
 'uint16[tuple,0]': 'list(list(builtins.str:"open((\'IMG\',), {\'mode\': \'rb\'})", '
                    "builtins.str:'enter', builtins.str:'seek(15, 0)', builtins.str:'read(38)', "
                    "builtins.str:'seek(57, 0)', builtins.str:'read(38)', "
                    "builtins.str:'exit(None)'), ndarray[<u2|(2,)|ae2f98d2])",
 'uint16[tuple,-1]': 'list(list(builtins.str:"open((\'IMG\',), {\'mode\': \'rb\'})", '
                     "builtins.str:'enter', builtins.str:'seek(15, 0)', builtins.str:'read(38)', "
                     "builtins.str:'seek(57, 0)', builtins.str:'read(38)', "
                     "builtins.str:'exit(None)'), ndarray[<u2|(2,)|9b023d42])",
 'uint16[tuple,5]': 'list(list(builtins.str:"open((\'IMG\',), {\'mode\': \'rb\'})", '
                    "builtins.str:'enter', builtins.str:'seek(15, 0)', builtins.str:'read(38)', "
                    "builtins.str:'seek(57, 0)', builtins.str:'read(38)', "
                    "builtins.str:'exit(None)'), raise builtins.IndexError: index 5 is out of "
                    'bounds for axis 1 with size 5)',
 'uint16[tuple,1:4]': 'list(list(builtins.str:"open((\'IMG\',), {\'mode\': \'rb\'})", '
                      "builtins.str:'enter', builtins.str:'seek(15, 0)', builtins.str:'read(38)', "
                      "builtins.str:'seek(57, 0)', builtins.str:'read(38)', "
                      "builtins.str:'exit(None)'), ndarray[<u2|(2, 3)|d1cefbfaa733e0b1e97993aa])",
 'uint16[tuple,::2]': 'list(list(builtins.str:"open((\'IMG\',), {\'mode\': \'rb\'})", '
                      "builtins.str:'enter', builtins.str:'seek(15, 0)', builtins.str:'read(38)', "
                      "builtins.str:'seek(57, 0)', builtins.str:'read(38)', "
                      "builtins.str:'exit(None)'), ndarray[<u2|(2, 3)|ae2ffbfa9b0298d2e9793d42])",
 'uint16[tuple,::-1]': 'list(list(builtins.str:"open((\'IMG\',), {\'mode\': \'rb\'})", '
                       "builtins.str:'enter', builtins.str:'seek(15, 0)', builtins.str:'read(38)', "
                       "builtins.str:'seek(57, 0)', builtins.str:'read(38)', "
                       "builtins.str:'exit(None)'), ndarray[<u2|(2, "
                       '5)|9b02a733fbfad1ceae2f3d4293aae979e0b198d2])',
 'uint16[tuple,0:0]': 'list(list(builtins.str:"open((\'IMG\',), {\'mode\': \'rb\'})", '
                      "builtins.str:'enter', builtins.str:'seek(15, 0)', builtins.str:'read(38)', "
                      "builtins.str:'seek(57, 0)', builtins.str:'read(38)', "
                      "builtins.str:'exit(None)'), ndarray[<u2|(2, 0)|])",
 'uint16[tuple,list]': 'list(list(builtins.str:"open((\'IMG\',), {\'mode\': \'rb\'})", '
                       "builtins.str:'enter', builtins.str:'seek(15, 0)', builtins.str:'read(38)', "
                       "builtins.str:'seek(57, 0)', builtins.str:'read(38)', "
                       "builtins.str:'exit(None)'), ndarray[<u2|(2, 2)|ae2f9b0298d23d42])",
 'uint16[tuple,ellipsis]': 'list(list(builtins.str:"open((\'IMG\',), {\'mode\': \'rb\'})", '
                           "builtins.str:'enter', builtins.str:'seek(15, 0)', "
                           "builtins.str:'read(38)', builtins.str:'seek(57, 0)', "
                           "builtins.str:'read(38)', builtins.str:'exit(None)'), ndarray[<u2|(2, "
                           '5)|ae2fd1cefbfaa7339b0298d2e0b1e97993aa3d42])',
 'uint16[tuple,none]': 'list(list(builtins.str:"open((\'IMG\',), {\'mode\': \'rb\'})", '
                       "builtins.str:'enter', builtins.str:'seek(15, 0)', builtins.str:'read(38)', "
                       "builtins.str:'seek(57, 0)', builtins.str:'read(38)', "
                       "builtins.str:'exit(None)'), ndarray[<u2|(2, 1, "
                       '5)|ae2fd1cefbfaa7339b0298d2e0b1e97993aa3d42])',
 'uint16[tuple,array]': 'list(list(builtins.str:"open((\'IMG\',), {\'mode\': \'rb\'})", '
                        "builtins.str:'enter', builtins.str:'seek(15, 0)', "
                        "builtins.str:'read(38)', builtins.str:'seek(57, 0)', "
                        "builtins.str:'read(38)', builtins.str:'exit(None)'), ndarray[<u2|(2, "
                        '3)|d1ced1cea733e0b1e0b193aa])',
 'uint16[tuple,str]': 'list(list(builtins.str:"open((\'IMG\',), {\'mode\': \'rb\'})", '
                      "builtins.str:'enter', builtins.str:'seek(15, 0)', builtins.str:'read(38)', "
                      "builtins.str:'seek(57, 0)', builtins.str:'read(38)', "
                      "builtins.str:'exit(None)'), raise builtins.IndexError: only integers, "
                      'slices (`:`), ellipsis (`...`), numpy.newaxis (`None`) and integer or '
                      'boolean arrays are valid indices)',
 'uint16[none,all]': "list(list(), raise builtins.TypeError: 'NoneType' object is not iterable)",
 'uint16[none,0]': "list(list(), raise builtins.TypeError: 'NoneType' object is not iterable)",
 'uint16[none,-1]': "list(list(), raise builtins.TypeError: 'NoneType' object is not iterable)",
 'uint16[none,5]': "list(list(), raise builtins.TypeError: 'NoneType' object is not iterable)",
 'uint16[none,1:4]': "list(list(), raise builtins.TypeError: 'NoneType' object is not iterable)",
 'uint16[none,::2]': "list(list(), raise builtins.TypeError: 'NoneType' object is not iterable)",
 'uint16[none,::-1]': "list(list(), raise builtins.TypeError: 'NoneType' object is not iterable)",
 'uint16[none,0:0]': "list(list(), raise builtins.TypeError: 'NoneType' object is not iterable)",
 'uint16[none,list]': "list(list(), raise builtins.TypeError: 'NoneType' object is not iterable)",
 'uint16[none,ellipsis]': "list(list(), raise builtins.TypeError: 'NoneType' object is not "
                          'iterable)',
 'uint16[none,none]': "list(list(), raise builtins.TypeError: 'NoneType' object is not iterable)",
 'uint16[none,array]': "list(list(), raise builtins.TypeError: 'NoneType' object is not iterable)",
 'uint16[none,str]': "list(list(), raise builtins.TypeError: 'NoneType' object is not iterable)",
 'uint16[ellipsis,all]': "list(list(), raise builtins.TypeError: 'ellipsis' object is not "
                         'iterable)',
 'uint16[ellipsis,0]': "list(list(), raise builtins.TypeError: 'ellipsis' object is not iterable)",
 'uint16[ellipsis,-1]': "list(list(), raise builtins.TypeError: 'ellipsis' object is not iterable)",
 'uint16[ellipsis,5]': "list(list(), raise builtins.TypeError: 'ellipsis' object is not iterable)",
 'uint16[ellipsis,1:4]': "list(list(), raise builtins.TypeError: 'ellipsis' object is not "
                         'iterable)',
 'uint16[ellipsis,::2]': "list(list(), raise builtins.TypeError: 'ellipsis' object is not "
                         'iterable)',
 'uint16[ellipsis,::-1]': "list(list(), raise builtins.TypeError: 'ellipsis' object is not "
                          'iterable)',
 'uint16[ellipsis,0:0]': "list(list(), raise builtins.TypeError: 'ellipsis' object is not "
                         'iterable)',
 'uint16[ellipsis,list]': "list(list(), raise builtins.TypeError: 'ellipsis' object is not "
                          'iterable)',
 'uint16[ellipsis,ellipsis]': "list(list(), raise builtins.TypeError: 'ellipsis' object is not "
                              'iterable)',
 'uint16[ellipsis,none]': "list(list(), raise builtins.TypeError: 'ellipsis' object is not "
                          'iterable)',
 'uint16[ellipsis,array]': "list(list(), raise builtins.TypeError: 'ellipsis' object is not "
                           'iterable)',
 'uint16[ellipsis,str]': "list(list(), raise builtins.TypeError: 'ellipsis' object is not "
                         'iterable)',
 'uint16[str,all]': 'list(list(), raise builtins.TypeError: list indices must be integers or '
                    'slices, not str)',
 'uint16[str,0]': 'list(list(), raise builtins.TypeError: list indices must be integers or slices, '
                  'not str)',
 'uint16[str,-1]': 'list(list(), raise builtins.TypeError: list indices must be integers or '
                   'slices, not str)',
 'uint16[str,5]': 'list(list(), raise builtins.TypeError: list indices must be integers or slices, '
                  'not str)',
 'uint16[str,1:4]': 'list(list(), raise builtins.TypeError: list indices must be integers or '
                    'slices, not str)',
 'uint16[str,::2]': 'list(list(), raise builtins.TypeError: list indices must be integers or '
                    'slices, not str)',
 'uint16[str,::-1]': 'list(list(), raise builtins.TypeError: list indices must be integers or '
                     'slices, not str)',
 'uint16[str,0:0]': 'list(list(), raise builtins.TypeError: list indices must be integers or '
                    'slices, not str)',
 'uint16[str,list]': 'list(list(), raise builtins.TypeError: list indices must be integers or '
                     'slices, not str)',
 'uint16[str,ellipsis]': 'list(list(), raise builtins.TypeError: list indices must be integers or '
                         'slices, not str)',
 'uint16[str,none]': 'list(list(), raise builtins.TypeError: list indices must be integers or '
                     'slices, not str)',
 'uint16[str,array]': 'list(list(), raise builtins.TypeError: list indices must be integers or '
                      'slices, not str)',
 'uint16[str,str]': 'list(list(), raise builtins.TypeError: list indices must be integers or '
                    'slices, not str)',
 'uint16[float,all]': "list(list(), raise builtins.TypeError: 'float' object is not iterable)",
 'uint16[float,0]': "list(list(), raise builtins.TypeError: 'float' object is not iterable)",
 'uint16[float,-1]': "list(list(), raise builtins.TypeError: 'float' object is not iterable)",
 'uint16[float,5]': "list(list(), raise builtins.TypeError: 'float' object is not iterable)",
 'uint16[float,1:4]': "list(list(), raise builtins.TypeError: 'float' object is not iterable)",
 'uint16[float,::2]': "list(list(), raise builtins.TypeError: 'float' object is not iterable)",
 'uint16[float,::-1]': "list(list(), raise builtins.TypeError: 'float' object is not iterable)",
 'uint16[float,0:0]': "list(list(), raise builtins.TypeError: 'float' object is not iterable)",
 'uint16[float,list]': "list(list(), raise builtins.TypeError: 'float' object is not iterable)",
 'uint16[float,ellipsis]': "list(list(), raise builtins.TypeError: 'float' object is not iterable)",
 'uint16[float,none]': "list(list(), raise builtins.TypeError: 'float' object is not iterable)",
 'uint16[float,array]': "list(list(), raise builtins.TypeError: 'float' object is not iterable)",
 'uint16[float,str]': "list(list(), raise builtins.TypeError: 'float' object is not iterable)",
 'complex64[0,all]': 'list(list(builtins.str:"open((\'IMG\',), {\'mode\': \'rb\'})", '
                     "builtins.str:'enter', builtins.str:'seek(15, 0)', builtins.str:'read(128)', "
                     "builtins.str:'exit(None)'), "
                     'ndarray[<c8|(5,)|000088c2000074c2000080c2000014c200008040000080bf00009a42000030410000c04100004041])',
 'complex64[0,0]': 'list(list(builtins.str:"open((\'IMG\',), {\'mode\': \'rb\'})", '
                   "builtins.str:'enter', builtins.str:'seek(15, 0)', builtins.str:'read(128)', "
                   "builtins.str:'exit(None)'), numpy.complex64(np.complex64(-68-61j)))",
 'complex64[0,-1]': 'list(list(builtins.str:"open((\'IMG\',), {\'mode\': \'rb\'})", '
                    "builtins.str:'enter', builtins.str:'seek(15, 0)', builtins.str:'read(128)', "
                    "builtins.str:'exit(None)'), numpy.complex64(np.complex64(24+12j)))",
 'complex64[0,5]': 'list(list(builtins.str:"open((\'IMG\',), {\'mode\': \'rb\'})", '
                   "builtins.str:'enter', builtins.str:'seek(15, 0)', builtins.str:'read(128)', "
                   "builtins.str:'exit(None)'), raise builtins.IndexError: index 5 is out of "
                   'bounds for axis 1 with size 5)',
 'complex64[0,1:4]': 'list(list(builtins.str:"open((\'IMG\',), {\'mode\': \'rb\'})", '
                     "builtins.str:'enter', builtins.str:'seek(15, 0)', builtins.str:'read(128)', "
                     "builtins.str:'exit(None)'), "
                     'ndarray[<c8|(3,)|000080c2000014c200008040000080bf00009a4200003041])',
 'complex64[0,::2]': 'list(list(builtins.str:"open((\'IMG\',), {\'mode\': \'rb\'})", '
                     "builtins.str:'enter', builtins.str:'seek(15, 0)', builtins.str:'read(128)', "
                     "builtins.str:'exit(None)'), "
                     'ndarray[<c8|(3,)|000088c2000074c200008040000080bf0000c04100004041])',
 'complex64[0,::-1]': 'list(list(builtins.str:"open((\'IMG\',), {\'mode\': \'rb\'})", '
                      "builtins.str:'enter', builtins.str:'seek(15, 0)', builtins.str:'read(128)', "
                      "builtins.str:'exit(None)'), "
                      'ndarray[<c8|(5,)|0000c0410000404100009a420000304100008040000080bf000080c2000014c2000088c2000074c2])',
 'complex64[0,0:0]': 'list(list(builtins.str:"open((\'IMG\',), {\'mode\': \'rb\'})", '
                     "builtins.str:'enter', builtins.str:'seek(15, 0)', builtins.str:'read(128)', "
                     "builtins.str:'exit(None)'), ndarray[<c8|(0,)|])",
 'complex64[0,list]': 'list(list(builtins.str:"open((\'IMG\',), {\'mode\': \'rb\'})", '
                      "builtins.str:'enter', builtins.str:'seek(15, 0)', builtins.str:'read(128)', "
                      "builtins.str:'exit(None)'), "
                      'ndarray[<c8|(2,)|000088c2000074c20000c04100004041])',
 'complex64[0,ellipsis]': 'list(list(builtins.str:"open((\'IMG\',), {\'mode\': \'rb\'})", '
                          "builtins.str:'enter', builtins.str:'seek(15, 0)', "
                          "builtins.str:'read(128)', builtins.str:'exit(None)'), "
                          'ndarray[<c8|(5,)|000088c2000074c2000080c2000014c200008040000080bf00009a42000030410000c04100004041])',
 'complex64[0,none]': 'list(list(builtins.str:"open((\'IMG\',), {\'mode\': \'rb\'})", '
                      "builtins.str:'enter', builtins.str:'seek(15, 0)', builtins.str:'read(128)', "
                      "builtins.str:'exit(None)'), ndarray[<c8|(1, "
                      '5)|000088c2000074c2000080c2000014c200008040000080bf00009a42000030410000c04100004041])',
 'complex64[0,array]': 'list(list(builtins.str:"open((\'IMG\',), {\'mode\': \'rb\'})", '
                       "builtins.str:'enter', builtins.str:'seek(15, 0)', "
                       "builtins.str:'read(128)', builtins.str:'exit(None)'), "
                       'ndarray[<c8|(3,)|000080c2000014c2000080c2000014c200009a4200003041])',
 'complex64[0,str]': 'list(list(builtins.str:"open((\'IMG\',), {\'mode\': \'rb\'})", '
                     "builtins.str:'enter', builtins.str:'seek(15, 0)', builtins.str:'read(128)', "
                     "builtins.str:'exit(None)'), raise builtins.IndexError: only integers, slices "
                     '(`:`), ellipsis (`...`), numpy.newaxis (`None`) and integer or boolean '
                     'arrays are valid indices)',
 'complex64[3,all]': 'list(list(builtins.str:"open((\'IMG\',), {\'mode\': \'rb\'})", '
                     "builtins.str:'enter', builtins.str:'seek(147, 0)', builtins.str:'read(128)', "
                     "builtins.str:'exit(None)'), "
                     'ndarray[<c8|(5,)|00008042000040c1000018420000e8c10000a0c00000804100000442000044c2000044c20000ba42])',
 'complex64[3,0]': 'list(list(builtins.str:"open((\'IMG\',), {\'mode\': \'rb\'})", '
                   "builtins.str:'enter', builtins.str:'seek(147, 0)', builtins.str:'read(128)', "
                   "builtins.str:'exit(None)'), numpy.complex64(np.complex64(64-12j)))",
 'complex64[3,-1]': 'list(list(builtins.str:"open((\'IMG\',), {\'mode\': \'rb\'})", '
                    "builtins.str:'enter', builtins.str:'seek(147, 0)', builtins.str:'read(128)', "
                    "builtins.str:'exit(None)'), numpy.complex64(np.complex64(-49+93j)))",
 'complex64[3,5]': 'list(list(builtins.str:"open((\'IMG\',), {\'mode\': \'rb\'})", '
                   "builtins.str:'enter', builtins.str:'seek(147, 0)', builtins.str:'read(128)', "
                   "builtins.str:'exit(None)'), raise builtins.IndexError: index 5 is out of "
                   'bounds for axis 1 with size 5)',
 'complex64[3,1:4]': 'list(list(builtins.str:"open((\'IMG\',), {\'mode\': \'rb\'})", '
                     "builtins.str:'enter', builtins.str:'seek(147, 0)', builtins.str:'read(128)', "
                     "builtins.str:'exit(None)'), "
                     'ndarray[<c8|(3,)|000018420000e8c10000a0c00000804100000442000044c2])',
 'complex64[3,::2]': 'list(list(builtins.str:"open((\'IMG\',), {\'mode\': \'rb\'})", '
                     "builtins.str:'enter', builtins.str:'seek(147, 0)', builtins.str:'read(128)', "
                     "builtins.str:'exit(None)'), "
                     'ndarray[<c8|(3,)|00008042000040c10000a0c000008041000044c20000ba42])',
 'complex64[3,::-1]': 'list(list(builtins.str:"open((\'IMG\',), {\'mode\': \'rb\'})", '
                      "builtins.str:'enter', builtins.str:'seek(147, 0)', "
                      "builtins.str:'read(128)', builtins.str:'exit(None)'), "
                      'ndarray[<c8|(5,)|000044c20000ba4200000442000044c20000a0c000008041000018420000e8c100008042000040c1])',
 'complex64[3,0:0]': 'list(list(builtins.str:"open((\'IMG\',), {\'mode\': \'rb\'})", '
                     "builtins.str:'enter', builtins.str:'seek(147, 0)', builtins.str:'read(128)', "
                     "builtins.str:'exit(None)'), ndarray[<c8|(0,)|])",
 'complex64[3,list]': 'list(list(builtins.str:"open((\'IMG\',), {\'mode\': \'rb\'})", '
                      "builtins.str:'enter', builtins.str:'seek(147, 0)', "
                      "builtins.str:'read(128)', builtins.str:'exit(None)'), "
                      'ndarray[<c8|(2,)|00008042000040c1000044c20000ba42])',
 'complex64[3,ellipsis]': 'list(list(builtins.str:"open((\'IMG\',), {\'mode\': \'rb\'})", '
                          "builtins.str:'enter', builtins.str:'seek(147, 0)', "
                          "builtins.str:'read(128)', builtins.str:'exit(None)'), "
                          'ndarray[<c8|(5,)|00008042000040c1000018420000e8c10000a0c00000804100000442000044c2000044c20000ba42])',
 'complex64[3,none]': 'list(list(builtins.str:"open((\'IMG\',), {\'mode\': \'rb\'})", '
                      "builtins.str:'enter', builtins.str:'seek(147, 0)', "
                      "builtins.str:'read(128)', builtins.str:'exit(None)'), ndarray[<c8|(1, "
                      '5)|00008042000040c1000018420000e8c10000a0c00000804100000442000044c2000044c20000ba42])',
 'complex64[3,array]': 'list(list(builtins.str:"open((\'IMG\',), {\'mode\': \'rb\'})", '
                       "builtins.str:'enter', builtins.str:'seek(147, 0)', "
                       "builtins.str:'read(128)', builtins.str:'exit(None)'), "
                       'ndarray[<c8|(3,)|000018420000e8c1000018420000e8c100000442000044c2])',
 'complex64[3,str]': 'list(list(builtins.str:"open((\'IMG\',), {\'mode\': \'rb\'})", '
                     "builtins.str:'enter', builtins.str:'seek(147, 0)', builtins.str:'read(128)', "
                     "builtins.str:'exit(None)'), raise builtins.IndexError: only integers, slices "
                     '(`:`), ellipsis (`...`), numpy.newaxis (`None`) and integer or boolean '
                     'arrays are valid indices)',
 'complex64[6,all]': 'list(list(builtins.str:"open((\'IMG\',), {\'mode\': \'rb\'})", '
                     "builtins.str:'enter', builtins.str:'seek(279, 0)', builtins.str:'read(40)', "
                     "builtins.str:'exit(None)'), "
                     'ndarray[<c8|(5,)|000030420000b0c20000a8c20000c2c2000050420000904200003cc20000a4c200008042000078c2])',
 'complex64[6,0]': 'list(list(builtins.str:"open((\'IMG\',), {\'mode\': \'rb\'})", '
                   "builtins.str:'enter', builtins.str:'seek(279, 0)', builtins.str:'read(40)', "
                   "builtins.str:'exit(None)'), numpy.complex64(np.complex64(44-88j)))",
 'complex64[6,-1]': 'list(list(builtins.str:"open((\'IMG\',), {\'mode\': \'rb\'})", '
                    "builtins.str:'enter', builtins.str:'seek(279, 0)', builtins.str:'read(40)', "
                    "builtins.str:'exit(None)'), numpy.complex64(np.complex64(64-62j)))",
 'complex64[6,5]': 'list(list(builtins.str:"open((\'IMG\',), {\'mode\': \'rb\'})", '
                   "builtins.str:'enter', builtins.str:'seek(279, 0)', builtins.str:'read(40)', "
                   "builtins.str:'exit(None)'), raise builtins.IndexError: index 5 is out of "
                   'bounds for axis 1 with size 5)',
 'complex64[6,1:4]': 'list(list(builtins.str:"open((\'IMG\',), {\'mode\': \'rb\'})", '
                     "builtins.str:'enter', builtins.str:'seek(279, 0)', builtins.str:'read(40)', "
                     "builtins.str:'exit(None)'), "
                     'ndarray[<c8|(3,)|0000a8c20000c2c2000050420000904200003cc20000a4c2])',
 'complex64[6,::2]': 'list(list(builtins.str:"open((\'IMG\',), {\'mode\': \'rb\'})", '
                     "builtins.str:'enter', builtins.str:'seek(279, 0)', builtins.str:'read(40)', "
                     "builtins.str:'exit(None)'), "
                     'ndarray[<c8|(3,)|000030420000b0c2000050420000904200008042000078c2])',
 'complex64[6,::-1]': 'list(list(builtins.str:"open((\'IMG\',), {\'mode\': \'rb\'})", '
                      "builtins.str:'enter', builtins.str:'seek(279, 0)', builtins.str:'read(40)', "
                      "builtins.str:'exit(None)'), "
                      'ndarray[<c8|(5,)|00008042000078c200003cc20000a4c200005042000090420000a8c20000c2c2000030420000b0c2])',
 'complex64[6,0:0]': 'list(list(builtins.str:"open((\'IMG\',), {\'mode\': \'rb\'})", '
                     "builtins.str:'enter', builtins.str:'seek(279, 0)', builtins.str:'read(40)', "
                     "builtins.str:'exit(None)'), ndarray[<c8|(0,)|])",
 'complex64[6,list]': 'list(list(builtins.str:"open((\'IMG\',), {\'mode\': \'rb\'})", '
                      "builtins.str:'enter', builtins.str:'seek(279, 0)', builtins.str:'read(40)', "
                      "builtins.str:'exit(None)'), "
                      'ndarray[<c8|(2,)|000030420000b0c200008042000078c2])',
 'complex64[6,ellipsis]': 'list(list(builtins.str:"open((\'IMG\',), {\'mode\': \'rb\'})", '
                          "builtins.str:'enter', builtins.str:'seek(279, 0)', "
                          "builtins.str:'read(40)', builtins.str:'exit(None)'), "
                          'ndarray[<c8|(5,)|000030420000b0c20000a8c20000c2c2000050420000904200003cc20000a4c200008042000078c2])',
 'complex64[6,none]': 'list(list(builtins.str:"open((\'IMG\',), {\'mode\': \'rb\'})", '
                      "builtins.str:'enter', builtins.str:'seek(279, 0)', builtins.str:'read(40)', "
                      "builtins.str:'exit(None)'), ndarray[<c8|(1, "
                      '5)|000030420000b0c20000a8c20000c2c2000050420000904200003cc20000a4c200008042000078c2])',
 'complex64[6,array]': 'list(list(builtins.str:"open((\'IMG\',), {\'mode\': \'rb\'})", '
                       "builtins.str:'enter', builtins.str:'seek(279, 0)', "
                       "builtins.str:'read(40)', builtins.str:'exit(None)'), "
                       'ndarray[<c8|(3,)|0000a8c20000c2c20000a8c20000c2c200003cc20000a4c2])',
 'complex64[6,str]': 'list(list(builtins.str:"open((\'IMG\',), {\'mode\': \'rb\'})", '
                     "builtins.str:'enter', builtins.str:'seek(279, 0)', builtins.str:'read(40)', "
                     "builtins.str:'exit(None)'), raise builtins.IndexError: only integers, slices "
                     '(`:`), ellipsis (`...`), numpy.newaxis (`None`) and integer or boolean '
                     'arrays are valid indices)',
 'complex64[-1,all]': 'list(list(builtins.str:"open((\'IMG\',), {\'mode\': \'rb\'})", '
                      "builtins.str:'enter', builtins.str:'seek(279, 0)', builtins.str:'read(40)', "
                      "builtins.str:'exit(None)'), "
                      'ndarray[<c8|(5,)|000030420000b0c20000a8c20000c2c2000050420000904200003cc20000a4c200008042000078c2])',
 'complex64[-1,0]': 'list(list(builtins.str:"open((\'IMG\',), {\'mode\': \'rb\'})", '
                    "builtins.str:'enter', builtins.str:'seek(279, 0)', builtins.str:'read(40)', "
                    "builtins.str:'exit(None)'), numpy.complex64(np.complex64(44-88j)))",
 'complex64[-1,-1]': 'list(list(builtins.str:"open((\'IMG\',), {\'mode\': \'rb\'})", '
                     "builtins.str:'enter', builtins.str:'seek(279, 0)', builtins.str:'read(40)', "
                     "builtins.str:'exit(None)'), numpy.complex64(np.complex64(64-62j)))",
 'complex64[-1,5]': 'list(list(builtins.str:"open((\'IMG\',), {\'mode\': \'rb\'})", '
                    "builtins.str:'enter', builtins.str:'seek(279, 0)', builtins.str:'read(40)', "
                    "builtins.str:'exit(None)'), raise builtins.IndexError: index 5 is out of "
                    'bounds for axis 1 with size 5)',
 'complex64[-1,1:4]': 'list(list(builtins.str:"open((\'IMG\',), {\'mode\': \'rb\'})", '
                      "builtins.str:'enter', builtins.str:'seek(279, 0)', builtins.str:'read(40)', "
                      "builtins.str:'exit(None)'), "
                      'ndarray[<c8|(3,)|0000a8c20000c2c2000050420000904200003cc20000a4c2])',
 'complex64[-1,::2]': 'list(list(builtins.str:"open((\'IMG\',), {\'mode\': \'rb\'})", '
                      "builtins.str:'enter', builtins.str:'seek(279, 0)', builtins.str:'read(40)', "
                      "builtins.str:'exit(None)'), "
                      'ndarray[<c8|(3,)|000030420000b0c2000050420000904200008042000078c2])',
 'complex64[-1,::-1]': 'list(list(builtins.str:"open((\'IMG\',), {\'mode\': \'rb\'})", '
                       "builtins.str:'enter', builtins.str:'seek(279, 0)', "
                       "builtins.str:'read(40)', builtins.str:'exit(None)'), "
                       'ndarray[<c8|(5,)|00008042000078c200003cc20000a4c200005042000090420000a8c20000c2c2000030420000b0c2])',
 'complex64[-1,0:0]': 'list(list(builtins.str:"open((\'IMG\',), {\'mode\': \'rb\'})", '
                      "builtins.str:'enter', builtins.str:'seek(279, 0)', builtins.str:'read(40)', "
                      "builtins.str:'exit(None)'), ndarray[<c8|(0,)|])",
 'complex64[-1,list]': 'list(list(builtins.str:"open((\'IMG\',), {\'mode\': \'rb\'})", '
                       "builtins.str:'enter', builtins.str:'seek(279, 0)', "
                       "builtins.str:'read(40)', builtins.str:'exit(None)'), "
                       'ndarray[<c8|(2,)|000030420000b0c200008042000078c2])',
 'complex64[-1,ellipsis]': 'list(list(builtins.str:"open((\'IMG\',), {\'mode\': \'rb\'})", '
                           "builtins.str:'enter', builtins.str:'seek(279, 0)', "
                           "builtins.str:'read(40)', builtins.str:'exit(None)'), "
                           'ndarray[<c8|(5,)|000030420000b0c20000a8c20000c2c2000050420000904200003cc20000a4c200008042000078c2])',
 'complex64[-1,none]': 'list(list(builtins.str:"open((\'IMG\',), {\'mode\': \'rb\'})", '
                       "builtins.str:'enter', builtins.str:'seek(279, 0)', "
                       "builtins.str:'read(40)', builtins.str:'exit(None)'), ndarray[<c8|(1, "
                       '5)|000030420000b0c20000a8c20000c2c2000050420000904200003cc20000a4c200008042000078c2])',
 'complex64[-1,array]': 'list(list(builtins.str:"open((\'IMG\',), {\'mode\': \'rb\'})", '
                        "builtins.str:'enter', builtins.str:'seek(279, 0)', "
                        "builtins.str:'read(40)', builtins.str:'exit(None)'), "
                        'ndarray[<c8|(3,)|0000a8c20000c2c20000a8c20000c2c200003cc20000a4c2])',
 'complex64[-1,str]': 'list(list(builtins.str:"open((\'IMG\',), {\'mode\': \'rb\'})", '
                      "builtins.str:'enter', builtins.str:'seek(279, 0)', builtins.str:'read(40)', "
                      "builtins.str:'exit(None)'), raise builtins.IndexError: only integers, "
                      'slices (`:`), ellipsis (`...`), numpy.newaxis (`None`) and integer or '
                      'boolean arrays are valid indices)',
 'complex64[-7,all]': 'list(list(builtins.str:"open((\'IMG\',), {\'mode\': \'rb\'})", '
                      "builtins.str:'enter', builtins.str:'seek(15, 0)', builtins.str:'read(128)', "
                      "builtins.str:'exit(None)'), "
                      'ndarray[<c8|(5,)|000088c2000074c2000080c2000014c200008040000080bf00009a42000030410000c04100004041])',
 'complex64[-7,0]': 'list(list(builtins.str:"open((\'IMG\',), {\'mode\': \'rb\'})", '
                    "builtins.str:'enter', builtins.str:'seek(15, 0)', builtins.str:'read(128)', "
                    "builtins.str:'exit(None)'), numpy.complex64(np.complex64(-68-61j)))",
 'complex64[-7,-1]': 'list(list(builtins.str:"open((\'IMG\',), {\'mode\': \'rb\'})", '
                     "builtins.str:'enter', builtins.str:'seek(15, 0)', builtins.str:'read(128)', "
                     "builtins.str:'exit(None)'), numpy.complex64(np.complex64(24+12j)))",
 'complex64[-7,5]': 'list(list(builtins.str:"open((\'IMG\',), {\'mode\': \'rb\'})", '
                    "builtins.str:'enter', builtins.str:'seek(15, 0)', builtins.str:'read(128)', "
                    "builtins.str:'exit(None)'), raise builtins.IndexError: index 5 is out of "
                    'bounds for axis 1 with size 5)',
 'complex64[-7,1:4]': 'list(list(builtins.str:"open((\'IMG\',), {\'mode\': \'rb\'})", '
                      "builtins.str:'enter', builtins.str:'seek(15, 0)', builtins.str:'read(128)', "
                      "builtins.str:'exit(None)'), "
                      'ndarray[<c8|(3,)|000080c2000014c200008040000080bf00009a4200003041])',
 'complex64[-7,::2]': 'list(list(builtins.str:"open((\'IMG\',), {\'mode\': \'rb\'})", '
                      "builtins.str:'enter', builtins.str:'seek(15, 0)', builtins.str:'read(128)', "
                      "builtins.str:'exit(None)'), "
                      'ndarray[<c8|(3,)|000088c2000074c200008040000080bf0000c04100004041])',
 'complex64[-7,::-1]': 'list(list(builtins.str:"open((\'IMG\',), {\'mode\': \'rb\'})", '
                       "builtins.str:'enter', builtins.str:'seek(15, 0)', "
                       "builtins.str:'read(128)', builtins.str:'exit(None)'), "
                       'ndarray[<c8|(5,)|0000c0410000404100009a420000304100008040000080bf000080c2000014c2000088c2000074c2])',
 'complex64[-7,0:0]': 'list(list(builtins.str:"open((\'IMG\',), {\'mode\': \'rb\'})", '
                      "builtins.str:'enter', builtins.str:'seek(15, 0)', builtins.str:'read(128)', "
                      "builtins.str:'exit(None)'), ndarray[<c8|(0,)|])",
 'complex64[-7,list]': 'list(list(builtins.str:"open((\'IMG\',), {\'mode\': \'rb\'})", '
                       "builtins.str:'enter', builtins.str:'seek(15, 0)', "
                       "builtins.str:'read(128)', builtins.str:'exit(None)'), "
                       'ndarray[<c8|(2,)|000088c2000074c20000c04100004041])',
 'complex64[-7,ellipsis]': 'list(list(builtins.str:"open((\'IMG\',), {\'mode\': \'rb\'})", '
                           "builtins.str:'enter', builtins.str:'seek(15, 0)', "
                           "builtins.str:'read(128)', builtins.str:'exit(None)'), "
                           'ndarray[<c8|(5,)|000088c2000074c2000080c2000014c200008040000080bf00009a42000030410000c04100004041])',
 'complex64[-7,none]': 'list(list(builtins.str:"open((\'IMG\',), {\'mode\': \'rb\'})", '
                       "builtins.str:'enter', builtins.str:'seek(15, 0)', "
                       "builtins.str:'read(128)', builtins.str:'exit(None)'), ndarray[<c8|(1, "
                       '5)|000088c2000074c2000080c2000014c200008040000080bf00009a42000030410000c04100004041])',
 'complex64[-7,array]': 'list(list(builtins.str:"open((\'IMG\',), {\'mode\': \'rb\'})", '
                        "builtins.str:'enter', builtins.str:'seek(15, 0)', "
                        "builtins.str:'read(128)', builtins.str:'exit(None)'), "
                        'ndarray[<c8|(3,)|000080c2000014c2000080c2000014c200009a4200003041])',
 'complex64[-7,str]': 'list(list(builtins.str:"open((\'IMG\',), {\'mode\': \'rb\'})", '
                      "builtins.str:'enter', builtins.str:'seek(15, 0)', builtins.str:'read(128)', "
                      "builtins.str:'exit(None)'), raise builtins.IndexError: only integers, "
                      'slices (`:`), ellipsis (`...`), numpy.newaxis (`None`) and integer or '
                      'boolean arrays are valid indices)',
 'complex64[7,all]': 'list(list(), raise builtins.IndexError: list index out of range)',
 'complex64[7,0]': 'list(list(), raise builtins.IndexError: list index out of range)',
 'complex64[7,-1]': 'list(list(), raise builtins.IndexError: list index out of range)',
 'complex64[7,5]': 'list(list(), raise builtins.IndexError: list index out of range)',
 'complex64[7,1:4]': 'list(list(), raise builtins.IndexError: list index out of range)',
 'complex64[7,::2]': 'list(list(), raise builtins.IndexError: list index out of range)',
 'complex64[7,::-1]': 'list(list(), raise builtins.IndexError: list index out of range)',
 'complex64[7,0:0]': 'list(list(), raise builtins.IndexError: list index out of range)',
 'complex64[7,list]': 'list(list(), raise builtins.IndexError: list index out of range)',
 'complex64[7,ellipsis]': 'list(list(), raise builtins.IndexError: list index out of range)',
 'complex64[7,none]': 'list(list(), raise builtins.IndexError: list index out of range)',
 'complex64[7,array]': 'list(list(), raise builtins.IndexError: list index out of range)',
 'complex64[7,str]': 'list(list(), raise builtins.IndexError: list index out of range)',
 'complex64[-8,all]': 'list(list(), raise builtins.IndexError: list index out of range)',
 'complex64[-8,0]': 'list(list(), raise builtins.IndexError: list index out of range)',
 'complex64[-8,-1]': 'list(list(), raise builtins.IndexError: list index out of range)',
 'complex64[-8,5]': 'list(list(), raise builtins.IndexError: list index out of range)',
 'complex64[-8,1:4]': 'list(list(), raise builtins.IndexError: list index out of range)',
 'complex64[-8,::2]': 'list(list(), raise builtins.IndexError: list index out of range)',
 'complex64[-8,::-1]': 'list(list(), raise builtins.IndexError: list index out of range)',
 'complex64[-8,0:0]': 'list(list(), raise builtins.IndexError: list index out of range)',
 'complex64[-8,list]': 'list(list(), raise builtins.IndexError: list index out of range)',
 'complex64[-8,ellipsis]': 'list(list(), raise builtins.IndexError: list index out of range)',
 'complex64[-8,none]': 'list(list(), raise builtins.IndexError: list index out of range)',
 'complex64[-8,array]': 'list(list(), raise builtins.IndexError: list index out of range)',
 'complex64[-8,str]': 'list(list(), raise builtins.IndexError: list index out of range)',
 'complex64[True,all]': 'list(list(builtins.str:"open((\'IMG\',), {\'mode\': \'rb\'})", '
                        "builtins.str:'enter', builtins.str:'seek(15, 0)', "
                        "builtins.str:'read(128)', builtins.str:'exit(None)'), "
                        'ndarray[<c8|(5,)|000080c00000384200006c42000034420000e0410000a0c2000010420000c242000014c20000a841])',
 'complex64[True,0]': 'list(list(builtins.str:"open((\'IMG\',), {\'mode\': \'rb\'})", '
                      "builtins.str:'enter', builtins.str:'seek(15, 0)', builtins.str:'read(128)', "
                      "builtins.str:'exit(None)'), numpy.complex64(np.complex64(-4+46j)))",
 'complex64[True,-1]': 'list(list(builtins.str:"open((\'IMG\',), {\'mode\': \'rb\'})", '
                       "builtins.str:'enter', builtins.str:'seek(15, 0)', "
                       "builtins.str:'read(128)', builtins.str:'exit(None)'), "
                       'numpy.complex64(np.complex64(-37+21j)))',
 'complex64[True,5]': 'list(list(builtins.str:"open((\'IMG\',), {\'mode\': \'rb\'})", '
                      "builtins.str:'enter', builtins.str:'seek(15, 0)', builtins.str:'read(128)', "
                      "builtins.str:'exit(None)'), raise builtins.IndexError: index 5 is out of "
                      'bounds for axis 1 with size 5)',
 'complex64[True,1:4]': 'list(list(builtins.str:"open((\'IMG\',), {\'mode\': \'rb\'})", '
                        "builtins.str:'enter', builtins.str:'seek(15, 0)', "
                        "builtins.str:'read(128)', builtins.str:'exit(None)'), "
                        'ndarray[<c8|(3,)|00006c42000034420000e0410000a0c2000010420000c242])',
 'complex64[True,::2]': 'list(list(builtins.str:"open((\'IMG\',), {\'mode\': \'rb\'})", '
                        "builtins.str:'enter', builtins.str:'seek(15, 0)', "
                        "builtins.str:'read(128)', builtins.str:'exit(None)'), "
                        'ndarray[<c8|(3,)|000080c0000038420000e0410000a0c2000014c20000a841])',
 'complex64[True,::-1]': 'list(list(builtins.str:"open((\'IMG\',), {\'mode\': \'rb\'})", '
                         "builtins.str:'enter', builtins.str:'seek(15, 0)', "
                         "builtins.str:'read(128)', builtins.str:'exit(None)'), "
                         'ndarray[<c8|(5,)|000014c20000a841000010420000c2420000e0410000a0c200006c4200003442000080c000003842])',
 'complex64[True,0:0]': 'list(list(builtins.str:"open((\'IMG\',), {\'mode\': \'rb\'})", '
                        "builtins.str:'enter', builtins.str:'seek(15, 0)', "
                        "builtins.str:'read(128)', builtins.str:'exit(None)'), ndarray[<c8|(0,)|])",
 'complex64[True,list]': 'list(list(builtins.str:"open((\'IMG\',), {\'mode\': \'rb\'})", '
                         "builtins.str:'enter', builtins.str:'seek(15, 0)', "
                         "builtins.str:'read(128)', builtins.str:'exit(None)'), "
                         'ndarray[<c8|(2,)|000080c000003842000014c20000a841])',
 'complex64[True,ellipsis]': 'list(list(builtins.str:"open((\'IMG\',), {\'mode\': \'rb\'})", '
                             "builtins.str:'enter', builtins.str:'seek(15, 0)', "
                             "builtins.str:'read(128)', builtins.str:'exit(None)'), "
                             'ndarray[<c8|(5,)|000080c00000384200006c42000034420000e0410000a0c2000010420000c242000014c20000a841])',
 'complex64[True,none]': 'list(list(builtins.str:"open((\'IMG\',), {\'mode\': \'rb\'})", '
                         "builtins.str:'enter', builtins.str:'seek(15, 0)', "
                         "builtins.str:'read(128)', builtins.str:'exit(None)'), ndarray[<c8|(1, "
                         '5)|000080c00000384200006c42000034420000e0410000a0c2000010420000c242000014c20000a841])',
 'complex64[True,array]': 'list(list(builtins.str:"open((\'IMG\',), {\'mode\': \'rb\'})", '
                          "builtins.str:'enter', builtins.str:'seek(15, 0)', "
                          "builtins.str:'read(128)', builtins.str:'exit(None)'), "
                          'ndarray[<c8|(3,)|00006c420000344200006c4200003442000010420000c242])',
 'complex64[True,str]': 'list(list(builtins.str:"open((\'IMG\',), {\'mode\': \'rb\'})", '
                        "builtins.str:'enter', builtins.str:'seek(15, 0)', "
                        "builtins.str:'read(128)', builtins.str:'exit(None)'), raise "
                        'builtins.IndexError: only integers, slices (`:`), ellipsis (`...`), '
                        'numpy.newaxis (`None`) and integer or boolean arrays are valid indices)',
 'complex64[np3,all]': "list(list(), raise builtins.TypeError: 'numpy.int64' object is not "
                       'iterable)',
 'complex64[np3,0]': "list(list(), raise builtins.TypeError: 'numpy.int64' object is not iterable)",
 'complex64[np3,-1]': "list(list(), raise builtins.TypeError: 'numpy.int64' object is not "
                      'iterable)',
 'complex64[np3,5]': "list(list(), raise builtins.TypeError: 'numpy.int64' object is not iterable)",
 'complex64[np3,1:4]': "list(list(), raise builtins.TypeError: 'numpy.int64' object is not "
                       'iterable)',
 'complex64[np3,::2]': "list(list(), raise builtins.TypeError: 'numpy.int64' object is not "
                       'iterable)',
 'complex64[np3,::-1]': "list(list(), raise builtins.TypeError: 'numpy.int64' object is not "
                        'iterable)',
 'complex64[np3,0:0]': "list(list(), raise builtins.TypeError: 'numpy.int64' object is not "
                       'iterable)',
 'complex64[np3,list]': "list(list(), raise builtins.TypeError: 'numpy.int64' object is not "
                        'iterable)',
 'complex64[np3,ellipsis]': "list(list(), raise builtins.TypeError: 'numpy.int64' object is not "
                            'iterable)',
 'complex64[np3,none]': "list(list(), raise builtins.TypeError: 'numpy.int64' object is not "
                        'iterable)',
 'complex64[np3,array]': "list(list(), raise builtins.TypeError: 'numpy.int64' object is not "
                         'iterable)',
 'complex64[np3,str]': "list(list(), raise builtins.TypeError: 'numpy.int64' object is not "
                       'iterable)',
 'complex64[all,all]': 'list(list(builtins.str:"open((\'IMG\',), {\'mode\': \'rb\'})", '
                       "builtins.str:'enter', builtins.str:'seek(15, 0)', "
                       "builtins.str:'read(128)', builtins.str:'seek(147, 0)', "
                       "builtins.str:'read(128)', builtins.str:'seek(279, 0)', "
                       "builtins.str:'read(40)', builtins.str:'exit(None)'), ndarray[<c8|(7, "
                       '5)|000088c2000074c2000080c2000014c200008040000080bf00009a42000030410000c04100004041000080c00000384200006c42000034420000e0410000a0c2000010420000c242000014c20000a84100007cc2000080c20000744200008c420000c042000034c2000070c200007c420000c4c20000b2c200008042000040c1000018420000e8c10000a0c00000804100000442000044c2000044c20000ba420000c0c1000090c1000060410000bcc200001c42000084420000f0410000b0c100005c4200005842000030c10000a2c2000058420000a6c20000a6c20000b0420000c0400000bac20000a0c10000a642000030420000b0c20000a8c20000c2c2000050420000904200003cc20000a4c200008042000078c2])',
 'complex64[all,0]': 'list(list(builtins.str:"open((\'IMG\',), {\'mode\': \'rb\'})", '
                     "builtins.str:'enter', builtins.str:'seek(15, 0)', builtins.str:'read(128)', "
                     "builtins.str:'seek(147, 0)', builtins.str:'read(128)', "
                     "builtins.str:'seek(279, 0)', builtins.str:'read(40)', "
                     "builtins.str:'exit(None)'), "
                     'ndarray[<c8|(7,)|000088c2000074c2000080c00000384200007cc2000080c200008042000040c10000c0c1000090c1000030c10000a2c2000030420000b0c2])',
 'complex64[all,-1]': 'list(list(builtins.str:"open((\'IMG\',), {\'mode\': \'rb\'})", '
                      "builtins.str:'enter', builtins.str:'seek(15, 0)', builtins.str:'read(128)', "
                      "builtins.str:'seek(147, 0)', builtins.str:'read(128)', "
                      "builtins.str:'seek(279, 0)', builtins.str:'read(40)', "
                      "builtins.str:'exit(None)'), "
                      'ndarray[<c8|(7,)|0000c04100004041000014c20000a8410000c4c20000b2c2000044c20000ba4200005c42000058420000a0c10000a64200008042000078c2])',
 'complex64[all,5]': 'list(list(builtins.str:"open((\'IMG\',), {\'mode\': \'rb\'})", '
                     "builtins.str:'enter', builtins.str:'seek(15, 0)', builtins.str:'read(128)', "
                     "builtins.str:'seek(147, 0)', builtins.str:'read(128)', "
                     "builtins.str:'seek(279, 0)', builtins.str:'read(40)', "
                     "builtins.str:'exit(None)'), raise builtins.IndexError: index 5 is out of "
                     'bounds for axis 1 with size 5)',
 'complex64[all,1:4]': 'list(list(builtins.str:"open((\'IMG\',), {\'mode\': \'rb\'})", '
                       "builtins.str:'enter', builtins.str:'seek(15, 0)', "
                       "builtins.str:'read(128)', builtins.str:'seek(147, 0)', "
                       "builtins.str:'read(128)', builtins.str:'seek(279, 0)', "
                       "builtins.str:'read(40)', builtins.str:'exit(None)'), ndarray[<c8|(7, "
                       '3)|000080c2000014c200008040000080bf00009a420000304100006c42000034420000e0410000a0c2000010420000c2420000744200008c420000c042000034c2000070c200007c42000018420000e8c10000a0c00000804100000442000044c2000060410000bcc200001c42000084420000f0410000b0c1000058420000a6c20000a6c20000b0420000c0400000bac20000a8c20000c2c2000050420000904200003cc20000a4c2])',
 'complex64[all,::2]': 'list(list(builtins.str:"open((\'IMG\',), {\'mode\': \'rb\'})", '
                       "builtins.str:'enter', builtins.str:'seek(15, 0)', "
                       "builtins.str:'read(128)', builtins.str:'seek(147, 0)', "
                       "builtins.str:'read(128)', builtins.str:'seek(279, 0)', "
                       "builtins.str:'read(40)', builtins.str:'exit(None)'), ndarray[<c8|(7, "
                       '3)|000088c2000074c200008040000080bf0000c04100004041000080c0000038420000e0410000a0c2000014c20000a84100007cc2000080c20000c042000034c20000c4c20000b2c200008042000040c10000a0c000008041000044c20000ba420000c0c1000090c100001c420000844200005c4200005842000030c10000a2c20000a6c20000b0420000a0c10000a642000030420000b0c2000050420000904200008042000078c2])',
 'complex64[all,::-1]': 'list(list(builtins.str:"open((\'IMG\',), {\'mode\': \'rb\'})", '
                        "builtins.str:'enter', builtins.str:'seek(15, 0)', "
                        "builtins.str:'read(128)', builtins.str:'seek(147, 0)', "
                        "builtins.str:'read(128)', builtins.str:'seek(279, 0)', "
                        "builtins.str:'read(40)', builtins.str:'exit(None)'), ndarray[<c8|(7, "
                        '5)|0000c0410000404100009a420000304100008040000080bf000080c2000014c2000088c2000074c2000014c20000a841000010420000c2420000e0410000a0c200006c4200003442000080c0000038420000c4c20000b2c2000070c200007c420000c042000034c20000744200008c4200007cc2000080c2000044c20000ba4200000442000044c20000a0c000008041000018420000e8c100008042000040c100005c42000058420000f0410000b0c100001c4200008442000060410000bcc20000c0c1000090c10000a0c10000a6420000c0400000bac20000a6c20000b042000058420000a6c2000030c10000a2c200008042000078c200003cc20000a4c200005042000090420000a8c20000c2c2000030420000b0c2])',
 'complex64[all,0:0]': 'list(list(builtins.str:"open((\'IMG\',), {\'mode\': \'rb\'})", '
                       "builtins.str:'enter', builtins.str:'seek(15, 0)', "
                       "builtins.str:'read(128)', builtins.str:'seek(147, 0)', "
                       "builtins.str:'read(128)', builtins.str:'seek(279, 0)', "
                       "builtins.str:'read(40)', builtins.str:'exit(None)'), ndarray[<c8|(7, 0)|])",
 'complex64[all,list]': 'list(list(builtins.str:"open((\'IMG\',), {\'mode\': \'rb\'})", '
                        "builtins.str:'enter', builtins.str:'seek(15, 0)', "
                        "builtins.str:'read(128)', builtins.str:'seek(147, 0)', "
                        "builtins.str:'read(128)', builtins.str:'seek(279, 0)', "
                        "builtins.str:'read(40)', builtins.str:'exit(None)'), ndarray[<c8|(7, "
                        '2)|000088c2000074c20000c04100004041000080c000003842000014c20000a84100007cc2000080c20000c4c20000b2c200008042000040c1000044c20000ba420000c0c1000090c100005c4200005842000030c10000a2c20000a0c10000a642000030420000b0c200008042000078c2])',
 'complex64[all,ellipsis]': 'list(list(builtins.str:"open((\'IMG\',), {\'mode\': \'rb\'})", '
                            "builtins.str:'enter', builtins.str:'seek(15, 0)', "
                            "builtins.str:'read(128)', builtins.str:'seek(147, 0)', "
                            "builtins.str:'read(128)', builtins.str:'seek(279, 0)', "
                            "builtins.str:'read(40)', builtins.str:'exit(None)'), ndarray[<c8|(7, "
                            '5)|000088c2000074c2000080c2000014c200008040000080bf00009a42000030410000c04100004041000080c00000384200006c42000034420000e0410000a0c2000010420000c242000014c20000a84100007cc2000080c20000744200008c420000c042000034c2000070c200007c420000c4c20000b2c200008042000040c1000018420000e8c10000a0c00000804100000442000044c2000044c20000ba420000c0c1000090c1000060410000bcc200001c42000084420000f0410000b0c100005c4200005842000030c10000a2c2000058420000a6c20000a6c20000b0420000c0400000bac20000a0c10000a642000030420000b0c20000a8c20000c2c2000050420000904200003cc20000a4c200008042000078c2])',
 'complex64[all,none]': 'list(list(builtins.str:"open((\'IMG\',), {\'mode\': \'rb\'})", '
                        "builtins.str:'enter', builtins.str:'seek(15, 0)', "
                        "builtins.str:'read(128)', builtins.str:'seek(147, 0)', "
                        "builtins.str:'read(128)', builtins.str:'seek(279, 0)', "
                        "builtins.str:'read(40)', builtins.str:'exit(None)'), ndarray[<c8|(7, 1, "
                        '5)|000088c2000074c2000080c2000014c200008040000080bf00009a42000030410000c04100004041000080c00000384200006c42000034420000e0410000a0c2000010420000c242000014c20000a84100007cc2000080c20000744200008c420000c042000034c2000070c200007c420000c4c20000b2c200008042000040c1000018420000e8c10000a0c00000804100000442000044c2000044c20000ba420000c0c1000090c1000060410000bcc200001c42000084420000f0410000b0c100005c4200005842000030c10000a2c2000058420000a6c20000a6c20000b0420000c0400000bac20000a0c10000a642000030420000b0c20000a8c20000c2c2000050420000904200003cc20000a4c200008042000078c2])',
 'complex64[all,array]': 'list(list(builtins.str:"open((\'IMG\',), {\'mode\': \'rb\'})", '
                         "builtins.str:'enter', builtins.str:'seek(15, 0)', "
                         "builtins.str:'read(128)', builtins.str:'seek(147, 0)', "
                         "builtins.str:'read(128)', builtins.str:'seek(279, 0)', "
                         "builtins.str:'read(40)', builtins.str:'exit(None)'), ndarray[<c8|(7, "
                         '3)|000080c2000014c2000080c2000014c200009a420000304100006c420000344200006c4200003442000010420000c2420000744200008c420000744200008c42000070c200007c42000018420000e8c1000018420000e8c100000442000044c2000060410000bcc2000060410000bcc20000f0410000b0c1000058420000a6c2000058420000a6c20000c0400000bac20000a8c20000c2c20000a8c20000c2c200003cc20000a4c2])',
 'complex64[all,str]': 'list(list(builtins.str:"open((\'IMG\',), {\'mode\': \'rb\'})", '
                       "builtins.str:'enter', builtins.str:'seek(15, 0)', "
                       "builtins.str:'read(128)', builtins.str:'seek(147, 0)', "
                       "builtins.str:'read(128)', builtins.str:'seek(279, 0)', "
                       "builtins.str:'read(40)', builtins.str:'exit(None)'), raise "
                       'builtins.IndexError: only integers, slices (`:`), ellipsis (`...`), '
                       'numpy.newaxis (`None`) and integer or boolean arrays are valid indices)',
 'complex64[0:1,all]': 'list(list(builtins.str:"open((\'IMG\',), {\'mode\': \'rb\'})", '
                       "builtins.str:'enter', builtins.str:'seek(15, 0)', "
                       "builtins.str:'read(128)', builtins.str:'exit(None)'), ndarray[<c8|(1, "
                       '5)|000088c2000074c2000080c2000014c200008040000080bf00009a42000030410000c04100004041])',
 'complex64[0:1,0]': 'list(list(builtins.str:"open((\'IMG\',), {\'mode\': \'rb\'})", '
                     "builtins.str:'enter', builtins.str:'seek(15, 0)', builtins.str:'read(128)', "
                     "builtins.str:'exit(None)'), ndarray[<c8|(1,)|000088c2000074c2])",
 'complex64[0:1,-1]': 'list(list(builtins.str:"open((\'IMG\',), {\'mode\': \'rb\'})", '
                      "builtins.str:'enter', builtins.str:'seek(15, 0)', builtins.str:'read(128)', "
                      "builtins.str:'exit(None)'), ndarray[<c8|(1,)|0000c04100004041])",
 'complex64[0:1,5]': 'list(list(builtins.str:"open((\'IMG\',), {\'mode\': \'rb\'})", '
                     "builtins.str:'enter', builtins.str:'seek(15, 0)', builtins.str:'read(128)', "
                     "builtins.str:'exit(None)'), raise builtins.IndexError: index 5 is out of "
                     'bounds for axis 1 with size 5)',
 'complex64[0:1,1:4]': 'list(list(builtins.str:"open((\'IMG\',), {\'mode\': \'rb\'})", '
                       "builtins.str:'enter', builtins.str:'seek(15, 0)', "
                       "builtins.str:'read(128)', builtins.str:'exit(None)'), ndarray[<c8|(1, "
                       '3)|000080c2000014c200008040000080bf00009a4200003041])',
 'complex64[0:1,::2]': 'list(list(builtins.str:"open((\'IMG\',), {\'mode\': \'rb\'})", '
                       "builtins.str:'enter', builtins.str:'seek(15, 0)', "
                       "builtins.str:'read(128)', builtins.str:'exit(None)'), ndarray[<c8|(1, "
                       '3)|000088c2000074c200008040000080bf0000c04100004041])',
 'complex64[0:1,::-1]': 'list(list(builtins.str:"open((\'IMG\',), {\'mode\': \'rb\'})", '
                        "builtins.str:'enter', builtins.str:'seek(15, 0)', "
                        "builtins.str:'read(128)', builtins.str:'exit(None)'), ndarray[<c8|(1, "
                        '5)|0000c0410000404100009a420000304100008040000080bf000080c2000014c2000088c2000074c2])',
 'complex64[0:1,0:0]': 'list(list(builtins.str:"open((\'IMG\',), {\'mode\': \'rb\'})", '
                       "builtins.str:'enter', builtins.str:'seek(15, 0)', "
                       "builtins.str:'read(128)', builtins.str:'exit(None)'), ndarray[<c8|(1, "
                       '0)|])',
 'complex64[0:1,list]': 'list(list(builtins.str:"open((\'IMG\',), {\'mode\': \'rb\'})", '
                        "builtins.str:'enter', builtins.str:'seek(15, 0)', "
                        "builtins.str:'read(128)', builtins.str:'exit(None)'), ndarray[<c8|(1, "
                        '2)|000088c2000074c20000c04100004041])',
 'complex64[0:1,ellipsis]': 'list(list(builtins.str:"open((\'IMG\',), {\'mode\': \'rb\'})", '
                            "builtins.str:'enter', builtins.str:'seek(15, 0)', "
                            "builtins.str:'read(128)', builtins.str:'exit(None)'), ndarray[<c8|(1, "
                            '5)|000088c2000074c2000080c2000014c200008040000080bf00009a42000030410000c04100004041])',
 'complex64[0:1,none]': 'list(list(builtins.str:"open((\'IMG\',), {\'mode\': \'rb\'})", '
                        "builtins.str:'enter', builtins.str:'seek(15, 0)', "
                        "builtins.str:'read(128)', builtins.str:'exit(None)'), ndarray[<c8|(1, 1, "
                        '5)|000088c2000074c2000080c2000014c200008040000080bf00009a42000030410000c04100004041])',
 'complex64[0:1,array]': 'list(list(builtins.str:"open((\'IMG\',), {\'mode\': \'rb\'})", '
                         "builtins.str:'enter', builtins.str:'seek(15, 0)', "
                         "builtins.str:'read(128)', builtins.str:'exit(None)'), ndarray[<c8|(1, "
                         '3)|000080c2000014c2000080c2000014c200009a4200003041])',
 'complex64[0:1,str]': 'list(list(builtins.str:"open((\'IMG\',), {\'mode\': \'rb\'})", '
                       "builtins.str:'enter', builtins.str:'seek(15, 0)', "
                       "builtins.str:'read(128)', builtins.str:'exit(None)'), raise "
                       'builtins.IndexError: only integers, slices (`:`), ellipsis (`...`), '
                       'numpy.newaxis (`None`) and integer or boolean arrays are valid indices)',
 'complex64[2:5,all]': 'list(list(builtins.str:"open((\'IMG\',), {\'mode\': \'rb\'})", '
                       "builtins.str:'enter', builtins.str:'seek(15, 0)', "
                       "builtins.str:'read(128)', builtins.str:'seek(147, 0)', "
                       "builtins.str:'read(128)', builtins.str:'exit(None)'), ndarray[<c8|(3, "
                       '5)|00007cc2000080c20000744200008c420000c042000034c2000070c200007c420000c4c20000b2c200008042000040c1000018420000e8c10000a0c00000804100000442000044c2000044c20000ba420000c0c1000090c1000060410000bcc200001c42000084420000f0410000b0c100005c4200005842])',
 'complex64[2:5,0]': 'list(list(builtins.str:"open((\'IMG\',), {\'mode\': \'rb\'})", '
                     "builtins.str:'enter', builtins.str:'seek(15, 0)', builtins.str:'read(128)', "
                     "builtins.str:'seek(147, 0)', builtins.str:'read(128)', "
                     "builtins.str:'exit(None)'), "
                     'ndarray[<c8|(3,)|00007cc2000080c200008042000040c10000c0c1000090c1])',
 'complex64[2:5,-1]': 'list(list(builtins.str:"open((\'IMG\',), {\'mode\': \'rb\'})", '
                      "builtins.str:'enter', builtins.str:'seek(15, 0)', builtins.str:'read(128)', "
                      "builtins.str:'seek(147, 0)', builtins.str:'read(128)', "
                      "builtins.str:'exit(None)'), "
                      'ndarray[<c8|(3,)|0000c4c20000b2c2000044c20000ba4200005c4200005842])',
 'complex64[2:5,5]': 'list(list(builtins.str:"open((\'IMG\',), {\'mode\': \'rb\'})", '
                     "builtins.str:'enter', builtins.str:'seek(15, 0)', builtins.str:'read(128)', "
                     "builtins.str:'seek(147, 0)', builtins.str:'read(128)', "
                     "builtins.str:'exit(None)'), raise builtins.IndexError: index 5 is out of "
                     'bounds for axis 1 with size 5)',
 'complex64[2:5,1:4]': 'list(list(builtins.str:"open((\'IMG\',), {\'mode\': \'rb\'})", '
                       "builtins.str:'enter', builtins.str:'seek(15, 0)', "
                       "builtins.str:'read(128)', builtins.str:'seek(147, 0)', "
                       "builtins.str:'read(128)', builtins.str:'exit(None)'), ndarray[<c8|(3, "
                       '3)|0000744200008c420000c042000034c2000070c200007c42000018420000e8c10000a0c00000804100000442000044c2000060410000bcc200001c42000084420000f0410000b0c1])',
 'complex64[2:5,::2]': 'list(list(builtins.str:"open((\'IMG\',), {\'mode\': \'rb\'})", '
                       "builtins.str:'enter', builtins.str:'seek(15, 0)', "
                       "builtins.str:'read(128)', builtins.str:'seek(147, 0)', "
                       "builtins.str:'read(128)', builtins.str:'exit(None)'), ndarray[<c8|(3, "
                       '3)|00007cc2000080c20000c042000034c20000c4c20000b2c200008042000040c10000a0c000008041000044c20000ba420000c0c1000090c100001c420000844200005c4200005842])',
 'complex64[2:5,::-1]': 'list(list(builtins.str:"open((\'IMG\',), {\'mode\': \'rb\'})", '
                        "builtins.str:'enter', builtins.str:'seek(15, 0)', "
                        "builtins.str:'read(128)', builtins.str:'seek(147, 0)', "
                        "builtins.str:'read(128)', builtins.str:'exit(None)'), ndarray[<c8|(3, "
                        '5)|0000c4c20000b2c2000070c200007c420000c042000034c20000744200008c4200007cc2000080c2000044c20000ba4200000442000044c20000a0c000008041000018420000e8c100008042000040c100005c42000058420000f0410000b0c100001c4200008442000060410000bcc20000c0c1000090c1])',
 'complex64[2:5,0:0]': 'list(list(builtins.str:"open((\'IMG\',), {\'mode\': \'rb\'})", '
                       "builtins.str:'enter', builtins.str:'seek(15, 0)', "
                       "builtins.str:'read(128)', builtins.str:'seek(147, 0)', "
                       "builtins.str:'read(128)', builtins.str:'exit(None)'), ndarray[<c8|(3, "
                       '0)|])',
 'complex64[2:5,list]': 'list(list(builtins.str:"open((\'IMG\',), {\'mode\': \'rb\'})", '
                        "builtins.str:'enter', builtins.str:'seek(15, 0)', "
                        "builtins.str:'read(128)', builtins.str:'seek(147, 0)', "
                        "builtins.str:'read(128)', builtins.str:'exit(None)'), ndarray[<c8|(3, "
                        '2)|00007cc2000080c20000c4c20000b2c200008042000040c1000044c20000ba420000c0c1000090c100005c4200005842])',
 'complex64[2:5,ellipsis]': 'list(list(builtins.str:"open((\'IMG\',), {\'mode\': \'rb\'})", '
                            "builtins.str:'enter', builtins.str:'seek(15, 0)', "
                            "builtins.str:'read(128)', builtins.str:'seek(147, 0)', "
                            "builtins.str:'read(128)', builtins.str:'exit(None)'), ndarray[<c8|(3, "
                            '5)|00007cc2000080c20000744200008c420000c042000034c2000070c200007c420000c4c20000b2c200008042000040c1000018420000e8c10000a0c00000804100000442000044c2000044c20000ba420000c0c1000090c1000060410000bcc200001c42000084420000f0410000b0c100005c4200005842])',
 'complex64[2:5,none]': 'list(list(builtins.str:"open((\'IMG\',), {\'mode\': \'rb\'})", '
                        "builtins.str:'enter', builtins.str:'seek(15, 0)', "
                        "builtins.str:'read(128)', builtins.str:'seek(147, 0)', "
                        "builtins.str:'read(128)', builtins.str:'exit(None)'), ndarray[<c8|(3, 1, "
                        '5)|00007cc2000080c20000744200008c420000c042000034c2000070c200007c420000c4c20000b2c200008042000040c1000018420000e8c10000a0c00000804100000442000044c2000044c20000ba420000c0c1000090c1000060410000bcc200001c42000084420000f0410000b0c100005c4200005842])',
 'complex64[2:5,array]': 'list(list(builtins.str:"open((\'IMG\',), {\'mode\': \'rb\'})", '
                         "builtins.str:'enter', builtins.str:'seek(15, 0)', "
                         "builtins.str:'read(128)', builtins.str:'seek(147, 0)', "
                         "builtins.str:'read(128)', builtins.str:'exit(None)'), ndarray[<c8|(3, "
                         '3)|0000744200008c420000744200008c42000070c200007c42000018420000e8c1000018420000e8c100000442000044c2000060410000bcc2000060410000bcc20000f0410000b0c1])',
 'complex64[2:5,str]': 'list(list(builtins.str:"open((\'IMG\',), {\'mode\': \'rb\'})", '
                       "builtins.str:'enter', builtins.str:'seek(15, 0)', "
                       "builtins.str:'read(128)', builtins.str:'seek(147, 0)', "
                       "builtins.str:'read(128)', builtins.str:'exit(None)'), raise "
                       'builtins.IndexError: only integers, slices (`:`), ellipsis (`...`), '
                       'numpy.newaxis (`None`) and integer or boolean arrays are valid indices)',
 'complex64[3:,all]': 'list(list(builtins.str:"open((\'IMG\',), {\'mode\': \'rb\'})", '
                      "builtins.str:'enter', builtins.str:'seek(147, 0)', "
                      "builtins.str:'read(128)', builtins.str:'seek(279, 0)', "
                      "builtins.str:'read(40)', builtins.str:'exit(None)'), ndarray[<c8|(4, "
                      '5)|00008042000040c1000018420000e8c10000a0c00000804100000442000044c2000044c20000ba420000c0c1000090c1000060410000bcc200001c42000084420000f0410000b0c100005c4200005842000030c10000a2c2000058420000a6c20000a6c20000b0420000c0400000bac20000a0c10000a642000030420000b0c20000a8c20000c2c2000050420000904200003cc20000a4c200008042000078c2])',
 'complex64[3:,0]': 'list(list(builtins.str:"open((\'IMG\',), {\'mode\': \'rb\'})", '
                    "builtins.str:'enter', builtins.str:'seek(147, 0)', builtins.str:'read(128)', "
                    "builtins.str:'seek(279, 0)', builtins.str:'read(40)', "
                    "builtins.str:'exit(None)'), "
                    'ndarray[<c8|(4,)|00008042000040c10000c0c1000090c1000030c10000a2c2000030420000b0c2])',
 'complex64[3:,-1]': 'list(list(builtins.str:"open((\'IMG\',), {\'mode\': \'rb\'})", '
                     "builtins.str:'enter', builtins.str:'seek(147, 0)', builtins.str:'read(128)', "
                     "builtins.str:'seek(279, 0)', builtins.str:'read(40)', "
                     "builtins.str:'exit(None)'), "
                     'ndarray[<c8|(4,)|000044c20000ba4200005c42000058420000a0c10000a64200008042000078c2])',
 'complex64[3:,5]': 'list(list(builtins.str:"open((\'IMG\',), {\'mode\': \'rb\'})", '
                    "builtins.str:'enter', builtins.str:'seek(147, 0)', builtins.str:'read(128)', "
                    "builtins.str:'seek(279, 0)', builtins.str:'read(40)', "
                    "builtins.str:'exit(None)'), raise builtins.IndexError: index 5 is out of "
                    'bounds for axis 1 with size 5)',
 'complex64[3:,1:4]': 'list(list(builtins.str:"open((\'IMG\',), {\'mode\': \'rb\'})", '
                      "builtins.str:'enter', builtins.str:'seek(147, 0)', "
                      "builtins.str:'read(128)', builtins.str:'seek(279, 0)', "
                      "builtins.str:'read(40)', builtins.str:'exit(None)'), ndarray[<c8|(4, "
                      '3)|000018420000e8c10000a0c00000804100000442000044c2000060410000bcc200001c42000084420000f0410000b0c1000058420000a6c20000a6c20000b0420000c0400000bac20000a8c20000c2c2000050420000904200003cc20000a4c2])',
 'complex64[3:,::2]': 'list(list(builtins.str:"open((\'IMG\',), {\'mode\': \'rb\'})", '
                      "builtins.str:'enter', builtins.str:'seek(147, 0)', "
                      "builtins.str:'read(128)', builtins.str:'seek(279, 0)', "
                      "builtins.str:'read(40)', builtins.str:'exit(None)'), ndarray[<c8|(4, "
                      '3)|00008042000040c10000a0c000008041000044c20000ba420000c0c1000090c100001c420000844200005c4200005842000030c10000a2c20000a6c20000b0420000a0c10000a642000030420000b0c2000050420000904200008042000078c2])',
 'complex64[3:,::-1]': 'list(list(builtins.str:"open((\'IMG\',), {\'mode\': \'rb\'})", '
                       "builtins.str:'enter', builtins.str:'seek(147, 0)', "
                       "builtins.str:'read(128)', builtins.str:'seek(279, 0)', "
                       "builtins.str:'read(40)', builtins.str:'exit(None)'), ndarray[<c8|(4, "
                       '5)|000044c20000ba4200000442000044c20000a0c000008041000018420000e8c100008042000040c100005c42000058420000f0410000b0c100001c4200008442000060410000bcc20000c0c1000090c10000a0c10000a6420000c0400000bac20000a6c20000b042000058420000a6c2000030c10000a2c200008042000078c200003cc20000a4c200005042000090420000a8c20000c2c2000030420000b0c2])',
 'complex64[3:,0:0]': 'list(list(builtins.str:"open((\'IMG\',), {\'mode\': \'rb\'})", '
                      "builtins.str:'enter', builtins.str:'seek(147, 0)', "
                      "builtins.str:'read(128)', builtins.str:'seek(279, 0)', "
                      "builtins.str:'read(40)', builtins.str:'exit(None)'), ndarray[<c8|(4, 0)|])",
 'complex64[3:,list]': 'list(list(builtins.str:"open((\'IMG\',), {\'mode\': \'rb\'})", '
                       "builtins.str:'enter', builtins.str:'seek(147, 0)', "
                       "builtins.str:'read(128)', builtins.str:'seek(279, 0)', "
                       "builtins.str:'read(40)', builtins.str:'exit(None)'), ndarray[<c8|(4, "
                       '2)|00008042000040c1000044c20000ba420000c0c1000090c100005c4200005842000030c10000a2c20000a0c10000a642000030420000b0c200008042000078c2])',
 'complex64[3:,ellipsis]': 'list(list(builtins.str:"open((\'IMG\',), {\'mode\': \'rb\'})", '
                           "builtins.str:'enter', builtins.str:'seek(147, 0)', "
                           "builtins.str:'read(128)', builtins.str:'seek(279, 0)', "
                           "builtins.str:'read(40)', builtins.str:'exit(None)'), ndarray[<c8|(4, "
                           '5)|00008042000040c1000018420000e8c10000a0c00000804100000442000044c2000044c20000ba420000c0c1000090c1000060410000bcc200001c42000084420000f0410000b0c100005c4200005842000030c10000a2c2000058420000a6c20000a6c20000b0420000c0400000bac20000a0c10000a642000030420000b0c20000a8c20000c2c2000050420000904200003cc20000a4c200008042000078c2])',
 'complex64[3:,none]': 'list(list(builtins.str:"open((\'IMG\',), {\'mode\': \'rb\'})", '
                       "builtins.str:'enter', builtins.str:'seek(147, 0)', "
                       "builtins.str:'read(128)', builtins.str:'seek(279, 0)', "
                       "builtins.str:'read(40)', builtins.str:'exit(None)'), ndarray[<c8|(4, 1, "
                       '5)|00008042000040c1000018420000e8c10000a0c00000804100000442000044c2000044c20000ba420000c0c1000090c1000060410000bcc200001c42000084420000f0410000b0c100005c4200005842000030c10000a2c2000058420000a6c20000a6c20000b0420000c0400000bac20000a0c10000a642000030420000b0c20000a8c20000c2c2000050420000904200003cc20000a4c200008042000078c2])',
 'complex64[3:,array]': 'list(list(builtins.str:"open((\'IMG\',), {\'mode\': \'rb\'})", '
                        "builtins.str:'enter', builtins.str:'seek(147, 0)', "
                        "builtins.str:'read(128)', builtins.str:'seek(279, 0)', "
                        "builtins.str:'read(40)', builtins.str:'exit(None)'), ndarray[<c8|(4, "
                        '3)|000018420000e8c1000018420000e8c100000442000044c2000060410000bcc2000060410000bcc20000f0410000b0c1000058420000a6c2000058420000a6c20000c0400000bac20000a8c20000c2c20000a8c20000c2c200003cc20000a4c2])',
 'complex64[3:,str]': 'list(list(builtins.str:"open((\'IMG\',), {\'mode\': \'rb\'})", '
                      "builtins.str:'enter', builtins.str:'seek(147, 0)', "
                      "builtins.str:'read(128)', builtins.str:'seek(279, 0)', "
                      "builtins.str:'read(40)', builtins.str:'exit(None)'), raise "
                      'builtins.IndexError: only integers, slices (`:`), ellipsis (`...`), '
                      'numpy.newaxis (`None`) and integer or boolean arrays are valid indices)',
 'complex64[:3,all]': 'list(list(builtins.str:"open((\'IMG\',), {\'mode\': \'rb\'})", '
                      "builtins.str:'enter', builtins.str:'seek(15, 0)', builtins.str:'read(128)', "
                      "builtins.str:'exit(None)'), ndarray[<c8|(3, "
                      '5)|000088c2000074c2000080c2000014c200008040000080bf00009a42000030410000c04100004041000080c00000384200006c42000034420000e0410000a0c2000010420000c242000014c20000a84100007cc2000080c20000744200008c420000c042000034c2000070c200007c420000c4c20000b2c2])',
 'complex64[:3,0]': 'list(list(builtins.str:"open((\'IMG\',), {\'mode\': \'rb\'})", '
                    "builtins.str:'enter', builtins.str:'seek(15, 0)', builtins.str:'read(128)', "
                    "builtins.str:'exit(None)'), "
                    'ndarray[<c8|(3,)|000088c2000074c2000080c00000384200007cc2000080c2])',
 'complex64[:3,-1]': 'list(list(builtins.str:"open((\'IMG\',), {\'mode\': \'rb\'})", '
                     "builtins.str:'enter', builtins.str:'seek(15, 0)', builtins.str:'read(128)', "
                     "builtins.str:'exit(None)'), "
                     'ndarray[<c8|(3,)|0000c04100004041000014c20000a8410000c4c20000b2c2])',
 'complex64[:3,5]': 'list(list(builtins.str:"open((\'IMG\',), {\'mode\': \'rb\'})", '
                    "builtins.str:'enter', builtins.str:'seek(15, 0)', builtins.str:'read(128)', "
                    "builtins.str:'exit(None)'), raise builtins.IndexError: index 5 is out of "
                    'bounds for axis 1 with size 5)',
 'complex64[:3,1:4]': 'list(list(builtins.str:"open((\'IMG\',), {\'mode\': \'rb\'})", '
                      "builtins.str:'enter', builtins.str:'seek(15, 0)', builtins.str:'read(128)', "
                      "builtins.str:'exit(None)'), ndarray[<c8|(3, "
                      '3)|000080c2000014c200008040000080bf00009a420000304100006c42000034420000e0410000a0c2000010420000c2420000744200008c420000c042000034c2000070c200007c42])',
 'complex64[:3,::2]': 'list(list(builtins.str:"open((\'IMG\',), {\'mode\': \'rb\'})", '
                      "builtins.str:'enter', builtins.str:'seek(15, 0)', builtins.str:'read(128)', "
                      "builtins.str:'exit(None)'), ndarray[<c8|(3, "
                      '3)|000088c2000074c200008040000080bf0000c04100004041000080c0000038420000e0410000a0c2000014c20000a84100007cc2000080c20000c042000034c20000c4c20000b2c2])',
 'complex64[:3,::-1]': 'list(list(builtins.str:"open((\'IMG\',), {\'mode\': \'rb\'})", '
                       "builtins.str:'enter', builtins.str:'seek(15, 0)', "
                       "builtins.str:'read(128)', builtins.str:'exit(None)'), ndarray[<c8|(3, "
                       '5)|0000c0410000404100009a420000304100008040000080bf000080c2000014c2000088c2000074c2000014c20000a841000010420000c2420000e0410000a0c200006c4200003442000080c0000038420000c4c20000b2c2000070c200007c420000c042000034c20000744200008c4200007cc2000080c2])',
 'complex64[:3,0:0]': 'list(list(builtins.str:"open((\'IMG\',), {\'mode\': \'rb\'})", '
                      "builtins.str:'enter', builtins.str:'seek(15, 0)', builtins.str:'read(128)', "
                      "builtins.str:'exit(None)'), ndarray[<c8|(3, 0)|])",
 'complex64[:3,list]': 'list(list(builtins.str:"open((\'IMG\',), {\'mode\': \'rb\'})", '
                       "builtins.str:'enter', builtins.str:'seek(15, 0)', "
                       "builtins.str:'read(128)', builtins.str:'exit(None)'), ndarray[<c8|(3, "
                       '2)|000088c2000074c20000c04100004041000080c000003842000014c20000a84100007cc2000080c20000c4c20000b2c2])',
 'complex64[:3,ellipsis]': 'list(list(builtins.str:"open((\'IMG\',), {\'mode\': \'rb\'})", '
                           "builtins.str:'enter', builtins.str:'seek(15, 0)', "
                           "builtins.str:'read(128)', builtins.str:'exit(None)'), ndarray[<c8|(3, "
                           '5)|000088c2000074c2000080c2000014c200008040000080bf00009a42000030410000c04100004041000080c00000384200006c42000034420000e0410000a0c2000010420000c242000014c20000a84100007cc2000080c20000744200008c420000c042000034c2000070c200007c420000c4c20000b2c2])',
 'complex64[:3,none]': 'list(list(builtins.str:"open((\'IMG\',), {\'mode\': \'rb\'})", '
                       "builtins.str:'enter', builtins.str:'seek(15, 0)', "
                       "builtins.str:'read(128)', builtins.str:'exit(None)'), ndarray[<c8|(3, 1, "
                       '5)|000088c2000074c2000080c2000014c200008040000080bf00009a42000030410000c04100004041000080c00000384200006c42000034420000e0410000a0c2000010420000c242000014c20000a84100007cc2000080c20000744200008c420000c042000034c2000070c200007c420000c4c20000b2c2])',
 'complex64[:3,array]': 'list(list(builtins.str:"open((\'IMG\',), {\'mode\': \'rb\'})", '
                        "builtins.str:'enter', builtins.str:'seek(15, 0)', "
                        "builtins.str:'read(128)', builtins.str:'exit(None)'), ndarray[<c8|(3, "
                        '3)|000080c2000014c2000080c2000014c200009a420000304100006c420000344200006c4200003442000010420000c2420000744200008c420000744200008c42000070c200007c42])',
 'complex64[:3,str]': 'list(list(builtins.str:"open((\'IMG\',), {\'mode\': \'rb\'})", '
                      "builtins.str:'enter', builtins.str:'seek(15, 0)', builtins.str:'read(128)', "
                      "builtins.str:'exit(None)'), raise builtins.IndexError: only integers, "
                      'slices (`:`), ellipsis (`...`), numpy.newaxis (`None`) and integer or '
                      'boolean arrays are valid indices)',
 'complex64[::2,all]': 'list(list(builtins.str:"open((\'IMG\',), {\'mode\': \'rb\'})", '
                       "builtins.str:'enter', builtins.str:'seek(15, 0)', "
                       "builtins.str:'read(128)', builtins.str:'seek(147, 0)', "
                       "builtins.str:'read(128)', builtins.str:'seek(279, 0)', "
                       "builtins.str:'read(40)', builtins.str:'exit(None)'), ndarray[<c8|(4, "
                       '5)|000088c2000074c2000080c2000014c200008040000080bf00009a42000030410000c0410000404100007cc2000080c20000744200008c420000c042000034c2000070c200007c420000c4c20000b2c20000c0c1000090c1000060410000bcc200001c42000084420000f0410000b0c100005c4200005842000030420000b0c20000a8c20000c2c2000050420000904200003cc20000a4c200008042000078c2])',
 'complex64[::2,0]': 'list(list(builtins.str:"open((\'IMG\',), {\'mode\': \'rb\'})", '
                     "builtins.str:'enter', builtins.str:'seek(15, 0)', builtins.str:'read(128)', "
                     "builtins.str:'seek(147, 0)', builtins.str:'read(128)', "
                     "builtins.str:'seek(279, 0)', builtins.str:'read(40)', "
                     "builtins.str:'exit(None)'), "
                     'ndarray[<c8|(4,)|000088c2000074c200007cc2000080c20000c0c1000090c1000030420000b0c2])',
 'complex64[::2,-1]': 'list(list(builtins.str:"open((\'IMG\',), {\'mode\': \'rb\'})", '
                      "builtins.str:'enter', builtins.str:'seek(15, 0)', builtins.str:'read(128)', "
                      "builtins.str:'seek(147, 0)', builtins.str:'read(128)', "
                      "builtins.str:'seek(279, 0)', builtins.str:'read(40)', "
                      "builtins.str:'exit(None)'), "
                      'ndarray[<c8|(4,)|0000c041000040410000c4c20000b2c200005c420000584200008042000078c2])',
 'complex64[::2,5]': 'list(list(builtins.str:"open((\'IMG\',), {\'mode\': \'rb\'})", '
                     "builtins.str:'enter', builtins.str:'seek(15, 0)', builtins.str:'read(128)', "
                     "builtins.str:'seek(147, 0)', builtins.str:'read(128)', "
                     "builtins.str:'seek(279, 0)', builtins.str:'read(40)', "
                     "builtins.str:'exit(None)'), raise builtins.IndexError: index 5 is out of "
                     'bounds for axis 1 with size 5)',
 'complex64[::2,1:4]': 'list(list(builtins.str:"open((\'IMG\',), {\'mode\': \'rb\'})", '
                       "builtins.str:'enter', builtins.str:'seek(15, 0)', "
                       "builtins.str:'read(128)', builtins.str:'seek(147, 0)', "
                       "builtins.str:'read(128)', builtins.str:'seek(279, 0)', "
                       "builtins.str:'read(40)', builtins.str:'exit(None)'), ndarray[<c8|(4, "
                       '3)|000080c2000014c200008040000080bf00009a42000030410000744200008c420000c042000034c2000070c200007c42000060410000bcc200001c42000084420000f0410000b0c10000a8c20000c2c2000050420000904200003cc20000a4c2])',
 'complex64[::2,::2]': 'list(list(builtins.str:"open((\'IMG\',), {\'mode\': \'rb\'})", '
                       "builtins.str:'enter', builtins.str:'seek(15, 0)', "
                       "builtins.str:'read(128)', builtins.str:'seek(147, 0)', "
                       "builtins.str:'read(128)', builtins.str:'seek(279, 0)', "
                       "builtins.str:'read(40)', builtins.str:'exit(None)'), ndarray[<c8|(4, "
                       '3)|000088c2000074c200008040000080bf0000c0410000404100007cc2000080c20000c042000034c20000c4c20000b2c20000c0c1000090c100001c420000844200005c4200005842000030420000b0c2000050420000904200008042000078c2])',
 'complex64[::2,::-1]': 'list(list(builtins.str:"open((\'IMG\',), {\'mode\': \'rb\'})", '
                        "builtins.str:'enter', builtins.str:'seek(15, 0)', "
                        "builtins.str:'read(128)', builtins.str:'seek(147, 0)', "
                        "builtins.str:'read(128)', builtins.str:'seek(279, 0)', "
                        "builtins.str:'read(40)', builtins.str:'exit(None)'), ndarray[<c8|(4, "
                        '5)|0000c0410000404100009a420000304100008040000080bf000080c2000014c2000088c2000074c20000c4c20000b2c2000070c200007c420000c042000034c20000744200008c4200007cc2000080c200005c42000058420000f0410000b0c100001c4200008442000060410000bcc20000c0c1000090c100008042000078c200003cc20000a4c200005042000090420000a8c20000c2c2000030420000b0c2])',
 'complex64[::2,0:0]': 'list(list(builtins.str:"open((\'IMG\',), {\'mode\': \'rb\'})", '
                       "builtins.str:'enter', builtins.str:'seek(15, 0)', "
                       "builtins.str:'read(128)', builtins.str:'seek(147, 0)', "
                       "builtins.str:'read(128)', builtins.str:'seek(279, 0)', "
                       "builtins.str:'read(40)', builtins.str:'exit(None)'), ndarray[<c8|(4, 0)|])",
 'complex64[::2,list]': 'list(list(builtins.str:"open((\'IMG\',), {\'mode\': \'rb\'})", '
                        "builtins.str:'enter', builtins.str:'seek(15, 0)', "
                        "builtins.str:'read(128)', builtins.str:'seek(147, 0)', "
                        "builtins.str:'read(128)', builtins.str:'seek(279, 0)', "
                        "builtins.str:'read(40)', builtins.str:'exit(None)'), ndarray[<c8|(4, "
                        '2)|000088c2000074c20000c0410000404100007cc2000080c20000c4c20000b2c20000c0c1000090c100005c4200005842000030420000b0c200008042000078c2])',
 'complex64[::2,ellipsis]': 'list(list(builtins.str:"open((\'IMG\',), {\'mode\': \'rb\'})", '
                            "builtins.str:'enter', builtins.str:'seek(15, 0)', "
                            "builtins.str:'read(128)', builtins.str:'seek(147, 0)', "
                            "builtins.str:'read(128)', builtins.str:'seek(279, 0)', "
                            "builtins.str:'read(40)', builtins.str:'exit(None)'), ndarray[<c8|(4, "
                            '5)|000088c2000074c2000080c2000014c200008040000080bf00009a42000030410000c0410000404100007cc2000080c20000744200008c420000c042000034c2000070c200007c420000c4c20000b2c20000c0c1000090c1000060410000bcc200001c42000084420000f0410000b0c100005c4200005842000030420000b0c20000a8c20000c2c2000050420000904200003cc20000a4c200008042000078c2])',
 'complex64[::2,none]': 'list(list(builtins.str:"open((\'IMG\',), {\'mode\': \'rb\'})", '
                        "builtins.str:'enter', builtins.str:'seek(15, 0)', "
                        "builtins.str:'read(128)', builtins.str:'seek(147, 0)', "
                        "builtins.str:'read(128)', builtins.str:'seek(279, 0)', "
                        "builtins.str:'read(40)', builtins.str:'exit(None)'), ndarray[<c8|(4, 1, "
                        '5)|000088c2000074c2000080c2000014c200008040000080bf00009a42000030410000c0410000404100007cc2000080c20000744200008c420000c042000034c2000070c200007c420000c4c20000b2c20000c0c1000090c1000060410000bcc200001c42000084420000f0410000b0c100005c4200005842000030420000b0c20000a8c20000c2c2000050420000904200003cc20000a4c200008042000078c2])',
 'complex64[::2,array]': 'list(list(builtins.str:"open((\'IMG\',), {\'mode\': \'rb\'})", '
                         "builtins.str:'enter', builtins.str:'seek(15, 0)', "
                         "builtins.str:'read(128)', builtins.str:'seek(147, 0)', "
                         "builtins.str:'read(128)', builtins.str:'seek(279, 0)', "
                         "builtins.str:'read(40)', builtins.str:'exit(None)'), ndarray[<c8|(4, "
                         '3)|000080c2000014c2000080c2000014c200009a42000030410000744200008c420000744200008c42000070c200007c42000060410000bcc2000060410000bcc20000f0410000b0c10000a8c20000c2c20000a8c20000c2c200003cc20000a4c2])',
 'complex64[::2,str]': 'list(list(builtins.str:"open((\'IMG\',), {\'mode\': \'rb\'})", '
                       "builtins.str:'enter', builtins.str:'seek(15, 0)', "
                       "builtins.str:'read(128)', builtins.str:'seek(147, 0)', "
                       "builtins.str:'read(128)', builtins.str:'seek(279, 0)', "
                       "builtins.str:'read(40)', builtins.str:'exit(None)'), raise "
                       'builtins.IndexError: only integers, slices (`:`), ellipsis (`...`), '
                       'numpy.newaxis (`None`) and integer or boolean arrays are valid indices)',
 'complex64[::-1,all]': 'list(list(builtins.str:"open((\'IMG\',), {\'mode\': \'rb\'})", '
                        "builtins.str:'enter', builtins.str:'seek(279, 0)', "
                        "builtins.str:'read(40)', builtins.str:'seek(147, 0)', "
                        "builtins.str:'read(128)', builtins.str:'seek(15, 0)', "
                        "builtins.str:'read(128)', builtins.str:'exit(None)'), ndarray[<c8|(7, "
                        '5)|000030420000b0c20000a8c20000c2c2000050420000904200003cc20000a4c200008042000078c2000030c10000a2c2000058420000a6c20000a6c20000b0420000c0400000bac20000a0c10000a6420000c0c1000090c1000060410000bcc200001c42000084420000f0410000b0c100005c420000584200008042000040c1000018420000e8c10000a0c00000804100000442000044c2000044c20000ba4200007cc2000080c20000744200008c420000c042000034c2000070c200007c420000c4c20000b2c2000080c00000384200006c42000034420000e0410000a0c2000010420000c242000014c20000a841000088c2000074c2000080c2000014c200008040000080bf00009a42000030410000c04100004041])',
 'complex64[::-1,0]': 'list(list(builtins.str:"open((\'IMG\',), {\'mode\': \'rb\'})", '
                      "builtins.str:'enter', builtins.str:'seek(279, 0)', builtins.str:'read(40)', "
                      "builtins.str:'seek(147, 0)', builtins.str:'read(128)', "
                      "builtins.str:'seek(15, 0)', builtins.str:'read(128)', "
                      "builtins.str:'exit(None)'), "
                      'ndarray[<c8|(7,)|000030420000b0c2000030c10000a2c20000c0c1000090c100008042000040c100007cc2000080c2000080c000003842000088c2000074c2])',
 'complex64[::-1,-1]': 'list(list(builtins.str:"open((\'IMG\',), {\'mode\': \'rb\'})", '
                       "builtins.str:'enter', builtins.str:'seek(279, 0)', "
                       "builtins.str:'read(40)', builtins.str:'seek(147, 0)', "
                       "builtins.str:'read(128)', builtins.str:'seek(15, 0)', "
                       "builtins.str:'read(128)', builtins.str:'exit(None)'), "
                       'ndarray[<c8|(7,)|00008042000078c20000a0c10000a64200005c4200005842000044c20000ba420000c4c20000b2c2000014c20000a8410000c04100004041])',
 'complex64[::-1,5]': 'list(list(builtins.str:"open((\'IMG\',), {\'mode\': \'rb\'})", '
                      "builtins.str:'enter', builtins.str:'seek(279, 0)', builtins.str:'read(40)', "
                      "builtins.str:'seek(147, 0)', builtins.str:'read(128)', "
                      "builtins.str:'seek(15, 0)', builtins.str:'read(128)', "
                      "builtins.str:'exit(None)'), raise builtins.IndexError: index 5 is out of "
                      'bounds for axis 1 with size 5)',
 'complex64[::-1,1:4]': 'list(list(builtins.str:"open((\'IMG\',), {\'mode\': \'rb\'})", '
                        "builtins.str:'enter', builtins.str:'seek(279, 0)', "
                        "builtins.str:'read(40)', builtins.str:'seek(147, 0)', "
                        "builtins.str:'read(128)', builtins.str:'seek(15, 0)', "
                        "builtins.str:'read(128)', builtins.str:'exit(None)'), ndarray[<c8|(7, "
                        '3)|0000a8c20000c2c2000050420000904200003cc20000a4c2000058420000a6c20000a6c20000b0420000c0400000bac2000060410000bcc200001c42000084420000f0410000b0c1000018420000e8c10000a0c00000804100000442000044c20000744200008c420000c042000034c2000070c200007c4200006c42000034420000e0410000a0c2000010420000c242000080c2000014c200008040000080bf00009a4200003041])',
 'complex64[::-1,::2]': 'list(list(builtins.str:"open((\'IMG\',), {\'mode\': \'rb\'})", '
                        "builtins.str:'enter', builtins.str:'seek(279, 0)', "
                        "builtins.str:'read(40)', builtins.str:'seek(147, 0)', "
                        "builtins.str:'read(128)', builtins.str:'seek(15, 0)', "
                        "builtins.str:'read(128)', builtins.str:'exit(None)'), ndarray[<c8|(7, "
                        '3)|000030420000b0c2000050420000904200008042000078c2000030c10000a2c20000a6c20000b0420000a0c10000a6420000c0c1000090c100001c420000844200005c420000584200008042000040c10000a0c000008041000044c20000ba4200007cc2000080c20000c042000034c20000c4c20000b2c2000080c0000038420000e0410000a0c2000014c20000a841000088c2000074c200008040000080bf0000c04100004041])',
 'complex64[::-1,::-1]': 'list(list(builtins.str:"open((\'IMG\',), {\'mode\': \'rb\'})", '
                         "builtins.str:'enter', builtins.str:'seek(279, 0)', "
                         "builtins.str:'read(40)', builtins.str:'seek(147, 0)', "
                         "builtins.str:'read(128)', builtins.str:'seek(15, 0)', "
                         "builtins.str:'read(128)', builtins.str:'exit(None)'), ndarray[<c8|(7, "
                         '5)|00008042000078c200003cc20000a4c200005042000090420000a8c20000c2c2000030420000b0c20000a0c10000a6420000c0400000bac20000a6c20000b042000058420000a6c2000030c10000a2c200005c42000058420000f0410000b0c100001c4200008442000060410000bcc20000c0c1000090c1000044c20000ba4200000442000044c20000a0c000008041000018420000e8c100008042000040c10000c4c20000b2c2000070c200007c420000c042000034c20000744200008c4200007cc2000080c2000014c20000a841000010420000c2420000e0410000a0c200006c4200003442000080c0000038420000c0410000404100009a420000304100008040000080bf000080c2000014c2000088c2000074c2])',
 'complex64[::-1,0:0]': 'list(list(builtins.str:"open((\'IMG\',), {\'mode\': \'rb\'})", '
                        "builtins.str:'enter', builtins.str:'seek(279, 0)', "
                        "builtins.str:'read(40)', builtins.str:'seek(147, 0)', "
                        "builtins.str:'read(128)', builtins.str:'seek(15, 0)', "
                        "builtins.str:'read(128)', builtins.str:'exit(None)'), ndarray[<c8|(7, "
                        '0)|])',
 'complex64[::-1,list]': 'list(list(builtins.str:"open((\'IMG\',), {\'mode\': \'rb\'})", '
                         "builtins.str:'enter', builtins.str:'seek(279, 0)', "
                         "builtins.str:'read(40)', builtins.str:'seek(147, 0)', "
                         "builtins.str:'read(128)', builtins.str:'seek(15, 0)', "
                         "builtins.str:'read(128)', builtins.str:'exit(None)'), ndarray[<c8|(7, "
                         '2)|000030420000b0c200008042000078c2000030c10000a2c20000a0c10000a6420000c0c1000090c100005c420000584200008042000040c1000044c20000ba4200007cc2000080c20000c4c20000b2c2000080c000003842000014c20000a841000088c2000074c20000c04100004041])',
 'complex64[::-1,ellipsis]': 'list(list(builtins.str:"open((\'IMG\',), {\'mode\': \'rb\'})", '
                             "builtins.str:'enter', builtins.str:'seek(279, 0)', "
                             "builtins.str:'read(40)', builtins.str:'seek(147, 0)', "
                             "builtins.str:'read(128)', builtins.str:'seek(15, 0)', "
                             "builtins.str:'read(128)', builtins.str:'exit(None)'), "
                             'ndarray[<c8|(7, '
                             '5)|000030420000b0c20000a8c20000c2c2000050420000904200003cc20000a4c200008042000078c2000030c10000a2c2000058420000a6c20000a6c20000b0420000c0400000bac20000a0c10000a6420000c0c1000090c1000060410000bcc200001c42000084420000f0410000b0c100005c420000584200008042000040c1000018420000e8c10000a0c00000804100000442000044c2000044c20000ba4200007cc2000080c20000744200008c420000c042000034c2000070c200007c420000c4c20000b2c2000080c00000384200006c42000034420000e0410000a0c2000010420000c242000014c20000a841000088c2000074c2000080c2000014c200008040000080bf00009a42000030410000c04100004041])',
 'complex64[::-1,none]': 'list(list(builtins.str:"open((\'IMG\',), {\'mode\': \'rb\'})", '
                         "builtins.str:'enter', builtins.str:'seek(279, 0)', "
                         "builtins.str:'read(40)', builtins.str:'seek(147, 0)', "
                         "builtins.str:'read(128)', builtins.str:'seek(15, 0)', "
                         "builtins.str:'read(128)', builtins.str:'exit(None)'), ndarray[<c8|(7, 1, "
                         '5)|000030420000b0c20000a8c20000c2c2000050420000904200003cc20000a4c200008042000078c2000030c10000a2c2000058420000a6c20000a6c20000b0420000c0400000bac20000a0c10000a6420000c0c1000090c1000060410000bcc200001c42000084420000f0410000b0c100005c420000584200008042000040c1000018420000e8c10000a0c00000804100000442000044c2000044c20000ba4200007cc2000080c20000744200008c420000c042000034c2000070c200007c420000c4c20000b2c2000080c00000384200006c42000034420000e0410000a0c2000010420000c242000014c20000a841000088c2000074c2000080c2000014c200008040000080bf00009a42000030410000c04100004041])',
 'complex64[::-1,array]': 'list(list(builtins.str:"open((\'IMG\',), {\'mode\': \'rb\'})", '
                          "builtins.str:'enter', builtins.str:'seek(279, 0)', "
                          "builtins.str:'read(40)', builtins.str:'seek(147, 0)', "
                          "builtins.str:'read(128)', builtins.str:'seek(15, 0)', "
                          "builtins.str:'read(128)', builtins.str:'exit(None)'), ndarray[<c8|(7, "
                          '3)|0000a8c20000c2c20000a8c20000c2c200003cc20000a4c2000058420000a6c2000058420000a6c20000c0400000bac2000060410000bcc2000060410000bcc20000f0410000b0c1000018420000e8c1000018420000e8c100000442000044c20000744200008c420000744200008c42000070c200007c4200006c420000344200006c4200003442000010420000c242000080c2000014c2000080c2000014c200009a4200003041])',
 'complex64[::-1,str]': 'list(list(builtins.str:"open((\'IMG\',), {\'mode\': \'rb\'})", '
                        "builtins.str:'enter', builtins.str:'seek(279, 0)', "
                        "builtins.str:'read(40)', builtins.str:'seek(147, 0)', "
                        "builtins.str:'read(128)', builtins.str:'seek(15, 0)', "
                        "builtins.str:'read(128)', builtins.str:'exit(None)'), raise "
                        'builtins.IndexError: only integers, slices (`:`), ellipsis (`...`), '
                        'numpy.newaxis (`None`) and integer or boolean arrays are valid indices)',
 'complex64[-1::-2,all]': 'list(list(builtins.str:"open((\'IMG\',), {\'mode\': \'rb\'})", '
                          "builtins.str:'enter', builtins.str:'seek(279, 0)', "
                          "builtins.str:'read(40)', builtins.str:'seek(147, 0)', "
                          "builtins.str:'read(128)', builtins.str:'seek(15, 0)', "
                          "builtins.str:'read(128)', builtins.str:'exit(None)'), ndarray[<c8|(4, "
                          '5)|000030420000b0c20000a8c20000c2c2000050420000904200003cc20000a4c200008042000078c20000c0c1000090c1000060410000bcc200001c42000084420000f0410000b0c100005c420000584200007cc2000080c20000744200008c420000c042000034c2000070c200007c420000c4c20000b2c2000088c2000074c2000080c2000014c200008040000080bf00009a42000030410000c04100004041])',
 'complex64[-1::-2,0]': 'list(list(builtins.str:"open((\'IMG\',), {\'mode\': \'rb\'})", '
                        "builtins.str:'enter', builtins.str:'seek(279, 0)', "
                        "builtins.str:'read(40)', builtins.str:'seek(147, 0)', "
                        "builtins.str:'read(128)', builtins.str:'seek(15, 0)', "
                        "builtins.str:'read(128)', builtins.str:'exit(None)'), "
                        'ndarray[<c8|(4,)|000030420000b0c20000c0c1000090c100007cc2000080c2000088c2000074c2])',
 'complex64[-1::-2,-1]': 'list(list(builtins.str:"open((\'IMG\',), {\'mode\': \'rb\'})", '
                         "builtins.str:'enter', builtins.str:'seek(279, 0)', "
                         "builtins.str:'read(40)', builtins.str:'seek(147, 0)', "
                         "builtins.str:'read(128)', builtins.str:'seek(15, 0)', "
                         "builtins.str:'read(128)', builtins.str:'exit(None)'), "
                         'ndarray[<c8|(4,)|00008042000078c200005c42000058420000c4c20000b2c20000c04100004041])',
 'complex64[-1::-2,5]': 'list(list(builtins.str:"open((\'IMG\',), {\'mode\': \'rb\'})", '
                        "builtins.str:'enter', builtins.str:'seek(279, 0)', "
                        "builtins.str:'read(40)', builtins.str:'seek(147, 0)', "
                        "builtins.str:'read(128)', builtins.str:'seek(15, 0)', "
                        "builtins.str:'read(128)', builtins.str:'exit(None)'), raise "
                        'builtins.IndexError: index 5 is out of bounds for axis 1 with size 5)',
 'complex64[-1::-2,1:4]': 'list(list(builtins.str:"open((\'IMG\',), {\'mode\': \'rb\'})", '
                          "builtins.str:'enter', builtins.str:'seek(279, 0)', "
                          "builtins.str:'read(40)', builtins.str:'seek(147, 0)', "
                          "builtins.str:'read(128)', builtins.str:'seek(15, 0)', "
                          "builtins.str:'read(128)', builtins.str:'exit(None)'), ndarray[<c8|(4, "
                          '3)|0000a8c20000c2c2000050420000904200003cc20000a4c2000060410000bcc200001c42000084420000f0410000b0c10000744200008c420000c042000034c2000070c200007c42000080c2000014c200008040000080bf00009a4200003041])',
 'complex64[-1::-2,::2]': 'list(list(builtins.str:"open((\'IMG\',), {\'mode\': \'rb\'})", '
                          "builtins.str:'enter', builtins.str:'seek(279, 0)', "
                          "builtins.str:'read(40)', builtins.str:'seek(147, 0)', "
                          "builtins.str:'read(128)', builtins.str:'seek(15, 0)', "
                          "builtins.str:'read(128)', builtins.str:'exit(None)'), ndarray[<c8|(4, "
                          '3)|000030420000b0c2000050420000904200008042000078c20000c0c1000090c100001c420000844200005c420000584200007cc2000080c20000c042000034c20000c4c20000b2c2000088c2000074c200008040000080bf0000c04100004041])',
 'complex64[-1::-2,::-1]': 'list(list(builtins.str:"open((\'IMG\',), {\'mode\': \'rb\'})", '
                           "builtins.str:'enter', builtins.str:'seek(279, 0)', "
                           "builtins.str:'read(40)', builtins.str:'seek(147, 0)', "
                           "builtins.str:'read(128)', builtins.str:'seek(15, 0)', "
                           "builtins.str:'read(128)', builtins.str:'exit(None)'), ndarray[<c8|(4, "
                           '5)|00008042000078c200003cc20000a4c200005042000090420000a8c20000c2c2000030420000b0c200005c42000058420000f0410000b0c100001c4200008442000060410000bcc20000c0c1000090c10000c4c20000b2c2000070c200007c420000c042000034c20000744200008c4200007cc2000080c20000c0410000404100009a420000304100008040000080bf000080c2000014c2000088c2000074c2])',
 'complex64[-1::-2,0:0]': 'list(list(builtins.str:"open((\'IMG\',), {\'mode\': \'rb\'})", '
                          "builtins.str:'enter', builtins.str:'seek(279, 0)', "
                          "builtins.str:'read(40)', builtins.str:'seek(147, 0)', "
                          "builtins.str:'read(128)', builtins.str:'seek(15, 0)', "
                          "builtins.str:'read(128)', builtins.str:'exit(None)'), ndarray[<c8|(4, "
                          '0)|])',
 'complex64[-1::-2,list]': 'list(list(builtins.str:"open((\'IMG\',), {\'mode\': \'rb\'})", '
                           "builtins.str:'enter', builtins.str:'seek(279, 0)', "
                           "builtins.str:'read(40)', builtins.str:'seek(147, 0)', "
                           "builtins.str:'read(128)', builtins.str:'seek(15, 0)', "
                           "builtins.str:'read(128)', builtins.str:'exit(None)'), ndarray[<c8|(4, "
                           '2)|000030420000b0c200008042000078c20000c0c1000090c100005c420000584200007cc2000080c20000c4c20000b2c2000088c2000074c20000c04100004041])',
 'complex64[-1::-2,ellipsis]': 'list(list(builtins.str:"open((\'IMG\',), {\'mode\': \'rb\'})", '
                               "builtins.str:'enter', builtins.str:'seek(279, 0)', "
                               "builtins.str:'read(40)', builtins.str:'seek(147, 0)', "
                               "builtins.str:'read(128)', builtins.str:'seek(15, 0)', "
                               "builtins.str:'read(128)', builtins.str:'exit(None)'), "
                               'ndarray[<c8|(4, '
                               '5)|000030420000b0c20000a8c20000c2c2000050420000904200003cc20000a4c200008042000078c20000c0c1000090c1000060410000bcc200001c42000084420000f0410000b0c100005c420000584200007cc2000080c20000744200008c420000c042000034c2000070c200007c420000c4c20000b2c2000088c2000074c2000080c2000014c200008040000080bf00009a42000030410000c04100004041])',
 'complex64[-1::-2,none]': 'list(list(builtins.str:"open((\'IMG\',), {\'mode\': \'rb\'})", '
                           "builtins.str:'enter', builtins.str:'seek(279, 0)', "
                           "builtins.str:'read(40)', builtins.str:'seek(147, 0)', "
                           "builtins.str:'read(128)', builtins.str:'seek(15, 0)', "
                           "builtins.str:'read(128)', builtins.str:'exit(None)'), ndarray[<c8|(4, "
                           '1, '
                           '5)|000030420000b0c20000a8c20000c2c2000050420000904200003cc20000a4c200008042000078c20000c0c1000090c1000060410000bcc200001c42000084420000f0410000b0c100005c420000584200007cc2000080c20000744200008c420000c042000034c2000070c200007c420000c4c20000b2c2000088c2000074c2000080c2000014c200008040000080bf00009a42000030410000c04100004041])',
 'complex64[-1::-2,array]': 'list(list(builtins.str:"open((\'IMG\',), {\'mode\': \'rb\'})", '
                            "builtins.str:'enter', builtins.str:'seek(279, 0)', "
                            "builtins.str:'read(40)', builtins.str:'seek(147, 0)', "
                            "builtins.str:'read(128)', builtins.str:'seek(15, 0)', "
                            "builtins.str:'read(128)', builtins.str:'exit(None)'), ndarray[<c8|(4, "
                            '3)|0000a8c20000c2c20000a8c20000c2c200003cc20000a4c2000060410000bcc2000060410000bcc20000f0410000b0c10000744200008c420000744200008c42000070c200007c42000080c2000014c2000080c2000014c200009a4200003041])',
 'complex64[-1::-2,str]': 'list(list(builtins.str:"open((\'IMG\',), {\'mode\': \'rb\'})", '
                          "builtins.str:'enter', builtins.str:'seek(279, 0)', "
                          "builtins.str:'read(40)', builtins.str:'seek(147, 0)', "
                          "builtins.str:'read(128)', builtins.str:'seek(15, 0)', "
                          "builtins.str:'read(128)', builtins.str:'exit(None)'), raise "
                          'builtins.IndexError: only integers, slices (`:`), ellipsis (`...`), '
                          'numpy.newaxis (`None`) and integer or boolean arrays are valid indices)',
 'complex64[1::3,all]': 'list(list(builtins.str:"open((\'IMG\',), {\'mode\': \'rb\'})", '
                        "builtins.str:'enter', builtins.str:'seek(15, 0)', "
                        "builtins.str:'read(128)', builtins.str:'seek(147, 0)', "
                        "builtins.str:'read(128)', builtins.str:'exit(None)'), ndarray[<c8|(2, "
                        '5)|000080c00000384200006c42000034420000e0410000a0c2000010420000c242000014c20000a8410000c0c1000090c1000060410000bcc200001c42000084420000f0410000b0c100005c4200005842])',
 'complex64[1::3,0]': 'list(list(builtins.str:"open((\'IMG\',), {\'mode\': \'rb\'})", '
                      "builtins.str:'enter', builtins.str:'seek(15, 0)', builtins.str:'read(128)', "
                      "builtins.str:'seek(147, 0)', builtins.str:'read(128)', "
                      "builtins.str:'exit(None)'), "
                      'ndarray[<c8|(2,)|000080c0000038420000c0c1000090c1])',
 'complex64[1::3,-1]': 'list(list(builtins.str:"open((\'IMG\',), {\'mode\': \'rb\'})", '
                       "builtins.str:'enter', builtins.str:'seek(15, 0)', "
                       "builtins.str:'read(128)', builtins.str:'seek(147, 0)', "
                       "builtins.str:'read(128)', builtins.str:'exit(None)'), "
                       'ndarray[<c8|(2,)|000014c20000a84100005c4200005842])',
 'complex64[1::3,5]': 'list(list(builtins.str:"open((\'IMG\',), {\'mode\': \'rb\'})", '
                      "builtins.str:'enter', builtins.str:'seek(15, 0)', builtins.str:'read(128)', "
                      "builtins.str:'seek(147, 0)', builtins.str:'read(128)', "
                      "builtins.str:'exit(None)'), raise builtins.IndexError: index 5 is out of "
                      'bounds for axis 1 with size 5)',
 'complex64[1::3,1:4]': 'list(list(builtins.str:"open((\'IMG\',), {\'mode\': \'rb\'})", '
                        "builtins.str:'enter', builtins.str:'seek(15, 0)', "
                        "builtins.str:'read(128)', builtins.str:'seek(147, 0)', "
                        "builtins.str:'read(128)', builtins.str:'exit(None)'), ndarray[<c8|(2, "
                        '3)|00006c42000034420000e0410000a0c2000010420000c242000060410000bcc200001c42000084420000f0410000b0c1])',
 'complex64[1::3,::2]': 'list(list(builtins.str:"open((\'IMG\',), {\'mode\': \'rb\'})", '
                        "builtins.str:'enter', builtins.str:'seek(15, 0)', "
                        "builtins.str:'read(128)', builtins.str:'seek(147, 0)', "
                        "builtins.str:'read(128)', builtins.str:'exit(None)'), ndarray[<c8|(2, "
                        '3)|000080c0000038420000e0410000a0c2000014c20000a8410000c0c1000090c100001c420000844200005c4200005842])',
 'complex64[1::3,::-1]': 'list(list(builtins.str:"open((\'IMG\',), {\'mode\': \'rb\'})", '
                         "builtins.str:'enter', builtins.str:'seek(15, 0)', "
                         "builtins.str:'read(128)', builtins.str:'seek(147, 0)', "
                         "builtins.str:'read(128)', builtins.str:'exit(None)'), ndarray[<c8|(2, "
                         '5)|000014c20000a841000010420000c2420000e0410000a0c200006c4200003442000080c00000384200005c42000058420000f0410000b0c100001c4200008442000060410000bcc20000c0c1000090c1])',
 'complex64[1::3,0:0]': 'list(list(builtins.str:"open((\'IMG\',), {\'mode\': \'rb\'})", '
                        "builtins.str:'enter', builtins.str:'seek(15, 0)', "
                        "builtins.str:'read(128)', builtins.str:'seek(147, 0)', "
                        "builtins.str:'read(128)', builtins.str:'exit(None)'), ndarray[<c8|(2, "
                        '0)|])',
 'complex64[1::3,list]': 'list(list(builtins.str:"open((\'IMG\',), {\'mode\': \'rb\'})", '
                         "builtins.str:'enter', builtins.str:'seek(15, 0)', "
                         "builtins.str:'read(128)', builtins.str:'seek(147, 0)', "
                         "builtins.str:'read(128)', builtins.str:'exit(None)'), ndarray[<c8|(2, "
                         '2)|000080c000003842000014c20000a8410000c0c1000090c100005c4200005842])',
 'complex64[1::3,ellipsis]': 'list(list(builtins.str:"open((\'IMG\',), {\'mode\': \'rb\'})", '
                             "builtins.str:'enter', builtins.str:'seek(15, 0)', "
                             "builtins.str:'read(128)', builtins.str:'seek(147, 0)', "
                             "builtins.str:'read(128)', builtins.str:'exit(None)'), "
                             'ndarray[<c8|(2, '
                             '5)|000080c00000384200006c42000034420000e0410000a0c2000010420000c242000014c20000a8410000c0c1000090c1000060410000bcc200001c42000084420000f0410000b0c100005c4200005842])',
 'complex64[1::3,none]': 'list(list(builtins.str:"open((\'IMG\',), {\'mode\': \'rb\'})", '
                         "builtins.str:'enter', builtins.str:'seek(15, 0)', "
                         "builtins.str:'read(128)', builtins.str:'seek(147, 0)', "
                         "builtins.str:'read(128)', builtins.str:'exit(None)'), ndarray[<c8|(2, 1, "
                         '5)|000080c00000384200006c42000034420000e0410000a0c2000010420000c242000014c20000a8410000c0c1000090c1000060410000bcc200001c42000084420000f0410000b0c100005c4200005842])',
 'complex64[1::3,array]': 'list(list(builtins.str:"open((\'IMG\',), {\'mode\': \'rb\'})", '
                          "builtins.str:'enter', builtins.str:'seek(15, 0)', "
                          "builtins.str:'read(128)', builtins.str:'seek(147, 0)', "
                          "builtins.str:'read(128)', builtins.str:'exit(None)'), ndarray[<c8|(2, "
                          '3)|00006c420000344200006c4200003442000010420000c242000060410000bcc2000060410000bcc20000f0410000b0c1])',
 'complex64[1::3,str]': 'list(list(builtins.str:"open((\'IMG\',), {\'mode\': \'rb\'})", '
                        "builtins.str:'enter', builtins.str:'seek(15, 0)', "
                        "builtins.str:'read(128)', builtins.str:'seek(147, 0)', "
                        "builtins.str:'read(128)', builtins.str:'exit(None)'), raise "
                        'builtins.IndexError: only integers, slices (`:`), ellipsis (`...`), '
                        'numpy.newaxis (`None`) and integer or boolean arrays are valid indices)',
 'complex64[5:2,all]': 'list(list(builtins.str:"open((\'IMG\',), {\'mode\': \'rb\'})", '
                       "builtins.str:'enter', builtins.str:'exit(None)'), ndarray[<c8|(0, 5)|])",
 'complex64[5:2,0]': 'list(list(builtins.str:"open((\'IMG\',), {\'mode\': \'rb\'})", '
                     "builtins.str:'enter', builtins.str:'exit(None)'), ndarray[<c8|(0,)|])",
 'complex64[5:2,-1]': 'list(list(builtins.str:"open((\'IMG\',), {\'mode\': \'rb\'})", '
                      "builtins.str:'enter', builtins.str:'exit(None)'), ndarray[<c8|(0,)|])",
 'complex64[5:2,5]': 'list(list(builtins.str:"open((\'IMG\',), {\'mode\': \'rb\'})", '
                     "builtins.str:'enter', builtins.str:'exit(None)'), raise builtins.IndexError: "
                     'index 5 is out of bounds for axis 1 with size 5)',
 'complex64[5:2,1:4]': 'list(list(builtins.str:"open((\'IMG\',), {\'mode\': \'rb\'})", '
                       "builtins.str:'enter', builtins.str:'exit(None)'), ndarray[<c8|(0, 3)|])",
 'complex64[5:2,::2]': 'list(list(builtins.str:"open((\'IMG\',), {\'mode\': \'rb\'})", '
                       "builtins.str:'enter', builtins.str:'exit(None)'), ndarray[<c8|(0, 3)|])",
 'complex64[5:2,::-1]': 'list(list(builtins.str:"open((\'IMG\',), {\'mode\': \'rb\'})", '
                        "builtins.str:'enter', builtins.str:'exit(None)'), ndarray[<c8|(0, 5)|])",
 'complex64[5:2,0:0]': 'list(list(builtins.str:"open((\'IMG\',), {\'mode\': \'rb\'})", '
                       "builtins.str:'enter', builtins.str:'exit(None)'), ndarray[<c8|(0, 0)|])",
 'complex64[5:2,list]': 'list(list(builtins.str:"open((\'IMG\',), {\'mode\': \'rb\'})", '
                        "builtins.str:'enter', builtins.str:'exit(None)'), ndarray[<c8|(0, 2)|])",
 'complex64[5:2,ellipsis]': 'list(list(builtins.str:"open((\'IMG\',), {\'mode\': \'rb\'})", '
                            "builtins.str:'enter', builtins.str:'exit(None)'), ndarray[<c8|(0, "
                            '5)|])',
 'complex64[5:2,none]': 'list(list(builtins.str:"open((\'IMG\',), {\'mode\': \'rb\'})", '
                        "builtins.str:'enter', builtins.str:'exit(None)'), ndarray[<c8|(0, 1, "
                        '5)|])',
 'complex64[5:2,array]': 'list(list(builtins.str:"open((\'IMG\',), {\'mode\': \'rb\'})", '
                         "builtins.str:'enter', builtins.str:'exit(None)'), ndarray[<c8|(0, 3)|])",
 'complex64[5:2,str]': 'list(list(builtins.str:"open((\'IMG\',), {\'mode\': \'rb\'})", '
                       "builtins.str:'enter', builtins.str:'exit(None)'), raise "
                       'builtins.IndexError: only integers, slices (`:`), ellipsis (`...`), '
                       'numpy.newaxis (`None`) and integer or boolean arrays are valid indices)',
 'complex64[0:0,all]': 'list(list(builtins.str:"open((\'IMG\',), {\'mode\': \'rb\'})", '
                       "builtins.str:'enter', builtins.str:'exit(None)'), ndarray[<c8|(0, 5)|])",
 'complex64[0:0,0]': 'list(list(builtins.str:"open((\'IMG\',), {\'mode\': \'rb\'})", '
                     "builtins.str:'enter', builtins.str:'exit(None)'), ndarray[<c8|(0,)|])",
 'complex64[0:0,-1]': 'list(list(builtins.str:"open((\'IMG\',), {\'mode\': \'rb\'})", '
                      "builtins.str:'enter', builtins.str:'exit(None)'), ndarray[<c8|(0,)|])",
 'complex64[0:0,5]': 'list(list(builtins.str:"open((\'IMG\',), {\'mode\': \'rb\'})", '
                     "builtins.str:'enter', builtins.str:'exit(None)'), raise builtins.IndexError: "
                     'index 5 is out of bounds for axis 1 with size 5)',
 'complex64[0:0,1:4]': 'list(list(builtins.str:"open((\'IMG\',), {\'mode\': \'rb\'})", '
                       "builtins.str:'enter', builtins.str:'exit(None)'), ndarray[<c8|(0, 3)|])",
 'complex64[0:0,::2]': 'list(list(builtins.str:"open((\'IMG\',), {\'mode\': \'rb\'})", '
                       "builtins.str:'enter', builtins.str:'exit(None)'), ndarray[<c8|(0, 3)|])",
 'complex64[0:0,::-1]': 'list(list(builtins.str:"open((\'IMG\',), {\'mode\': \'rb\'})", '
                        "builtins.str:'enter', builtins.str:'exit(None)'), ndarray[<c8|(0, 5)|])",
 'complex64[0:0,0:0]': 'list(list(builtins.str:"open((\'IMG\',), {\'mode\': \'rb\'})", '
                       "builtins.str:'enter', builtins.str:'exit(None)'), ndarray[<c8|(0, 0)|])",
 'complex64[0:0,list]': 'list(list(builtins.str:"open((\'IMG\',), {\'mode\': \'rb\'})", '
                        "builtins.str:'enter', builtins.str:'exit(None)'), ndarray[<c8|(0, 2)|])",
 'complex64[0:0,ellipsis]': 'list(list(builtins.str:"open((\'IMG\',), {\'mode\': \'rb\'})", '
                            "builtins.str:'enter', builtins.str:'exit(None)'), ndarray[<c8|(0, "
                            '5)|])',
 'complex64[0:0,none]': 'list(list(builtins.str:"open((\'IMG\',), {\'mode\': \'rb\'})", '
                        "builtins.str:'enter', builtins.str:'exit(None)'), ndarray[<c8|(0, 1, "
                        '5)|])',
 'complex64[0:0,array]': 'list(list(builtins.str:"open((\'IMG\',), {\'mode\': \'rb\'})", '
                         "builtins.str:'enter', builtins.str:'exit(None)'), ndarray[<c8|(0, 3)|])",
 'complex64[0:0,str]': 'list(list(builtins.str:"open((\'IMG\',), {\'mode\': \'rb\'})", '
                       "builtins.str:'enter', builtins.str:'exit(None)'), raise "
                       'builtins.IndexError: only integers, slices (`:`), ellipsis (`...`), '
                       'numpy.newaxis (`None`) and integer or boolean arrays are valid indices)',
 'complex64[2:100,all]': 'list(list(builtins.str:"open((\'IMG\',), {\'mode\': \'rb\'})", '
                         "builtins.str:'enter', builtins.str:'seek(15, 0)', "
                         "builtins.str:'read(128)', builtins.str:'seek(147, 0)', "
                         "builtins.str:'read(128)', builtins.str:'seek(279, 0)', "
                         "builtins.str:'read(40)', builtins.str:'exit(None)'), ndarray[<c8|(5, "
                         '5)|00007cc2000080c20000744200008c420000c042000034c2000070c200007c420000c4c20000b2c200008042000040c1000018420000e8c10000a0c00000804100000442000044c2000044c20000ba420000c0c1000090c1000060410000bcc200001c42000084420000f0410000b0c100005c4200005842000030c10000a2c2000058420000a6c20000a6c20000b0420000c0400000bac20000a0c10000a642000030420000b0c20000a8c20000c2c2000050420000904200003cc20000a4c200008042000078c2])',
 'complex64[2:100,0]': 'list(list(builtins.str:"open((\'IMG\',), {\'mode\': \'rb\'})", '
                       "builtins.str:'enter', builtins.str:'seek(15, 0)', "
                       "builtins.str:'read(128)', builtins.str:'seek(147, 0)', "
                       "builtins.str:'read(128)', builtins.str:'seek(279, 0)', "
                       "builtins.str:'read(40)', builtins.str:'exit(None)'), "
                       'ndarray[<c8|(5,)|00007cc2000080c200008042000040c10000c0c1000090c1000030c10000a2c2000030420000b0c2])',
 'complex64[2:100,-1]': 'list(list(builtins.str:"open((\'IMG\',), {\'mode\': \'rb\'})", '
                        "builtins.str:'enter', builtins.str:'seek(15, 0)', "
                        "builtins.str:'read(128)', builtins.str:'seek(147, 0)', "
                        "builtins.str:'read(128)', builtins.str:'seek(279, 0)', "
                        "builtins.str:'read(40)', builtins.str:'exit(None)'), "
                        'ndarray[<c8|(5,)|0000c4c20000b2c2000044c20000ba4200005c42000058420000a0c10000a64200008042000078c2])',
 'complex64[2:100,5]': 'list(list(builtins.str:"open((\'IMG\',), {\'mode\': \'rb\'})", '
                       "builtins.str:'enter', builtins.str:'seek(15, 0)', "
                       "builtins.str:'read(128)', builtins.str:'seek(147, 0)', "
                       "builtins.str:'read(128)', builtins.str:'seek(279, 0)', "
                       "builtins.str:'read(40)', builtins.str:'exit(None)'), raise "
                       'builtins.IndexError: index 5 is out of bounds for axis 1 with size 5)',
 'complex64[2:100,1:4]': 'list(list(builtins.str:"open((\'IMG\',), {\'mode\': \'rb\'})", '
                         "builtins.str:'enter', builtins.str:'seek(15, 0)', "
                         "builtins.str:'read(128)', builtins.str:'seek(147, 0)', "
                         "builtins.str:'read(128)', builtins.str:'seek(279, 0)', "
                         "builtins.str:'read(40)', builtins.str:'exit(None)'), ndarray[<c8|(5, "
                         '3)|0000744200008c420000c042000034c2000070c200007c42000018420000e8c10000a0c00000804100000442000044c2000060410000bcc200001c42000084420000f0410000b0c1000058420000a6c20000a6c20000b0420000c0400000bac20000a8c20000c2c2000050420000904200003cc20000a4c2])',
 'complex64[2:100,::2]': 'list(list(builtins.str:"open((\'IMG\',), {\'mode\': \'rb\'})", '
                         "builtins.str:'enter', builtins.str:'seek(15, 0)', "
                         "builtins.str:'read(128)', builtins.str:'seek(147, 0)', "
                         "builtins.str:'read(128)', builtins.str:'seek(279, 0)', "
                         "builtins.str:'read(40)', builtins.str:'exit(None)'), ndarray[<c8|(5, "
                         '3)|00007cc2000080c20000c042000034c20000c4c20000b2c200008042000040c10000a0c000008041000044c20000ba420000c0c1000090c100001c420000844200005c4200005842000030c10000a2c20000a6c20000b0420000a0c10000a642000030420000b0c2000050420000904200008042000078c2])',
 'complex64[2:100,::-1]': 'list(list(builtins.str:"open((\'IMG\',), {\'mode\': \'rb\'})", '
                          "builtins.str:'enter', builtins.str:'seek(15, 0)', "
                          "builtins.str:'read(128)', builtins.str:'seek(147, 0)', "
                          "builtins.str:'read(128)', builtins.str:'seek(279, 0)', "
                          "builtins.str:'read(40)', builtins.str:'exit(None)'), ndarray[<c8|(5, "
                          '5)|0000c4c20000b2c2000070c200007c420000c042000034c20000744200008c4200007cc2000080c2000044c20000ba4200000442000044c20000a0c000008041000018420000e8c100008042000040c100005c42000058420000f0410000b0c100001c4200008442000060410000bcc20000c0c1000090c10000a0c10000a6420000c0400000bac20000a6c20000b042000058420000a6c2000030c10000a2c200008042000078c200003cc20000a4c200005042000090420000a8c20000c2c2000030420000b0c2])',
 'complex64[2:100,0:0]': 'list(list(builtins.str:"open((\'IMG\',), {\'mode\': \'rb\'})", '
                         "builtins.str:'enter', builtins.str:'seek(15, 0)', "
                         "builtins.str:'read(128)', builtins.str:'seek(147, 0)', "
                         "builtins.str:'read(128)', builtins.str:'seek(279, 0)', "
                         "builtins.str:'read(40)', builtins.str:'exit(None)'), ndarray[<c8|(5, "
                         '0)|])',
 'complex64[2:100,list]': 'list(list(builtins.str:"open((\'IMG\',), {\'mode\': \'rb\'})", '
                          "builtins.str:'enter', builtins.str:'seek(15, 0)', "
                          "builtins.str:'read(128)', builtins.str:'seek(147, 0)', "
                          "builtins.str:'read(128)', builtins.str:'seek(279, 0)', "
                          "builtins.str:'read(40)', builtins.str:'exit(None)'), ndarray[<c8|(5, "
                          '2)|00007cc2000080c20000c4c20000b2c200008042000040c1000044c20000ba420000c0c1000090c100005c4200005842000030c10000a2c20000a0c10000a642000030420000b0c200008042000078c2])',
 'complex64[2:100,ellipsis]': 'list(list(builtins.str:"open((\'IMG\',), {\'mode\': \'rb\'})", '
                              "builtins.str:'enter', builtins.str:'seek(15, 0)', "
                              "builtins.str:'read(128)', builtins.str:'seek(147, 0)', "
                              "builtins.str:'read(128)', builtins.str:'seek(279, 0)', "
                              "builtins.str:'read(40)', builtins.str:'exit(None)'), "
                              'ndarray[<c8|(5, '
                              '5)|00007cc2000080c20000744200008c420000c042000034c2000070c200007c420000c4c20000b2c200008042000040c1000018420000e8c10000a0c00000804100000442000044c2000044c20000ba420000c0c1000090c1000060410000bcc200001c42000084420000f0410000b0c100005c4200005842000030c10000a2c2000058420000a6c20000a6c20000b0420000c0400000bac20000a0c10000a642000030420000b0c20000a8c20000c2c2000050420000904200003cc20000a4c200008042000078c2])',
 'complex64[2:100,none]': 'list(list(builtins.str:"open((\'IMG\',), {\'mode\': \'rb\'})", '
                          "builtins.str:'enter', builtins.str:'seek(15, 0)', "
                          "builtins.str:'read(128)', builtins.str:'seek(147, 0)', "
                          "builtins.str:'read(128)', builtins.str:'seek(279, 0)', "
                          "builtins.str:'read(40)', builtins.str:'exit(None)'), ndarray[<c8|(5, 1, "
                          '5)|00007cc2000080c20000744200008c420000c042000034c2000070c200007c420000c4c20000b2c200008042000040c1000018420000e8c10000a0c00000804100000442000044c2000044c20000ba420000c0c1000090c1000060410000bcc200001c42000084420000f0410000b0c100005c4200005842000030c10000a2c2000058420000a6c20000a6c20000b0420000c0400000bac20000a0c10000a642000030420000b0c20000a8c20000c2c2000050420000904200003cc20000a4c200008042000078c2])',
 'complex64[2:100,array]': 'list(list(builtins.str:"open((\'IMG\',), {\'mode\': \'rb\'})", '
                           "builtins.str:'enter', builtins.str:'seek(15, 0)', "
                           "builtins.str:'read(128)', builtins.str:'seek(147, 0)', "
                           "builtins.str:'read(128)', builtins.str:'seek(279, 0)', "
                           "builtins.str:'read(40)', builtins.str:'exit(None)'), ndarray[<c8|(5, "
                           '3)|0000744200008c420000744200008c42000070c200007c42000018420000e8c1000018420000e8c100000442000044c2000060410000bcc2000060410000bcc20000f0410000b0c1000058420000a6c2000058420000a6c20000c0400000bac20000a8c20000c2c20000a8c20000c2c200003cc20000a4c2])',
 'complex64[2:100,str]': 'list(list(builtins.str:"open((\'IMG\',), {\'mode\': \'rb\'})", '
                         "builtins.str:'enter', builtins.str:'seek(15, 0)', "
                         "builtins.str:'read(128)', builtins.str:'seek(147, 0)', "
                         "builtins.str:'read(128)', builtins.str:'seek(279, 0)', "
                         "builtins.str:'read(40)', builtins.str:'exit(None)'), raise "
                         'builtins.IndexError: only integers, slices (`:`), ellipsis (`...`), '
                         'numpy.newaxis (`None`) and integer or boolean arrays are valid indices)',
 'complex64[::0,all]': 'list(list(), raise builtins.ValueError: slice step cannot be zero)',
 'complex64[::0,0]': 'list(list(), raise builtins.ValueError: slice step cannot be zero)',
 'complex64[::0,-1]': 'list(list(), raise builtins.ValueError: slice step cannot be zero)',
 'complex64[::0,5]': 'list(list(), raise builtins.ValueError: slice step cannot be zero)',
 'complex64[::0,1:4]': 'list(list(), raise builtins.ValueError: slice step cannot be zero)',
 'complex64[::0,::2]': 'list(list(), raise builtins.ValueError: slice step cannot be zero)',
 'complex64[::0,::-1]': 'list(list(), raise builtins.ValueError: slice step cannot be zero)',
 'complex64[::0,0:0]': 'list(list(), raise builtins.ValueError: slice step cannot be zero)',
 'complex64[::0,list]': 'list(list(), raise builtins.ValueError: slice step cannot be zero)',
 'complex64[::0,ellipsis]': 'list(list(), raise builtins.ValueError: slice step cannot be zero)',
 'complex64[::0,none]': 'list(list(), raise builtins.ValueError: slice step cannot be zero)',
 'complex64[::0,array]': 'list(list(), raise builtins.ValueError: slice step cannot be zero)',
 'complex64[::0,str]': 'list(list(), raise builtins.ValueError: slice step cannot be zero)',
 'complex64[list,all]': 'list(list(builtins.str:"open((\'IMG\',), {\'mode\': \'rb\'})", '
                        "builtins.str:'enter', builtins.str:'seek(15, 0)', "
                        "builtins.str:'read(128)', builtins.str:'exit(None)'), ndarray[<c8|(2, "
                        '5)|000088c2000074c2000080c2000014c200008040000080bf00009a42000030410000c0410000404100007cc2000080c20000744200008c420000c042000034c2000070c200007c420000c4c20000b2c2])',
 'complex64[list,0]': 'list(list(builtins.str:"open((\'IMG\',), {\'mode\': \'rb\'})", '
                      "builtins.str:'enter', builtins.str:'seek(15, 0)', builtins.str:'read(128)', "
                      "builtins.str:'exit(None)'), "
                      'ndarray[<c8|(2,)|000088c2000074c200007cc2000080c2])',
 'complex64[list,-1]': 'list(list(builtins.str:"open((\'IMG\',), {\'mode\': \'rb\'})", '
                       "builtins.str:'enter', builtins.str:'seek(15, 0)', "
                       "builtins.str:'read(128)', builtins.str:'exit(None)'), "
                       'ndarray[<c8|(2,)|0000c041000040410000c4c20000b2c2])',
 'complex64[list,5]': 'list(list(builtins.str:"open((\'IMG\',), {\'mode\': \'rb\'})", '
                      "builtins.str:'enter', builtins.str:'seek(15, 0)', builtins.str:'read(128)', "
                      "builtins.str:'exit(None)'), raise builtins.IndexError: index 5 is out of "
                      'bounds for axis 1 with size 5)',
 'complex64[list,1:4]': 'list(list(builtins.str:"open((\'IMG\',), {\'mode\': \'rb\'})", '
                        "builtins.str:'enter', builtins.str:'seek(15, 0)', "
                        "builtins.str:'read(128)', builtins.str:'exit(None)'), ndarray[<c8|(2, "
                        '3)|000080c2000014c200008040000080bf00009a42000030410000744200008c420000c042000034c2000070c200007c42])',
 'complex64[list,::2]': 'list(list(builtins.str:"open((\'IMG\',), {\'mode\': \'rb\'})", '
                        "builtins.str:'enter', builtins.str:'seek(15, 0)', "
                        "builtins.str:'read(128)', builtins.str:'exit(None)'), ndarray[<c8|(2, "
                        '3)|000088c2000074c200008040000080bf0000c0410000404100007cc2000080c20000c042000034c20000c4c20000b2c2])',
 'complex64[list,::-1]': 'list(list(builtins.str:"open((\'IMG\',), {\'mode\': \'rb\'})", '
                         "builtins.str:'enter', builtins.str:'seek(15, 0)', "
                         "builtins.str:'read(128)', builtins.str:'exit(None)'), ndarray[<c8|(2, "
                         '5)|0000c0410000404100009a420000304100008040000080bf000080c2000014c2000088c2000074c20000c4c20000b2c2000070c200007c420000c042000034c20000744200008c4200007cc2000080c2])',
 'complex64[list,0:0]': 'list(list(builtins.str:"open((\'IMG\',), {\'mode\': \'rb\'})", '
                        "builtins.str:'enter', builtins.str:'seek(15, 0)', "
                        "builtins.str:'read(128)', builtins.str:'exit(None)'), ndarray[<c8|(2, "
                        '0)|])',
 'complex64[list,list]': 'list(list(builtins.str:"open((\'IMG\',), {\'mode\': \'rb\'})", '
                         "builtins.str:'enter', builtins.str:'seek(15, 0)', "
                         "builtins.str:'read(128)', builtins.str:'exit(None)'), ndarray[<c8|(2, "
                         '2)|000088c2000074c20000c0410000404100007cc2000080c20000c4c20000b2c2])',
 'complex64[list,ellipsis]': 'list(list(builtins.str:"open((\'IMG\',), {\'mode\': \'rb\'})", '
                             "builtins.str:'enter', builtins.str:'seek(15, 0)', "
                             "builtins.str:'read(128)', builtins.str:'exit(None)'), "
                             'ndarray[<c8|(2, '
                             '5)|000088c2000074c2000080c2000014c200008040000080bf00009a42000030410000c0410000404100007cc2000080c20000744200008c420000c042000034c2000070c200007c420000c4c20000b2c2])',
 'complex64[list,none]': 'list(list(builtins.str:"open((\'IMG\',), {\'mode\': \'rb\'})", '
                         "builtins.str:'enter', builtins.str:'seek(15, 0)', "
                         "builtins.str:'read(128)', builtins.str:'exit(None)'), ndarray[<c8|(2, 1, "
                         '5)|000088c2000074c2000080c2000014c200008040000080bf00009a42000030410000c0410000404100007cc2000080c20000744200008c420000c042000034c2000070c200007c420000c4c20000b2c2])',
 'complex64[list,array]': 'list(list(builtins.str:"open((\'IMG\',), {\'mode\': \'rb\'})", '
                          "builtins.str:'enter', builtins.str:'seek(15, 0)', "
                          "builtins.str:'read(128)', builtins.str:'exit(None)'), ndarray[<c8|(2, "
                          '3)|000080c2000014c2000080c2000014c200009a42000030410000744200008c420000744200008c42000070c200007c42])',
 'complex64[list,str]': 'list(list(builtins.str:"open((\'IMG\',), {\'mode\': \'rb\'})", '
                        "builtins.str:'enter', builtins.str:'seek(15, 0)', "
                        "builtins.str:'read(128)', builtins.str:'exit(None)'), raise "
                        'builtins.IndexError: only integers, slices (`:`), ellipsis (`...`), '
                        'numpy.newaxis (`None`) and integer or boolean arrays are valid indices)',
 'complex64[list-neg,all]': 'list(list(builtins.str:"open((\'IMG\',), {\'mode\': \'rb\'})", '
                            "builtins.str:'enter', builtins.str:'seek(279, 0)', "
                            "builtins.str:'read(40)', builtins.str:'seek(15, 0)', "
                            "builtins.str:'read(128)', builtins.str:'exit(None)'), ndarray[<c8|(3, "
                            '5)|000030420000b0c20000a8c20000c2c2000050420000904200003cc20000a4c200008042000078c2000030420000b0c20000a8c20000c2c2000050420000904200003cc20000a4c200008042000078c2000088c2000074c2000080c2000014c200008040000080bf00009a42000030410000c04100004041])',
 'complex64[list-neg,0]': 'list(list(builtins.str:"open((\'IMG\',), {\'mode\': \'rb\'})", '
                          "builtins.str:'enter', builtins.str:'seek(279, 0)', "
                          "builtins.str:'read(40)', builtins.str:'seek(15, 0)', "
                          "builtins.str:'read(128)', builtins.str:'exit(None)'), "
                          'ndarray[<c8|(3,)|000030420000b0c2000030420000b0c2000088c2000074c2])',
 'complex64[list-neg,-1]': 'list(list(builtins.str:"open((\'IMG\',), {\'mode\': \'rb\'})", '
                           "builtins.str:'enter', builtins.str:'seek(279, 0)', "
                           "builtins.str:'read(40)', builtins.str:'seek(15, 0)', "
                           "builtins.str:'read(128)', builtins.str:'exit(None)'), "
                           'ndarray[<c8|(3,)|00008042000078c200008042000078c20000c04100004041])',
 'complex64[list-neg,5]': 'list(list(builtins.str:"open((\'IMG\',), {\'mode\': \'rb\'})", '
                          "builtins.str:'enter', builtins.str:'seek(279, 0)', "
                          "builtins.str:'read(40)', builtins.str:'seek(15, 0)', "
                          "builtins.str:'read(128)', builtins.str:'exit(None)'), raise "
                          'builtins.IndexError: index 5 is out of bounds for axis 1 with size 5)',
 'complex64[list-neg,1:4]': 'list(list(builtins.str:"open((\'IMG\',), {\'mode\': \'rb\'})", '
                            "builtins.str:'enter', builtins.str:'seek(279, 0)', "
                            "builtins.str:'read(40)', builtins.str:'seek(15, 0)', "
                            "builtins.str:'read(128)', builtins.str:'exit(None)'), ndarray[<c8|(3, "
                            '3)|0000a8c20000c2c2000050420000904200003cc20000a4c20000a8c20000c2c2000050420000904200003cc20000a4c2000080c2000014c200008040000080bf00009a4200003041])',
 'complex64[list-neg,::2]': 'list(list(builtins.str:"open((\'IMG\',), {\'mode\': \'rb\'})", '
                            "builtins.str:'enter', builtins.str:'seek(279, 0)', "
                            "builtins.str:'read(40)', builtins.str:'seek(15, 0)', "
                            "builtins.str:'read(128)', builtins.str:'exit(None)'), ndarray[<c8|(3, "
                            '3)|000030420000b0c2000050420000904200008042000078c2000030420000b0c2000050420000904200008042000078c2000088c2000074c200008040000080bf0000c04100004041])',
 'complex64[list-neg,::-1]': 'list(list(builtins.str:"open((\'IMG\',), {\'mode\': \'rb\'})", '
                             "builtins.str:'enter', builtins.str:'seek(279, 0)', "
                             "builtins.str:'read(40)', builtins.str:'seek(15, 0)', "
                             "builtins.str:'read(128)', builtins.str:'exit(None)'), "
                             'ndarray[<c8|(3, '
                             '5)|00008042000078c200003cc20000a4c200005042000090420000a8c20000c2c2000030420000b0c200008042000078c200003cc20000a4c200005042000090420000a8c20000c2c2000030420000b0c20000c0410000404100009a420000304100008040000080bf000080c2000014c2000088c2000074c2])',
 'complex64[list-neg,0:0]': 'list(list(builtins.str:"open((\'IMG\',), {\'mode\': \'rb\'})", '
                            "builtins.str:'enter', builtins.str:'seek(279, 0)', "
                            "builtins.str:'read(40)', builtins.str:'seek(15, 0)', "
                            "builtins.str:'read(128)', builtins.str:'exit(None)'), ndarray[<c8|(3, "
                            '0)|])',
 'complex64[list-neg,list]': 'list(list(builtins.str:"open((\'IMG\',), {\'mode\': \'rb\'})", '
                             "builtins.str:'enter', builtins.str:'seek(279, 0)', "
                             "builtins.str:'read(40)', builtins.str:'seek(15, 0)', "
                             "builtins.str:'read(128)', builtins.str:'exit(None)'), "
                             'ndarray[<c8|(3, '
                             '2)|000030420000b0c200008042000078c2000030420000b0c200008042000078c2000088c2000074c20000c04100004041])',
 'complex64[list-neg,ellipsis]': 'list(list(builtins.str:"open((\'IMG\',), {\'mode\': \'rb\'})", '
                                 "builtins.str:'enter', builtins.str:'seek(279, 0)', "
                                 "builtins.str:'read(40)', builtins.str:'seek(15, 0)', "
                                 "builtins.str:'read(128)', builtins.str:'exit(None)'), "
                                 'ndarray[<c8|(3, '
                                 '5)|000030420000b0c20000a8c20000c2c2000050420000904200003cc20000a4c200008042000078c2000030420000b0c20000a8c20000c2c2000050420000904200003cc20000a4c200008042000078c2000088c2000074c2000080c2000014c200008040000080bf00009a42000030410000c04100004041])',
 'complex64[list-neg,none]': 'list(list(builtins.str:"open((\'IMG\',), {\'mode\': \'rb\'})", '
                             "builtins.str:'enter', builtins.str:'seek(279, 0)', "
                             "builtins.str:'read(40)', builtins.str:'seek(15, 0)', "
                             "builtins.str:'read(128)', builtins.str:'exit(None)'), "
                             'ndarray[<c8|(3, 1, '
                             '5)|000030420000b0c20000a8c20000c2c2000050420000904200003cc20000a4c200008042000078c2000030420000b0c20000a8c20000c2c2000050420000904200003cc20000a4c200008042000078c2000088c2000074c2000080c2000014c200008040000080bf00009a42000030410000c04100004041])',
 'complex64[list-neg,array]': 'list(list(builtins.str:"open((\'IMG\',), {\'mode\': \'rb\'})", '
                              "builtins.str:'enter', builtins.str:'seek(279, 0)', "
                              "builtins.str:'read(40)', builtins.str:'seek(15, 0)', "
                              "builtins.str:'read(128)', builtins.str:'exit(None)'), "
                              'ndarray[<c8|(3, '
                              '3)|0000a8c20000c2c20000a8c20000c2c200003cc20000a4c20000a8c20000c2c20000a8c20000c2c200003cc20000a4c2000080c2000014c2000080c2000014c200009a4200003041])',
 'complex64[list-neg,str]': 'list(list(builtins.str:"open((\'IMG\',), {\'mode\': \'rb\'})", '
                            "builtins.str:'enter', builtins.str:'seek(279, 0)', "
                            "builtins.str:'read(40)', builtins.str:'seek(15, 0)', "
                            "builtins.str:'read(128)', builtins.str:'exit(None)'), raise "
                            'builtins.IndexError: only integers, slices (`:`), ellipsis (`...`), '
                            'numpy.newaxis (`None`) and integer or boolean arrays are valid '
                            'indices)',
 'complex64[list-empty,all]': 'list(list(builtins.str:"open((\'IMG\',), {\'mode\': \'rb\'})", '
                              "builtins.str:'enter', builtins.str:'exit(None)'), ndarray[<c8|(0, "
                              '5)|])',
 'complex64[list-empty,0]': 'list(list(builtins.str:"open((\'IMG\',), {\'mode\': \'rb\'})", '
                            "builtins.str:'enter', builtins.str:'exit(None)'), ndarray[<c8|(0,)|])",
 'complex64[list-empty,-1]': 'list(list(builtins.str:"open((\'IMG\',), {\'mode\': \'rb\'})", '
                             "builtins.str:'enter', builtins.str:'exit(None)'), "
                             'ndarray[<c8|(0,)|])',
 'complex64[list-empty,5]': 'list(list(builtins.str:"open((\'IMG\',), {\'mode\': \'rb\'})", '
                            "builtins.str:'enter', builtins.str:'exit(None)'), raise "
                            'builtins.IndexError: index 5 is out of bounds for axis 1 with size 5)',
 'complex64[list-empty,1:4]': 'list(list(builtins.str:"open((\'IMG\',), {\'mode\': \'rb\'})", '
                              "builtins.str:'enter', builtins.str:'exit(None)'), ndarray[<c8|(0, "
                              '3)|])',
 'complex64[list-empty,::2]': 'list(list(builtins.str:"open((\'IMG\',), {\'mode\': \'rb\'})", '
                              "builtins.str:'enter', builtins.str:'exit(None)'), ndarray[<c8|(0, "
                              '3)|])',
 'complex64[list-empty,::-1]': 'list(list(builtins.str:"open((\'IMG\',), {\'mode\': \'rb\'})", '
                               "builtins.str:'enter', builtins.str:'exit(None)'), ndarray[<c8|(0, "
                               '5)|])',
 'complex64[list-empty,0:0]': 'list(list(builtins.str:"open((\'IMG\',), {\'mode\': \'rb\'})", '
                              "builtins.str:'enter', builtins.str:'exit(None)'), ndarray[<c8|(0, "
                              '0)|])',
 'complex64[list-empty,list]': 'list(list(builtins.str:"open((\'IMG\',), {\'mode\': \'rb\'})", '
                               "builtins.str:'enter', builtins.str:'exit(None)'), ndarray[<c8|(0, "
                               '2)|])',
 'complex64[list-empty,ellipsis]': 'list(list(builtins.str:"open((\'IMG\',), {\'mode\': \'rb\'})", '
                                   "builtins.str:'enter', builtins.str:'exit(None)'), "
                                   'ndarray[<c8|(0, 5)|])',
 'complex64[list-empty,none]': 'list(list(builtins.str:"open((\'IMG\',), {\'mode\': \'rb\'})", '
                               "builtins.str:'enter', builtins.str:'exit(None)'), ndarray[<c8|(0, "
                               '1, 5)|])',
 'complex64[list-empty,array]': 'list(list(builtins.str:"open((\'IMG\',), {\'mode\': \'rb\'})", '
                                "builtins.str:'enter', builtins.str:'exit(None)'), ndarray[<c8|(0, "
                                '3)|])',
 'complex64[list-empty,str]': 'list(list(builtins.str:"open((\'IMG\',), {\'mode\': \'rb\'})", '
                              "builtins.str:'enter', builtins.str:'exit(None)'), raise "
                              'builtins.IndexError: only integers, slices (`:`), ellipsis (`...`), '
                              'numpy.newaxis (`None`) and integer or boolean arrays are valid '
                              'indices)',
 'complex64[list-dup,all]': 'list(list(builtins.str:"open((\'IMG\',), {\'mode\': \'rb\'})", '
                            "builtins.str:'enter', builtins.str:'seek(147, 0)', "
                            "builtins.str:'read(128)', builtins.str:'exit(None)'), ndarray[<c8|(2, "
                            '5)|0000c0c1000090c1000060410000bcc200001c42000084420000f0410000b0c100005c42000058420000c0c1000090c1000060410000bcc200001c42000084420000f0410000b0c100005c4200005842])',
 'complex64[list-dup,0]': 'list(list(builtins.str:"open((\'IMG\',), {\'mode\': \'rb\'})", '
                          "builtins.str:'enter', builtins.str:'seek(147, 0)', "
                          "builtins.str:'read(128)', builtins.str:'exit(None)'), "
                          'ndarray[<c8|(2,)|0000c0c1000090c10000c0c1000090c1])',
 'complex64[list-dup,-1]': 'list(list(builtins.str:"open((\'IMG\',), {\'mode\': \'rb\'})", '
                           "builtins.str:'enter', builtins.str:'seek(147, 0)', "
                           "builtins.str:'read(128)', builtins.str:'exit(None)'), "
                           'ndarray[<c8|(2,)|00005c420000584200005c4200005842])',
 'complex64[list-dup,5]': 'list(list(builtins.str:"open((\'IMG\',), {\'mode\': \'rb\'})", '
                          "builtins.str:'enter', builtins.str:'seek(147, 0)', "
                          "builtins.str:'read(128)', builtins.str:'exit(None)'), raise "
                          'builtins.IndexError: index 5 is out of bounds for axis 1 with size 5)',
 'complex64[list-dup,1:4]': 'list(list(builtins.str:"open((\'IMG\',), {\'mode\': \'rb\'})", '
                            "builtins.str:'enter', builtins.str:'seek(147, 0)', "
                            "builtins.str:'read(128)', builtins.str:'exit(None)'), ndarray[<c8|(2, "
                            '3)|000060410000bcc200001c42000084420000f0410000b0c1000060410000bcc200001c42000084420000f0410000b0c1])',
 'complex64[list-dup,::2]': 'list(list(builtins.str:"open((\'IMG\',), {\'mode\': \'rb\'})", '
                            "builtins.str:'enter', builtins.str:'seek(147, 0)', "
                            "builtins.str:'read(128)', builtins.str:'exit(None)'), ndarray[<c8|(2, "
                            '3)|0000c0c1000090c100001c420000844200005c42000058420000c0c1000090c100001c420000844200005c4200005842])',
 'complex64[list-dup,::-1]': 'list(list(builtins.str:"open((\'IMG\',), {\'mode\': \'rb\'})", '
                             "builtins.str:'enter', builtins.str:'seek(147, 0)', "
                             "builtins.str:'read(128)', builtins.str:'exit(None)'), "
                             'ndarray[<c8|(2, '
                             '5)|00005c42000058420000f0410000b0c100001c4200008442000060410000bcc20000c0c1000090c100005c42000058420000f0410000b0c100001c4200008442000060410000bcc20000c0c1000090c1])',
 'complex64[list-dup,0:0]': 'list(list(builtins.str:"open((\'IMG\',), {\'mode\': \'rb\'})", '
                            "builtins.str:'enter', builtins.str:'seek(147, 0)', "
                            "builtins.str:'read(128)', builtins.str:'exit(None)'), ndarray[<c8|(2, "
                            '0)|])',
 'complex64[list-dup,list]': 'list(list(builtins.str:"open((\'IMG\',), {\'mode\': \'rb\'})", '
                             "builtins.str:'enter', builtins.str:'seek(147, 0)', "
                             "builtins.str:'read(128)', builtins.str:'exit(None)'), "
                             'ndarray[<c8|(2, '
                             '2)|0000c0c1000090c100005c42000058420000c0c1000090c100005c4200005842])',
 'complex64[list-dup,ellipsis]': 'list(list(builtins.str:"open((\'IMG\',), {\'mode\': \'rb\'})", '
                                 "builtins.str:'enter', builtins.str:'seek(147, 0)', "
                                 "builtins.str:'read(128)', builtins.str:'exit(None)'), "
                                 'ndarray[<c8|(2, '
                                 '5)|0000c0c1000090c1000060410000bcc200001c42000084420000f0410000b0c100005c42000058420000c0c1000090c1000060410000bcc200001c42000084420000f0410000b0c100005c4200005842])',
 'complex64[list-dup,none]': 'list(list(builtins.str:"open((\'IMG\',), {\'mode\': \'rb\'})", '
                             "builtins.str:'enter', builtins.str:'seek(147, 0)', "
                             "builtins.str:'read(128)', builtins.str:'exit(None)'), "
                             'ndarray[<c8|(2, 1, '
                             '5)|0000c0c1000090c1000060410000bcc200001c42000084420000f0410000b0c100005c42000058420000c0c1000090c1000060410000bcc200001c42000084420000f0410000b0c100005c4200005842])',
 'complex64[list-dup,array]': 'list(list(builtins.str:"open((\'IMG\',), {\'mode\': \'rb\'})", '
                              "builtins.str:'enter', builtins.str:'seek(147, 0)', "
                              "builtins.str:'read(128)', builtins.str:'exit(None)'), "
                              'ndarray[<c8|(2, '
                              '3)|000060410000bcc2000060410000bcc20000f0410000b0c1000060410000bcc2000060410000bcc20000f0410000b0c1])',
 'complex64[list-dup,str]': 'list(list(builtins.str:"open((\'IMG\',), {\'mode\': \'rb\'})", '
                            "builtins.str:'enter', builtins.str:'seek(147, 0)', "
                            "builtins.str:'read(128)', builtins.str:'exit(None)'), raise "
                            'builtins.IndexError: only integers, slices (`:`), ellipsis (`...`), '
                            'numpy.newaxis (`None`) and integer or boolean arrays are valid '
                            'indices)',
 'complex64[list-oob,all]': 'list(list(), raise builtins.IndexError: list index out of range)',
 'complex64[list-oob,0]': 'list(list(), raise builtins.IndexError: list index out of range)',
 'complex64[list-oob,-1]': 'list(list(), raise builtins.IndexError: list index out of range)',
 'complex64[list-oob,5]': 'list(list(), raise builtins.IndexError: list index out of range)',
 'complex64[list-oob,1:4]': 'list(list(), raise builtins.IndexError: list index out of range)',
 'complex64[list-oob,::2]': 'list(list(), raise builtins.IndexError: list index out of range)',
 'complex64[list-oob,::-1]': 'list(list(), raise builtins.IndexError: list index out of range)',
 'complex64[list-oob,0:0]': 'list(list(), raise builtins.IndexError: list index out of range)',
 'complex64[list-oob,list]': 'list(list(), raise builtins.IndexError: list index out of range)',
 'complex64[list-oob,ellipsis]': 'list(list(), raise builtins.IndexError: list index out of range)',
 'complex64[list-oob,none]': 'list(list(), raise builtins.IndexError: list index out of range)',
 'complex64[list-oob,array]': 'list(list(), raise builtins.IndexError: list index out of range)',
 'complex64[list-oob,str]': 'list(list(), raise builtins.IndexError: list index out of range)',
 'complex64[array,all]': 'list(list(builtins.str:"open((\'IMG\',), {\'mode\': \'rb\'})", '
                         "builtins.str:'enter', builtins.str:'seek(147, 0)', "
                         "builtins.str:'read(128)', builtins.str:'seek(15, 0)', "
                         "builtins.str:'read(128)', builtins.str:'exit(None)'), ndarray[<c8|(2, "
                         '5)|000030c10000a2c2000058420000a6c20000a6c20000b0420000c0400000bac20000a0c10000a642000080c00000384200006c42000034420000e0410000a0c2000010420000c242000014c20000a841])',
 'complex64[array,0]': 'list(list(builtins.str:"open((\'IMG\',), {\'mode\': \'rb\'})", '
                       "builtins.str:'enter', builtins.str:'seek(147, 0)', "
                       "builtins.str:'read(128)', builtins.str:'seek(15, 0)', "
                       "builtins.str:'read(128)', builtins.str:'exit(None)'), "
                       'ndarray[<c8|(2,)|000030c10000a2c2000080c000003842])',
 'complex64[array,-1]': 'list(list(builtins.str:"open((\'IMG\',), {\'mode\': \'rb\'})", '
                        "builtins.str:'enter', builtins.str:'seek(147, 0)', "
                        "builtins.str:'read(128)', builtins.str:'seek(15, 0)', "
                        "builtins.str:'read(128)', builtins.str:'exit(None)'), "
                        'ndarray[<c8|(2,)|0000a0c10000a642000014c20000a841])',
 'complex64[array,5]': 'list(list(builtins.str:"open((\'IMG\',), {\'mode\': \'rb\'})", '
                       "builtins.str:'enter', builtins.str:'seek(147, 0)', "
                       "builtins.str:'read(128)', builtins.str:'seek(15, 0)', "
                       "builtins.str:'read(128)', builtins.str:'exit(None)'), raise "
                       'builtins.IndexError: index 5 is out of bounds for axis 1 with size 5)',
 'complex64[array,1:4]': 'list(list(builtins.str:"open((\'IMG\',), {\'mode\': \'rb\'})", '
                         "builtins.str:'enter', builtins.str:'seek(147, 0)', "
                         "builtins.str:'read(128)', builtins.str:'seek(15, 0)', "
                         "builtins.str:'read(128)', builtins.str:'exit(None)'), ndarray[<c8|(2, "
                         '3)|000058420000a6c20000a6c20000b0420000c0400000bac200006c42000034420000e0410000a0c2000010420000c242])',
 'complex64[array,::2]': 'list(list(builtins.str:"open((\'IMG\',), {\'mode\': \'rb\'})", '
                         "builtins.str:'enter', builtins.str:'seek(147, 0)', "
                         "builtins.str:'read(128)', builtins.str:'seek(15, 0)', "
                         "builtins.str:'read(128)', builtins.str:'exit(None)'), ndarray[<c8|(2, "
                         '3)|000030c10000a2c20000a6c20000b0420000a0c10000a642000080c0000038420000e0410000a0c2000014c20000a841])',
 'complex64[array,::-1]': 'list(list(builtins.str:"open((\'IMG\',), {\'mode\': \'rb\'})", '
                          "builtins.str:'enter', builtins.str:'seek(147, 0)', "
                          "builtins.str:'read(128)', builtins.str:'seek(15, 0)', "
                          "builtins.str:'read(128)', builtins.str:'exit(None)'), ndarray[<c8|(2, "
                          '5)|0000a0c10000a6420000c0400000bac20000a6c20000b042000058420000a6c2000030c10000a2c2000014c20000a841000010420000c2420000e0410000a0c200006c4200003442000080c000003842])',
 'complex64[array,0:0]': 'list(list(builtins.str:"open((\'IMG\',), {\'mode\': \'rb\'})", '
                         "builtins.str:'enter', builtins.str:'seek(147, 0)', "
                         "builtins.str:'read(128)', builtins.str:'seek(15, 0)', "
                         "builtins.str:'read(128)', builtins.str:'exit(None)'), ndarray[<c8|(2, "
                         '0)|])',
 'complex64[array,list]': 'list(list(builtins.str:"open((\'IMG\',), {\'mode\': \'rb\'})", '
                          "builtins.str:'enter', builtins.str:'seek(147, 0)', "
                          "builtins.str:'read(128)', builtins.str:'seek(15, 0)', "
                          "builtins.str:'read(128)', builtins.str:'exit(None)'), ndarray[<c8|(2, "
                          '2)|000030c10000a2c20000a0c10000a642000080c000003842000014c20000a841])',
 'complex64[array,ellipsis]': 'list(list(builtins.str:"open((\'IMG\',), {\'mode\': \'rb\'})", '
                              "builtins.str:'enter', builtins.str:'seek(147, 0)', "
                              "builtins.str:'read(128)', builtins.str:'seek(15, 0)', "
                              "builtins.str:'read(128)', builtins.str:'exit(None)'), "
                              'ndarray[<c8|(2, '
                              '5)|000030c10000a2c2000058420000a6c20000a6c20000b0420000c0400000bac20000a0c10000a642000080c00000384200006c42000034420000e0410000a0c2000010420000c242000014c20000a841])',
 'complex64[array,none]': 'list(list(builtins.str:"open((\'IMG\',), {\'mode\': \'rb\'})", '
                          "builtins.str:'enter', builtins.str:'seek(147, 0)', "
                          "builtins.str:'read(128)', builtins.str:'seek(15, 0)', "
                          "builtins.str:'read(128)', builtins.str:'exit(None)'), ndarray[<c8|(2, "
                          '1, '
                          '5)|000030c10000a2c2000058420000a6c20000a6c20000b0420000c0400000bac20000a0c10000a642000080c00000384200006c42000034420000e0410000a0c2000010420000c242000014c20000a841])',
 'complex64[array,array]': 'list(list(builtins.str:"open((\'IMG\',), {\'mode\': \'rb\'})", '
                           "builtins.str:'enter', builtins.str:'seek(147, 0)', "
                           "builtins.str:'read(128)', builtins.str:'seek(15, 0)', "
                           "builtins.str:'read(128)', builtins.str:'exit(None)'), ndarray[<c8|(2, "
                           '3)|000058420000a6c2000058420000a6c20000c0400000bac200006c420000344200006c4200003442000010420000c242])',
 'complex64[array,str]': 'list(list(builtins.str:"open((\'IMG\',), {\'mode\': \'rb\'})", '
                         "builtins.str:'enter', builtins.str:'seek(147, 0)', "
                         "builtins.str:'read(128)', builtins.str:'seek(15, 0)', "
                         "builtins.str:'read(128)', builtins.str:'exit(None)'), raise "
                         'builtins.IndexError: only integers, slices (`:`), ellipsis (`...`), '
                         'numpy.newaxis (`None`) and integer or boolean arrays are valid indices)',
 'complex64[tuple,all]': 'list(list(builtins.str:"open((\'IMG\',), {\'mode\': \'rb\'})", '
                         "builtins.str:'enter', builtins.str:'seek(15, 0)', "
                         "builtins.str:'read(128)', builtins.str:'seek(147, 0)', "
                         "builtins.str:'read(128)', builtins.str:'exit(None)'), ndarray[<c8|(2, "
                         '5)|00007cc2000080c20000744200008c420000c042000034c2000070c200007c420000c4c20000b2c200008042000040c1000018420000e8c10000a0c00000804100000442000044c2000044c20000ba42])',
 'complex64[tuple,0]': 'list(list(builtins.str:"open((\'IMG\',), {\'mode\': \'rb\'})", '
                       "builtins.str:'enter', builtins.str:'seek(15, 0)', "
                       "builtins.str:'read(128)', builtins.str:'seek(147, 0)', "
                       "builtins.str:'read(128)', builtins.str:'exit(None)'), "
                       'ndarray[<c8|(2,)|00007cc2000080c200008042000040c1])',
 'complex64[tuple,-1]': 'list(list(builtins.str:"open((\'IMG\',), {\'mode\': \'rb\'})", '
                        "builtins.str:'enter', builtins.str:'seek(15, 0)', "
                        "builtins.str:'read(128)', builtins.str:'seek(147, 0)', "
                        "builtins.str:'read(128)', builtins.str:'exit(None)'), "
                        'ndarray[<c8|(2,)|0000c4c20000b2c2000044c20000ba42])',
 'complex64[tuple,5]': 'list(list(builtins.str:"open((\'IMG\',), {\'mode\': \'rb\'})", '
                       "builtins.str:'enter', builtins.str:'seek(15, 0)', "
                       "builtins.str:'read(128)', builtins.str:'seek(147, 0)', "
                       "builtins.str:'read(128)', builtins.str:'exit(None)'), raise "
                       'builtins.IndexError: index 5 is out of bounds for axis 1 with size 5)',
 'complex64[tuple,1:4]': 'list(list(builtins.str:"open((\'IMG\',), {\'mode\': \'rb\'})", '
                         "builtins.str:'enter', builtins.str:'seek(15, 0)', "
                         "builtins.str:'read(128)', builtins.str:'seek(147, 0)', "
                         "builtins.str:'read(128)', builtins.str:'exit(None)'), ndarray[<c8|(2, "
                         '3)|0000744200008c420000c042000034c2000070c200007c42000018420000e8c10000a0c00000804100000442000044c2])',
 'complex64[tuple,::2]': 'list(list(builtins.str:"open((\'IMG\',), {\'mode\': \'rb\'})", '
                         "builtins.str:'enter', builtins.str:'seek(15, 0)', "
                         "builtins.str:'read(128)', builtins.str:'seek(147, 0)', "
                         "builtins.str:'read(128)', builtins.str:'exit(None)'), ndarray[<c8|(2, "
                         '3)|00007cc2000080c20000c042000034c20000c4c20000b2c200008042000040c10000a0c000008041000044c20000ba42])',
 'complex64[tuple,::-1]': 'list(list(builtins.str:"open((\'IMG\',), {\'mode\': \'rb\'})", '
                          "builtins.str:'enter', builtins.str:'seek(15, 0)', "
                          "builtins.str:'read(128)', builtins.str:'seek(147, 0)', "
                          "builtins.str:'read(128)', builtins.str:'exit(None)'), ndarray[<c8|(2, "
                          '5)|0000c4c20000b2c2000070c200007c420000c042000034c20000744200008c4200007cc2000080c2000044c20000ba4200000442000044c20000a0c000008041000018420000e8c100008042000040c1])',
 'complex64[tuple,0:0]': 'list(list(builtins.str:"open((\'IMG\',), {\'mode\': \'rb\'})", '
                         "builtins.str:'enter', builtins.str:'seek(15, 0)', "
                         "builtins.str:'read(128)', builtins.str:'seek(147, 0)', "
                         "builtins.str:'read(128)', builtins.str:'exit(None)'), ndarray[<c8|(2, "
                         '0)|])',
 'complex64[tuple,list]': 'list(list(builtins.str:"open((\'IMG\',), {\'mode\': \'rb\'})", '
                          "builtins.str:'enter', builtins.str:'seek(15, 0)', "
                          "builtins.str:'read(128)', builtins.str:'seek(147, 0)', "
                          "builtins.str:'read(128)', builtins.str:'exit(None)'), ndarray[<c8|(2, "
                          '2)|00007cc2000080c20000c4c20000b2c200008042000040c1000044c20000ba42])',
 'complex64[tuple,ellipsis]': 'list(list(builtins.str:"open((\'IMG\',), {\'mode\': \'rb\'})", '
                              "builtins.str:'enter', builtins.str:'seek(15, 0)', "
                              "builtins.str:'read(128)', builtins.str:'seek(147, 0)', "
                              "builtins.str:'read(128)', builtins.str:'exit(None)'), "
                              'ndarray[<c8|(2, '
                              '5)|00007cc2000080c20000744200008c420000c042000034c2000070c200007c420000c4c20000b2c200008042000040c1000018420000e8c10000a0c00000804100000442000044c2000044c20000ba42])',
 'complex64[tuple,none]': 'list(list(builtins.str:"open((\'IMG\',), {\'mode\': \'rb\'})", '
                          "builtins.str:'enter', builtins.str:'seek(15, 0)', "
                          "builtins.str:'read(128)', builtins.str:'seek(147, 0)', "
                          "builtins.str:'read(128)', builtins.str:'exit(None)'), ndarray[<c8|(2, "
                          '1, '
                          '5)|00007cc2000080c20000744200008c420000c042000034c2000070c200007c420000c4c20000b2c200008042000040c1000018420000e8c10000a0c00000804100000442000044c2000044c20000ba42])',
 'complex64[tuple,array]': 'list(list(builtins.str:"open((\'IMG\',), {\'mode\': \'rb\'})", '
                           "builtins.str:'enter', builtins.str:'seek(15, 0)', "
                           "builtins.str:'read(128)', builtins.str:'seek(147, 0)', "
                           "builtins.str:'read(128)', builtins.str:'exit(None)'), ndarray[<c8|(2, "
                           '3)|0000744200008c420000744200008c42000070c200007c42000018420000e8c1000018420000e8c100000442000044c2])',
 'complex64[tuple,str]': 'list(list(builtins.str:"open((\'IMG\',), {\'mode\': \'rb\'})", '
                         "builtins.str:'enter', builtins.str:'seek(15, 0)', "
                         "builtins.str:'read(128)', builtins.str:'seek(147, 0)', "
                         "builtins.str:'read(128)', builtins.str:'exit(None)'), raise "
                         'builtins.IndexError: only integers, slices (`:`), ellipsis (`...`), '
                         'numpy.newaxis (`None`) and integer or boolean arrays are valid indices)',
 'complex64[none,all]': "list(list(), raise builtins.TypeError: 'NoneType' object is not iterable)",
 'complex64[none,0]': "list(list(), raise builtins.TypeError: 'NoneType' object is not iterable)",
 'complex64[none,-1]': "list(list(), raise builtins.TypeError: 'NoneType' object is not iterable)",
 'complex64[none,5]': "list(list(), raise builtins.TypeError: 'NoneType' object is not iterable)",
 'complex64[none,1:4]': "list(list(), raise builtins.TypeError: 'NoneType' object is not iterable)",
 'complex64[none,::2]': "list(list(), raise builtins.TypeError: 'NoneType' object is not iterable)",
 'complex64[none,::-1]': "list(list(), raise builtins.TypeError: 'NoneType' object is not "
                         'iterable)',
 'complex64[none,0:0]': "list(list(), raise builtins.TypeError: 'NoneType' object is not iterable)",
 'complex64[none,list]': "list(list(), raise builtins.TypeError: 'NoneType' object is not "
                         'iterable)',
 'complex64[none,ellipsis]': "list(list(), raise builtins.TypeError: 'NoneType' object is not "
                             'iterable)',
 'complex64[none,none]': "list(list(), raise builtins.TypeError: 'NoneType' object is not "
                         'iterable)',
 'complex64[none,array]': "list(list(), raise builtins.TypeError: 'NoneType' object is not "
                          'iterable)',
 'complex64[none,str]': "list(list(), raise builtins.TypeError: 'NoneType' object is not iterable)",
 'complex64[ellipsis,all]': "list(list(), raise builtins.TypeError: 'ellipsis' object is not "
                            'iterable)',
 'complex64[ellipsis,0]': "list(list(), raise builtins.TypeError: 'ellipsis' object is not "
                          'iterable)',
 'complex64[ellipsis,-1]': "list(list(), raise builtins.TypeError: 'ellipsis' object is not "
                           'iterable)',
 'complex64[ellipsis,5]': "list(list(), raise builtins.TypeError: 'ellipsis' object is not "
                          'iterable)',
 'complex64[ellipsis,1:4]': "list(list(), raise builtins.TypeError: 'ellipsis' object is not "
                            'iterable)',
 'complex64[ellipsis,::2]': "list(list(), raise builtins.TypeError: 'ellipsis' object is not "
                            'iterable)',
 'complex64[ellipsis,::-1]': "list(list(), raise builtins.TypeError: 'ellipsis' object is not "
                             'iterable)',
 'complex64[ellipsis,0:0]': "list(list(), raise builtins.TypeError: 'ellipsis' object is not "
                            'iterable)',
 'complex64[ellipsis,list]': "list(list(), raise builtins.TypeError: 'ellipsis' object is not "
                             'iterable)',
 'complex64[ellipsis,ellipsis]': "list(list(), raise builtins.TypeError: 'ellipsis' object is not "
                                 'iterable)',
 'complex64[ellipsis,none]': "list(list(), raise builtins.TypeError: 'ellipsis' object is not "
                             'iterable)',
 'complex64[ellipsis,array]': "list(list(), raise builtins.TypeError: 'ellipsis' object is not "
                              'iterable)',
 'complex64[ellipsis,str]': "list(list(), raise builtins.TypeError: 'ellipsis' object is not "
                            'iterable)',
 'complex64[str,all]': 'list(list(), raise builtins.TypeError: list indices must be integers or '
                       'slices, not str)',
 'complex64[str,0]': 'list(list(), raise builtins.TypeError: list indices must be integers or '
                     'slices, not str)',
 'complex64[str,-1]': 'list(list(), raise builtins.TypeError: list indices must be integers or '
                      'slices, not str)',
 'complex64[str,5]': 'list(list(), raise builtins.TypeError: list indices must be integers or '
                     'slices, not str)',
 'complex64[str,1:4]': 'list(list(), raise builtins.TypeError: list indices must be integers or '
                       'slices, not str)',
 'complex64[str,::2]': 'list(list(), raise builtins.TypeError: list indices must be integers or '
                       'slices, not str)',
 'complex64[str,::-1]': 'list(list(), raise builtins.TypeError: list indices must be integers or '
                        'slices, not str)',
 'complex64[str,0:0]': 'list(list(), raise builtins.TypeError: list indices must be integers or '
                       'slices, not str)',
 'complex64[str,list]': 'list(list(), raise builtins.TypeError: list indices must be integers or '
                        'slices, not str)',
 'complex64[str,ellipsis]': 'list(list(), raise builtins.TypeError: list indices must be integers '
                            'or slices, not str)',
 'complex64[str,none]': 'list(list(), raise builtins.TypeError: list indices must be integers or '
                        'slices, not str)',
 'complex64[str,array]': 'list(list(), raise builtins.TypeError: list indices must be integers or '
                         'slices, not str)',
 'complex64[str,str]': 'list(list(), raise builtins.TypeError: list indices must be integers or '
                       'slices, not str)',
 'complex64[float,all]': "list(list(), raise builtins.TypeError: 'float' object is not iterable)",
 'complex64[float,0]': "list(list(), raise builtins.TypeError: 'float' object is not iterable)",
 'complex64[float,-1]': "list(list(), raise builtins.TypeError: 'float' object is not iterable)",
 'complex64[float,5]': "list(list(), raise builtins.TypeError: 'float' object is not iterable)",
 'complex64[float,1:4]': "list(list(), raise builtins.TypeError: 'float' object is not iterable)",
 'complex64[float,::2]': "list(list(), raise builtins.TypeError: 'float' object is not iterable)",
 'complex64[float,::-1]': "list(list(), raise builtins.TypeError: 'float' object is not iterable)",
 'complex64[float,0:0]': "list(list(), raise builtins.TypeError: 'float' object is not iterable)",
 'complex64[float,list]': "list(list(), raise builtins.TypeError: 'float' object is not iterable)",
 'complex64[float,ellipsis]': "list(list(), raise builtins.TypeError: 'float' object is not "
                              'iterable)',
 'complex64[float,none]': "list(list(), raise builtins.TypeError: 'float' object is not iterable)",
 'complex64[float,array]': "list(list(), raise builtins.TypeError: 'float' object is not iterable)",
 'complex64[float,str]': "list(list(), raise builtins.TypeError: 'float' object is not iterable)",
 'one[3]': 'list(list(builtins.str:"open((\'IMG\',), {\'mode\': \'rb\'})", builtins.str:\'enter\', '
           "builtins.str:'seek(57, 0)', builtins.str:'read(38)', builtins.str:'exit(None)'), "
           'ndarray[<u2|(5,)|98d2e0b1e97993aa3d42])',
 'three[3]': 'list(list(builtins.str:"open((\'IMG\',), {\'mode\': \'rb\'})", '
             "builtins.str:'enter', builtins.str:'seek(57, 0)', builtins.str:'read(38)', "
             "builtins.str:'exit(None)'), raise builtins.IndexError: too many indices for array: "
             'array is 2-dimensional, but 3 were indexed)',
 'newaxis[3]': 'list(list(builtins.str:"open((\'IMG\',), {\'mode\': \'rb\'})", '
               "builtins.str:'enter', builtins.str:'seek(57, 0)', builtins.str:'read(38)', "
               "builtins.str:'exit(None)'), ndarray[<u2|(1, 2)|e0b1e979])",
 'list-indexers[3]': 'list(list(builtins.str:"open((\'IMG\',), {\'mode\': \'rb\'})", '
                     "builtins.str:'enter', builtins.str:'seek(57, 0)', builtins.str:'read(38)', "
                     "builtins.str:'exit(None)'), ndarray[<u2|(2,)|98d2e0b1])",
 'list-indexers-one[3]': 'list(list(builtins.str:"open((\'IMG\',), {\'mode\': \'rb\'})", '
                         "builtins.str:'enter', builtins.str:'seek(57, 0)', "
                         "builtins.str:'read(38)', builtins.str:'exit(None)'), "
                         'ndarray[<u2|(5,)|98d2e0b1e97993aa3d42])',
 'custom-indexers[3]': 'list(list(builtins.str:"open((\'IMG\',), {\'mode\': \'rb\'})", '
                       "builtins.str:'enter', builtins.str:'seek(57, 0)', builtins.str:'read(38)', "
                       "builtins.str:'exit(None)'), ndarray[<u2|(2,)|98d2e0b1])",
 'array-indexers[3]': 'list(list(builtins.str:"open((\'IMG\',), {\'mode\': \'rb\'})", '
                      "builtins.str:'enter', builtins.str:'seek(57, 0)', builtins.str:'read(38)', "
                      "builtins.str:'exit(None)'), numpy.uint16(np.uint16(45536)))",
 'bare[3]': "list(list(), raise builtins.TypeError: 'int' object is not subscriptable)",
 'one[2:5]': 'list(list(builtins.str:"open((\'IMG\',), {\'mode\': \'rb\'})", '
             "builtins.str:'enter', builtins.str:'seek(15, 0)', builtins.str:'read(38)', "
             "builtins.str:'seek(57, 0)', builtins.str:'read(38)', builtins.str:'exit(None)'), "
             'ndarray[<u2|(3, 5)|ae2fd1cefbfaa7339b0298d2e0b1e97993aa3d423662f39290b23fa7c4c6])',
 'three[2:5]': 'list(list(builtins.str:"open((\'IMG\',), {\'mode\': \'rb\'})", '
               "builtins.str:'enter', builtins.str:'seek(15, 0)', builtins.str:'read(38)', "
               "builtins.str:'seek(57, 0)', builtins.str:'read(38)', builtins.str:'exit(None)'), "
               'raise builtins.IndexError: too many indices for array: array is 2-dimensional, but '
               '3 were indexed)',
 'newaxis[2:5]': 'list(list(builtins.str:"open((\'IMG\',), {\'mode\': \'rb\'})", '
                 "builtins.str:'enter', builtins.str:'seek(15, 0)', builtins.str:'read(38)', "
                 "builtins.str:'seek(57, 0)', builtins.str:'read(38)', builtins.str:'exit(None)'), "
                 'ndarray[<u2|(3, 1, 2)|d1cefbfae0b1e979f39290b2])',
 'list-indexers[2:5]': 'list(list(builtins.str:"open((\'IMG\',), {\'mode\': \'rb\'})", '
                       "builtins.str:'enter', builtins.str:'seek(15, 0)', builtins.str:'read(38)', "
                       "builtins.str:'seek(57, 0)', builtins.str:'read(38)', "
                       "builtins.str:'exit(None)'), ndarray[<u2|(3, 2)|ae2fd1ce98d2e0b13662f392])",
 'list-indexers-one[2:5]': 'list(list(builtins.str:"open((\'IMG\',), {\'mode\': \'rb\'})", '
                           "builtins.str:'enter', builtins.str:'seek(15, 0)', "
                           "builtins.str:'read(38)', builtins.str:'seek(57, 0)', "
                           "builtins.str:'read(38)', builtins.str:'exit(None)'), ndarray[<u2|(3, "
                           '5)|ae2fd1cefbfaa7339b0298d2e0b1e97993aa3d423662f39290b23fa7c4c6])',
 'custom-indexers[2:5]': 'list(list(builtins.str:"open((\'IMG\',), {\'mode\': \'rb\'})", '
                         "builtins.str:'enter', builtins.str:'seek(15, 0)', "
                         "builtins.str:'read(38)', builtins.str:'seek(57, 0)', "
                         "builtins.str:'read(38)', builtins.str:'exit(None)'), ndarray[<u2|(3, "
                         '2)|ae2fd1ce98d2e0b13662f392])',
 'array-indexers[2:5]': 'list(list(builtins.str:"open((\'IMG\',), {\'mode\': \'rb\'})", '
                        "builtins.str:'enter', builtins.str:'seek(15, 0)', "
                        "builtins.str:'read(38)', builtins.str:'seek(57, 0)', "
                        "builtins.str:'read(38)', builtins.str:'exit(None)'), "
                        'ndarray[<u2|(3,)|d1cee0b1f392])',
 'bare[2:5]': "list(list(), raise builtins.TypeError: 'slice' object is not subscriptable)",
 'one[0:0]': 'list(list(builtins.str:"open((\'IMG\',), {\'mode\': \'rb\'})", '
             "builtins.str:'enter', builtins.str:'exit(None)'), ndarray[<u2|(0, 5)|])",
 'three[0:0]': 'list(list(builtins.str:"open((\'IMG\',), {\'mode\': \'rb\'})", '
               "builtins.str:'enter', builtins.str:'exit(None)'), raise builtins.IndexError: too "
               'many indices for array: array is 2-dimensional, but 3 were indexed)',
 'newaxis[0:0]': 'list(list(builtins.str:"open((\'IMG\',), {\'mode\': \'rb\'})", '
                 "builtins.str:'enter', builtins.str:'exit(None)'), ndarray[<u2|(0, 1, 2)|])",
 'list-indexers[0:0]': 'list(list(builtins.str:"open((\'IMG\',), {\'mode\': \'rb\'})", '
                       "builtins.str:'enter', builtins.str:'exit(None)'), ndarray[<u2|(0, 2)|])",
 'list-indexers-one[0:0]': 'list(list(builtins.str:"open((\'IMG\',), {\'mode\': \'rb\'})", '
                           "builtins.str:'enter', builtins.str:'exit(None)'), ndarray[<u2|(0, "
                           '5)|])',
 'custom-indexers[0:0]': 'list(list(builtins.str:"open((\'IMG\',), {\'mode\': \'rb\'})", '
                         "builtins.str:'enter', builtins.str:'exit(None)'), ndarray[<u2|(0, 2)|])",
 'array-indexers[0:0]': 'list(list(builtins.str:"open((\'IMG\',), {\'mode\': \'rb\'})", '
                        "builtins.str:'enter', builtins.str:'exit(None)'), ndarray[<u2|(0,)|])",
 'bare[0:0]': "list(list(), raise builtins.TypeError: 'slice' object is not subscriptable)",
 'one[list]': 'list(list(builtins.str:"open((\'IMG\',), {\'mode\': \'rb\'})", '
              "builtins.str:'enter', builtins.str:'seek(15, 0)', builtins.str:'read(38)', "
              "builtins.str:'exit(None)'), ndarray[<u2|(2, "
              '5)|6629092f3a86a4e3c49eae2fd1cefbfaa7339b02])',
 'three[list]': 'list(list(builtins.str:"open((\'IMG\',), {\'mode\': \'rb\'})", '
                "builtins.str:'enter', builtins.str:'seek(15, 0)', builtins.str:'read(38)', "
                "builtins.str:'exit(None)'), raise builtins.IndexError: too many indices for "
                'array: array is 2-dimensional, but 3 were indexed)',
 'newaxis[list]': 'list(list(builtins.str:"open((\'IMG\',), {\'mode\': \'rb\'})", '
                  "builtins.str:'enter', builtins.str:'seek(15, 0)', builtins.str:'read(38)', "
                  "builtins.str:'exit(None)'), ndarray[<u2|(2, 1, 2)|092f3a86d1cefbfa])",
 'list-indexers[list]': 'list(list(builtins.str:"open((\'IMG\',), {\'mode\': \'rb\'})", '
                        "builtins.str:'enter', builtins.str:'seek(15, 0)', "
                        "builtins.str:'read(38)', builtins.str:'exit(None)'), ndarray[<u2|(2, "
                        '2)|6629092fae2fd1ce])',
 'list-indexers-one[list]': 'list(list(builtins.str:"open((\'IMG\',), {\'mode\': \'rb\'})", '
                            "builtins.str:'enter', builtins.str:'seek(15, 0)', "
                            "builtins.str:'read(38)', builtins.str:'exit(None)'), ndarray[<u2|(2, "
                            '5)|6629092f3a86a4e3c49eae2fd1cefbfaa7339b02])',
 'custom-indexers[list]': 'list(list(builtins.str:"open((\'IMG\',), {\'mode\': \'rb\'})", '
                          "builtins.str:'enter', builtins.str:'seek(15, 0)', "
                          "builtins.str:'read(38)', builtins.str:'exit(None)'), ndarray[<u2|(2, "
                          '2)|6629092fae2fd1ce])',
 'array-indexers[list]': 'list(list(builtins.str:"open((\'IMG\',), {\'mode\': \'rb\'})", '
                         "builtins.str:'enter', builtins.str:'seek(15, 0)', "
                         "builtins.str:'read(38)', builtins.str:'exit(None)'), "
                         'ndarray[<u2|(2,)|092fd1ce])',
 'bare[list]': 'list(list(builtins.str:"open((\'IMG\',), {\'mode\': \'rb\'})", '
               "builtins.str:'enter', builtins.str:'seek(15, 0)', builtins.str:'read(38)', "
               "builtins.str:'exit(None)'), numpy.uint16(np.uint16(34362)))",
 'one[7]': 'list(list(), raise builtins.IndexError: list index out of range)',
 'three[7]': 'list(list(), raise builtins.IndexError: list index out of range)',
 'newaxis[7]': 'list(list(), raise builtins.IndexError: list index out of range)',
 'list-indexers[7]': 'list(list(), raise builtins.IndexError: list index out of range)',
 'list-indexers-one[7]': 'list(list(), raise builtins.IndexError: list index out of range)',
 'custom-indexers[7]': 'list(list(), raise builtins.IndexError: list index out of range)',
 'array-indexers[7]': 'list(list(), raise builtins.IndexError: list index out of range)',
 'bare[7]': "list(list(), raise builtins.TypeError: 'int' object is not subscriptable)",
 'empty-tuple': 'list(list(), raise builtins.IndexError: tuple index out of range)',
 'empty-list': 'list(list(), raise builtins.IndexError: list index out of range)',
 'indexers-none': "list(list(), raise builtins.TypeError: 'NoneType' object is not subscriptable)",
 'indexers-str': 'list(list(), raise builtins.TypeError: list indices must be integers or slices, '
                 'not str)',
 'indexers-dict': 'list(list(builtins.str:"open((\'IMG\',), {\'mode\': \'rb\'})", '
                  "builtins.str:'enter', builtins.str:'seek(15, 0)', builtins.str:'read(38)', "
                  "builtins.str:'exit(None)'), raise builtins.KeyError: slice(1, None, None))",
 'indexers-int-array': "list(list(), raise builtins.TypeError: 'numpy.int64' object is not "
                       'iterable)',
 'rpc=None[3]': 'list(list(builtins.str:"open((\'IMG\',), {\'mode\': \'rb\'})", '
                "builtins.str:'enter', builtins.str:'seek(15, 0)', builtins.str:'read(94)', "
                "builtins.str:'exit(None)'), ndarray[<u2|(5,)|98d2e0b1e97993aa3d42])",
 'rpc=None[all]': 'list(list(builtins.str:"open((\'IMG\',), {\'mode\': \'rb\'})", '
                  "builtins.str:'enter', builtins.str:'seek(15, 0)', builtins.str:'read(94)', "
                  "builtins.str:'exit(None)'), ndarray[<u2|(7, "
                  '5)|6629092f3a86a4e3c49e217bf9cbeaa366ae3051ae2fd1cefbfaa7339b0298d2e0b1e97993aa3d423662f39290b23fa7c4c6487238c56716f687576791b9aa159cc2ea440bd3])',
 'rpc=None[::-1]': 'list(list(builtins.str:"open((\'IMG\',), {\'mode\': \'rb\'})", '
                   "builtins.str:'enter', builtins.str:'seek(15, 0)', builtins.str:'read(94)', "
                   "builtins.str:'exit(None)'), ndarray[<u2|(7, "
                   '5)|91b9aa159cc2ea440bd3487238c56716f68757673662f39290b23fa7c4c698d2e0b1e97993aa3d42ae2fd1cefbfaa7339b02217bf9cbeaa366ae30516629092f3a86a4e3c49e])',
 'rpc=None[1::3]': 'list(list(builtins.str:"open((\'IMG\',), {\'mode\': \'rb\'})", '
                   "builtins.str:'enter', builtins.str:'seek(15, 0)', builtins.str:'read(94)', "
                   "builtins.str:'exit(None)'), ndarray[<u2|(2, "
                   '5)|217bf9cbeaa366ae30513662f39290b23fa7c4c6])',
 'rpc=None[list-neg]': 'list(list(builtins.str:"open((\'IMG\',), {\'mode\': \'rb\'})", '
                       "builtins.str:'enter', builtins.str:'seek(15, 0)', builtins.str:'read(94)', "
                       "builtins.str:'exit(None)'), ndarray[<u2|(3, "
                       '5)|91b9aa159cc2ea440bd391b9aa159cc2ea440bd36629092f3a86a4e3c49e])',
 'rpc=None[0:0]': 'list(list(builtins.str:"open((\'IMG\',), {\'mode\': \'rb\'})", '
                  "builtins.str:'enter', builtins.str:'exit(None)'), ndarray[<u2|(0, 5)|])",
 'rpc=1[3]': 'list(list(builtins.str:"open((\'IMG\',), {\'mode\': \'rb\'})", '
             "builtins.str:'enter', builtins.str:'seek(57, 0)', builtins.str:'read(10)', "
             "builtins.str:'exit(None)'), ndarray[<u2|(5,)|98d2e0b1e97993aa3d42])",
 'rpc=1[all]': 'list(list(builtins.str:"open((\'IMG\',), {\'mode\': \'rb\'})", '
               "builtins.str:'enter', builtins.str:'seek(15, 0)', builtins.str:'read(10)', "
               "builtins.str:'seek(29, 0)', builtins.str:'read(10)', builtins.str:'seek(43, 0)', "
               "builtins.str:'read(10)', builtins.str:'seek(57, 0)', builtins.str:'read(10)', "
               "builtins.str:'seek(71, 0)', builtins.str:'read(10)', builtins.str:'seek(85, 0)', "
               "builtins.str:'read(10)', builtins.str:'seek(99, 0)', builtins.str:'read(10)', "
               "builtins.str:'exit(None)'), ndarray[<u2|(7, "
               '5)|6629092f3a86a4e3c49e217bf9cbeaa366ae3051ae2fd1cefbfaa7339b0298d2e0b1e97993aa3d423662f39290b23fa7c4c6487238c56716f687576791b9aa159cc2ea440bd3])',
 'rpc=1[::-1]': 'list(list(builtins.str:"open((\'IMG\',), {\'mode\': \'rb\'})", '
                "builtins.str:'enter', builtins.str:'seek(99, 0)', builtins.str:'read(10)', "
                "builtins.str:'seek(85, 0)', builtins.str:'read(10)', builtins.str:'seek(71, 0)', "
                "builtins.str:'read(10)', builtins.str:'seek(57, 0)', builtins.str:'read(10)', "
                "builtins.str:'seek(43, 0)', builtins.str:'read(10)', builtins.str:'seek(29, 0)', "
                "builtins.str:'read(10)', builtins.str:'seek(15, 0)', builtins.str:'read(10)', "
                "builtins.str:'exit(None)'), ndarray[<u2|(7, "
                '5)|91b9aa159cc2ea440bd3487238c56716f68757673662f39290b23fa7c4c698d2e0b1e97993aa3d42ae2fd1cefbfaa7339b02217bf9cbeaa366ae30516629092f3a86a4e3c49e])',
 'rpc=1[1::3]': 'list(list(builtins.str:"open((\'IMG\',), {\'mode\': \'rb\'})", '
                "builtins.str:'enter', builtins.str:'seek(29, 0)', builtins.str:'read(10)', "
                "builtins.str:'seek(71, 0)', builtins.str:'read(10)', builtins.str:'exit(None)'), "
                'ndarray[<u2|(2, 5)|217bf9cbeaa366ae30513662f39290b23fa7c4c6])',
 'rpc=1[list-neg]': 'list(list(builtins.str:"open((\'IMG\',), {\'mode\': \'rb\'})", '
                    "builtins.str:'enter', builtins.str:'seek(99, 0)', builtins.str:'read(10)', "
                    "builtins.str:'seek(15, 0)', builtins.str:'read(10)', "
                    "builtins.str:'exit(None)'), ndarray[<u2|(3, "
                    '5)|91b9aa159cc2ea440bd391b9aa159cc2ea440bd36629092f3a86a4e3c49e])',
 'rpc=1[0:0]': 'list(list(builtins.str:"open((\'IMG\',), {\'mode\': \'rb\'})", '
               "builtins.str:'enter', builtins.str:'exit(None)'), ndarray[<u2|(0, 5)|])",
 'rpc=2[3]': 'list(list(builtins.str:"open((\'IMG\',), {\'mode\': \'rb\'})", '
             "builtins.str:'enter', builtins.str:'seek(43, 0)', builtins.str:'read(24)', "
             "builtins.str:'exit(None)'), ndarray[<u2|(5,)|98d2e0b1e97993aa3d42])",
 'rpc=2[all]': 'list(list(builtins.str:"open((\'IMG\',), {\'mode\': \'rb\'})", '
               "builtins.str:'enter', builtins.str:'seek(15, 0)', builtins.str:'read(24)', "
               "builtins.str:'seek(43, 0)', builtins.str:'read(24)', builtins.str:'seek(71, 0)', "
               "builtins.str:'read(24)', builtins.str:'seek(99, 0)', builtins.str:'read(10)', "
               "builtins.str:'exit(None)'), ndarray[<u2|(7, "
               '5)|6629092f3a86a4e3c49e217bf9cbeaa366ae3051ae2fd1cefbfaa7339b0298d2e0b1e97993aa3d423662f39290b23fa7c4c6487238c56716f687576791b9aa159cc2ea440bd3])',
 'rpc=2[::-1]': 'list(list(builtins.str:"open((\'IMG\',), {\'mode\': \'rb\'})", '
                "builtins.str:'enter', builtins.str:'seek(99, 0)', builtins.str:'read(10)', "
                "builtins.str:'seek(71, 0)', builtins.str:'read(24)', builtins.str:'seek(43, 0)', "
                "builtins.str:'read(24)', builtins.str:'seek(15, 0)', builtins.str:'read(24)', "
                "builtins.str:'exit(None)'), ndarray[<u2|(7, "
                '5)|91b9aa159cc2ea440bd3487238c56716f68757673662f39290b23fa7c4c698d2e0b1e97993aa3d42ae2fd1cefbfaa7339b02217bf9cbeaa366ae30516629092f3a86a4e3c49e])',
 'rpc=2[1::3]': 'list(list(builtins.str:"open((\'IMG\',), {\'mode\': \'rb\'})", '
                "builtins.str:'enter', builtins.str:'seek(15, 0)', builtins.str:'read(24)', "
                "builtins.str:'seek(71, 0)', builtins.str:'read(24)', builtins.str:'exit(None)'), "
                'ndarray[<u2|(2, 5)|217bf9cbeaa366ae30513662f39290b23fa7c4c6])',
 'rpc=2[list-neg]': 'list(list(builtins.str:"open((\'IMG\',), {\'mode\': \'rb\'})", '
                    "builtins.str:'enter', builtins.str:'seek(99, 0)', builtins.str:'read(10)', "
                    "builtins.str:'seek(15, 0)', builtins.str:'read(24)', "
                    "builtins.str:'exit(None)'), ndarray[<u2|(3, "
                    '5)|91b9aa159cc2ea440bd391b9aa159cc2ea440bd36629092f3a86a4e3c49e])',
 'rpc=2[0:0]': 'list(list(builtins.str:"open((\'IMG\',), {\'mode\': \'rb\'})", '
               "builtins.str:'enter', builtins.str:'exit(None)'), ndarray[<u2|(0, 5)|])",
 'rpc=3[3]': 'list(list(builtins.str:"open((\'IMG\',), {\'mode\': \'rb\'})", '
             "builtins.str:'enter', builtins.str:'seek(57, 0)', builtins.str:'read(38)', "
             "builtins.str:'exit(None)'), ndarray[<u2|(5,)|98d2e0b1e97993aa3d42])",
 'rpc=3[all]': 'list(list(builtins.str:"open((\'IMG\',), {\'mode\': \'rb\'})", '
               "builtins.str:'enter', builtins.str:'seek(15, 0)', builtins.str:'read(38)', "
               "builtins.str:'seek(57, 0)', builtins.str:'read(38)', builtins.str:'seek(99, 0)', "
               "builtins.str:'read(10)', builtins.str:'exit(None)'), ndarray[<u2|(7, "
               '5)|6629092f3a86a4e3c49e217bf9cbeaa366ae3051ae2fd1cefbfaa7339b0298d2e0b1e97993aa3d423662f39290b23fa7c4c6487238c56716f687576791b9aa159cc2ea440bd3])',
 'rpc=3[::-1]': 'list(list(builtins.str:"open((\'IMG\',), {\'mode\': \'rb\'})", '
                "builtins.str:'enter', builtins.str:'seek(99, 0)', builtins.str:'read(10)', "
                "builtins.str:'seek(57, 0)', builtins.str:'read(38)', builtins.str:'seek(15, 0)', "
                "builtins.str:'read(38)', builtins.str:'exit(None)'), ndarray[<u2|(7, "
                '5)|91b9aa159cc2ea440bd3487238c56716f68757673662f39290b23fa7c4c698d2e0b1e97993aa3d42ae2fd1cefbfaa7339b02217bf9cbeaa366ae30516629092f3a86a4e3c49e])',
 'rpc=3[1::3]': 'list(list(builtins.str:"open((\'IMG\',), {\'mode\': \'rb\'})", '
                "builtins.str:'enter', builtins.str:'seek(15, 0)', builtins.str:'read(38)', "
                "builtins.str:'seek(57, 0)', builtins.str:'read(38)', builtins.str:'exit(None)'), "
                'ndarray[<u2|(2, 5)|217bf9cbeaa366ae30513662f39290b23fa7c4c6])',
 'rpc=3[list-neg]': 'list(list(builtins.str:"open((\'IMG\',), {\'mode\': \'rb\'})", '
                    "builtins.str:'enter', builtins.str:'seek(99, 0)', builtins.str:'read(10)', "
                    "builtins.str:'seek(15, 0)', builtins.str:'read(38)', "
                    "builtins.str:'exit(None)'), ndarray[<u2|(3, "
                    '5)|91b9aa159cc2ea440bd391b9aa159cc2ea440bd36629092f3a86a4e3c49e])',
 'rpc=3[0:0]': 'list(list(builtins.str:"open((\'IMG\',), {\'mode\': \'rb\'})", '
               "builtins.str:'enter', builtins.str:'exit(None)'), ndarray[<u2|(0, 5)|])",
 'rpc=4[3]': 'list(list(builtins.str:"open((\'IMG\',), {\'mode\': \'rb\'})", '
             "builtins.str:'enter', builtins.str:'seek(15, 0)', builtins.str:'read(52)', "
             "builtins.str:'exit(None)'), ndarray[<u2|(5,)|98d2e0b1e97993aa3d42])",
 'rpc=4[all]': 'list(list(builtins.str:"open((\'IMG\',), {\'mode\': \'rb\'})", '
               "builtins.str:'enter', builtins.str:'seek(15, 0)', builtins.str:'read(52)', "
               "builtins.str:'seek(71, 0)', builtins.str:'read(38)', builtins.str:'exit(None)'), "
               'ndarray[<u2|(7, '
               '5)|6629092f3a86a4e3c49e217bf9cbeaa366ae3051ae2fd1cefbfaa7339b0298d2e0b1e97993aa3d423662f39290b23fa7c4c6487238c56716f687576791b9aa159cc2ea440bd3])',
 'rpc=4[::-1]': 'list(list(builtins.str:"open((\'IMG\',), {\'mode\': \'rb\'})", '
                "builtins.str:'enter', builtins.str:'seek(71, 0)', builtins.str:'read(38)', "
                "builtins.str:'seek(15, 0)', builtins.str:'read(52)', builtins.str:'exit(None)'), "
                'ndarray[<u2|(7, '
                '5)|91b9aa159cc2ea440bd3487238c56716f68757673662f39290b23fa7c4c698d2e0b1e97993aa3d42ae2fd1cefbfaa7339b02217bf9cbeaa366ae30516629092f3a86a4e3c49e])',
 'rpc=4[1::3]': 'list(list(builtins.str:"open((\'IMG\',), {\'mode\': \'rb\'})", '
                "builtins.str:'enter', builtins.str:'seek(15, 0)', builtins.str:'read(52)', "
                "builtins.str:'seek(71, 0)', builtins.str:'read(38)', builtins.str:'exit(None)'), "
                'ndarray[<u2|(2, 5)|217bf9cbeaa366ae30513662f39290b23fa7c4c6])',
 'rpc=4[list-neg]': 'list(list(builtins.str:"open((\'IMG\',), {\'mode\': \'rb\'})", '
                    "builtins.str:'enter', builtins.str:'seek(71, 0)', builtins.str:'read(38)', "
                    "builtins.str:'seek(15, 0)', builtins.str:'read(52)', "
                    "builtins.str:'exit(None)'), ndarray[<u2|(3, "
                    '5)|91b9aa159cc2ea440bd391b9aa159cc2ea440bd36629092f3a86a4e3c49e])',
 'rpc=4[0:0]': 'list(list(builtins.str:"open((\'IMG\',), {\'mode\': \'rb\'})", '
               "builtins.str:'enter', builtins.str:'exit(None)'), ndarray[<u2|(0, 5)|])",
 'rpc=7[3]': 'list(list(builtins.str:"open((\'IMG\',), {\'mode\': \'rb\'})", '
             "builtins.str:'enter', builtins.str:'seek(15, 0)', builtins.str:'read(94)', "
             "builtins.str:'exit(None)'), ndarray[<u2|(5,)|98d2e0b1e97993aa3d42])",
 'rpc=7[all]': 'list(list(builtins.str:"open((\'IMG\',), {\'mode\': \'rb\'})", '
               "builtins.str:'enter', builtins.str:'seek(15, 0)', builtins.str:'read(94)', "
               "builtins.str:'exit(None)'), ndarray[<u2|(7, "
               '5)|6629092f3a86a4e3c49e217bf9cbeaa366ae3051ae2fd1cefbfaa7339b0298d2e0b1e97993aa3d423662f39290b23fa7c4c6487238c56716f687576791b9aa159cc2ea440bd3])',
 'rpc=7[::-1]': 'list(list(builtins.str:"open((\'IMG\',), {\'mode\': \'rb\'})", '
                "builtins.str:'enter', builtins.str:'seek(15, 0)', builtins.str:'read(94)', "
                "builtins.str:'exit(None)'), ndarray[<u2|(7, "
                '5)|91b9aa159cc2ea440bd3487238c56716f68757673662f39290b23fa7c4c698d2e0b1e97993aa3d42ae2fd1cefbfaa7339b02217bf9cbeaa366ae30516629092f3a86a4e3c49e])',
 'rpc=7[1::3]': 'list(list(builtins.str:"open((\'IMG\',), {\'mode\': \'rb\'})", '
                "builtins.str:'enter', builtins.str:'seek(15, 0)', builtins.str:'read(94)', "
                "builtins.str:'exit(None)'), ndarray[<u2|(2, "
                '5)|217bf9cbeaa366ae30513662f39290b23fa7c4c6])',
 'rpc=7[list-neg]': 'list(list(builtins.str:"open((\'IMG\',), {\'mode\': \'rb\'})", '
                    "builtins.str:'enter', builtins.str:'seek(15, 0)', builtins.str:'read(94)', "
                    "builtins.str:'exit(None)'), ndarray[<u2|(3, "
                    '5)|91b9aa159cc2ea440bd391b9aa159cc2ea440bd36629092f3a86a4e3c49e])',
 'rpc=7[0:0]': 'list(list(builtins.str:"open((\'IMG\',), {\'mode\': \'rb\'})", '
               "builtins.str:'enter', builtins.str:'exit(None)'), ndarray[<u2|(0, 5)|])",
 'rpc=8[3]': 'list(list(builtins.str:"open((\'IMG\',), {\'mode\': \'rb\'})", '
             "builtins.str:'enter', builtins.str:'seek(15, 0)', builtins.str:'read(94)', "
             "builtins.str:'exit(None)'), ndarray[<u2|(5,)|98d2e0b1e97993aa3d42])",
 'rpc=8[all]': 'list(list(builtins.str:"open((\'IMG\',), {\'mode\': \'rb\'})", '
               "builtins.str:'enter', builtins.str:'seek(15, 0)', builtins.str:'read(94)', "
               "builtins.str:'exit(None)'), ndarray[<u2|(7, "
               '5)|6629092f3a86a4e3c49e217bf9cbeaa366ae3051ae2fd1cefbfaa7339b0298d2e0b1e97993aa3d423662f39290b23fa7c4c6487238c56716f687576791b9aa159cc2ea440bd3])',
 'rpc=8[::-1]': 'list(list(builtins.str:"open((\'IMG\',), {\'mode\': \'rb\'})", '
                "builtins.str:'enter', builtins.str:'seek(15, 0)', builtins.str:'read(94)', "
                "builtins.str:'exit(None)'), ndarray[<u2|(7, "
                '5)|91b9aa159cc2ea440bd3487238c56716f68757673662f39290b23fa7c4c698d2e0b1e97993aa3d42ae2fd1cefbfaa7339b02217bf9cbeaa366ae30516629092f3a86a4e3c49e])',
 'rpc=8[1::3]': 'list(list(builtins.str:"open((\'IMG\',), {\'mode\': \'rb\'})", '
                "builtins.str:'enter', builtins.str:'seek(15, 0)', builtins.str:'read(94)', "
                "builtins.str:'exit(None)'), ndarray[<u2|(2, "
                '5)|217bf9cbeaa366ae30513662f39290b23fa7c4c6])',
 'rpc=8[list-neg]': 'list(list(builtins.str:"open((\'IMG\',), {\'mode\': \'rb\'})", '
                    "builtins.str:'enter', builtins.str:'seek(15, 0)', builtins.str:'read(94)', "
                    "builtins.str:'exit(None)'), ndarray[<u2|(3, "
                    '5)|91b9aa159cc2ea440bd391b9aa159cc2ea440bd36629092f3a86a4e3c49e])',
 'rpc=8[0:0]': 'list(list(builtins.str:"open((\'IMG\',), {\'mode\': \'rb\'})", '
               "builtins.str:'enter', builtins.str:'exit(None)'), ndarray[<u2|(0, 5)|])",
 'rpc=-1[3]': 'list(list(builtins.str:"open((\'IMG\',), {\'mode\': \'rb\'})", '
              "builtins.str:'enter', builtins.str:'seek(15, 0)', builtins.str:'read(94)', "
              "builtins.str:'exit(None)'), ndarray[<u2|(5,)|98d2e0b1e97993aa3d42])",
 'rpc=-1[all]': 'list(list(builtins.str:"open((\'IMG\',), {\'mode\': \'rb\'})", '
                "builtins.str:'enter', builtins.str:'seek(15, 0)', builtins.str:'read(94)', "
                "builtins.str:'exit(None)'), ndarray[<u2|(7, "
                '5)|6629092f3a86a4e3c49e217bf9cbeaa366ae3051ae2fd1cefbfaa7339b0298d2e0b1e97993aa3d423662f39290b23fa7c4c6487238c56716f687576791b9aa159cc2ea440bd3])',
 'rpc=-1[::-1]': 'list(list(builtins.str:"open((\'IMG\',), {\'mode\': \'rb\'})", '
                 "builtins.str:'enter', builtins.str:'seek(15, 0)', builtins.str:'read(94)', "
                 "builtins.str:'exit(None)'), ndarray[<u2|(7, "
                 '5)|91b9aa159cc2ea440bd3487238c56716f68757673662f39290b23fa7c4c698d2e0b1e97993aa3d42ae2fd1cefbfaa7339b02217bf9cbeaa366ae30516629092f3a86a4e3c49e])',
 'rpc=-1[1::3]': 'list(list(builtins.str:"open((\'IMG\',), {\'mode\': \'rb\'})", '
                 "builtins.str:'enter', builtins.str:'seek(15, 0)', builtins.str:'read(94)', "
                 "builtins.str:'exit(None)'), ndarray[<u2|(2, "
                 '5)|217bf9cbeaa366ae30513662f39290b23fa7c4c6])',
 'rpc=-1[list-neg]': 'list(list(builtins.str:"open((\'IMG\',), {\'mode\': \'rb\'})", '
                     "builtins.str:'enter', builtins.str:'seek(15, 0)', builtins.str:'read(94)', "
                     "builtins.str:'exit(None)'), ndarray[<u2|(3, "
                     '5)|91b9aa159cc2ea440bd391b9aa159cc2ea440bd36629092f3a86a4e3c49e])',
 'rpc=-1[0:0]': 'list(list(builtins.str:"open((\'IMG\',), {\'mode\': \'rb\'})", '
                "builtins.str:'enter', builtins.str:'exit(None)'), ndarray[<u2|(0, 5)|])",
 "rpc='auto'[3]": 'list(list(builtins.str:"open((\'IMG\',), {\'mode\': \'rb\'})", '
                  "builtins.str:'enter', builtins.str:'seek(15, 0)', builtins.str:'read(94)', "
                  "builtins.str:'exit(None)'), ndarray[<u2|(5,)|98d2e0b1e97993aa3d42])",
 "rpc='auto'[all]": 'list(list(builtins.str:"open((\'IMG\',), {\'mode\': \'rb\'})", '
                    "builtins.str:'enter', builtins.str:'seek(15, 0)', builtins.str:'read(94)', "
                    "builtins.str:'exit(None)'), ndarray[<u2|(7, "
                    '5)|6629092f3a86a4e3c49e217bf9cbeaa366ae3051ae2fd1cefbfaa7339b0298d2e0b1e97993aa3d423662f39290b23fa7c4c6487238c56716f687576791b9aa159cc2ea440bd3])',
 "rpc='auto'[::-1]": 'list(list(builtins.str:"open((\'IMG\',), {\'mode\': \'rb\'})", '
                     "builtins.str:'enter', builtins.str:'seek(15, 0)', builtins.str:'read(94)', "
                     "builtins.str:'exit(None)'), ndarray[<u2|(7, "
                     '5)|91b9aa159cc2ea440bd3487238c56716f68757673662f39290b23fa7c4c698d2e0b1e97993aa3d42ae2fd1cefbfaa7339b02217bf9cbeaa366ae30516629092f3a86a4e3c49e])',
 "rpc='auto'[1::3]": 'list(list(builtins.str:"open((\'IMG\',), {\'mode\': \'rb\'})", '
                     "builtins.str:'enter', builtins.str:'seek(15, 0)', builtins.str:'read(94)', "
                     "builtins.str:'exit(None)'), ndarray[<u2|(2, "
                     '5)|217bf9cbeaa366ae30513662f39290b23fa7c4c6])',
 "rpc='auto'[list-neg]": 'list(list(builtins.str:"open((\'IMG\',), {\'mode\': \'rb\'})", '
                         "builtins.str:'enter', builtins.str:'seek(15, 0)', "
                         "builtins.str:'read(94)', builtins.str:'exit(None)'), ndarray[<u2|(3, "
                         '5)|91b9aa159cc2ea440bd391b9aa159cc2ea440bd36629092f3a86a4e3c49e])',
 "rpc='auto'[0:0]": 'list(list(builtins.str:"open((\'IMG\',), {\'mode\': \'rb\'})", '
                    "builtins.str:'enter', builtins.str:'exit(None)'), ndarray[<u2|(0, 5)|])",
 "rpc='20B'[3]": 'list(list(builtins.str:"open((\'IMG\',), {\'mode\': \'rb\'})", '
                 "builtins.str:'enter', builtins.str:'seek(43, 0)', builtins.str:'read(24)', "
                 "builtins.str:'exit(None)'), ndarray[<u2|(5,)|98d2e0b1e97993aa3d42])",
 "rpc='20B'[all]": 'list(list(builtins.str:"open((\'IMG\',), {\'mode\': \'rb\'})", '
                   "builtins.str:'enter', builtins.str:'seek(15, 0)', builtins.str:'read(24)', "
                   "builtins.str:'seek(43, 0)', builtins.str:'read(24)', builtins.str:'seek(71, "
                   "0)', builtins.str:'read(24)', builtins.str:'seek(99, 0)', "
                   "builtins.str:'read(10)', builtins.str:'exit(None)'), ndarray[<u2|(7, "
                   '5)|6629092f3a86a4e3c49e217bf9cbeaa366ae3051ae2fd1cefbfaa7339b0298d2e0b1e97993aa3d423662f39290b23fa7c4c6487238c56716f687576791b9aa159cc2ea440bd3])',
 "rpc='20B'[::-1]": 'list(list(builtins.str:"open((\'IMG\',), {\'mode\': \'rb\'})", '
                    "builtins.str:'enter', builtins.str:'seek(99, 0)', builtins.str:'read(10)', "
                    "builtins.str:'seek(71, 0)', builtins.str:'read(24)', builtins.str:'seek(43, "
                    "0)', builtins.str:'read(24)', builtins.str:'seek(15, 0)', "
                    "builtins.str:'read(24)', builtins.str:'exit(None)'), ndarray[<u2|(7, "
                    '5)|91b9aa159cc2ea440bd3487238c56716f68757673662f39290b23fa7c4c698d2e0b1e97993aa3d42ae2fd1cefbfaa7339b02217bf9cbeaa366ae30516629092f3a86a4e3c49e])',
 "rpc='20B'[1::3]": 'list(list(builtins.str:"open((\'IMG\',), {\'mode\': \'rb\'})", '
                    "builtins.str:'enter', builtins.str:'seek(15, 0)', builtins.str:'read(24)', "
                    "builtins.str:'seek(71, 0)', builtins.str:'read(24)', "
                    "builtins.str:'exit(None)'), ndarray[<u2|(2, "
                    '5)|217bf9cbeaa366ae30513662f39290b23fa7c4c6])',
 "rpc='20B'[list-neg]": 'list(list(builtins.str:"open((\'IMG\',), {\'mode\': \'rb\'})", '
                        "builtins.str:'enter', builtins.str:'seek(99, 0)', "
                        "builtins.str:'read(10)', builtins.str:'seek(15, 0)', "
                        "builtins.str:'read(24)', builtins.str:'exit(None)'), ndarray[<u2|(3, "
                        '5)|91b9aa159cc2ea440bd391b9aa159cc2ea440bd36629092f3a86a4e3c49e])',
 "rpc='20B'[0:0]": 'list(list(builtins.str:"open((\'IMG\',), {\'mode\': \'rb\'})", '
                   "builtins.str:'enter', builtins.str:'exit(None)'), ndarray[<u2|(0, 5)|])",
 "rpc='33B'[3]": 'list(list(builtins.str:"open((\'IMG\',), {\'mode\': \'rb\'})", '
                 "builtins.str:'enter', builtins.str:'seek(57, 0)', builtins.str:'read(38)', "
                 "builtins.str:'exit(None)'), ndarray[<u2|(5,)|98d2e0b1e97993aa3d42])",
 "rpc='33B'[all]": 'list(list(builtins.str:"open((\'IMG\',), {\'mode\': \'rb\'})", '
                   "builtins.str:'enter', builtins.str:'seek(15, 0)', builtins.str:'read(38)', "
                   "builtins.str:'seek(57, 0)', builtins.str:'read(38)', builtins.str:'seek(99, "
                   "0)', builtins.str:'read(10)', builtins.str:'exit(None)'), ndarray[<u2|(7, "
                   '5)|6629092f3a86a4e3c49e217bf9cbeaa366ae3051ae2fd1cefbfaa7339b0298d2e0b1e97993aa3d423662f39290b23fa7c4c6487238c56716f687576791b9aa159cc2ea440bd3])',
 "rpc='33B'[::-1]": 'list(list(builtins.str:"open((\'IMG\',), {\'mode\': \'rb\'})", '
                    "builtins.str:'enter', builtins.str:'seek(99, 0)', builtins.str:'read(10)', "
                    "builtins.str:'seek(57, 0)', builtins.str:'read(38)', builtins.str:'seek(15, "
                    "0)', builtins.str:'read(38)', builtins.str:'exit(None)'), ndarray[<u2|(7, "
                    '5)|91b9aa159cc2ea440bd3487238c56716f68757673662f39290b23fa7c4c698d2e0b1e97993aa3d42ae2fd1cefbfaa7339b02217bf9cbeaa366ae30516629092f3a86a4e3c49e])',
 "rpc='33B'[1::3]": 'list(list(builtins.str:"open((\'IMG\',), {\'mode\': \'rb\'})", '
                    "builtins.str:'enter', builtins.str:'seek(15, 0)', builtins.str:'read(38)', "
                    "builtins.str:'seek(57, 0)', builtins.str:'read(38)', "
                    "builtins.str:'exit(None)'), ndarray[<u2|(2, "
                    '5)|217bf9cbeaa366ae30513662f39290b23fa7c4c6])',
 "rpc='33B'[list-neg]": 'list(list(builtins.str:"open((\'IMG\',), {\'mode\': \'rb\'})", '
                        "builtins.str:'enter', builtins.str:'seek(99, 0)', "
                        "builtins.str:'read(10)', builtins.str:'seek(15, 0)', "
                        "builtins.str:'read(38)', builtins.str:'exit(None)'), ndarray[<u2|(3, "
                        '5)|91b9aa159cc2ea440bd391b9aa159cc2ea440bd36629092f3a86a4e3c49e])',
 "rpc='33B'[0:0]": 'list(list(builtins.str:"open((\'IMG\',), {\'mode\': \'rb\'})", '
                   "builtins.str:'enter', builtins.str:'exit(None)'), ndarray[<u2|(0, 5)|])",
 'layout0,0,uint16[0]': 'list(list(builtins.str:"open((\'IMG\',), {\'mode\': \'rb\'})", '
                        "builtins.str:'enter', builtins.str:'seek(0, 0)', builtins.str:'read(30)', "
                        "builtins.str:'exit(None)'), ndarray[<u2|(4,)|092f3a86a4e3c49e])",
 'layout0,0,uint16[-1]': 'list(list(builtins.str:"open((\'IMG\',), {\'mode\': \'rb\'})", '
                         "builtins.str:'enter', builtins.str:'seek(60, 0)', "
                         "builtins.str:'read(10)', builtins.str:'exit(None)'), "
                         'ndarray[<u2|(4,)|aa159cc2ea440bd3])',
 'layout0,0,uint16[all]': 'list(list(builtins.str:"open((\'IMG\',), {\'mode\': \'rb\'})", '
                          "builtins.str:'enter', builtins.str:'seek(0, 0)', "
                          "builtins.str:'read(30)', builtins.str:'seek(30, 0)', "
                          "builtins.str:'read(30)', builtins.str:'seek(60, 0)', "
                          "builtins.str:'read(10)', builtins.str:'exit(None)'), ndarray[<u2|(7, "
                          '4)|092f3a86a4e3c49ef9cbeaa366ae3051d1cefbfaa7339b02e0b1e97993aa3d42f39290b23fa7c4c638c56716f6875767aa159cc2ea440bd3])',
 'layout0,0,uint16[-1::-2]': 'list(list(builtins.str:"open((\'IMG\',), {\'mode\': \'rb\'})", '
                             "builtins.str:'enter', builtins.str:'seek(60, 0)', "
                             "builtins.str:'read(10)', builtins.str:'seek(30, 0)', "
                             "builtins.str:'read(30)', builtins.str:'seek(0, 0)', "
                             "builtins.str:'read(30)', builtins.str:'exit(None)'), ndarray[<u2|(4, "
                             '4)|aa159cc2ea440bd3f39290b23fa7c4c6d1cefbfaa7339b02092f3a86a4e3c49e])',
 'layout0,0,complex64[0]': 'list(list(builtins.str:"open((\'IMG\',), {\'mode\': \'rb\'})", '
                           "builtins.str:'enter', builtins.str:'seek(0, 0)', "
                           "builtins.str:'read(120)', builtins.str:'exit(None)'), "
                           'ndarray[<c8|(4,)|000080c2000014c200008040000080bf00009a42000030410000c04100004041])',
 'layout0,0,complex64[-1]': 'list(list(builtins.str:"open((\'IMG\',), {\'mode\': \'rb\'})", '
                            "builtins.str:'enter', builtins.str:'seek(240, 0)', "
                            "builtins.str:'read(40)', builtins.str:'exit(None)'), "
                            'ndarray[<c8|(4,)|0000a8c20000c2c2000050420000904200003cc20000a4c200008042000078c2])',
 'layout0,0,complex64[all]': 'list(list(builtins.str:"open((\'IMG\',), {\'mode\': \'rb\'})", '
                             "builtins.str:'enter', builtins.str:'seek(0, 0)', "
                             "builtins.str:'read(120)', builtins.str:'seek(120, 0)', "
                             "builtins.str:'read(120)', builtins.str:'seek(240, 0)', "
                             "builtins.str:'read(40)', builtins.str:'exit(None)'), ndarray[<c8|(7, "
                             '4)|000080c2000014c200008040000080bf00009a42000030410000c0410000404100006c42000034420000e0410000a0c2000010420000c242000014c20000a8410000744200008c420000c042000034c2000070c200007c420000c4c20000b2c2000018420000e8c10000a0c00000804100000442000044c2000044c20000ba42000060410000bcc200001c42000084420000f0410000b0c100005c4200005842000058420000a6c20000a6c20000b0420000c0400000bac20000a0c10000a6420000a8c20000c2c2000050420000904200003cc20000a4c200008042000078c2])',
 'layout0,0,complex64[-1::-2]': 'list(list(builtins.str:"open((\'IMG\',), {\'mode\': \'rb\'})", '
                                "builtins.str:'enter', builtins.str:'seek(240, 0)', "
                                "builtins.str:'read(40)', builtins.str:'seek(120, 0)', "
                                "builtins.str:'read(120)', builtins.str:'seek(0, 0)', "
                                "builtins.str:'read(120)', builtins.str:'exit(None)'), "
                                'ndarray[<c8|(4, '
                                '4)|0000a8c20000c2c2000050420000904200003cc20000a4c200008042000078c2000060410000bcc200001c42000084420000f0410000b0c100005c42000058420000744200008c420000c042000034c2000070c200007c420000c4c20000b2c2000080c2000014c200008040000080bf00009a42000030410000c04100004041])',
 'layout0,7,uint16[0]': 'list(list(builtins.str:"open((\'IMG\',), {\'mode\': \'rb\'})", '
                        "builtins.str:'enter', builtins.str:'seek(7, 0)', builtins.str:'read(30)', "
                        "builtins.str:'exit(None)'), ndarray[<u2|(4,)|092f3a86a4e3c49e])",
 'layout0,7,uint16[-1]': 'list(list(builtins.str:"open((\'IMG\',), {\'mode\': \'rb\'})", '
                         "builtins.str:'enter', builtins.str:'seek(67, 0)', "
                         "builtins.str:'read(10)', builtins.str:'exit(None)'), "
                         'ndarray[<u2|(4,)|aa159cc2ea440bd3])',
 'layout0,7,uint16[all]': 'list(list(builtins.str:"open((\'IMG\',), {\'mode\': \'rb\'})", '
                          "builtins.str:'enter', builtins.str:'seek(7, 0)', "
                          "builtins.str:'read(30)', builtins.str:'seek(37, 0)', "
                          "builtins.str:'read(30)', builtins.str:'seek(67, 0)', "
                          "builtins.str:'read(10)', builtins.str:'exit(None)'), ndarray[<u2|(7, "
                          '4)|092f3a86a4e3c49ef9cbeaa366ae3051d1cefbfaa7339b02e0b1e97993aa3d42f39290b23fa7c4c638c56716f6875767aa159cc2ea440bd3])',
 'layout0,7,uint16[-1::-2]': 'list(list(builtins.str:"open((\'IMG\',), {\'mode\': \'rb\'})", '
                             "builtins.str:'enter', builtins.str:'seek(67, 0)', "
                             "builtins.str:'read(10)', builtins.str:'seek(37, 0)', "
                             "builtins.str:'read(30)', builtins.str:'seek(7, 0)', "
                             "builtins.str:'read(30)', builtins.str:'exit(None)'), ndarray[<u2|(4, "
                             '4)|aa159cc2ea440bd3f39290b23fa7c4c6d1cefbfaa7339b02092f3a86a4e3c49e])',
 'layout0,7,complex64[0]': 'list(list(builtins.str:"open((\'IMG\',), {\'mode\': \'rb\'})", '
                           "builtins.str:'enter', builtins.str:'seek(7, 0)', "
                           "builtins.str:'read(120)', builtins.str:'exit(None)'), "
                           'ndarray[<c8|(4,)|000080c2000014c200008040000080bf00009a42000030410000c04100004041])',
 'layout0,7,complex64[-1]': 'list(list(builtins.str:"open((\'IMG\',), {\'mode\': \'rb\'})", '
                            "builtins.str:'enter', builtins.str:'seek(247, 0)', "
                            "builtins.str:'read(40)', builtins.str:'exit(None)'), "
                            'ndarray[<c8|(4,)|0000a8c20000c2c2000050420000904200003cc20000a4c200008042000078c2])',
 'layout0,7,complex64[all]': 'list(list(builtins.str:"open((\'IMG\',), {\'mode\': \'rb\'})", '
                             "builtins.str:'enter', builtins.str:'seek(7, 0)', "
                             "builtins.str:'read(120)', builtins.str:'seek(127, 0)', "
                             "builtins.str:'read(120)', builtins.str:'seek(247, 0)', "
                             "builtins.str:'read(40)', builtins.str:'exit(None)'), ndarray[<c8|(7, "
                             '4)|000080c2000014c200008040000080bf00009a42000030410000c0410000404100006c42000034420000e0410000a0c2000010420000c242000014c20000a8410000744200008c420000c042000034c2000070c200007c420000c4c20000b2c2000018420000e8c10000a0c00000804100000442000044c2000044c20000ba42000060410000bcc200001c42000084420000f0410000b0c100005c4200005842000058420000a6c20000a6c20000b0420000c0400000bac20000a0c10000a6420000a8c20000c2c2000050420000904200003cc20000a4c200008042000078c2])',
 'layout0,7,complex64[-1::-2]': 'list(list(builtins.str:"open((\'IMG\',), {\'mode\': \'rb\'})", '
                                "builtins.str:'enter', builtins.str:'seek(247, 0)', "
                                "builtins.str:'read(40)', builtins.str:'seek(127, 0)', "
                                "builtins.str:'read(120)', builtins.str:'seek(7, 0)', "
                                "builtins.str:'read(120)', builtins.str:'exit(None)'), "
                                'ndarray[<c8|(4, '
                                '4)|0000a8c20000c2c2000050420000904200003cc20000a4c200008042000078c2000060410000bcc200001c42000084420000f0410000b0c100005c42000058420000744200008c420000c042000034c2000070c200007c420000c4c20000b2c2000080c2000014c200008040000080bf00009a42000030410000c04100004041])',
 'layout12,0,uint16[0]': 'list(list(builtins.str:"open((\'IMG\',), {\'mode\': \'rb\'})", '
                         "builtins.str:'enter', builtins.str:'seek(12, 0)', "
                         "builtins.str:'read(54)', builtins.str:'exit(None)'), "
                         'ndarray[<u2|(4,)|092f3a86a4e3c49e])',
 'layout12,0,uint16[-1]': 'list(list(builtins.str:"open((\'IMG\',), {\'mode\': \'rb\'})", '
                          "builtins.str:'enter', builtins.str:'seek(144, 0)', "
                          "builtins.str:'read(10)', builtins.str:'exit(None)'), "
                          'ndarray[<u2|(4,)|aa159cc2ea440bd3])',
 'layout12,0,uint16[all]': 'list(list(builtins.str:"open((\'IMG\',), {\'mode\': \'rb\'})", '
                           "builtins.str:'enter', builtins.str:'seek(12, 0)', "
                           "builtins.str:'read(54)', builtins.str:'seek(78, 0)', "
                           "builtins.str:'read(54)', builtins.str:'seek(144, 0)', "
                           "builtins.str:'read(10)', builtins.str:'exit(None)'), ndarray[<u2|(7, "
                           '4)|092f3a86a4e3c49ef9cbeaa366ae3051d1cefbfaa7339b02e0b1e97993aa3d42f39290b23fa7c4c638c56716f6875767aa159cc2ea440bd3])',
 'layout12,0,uint16[-1::-2]': 'list(list(builtins.str:"open((\'IMG\',), {\'mode\': \'rb\'})", '
                              "builtins.str:'enter', builtins.str:'seek(144, 0)', "
                              "builtins.str:'read(10)', builtins.str:'seek(78, 0)', "
                              "builtins.str:'read(54)', builtins.str:'seek(12, 0)', "
                              "builtins.str:'read(54)', builtins.str:'exit(None)'), "
                              'ndarray[<u2|(4, '
                              '4)|aa159cc2ea440bd3f39290b23fa7c4c6d1cefbfaa7339b02092f3a86a4e3c49e])',
 'layout12,0,complex64[0]': 'list(list(builtins.str:"open((\'IMG\',), {\'mode\': \'rb\'})", '
                            "builtins.str:'enter', builtins.str:'seek(12, 0)', "
                            "builtins.str:'read(144)', builtins.str:'exit(None)'), "
                            'ndarray[<c8|(4,)|000080c2000014c200008040000080bf00009a42000030410000c04100004041])',
 'layout12,0,complex64[-1]': 'list(list(builtins.str:"open((\'IMG\',), {\'mode\': \'rb\'})", '
                             "builtins.str:'enter', builtins.str:'seek(324, 0)', "
                             "builtins.str:'read(40)', builtins.str:'exit(None)'), "
                             'ndarray[<c8|(4,)|0000a8c20000c2c2000050420000904200003cc20000a4c200008042000078c2])',
 'layout12,0,complex64[all]': 'list(list(builtins.str:"open((\'IMG\',), {\'mode\': \'rb\'})", '
                              "builtins.str:'enter', builtins.str:'seek(12, 0)', "
                              "builtins.str:'read(144)', builtins.str:'seek(168, 0)', "
                              "builtins.str:'read(144)', builtins.str:'seek(324, 0)', "
                              "builtins.str:'read(40)', builtins.str:'exit(None)'), "
                              'ndarray[<c8|(7, '
                              '4)|000080c2000014c200008040000080bf00009a42000030410000c0410000404100006c42000034420000e0410000a0c2000010420000c242000014c20000a8410000744200008c420000c042000034c2000070c200007c420000c4c20000b2c2000018420000e8c10000a0c00000804100000442000044c2000044c20000ba42000060410000bcc200001c42000084420000f0410000b0c100005c4200005842000058420000a6c20000a6c20000b0420000c0400000bac20000a0c10000a6420000a8c20000c2c2000050420000904200003cc20000a4c200008042000078c2])',
 'layout12,0,complex64[-1::-2]': 'list(list(builtins.str:"open((\'IMG\',), {\'mode\': \'rb\'})", '
                                 "builtins.str:'enter', builtins.str:'seek(324, 0)', "
                                 "builtins.str:'read(40)', builtins.str:'seek(168, 0)', "
                                 "builtins.str:'read(144)', builtins.str:'seek(12, 0)', "
                                 "builtins.str:'read(144)', builtins.str:'exit(None)'), "
                                 'ndarray[<c8|(4, '
                                 '4)|0000a8c20000c2c2000050420000904200003cc20000a4c200008042000078c2000060410000bcc200001c42000084420000f0410000b0c100005c42000058420000744200008c420000c042000034c2000070c200007c420000c4c20000b2c2000080c2000014c200008040000080bf00009a42000030410000c04100004041])',
 'layout544,720,uint16[0]': 'list(list(builtins.str:"open((\'IMG\',), {\'mode\': \'rb\'})", '
                            "builtins.str:'enter', builtins.str:'seek(1264, 0)', "
                            "builtins.str:'read(1118)', builtins.str:'exit(None)'), "
                            'ndarray[<u2|(4,)|092f3a86a4e3c49e])',
 'layout544,720,uint16[-1]': 'list(list(builtins.str:"open((\'IMG\',), {\'mode\': \'rb\'})", '
                             "builtins.str:'enter', builtins.str:'seek(4588, 0)', "
                             "builtins.str:'read(10)', builtins.str:'exit(None)'), "
                             'ndarray[<u2|(4,)|aa159cc2ea440bd3])',
 'layout544,720,uint16[all]': 'list(list(builtins.str:"open((\'IMG\',), {\'mode\': \'rb\'})", '
                              "builtins.str:'enter', builtins.str:'seek(1264, 0)', "
                              "builtins.str:'read(1118)', builtins.str:'seek(2926, 0)', "
                              "builtins.str:'read(1118)', builtins.str:'seek(4588, 0)', "
                              "builtins.str:'read(10)', builtins.str:'exit(None)'), "
                              'ndarray[<u2|(7, '
                              '4)|092f3a86a4e3c49ef9cbeaa366ae3051d1cefbfaa7339b02e0b1e97993aa3d42f39290b23fa7c4c638c56716f6875767aa159cc2ea440bd3])',
 'layout544,720,uint16[-1::-2]': 'list(list(builtins.str:"open((\'IMG\',), {\'mode\': \'rb\'})", '
                                 "builtins.str:'enter', builtins.str:'seek(4588, 0)', "
                                 "builtins.str:'read(10)', builtins.str:'seek(2926, 0)', "
                                 "builtins.str:'read(1118)', builtins.str:'seek(1264, 0)', "
                                 "builtins.str:'read(1118)', builtins.str:'exit(None)'), "
                                 'ndarray[<u2|(4, '
                                 '4)|aa159cc2ea440bd3f39290b23fa7c4c6d1cefbfaa7339b02092f3a86a4e3c49e])',
 'layout544,720,complex64[0]': 'list(list(builtins.str:"open((\'IMG\',), {\'mode\': \'rb\'})", '
                               "builtins.str:'enter', builtins.str:'seek(1264, 0)', "
                               "builtins.str:'read(1208)', builtins.str:'exit(None)'), "
                               'ndarray[<c8|(4,)|000080c2000014c200008040000080bf00009a42000030410000c04100004041])',
 'layout544,720,complex64[-1]': 'list(list(builtins.str:"open((\'IMG\',), {\'mode\': \'rb\'})", '
                                "builtins.str:'enter', builtins.str:'seek(4768, 0)', "
                                "builtins.str:'read(40)', builtins.str:'exit(None)'), "
                                'ndarray[<c8|(4,)|0000a8c20000c2c2000050420000904200003cc20000a4c200008042000078c2])',
 'layout544,720,complex64[all]': 'list(list(builtins.str:"open((\'IMG\',), {\'mode\': \'rb\'})", '
                                 "builtins.str:'enter', builtins.str:'seek(1264, 0)', "
                                 "builtins.str:'read(1208)', builtins.str:'seek(3016, 0)', "
                                 "builtins.str:'read(1208)', builtins.str:'seek(4768, 0)', "
                                 "builtins.str:'read(40)', builtins.str:'exit(None)'), "
                                 'ndarray[<c8|(7, '
                                 '4)|000080c2000014c200008040000080bf00009a42000030410000c0410000404100006c42000034420000e0410000a0c2000010420000c242000014c20000a8410000744200008c420000c042000034c2000070c200007c420000c4c20000b2c2000018420000e8c10000a0c00000804100000442000044c2000044c20000ba42000060410000bcc200001c42000084420000f0410000b0c100005c4200005842000058420000a6c20000a6c20000b0420000c0400000bac20000a0c10000a6420000a8c20000c2c2000050420000904200003cc20000a4c200008042000078c2])',
 'layout544,720,complex64[-1::-2]': 'list(list(builtins.str:"open((\'IMG\',), {\'mode\': '
                                    '\'rb\'})", builtins.str:\'enter\', builtins.str:\'seek(4768, '
                                    "0)', builtins.str:'read(40)', builtins.str:'seek(3016, 0)', "
                                    "builtins.str:'read(1208)', builtins.str:'seek(1264, 0)', "
                                    "builtins.str:'read(1208)', builtins.str:'exit(None)'), "
                                    'ndarray[<c8|(4, '
                                    '4)|0000a8c20000c2c2000050420000904200003cc20000a4c200008042000078c2000060410000bcc200001c42000084420000f0410000b0c100005c42000058420000744200008c420000c042000034c2000070c200007c420000c4c20000b2c2000080c2000014c200008040000080bf00009a42000030410000c04100004041])',
 'shape1x1[0]': 'list(list(builtins.str:"open((\'IMG\',), {\'mode\': \'rb\'})", '
                "builtins.str:'enter', builtins.str:'seek(15, 0)', builtins.str:'read(2)', "
                "builtins.str:'exit(None)'), ndarray[<u2|(1,)|44e7])",
 'shape1x1c[0]': 'list(list(builtins.str:"open((\'IMG\',), {\'mode\': \'rb\'})", '
                 "builtins.str:'enter', builtins.str:'seek(15, 0)', builtins.str:'read(8)', "
                 "builtins.str:'exit(None)'), ndarray[<c8|(1,)|0000a0420000b041])",
 'shape1x1[all]': 'list(list(builtins.str:"open((\'IMG\',), {\'mode\': \'rb\'})", '
                  "builtins.str:'enter', builtins.str:'seek(15, 0)', builtins.str:'read(2)', "
                  "builtins.str:'exit(None)'), ndarray[<u2|(1, 1)|44e7])",
 'shape1x1c[all]': 'list(list(builtins.str:"open((\'IMG\',), {\'mode\': \'rb\'})", '
                   "builtins.str:'enter', builtins.str:'seek(15, 0)', builtins.str:'read(8)', "
                   "builtins.str:'exit(None)'), ndarray[<c8|(1, 1)|0000a0420000b041])",
 'shape1x1[::-1]': 'list(list(builtins.str:"open((\'IMG\',), {\'mode\': \'rb\'})", '
                   "builtins.str:'enter', builtins.str:'seek(15, 0)', builtins.str:'read(2)', "
                   "builtins.str:'exit(None)'), ndarray[<u2|(1, 1)|44e7])",
 'shape1x1c[::-1]': 'list(list(builtins.str:"open((\'IMG\',), {\'mode\': \'rb\'})", '
                    "builtins.str:'enter', builtins.str:'seek(15, 0)', builtins.str:'read(8)', "
                    "builtins.str:'exit(None)'), ndarray[<c8|(1, 1)|0000a0420000b041])",
 'shape1x1[0:0]': 'list(list(builtins.str:"open((\'IMG\',), {\'mode\': \'rb\'})", '
                  "builtins.str:'enter', builtins.str:'exit(None)'), ndarray[<u2|(0, 1)|])",
 'shape1x1c[0:0]': 'list(list(builtins.str:"open((\'IMG\',), {\'mode\': \'rb\'})", '
                   "builtins.str:'enter', builtins.str:'exit(None)'), ndarray[<c8|(0, 1)|])",
 'shape1x1[-1]': 'list(list(builtins.str:"open((\'IMG\',), {\'mode\': \'rb\'})", '
                 "builtins.str:'enter', builtins.str:'seek(15, 0)', builtins.str:'read(2)', "
                 "builtins.str:'exit(None)'), ndarray[<u2|(1,)|44e7])",
 'shape1x1c[-1]': 'list(list(builtins.str:"open((\'IMG\',), {\'mode\': \'rb\'})", '
                  "builtins.str:'enter', builtins.str:'seek(15, 0)', builtins.str:'read(8)', "
                  "builtins.str:'exit(None)'), ndarray[<c8|(1,)|0000a0420000b041])",
 'shape1x6[0]': 'list(list(builtins.str:"open((\'IMG\',), {\'mode\': \'rb\'})", '
                "builtins.str:'enter', builtins.str:'seek(15, 0)', builtins.str:'read(12)', "
                "builtins.str:'exit(None)'), ndarray[<u2|(6,)|47844056ab31d19906b03e4c])",
 'shape1x6c[0]': 'list(list(builtins.str:"open((\'IMG\',), {\'mode\': \'rb\'})", '
                 "builtins.str:'enter', builtins.str:'seek(15, 0)', builtins.str:'read(48)', "
                 "builtins.str:'exit(None)'), "
                 'ndarray[<c8|(6,)|000040400000a8c1000004c2000054c2000078c2000030410000a04100006c420000144200004cc2000024c2000004c2])',
 'shape1x6[all]': 'list(list(builtins.str:"open((\'IMG\',), {\'mode\': \'rb\'})", '
                  "builtins.str:'enter', builtins.str:'seek(15, 0)', builtins.str:'read(12)', "
                  "builtins.str:'exit(None)'), ndarray[<u2|(1, 6)|47844056ab31d19906b03e4c])",
 'shape1x6c[all]': 'list(list(builtins.str:"open((\'IMG\',), {\'mode\': \'rb\'})", '
                   "builtins.str:'enter', builtins.str:'seek(15, 0)', builtins.str:'read(48)', "
                   "builtins.str:'exit(None)'), ndarray[<c8|(1, "
                   '6)|000040400000a8c1000004c2000054c2000078c2000030410000a04100006c420000144200004cc2000024c2000004c2])',
 'shape1x6[::-1]': 'list(list(builtins.str:"open((\'IMG\',), {\'mode\': \'rb\'})", '
                   "builtins.str:'enter', builtins.str:'seek(15, 0)', builtins.str:'read(12)', "
                   "builtins.str:'exit(None)'), ndarray[<u2|(1, 6)|47844056ab31d19906b03e4c])",
 'shape1x6c[::-1]': 'list(list(builtins.str:"open((\'IMG\',), {\'mode\': \'rb\'})", '
                    "builtins.str:'enter', builtins.str:'seek(15, 0)', builtins.str:'read(48)', "
                    "builtins.str:'exit(None)'), ndarray[<c8|(1, "
                    '6)|000040400000a8c1000004c2000054c2000078c2000030410000a04100006c420000144200004cc2000024c2000004c2])',
 'shape1x6[0:0]': 'list(list(builtins.str:"open((\'IMG\',), {\'mode\': \'rb\'})", '
                  "builtins.str:'enter', builtins.str:'exit(None)'), ndarray[<u2|(0, 6)|])",
 'shape1x6c[0:0]': 'list(list(builtins.str:"open((\'IMG\',), {\'mode\': \'rb\'})", '
                   "builtins.str:'enter', builtins.str:'exit(None)'), ndarray[<c8|(0, 6)|])",
 'shape1x6[-1]': 'list(list(builtins.str:"open((\'IMG\',), {\'mode\': \'rb\'})", '
                 "builtins.str:'enter', builtins.str:'seek(15, 0)', builtins.str:'read(12)', "
                 "builtins.str:'exit(None)'), ndarray[<u2|(6,)|47844056ab31d19906b03e4c])",
 'shape1x6c[-1]': 'list(list(builtins.str:"open((\'IMG\',), {\'mode\': \'rb\'})", '
                  "builtins.str:'enter', builtins.str:'seek(15, 0)', builtins.str:'read(48)', "
                  "builtins.str:'exit(None)'), "
                  'ndarray[<c8|(6,)|000040400000a8c1000004c2000054c2000078c2000030410000a04100006c420000144200004cc2000024c2000004c2])',
 'shape4x1[0]': 'list(list(builtins.str:"open((\'IMG\',), {\'mode\': \'rb\'})", '
                "builtins.str:'enter', builtins.str:'seek(15, 0)', builtins.str:'read(14)', "
                "builtins.str:'exit(None)'), ndarray[<u2|(1,)|dbf4])",
 'shape4x1c[0]': 'list(list(builtins.str:"open((\'IMG\',), {\'mode\': \'rb\'})", '
                 "builtins.str:'enter', builtins.str:'seek(15, 0)', builtins.str:'read(44)', "
                 "builtins.str:'exit(None)'), ndarray[<c8|(1,)|0000b64200005c42])",
 'shape4x1[all]': 'list(list(builtins.str:"open((\'IMG\',), {\'mode\': \'rb\'})", '
                  "builtins.str:'enter', builtins.str:'seek(15, 0)', builtins.str:'read(14)', "
                  "builtins.str:'seek(33, 0)', builtins.str:'read(2)', builtins.str:'exit(None)'), "
                  'ndarray[<u2|(4, 1)|dbf40211379d6c8f])',
 'shape4x1c[all]': 'list(list(builtins.str:"open((\'IMG\',), {\'mode\': \'rb\'})", '
                   "builtins.str:'enter', builtins.str:'seek(15, 0)', builtins.str:'read(44)', "
                   "builtins.str:'exit(None)'), ndarray[<c8|(4, "
                   '1)|0000b64200005c420000aec200000cc20000b0410000ae42000040410000b2c2])',
 'shape4x1[::-1]': 'list(list(builtins.str:"open((\'IMG\',), {\'mode\': \'rb\'})", '
                   "builtins.str:'enter', builtins.str:'seek(33, 0)', builtins.str:'read(2)', "
                   "builtins.str:'seek(15, 0)', builtins.str:'read(14)', "
                   "builtins.str:'exit(None)'), ndarray[<u2|(4, 1)|6c8f379d0211dbf4])",
 'shape4x1c[::-1]': 'list(list(builtins.str:"open((\'IMG\',), {\'mode\': \'rb\'})", '
                    "builtins.str:'enter', builtins.str:'seek(15, 0)', builtins.str:'read(44)', "
                    "builtins.str:'exit(None)'), ndarray[<c8|(4, "
                    '1)|000040410000b2c20000b0410000ae420000aec200000cc20000b64200005c42])',
 'shape4x1[0:0]': 'list(list(builtins.str:"open((\'IMG\',), {\'mode\': \'rb\'})", '
                  "builtins.str:'enter', builtins.str:'exit(None)'), ndarray[<u2|(0, 1)|])",
 'shape4x1c[0:0]': 'list(list(builtins.str:"open((\'IMG\',), {\'mode\': \'rb\'})", '
                   "builtins.str:'enter', builtins.str:'exit(None)'), ndarray[<c8|(0, 1)|])",
 'shape4x1[-1]': 'list(list(builtins.str:"open((\'IMG\',), {\'mode\': \'rb\'})", '
                 "builtins.str:'enter', builtins.str:'seek(33, 0)', builtins.str:'read(2)', "
                 "builtins.str:'exit(None)'), ndarray[<u2|(1,)|6c8f])",
 'shape4x1c[-1]': 'list(list(builtins.str:"open((\'IMG\',), {\'mode\': \'rb\'})", '
                  "builtins.str:'enter', builtins.str:'seek(15, 0)', builtins.str:'read(44)', "
                  "builtins.str:'exit(None)'), ndarray[<c8|(1,)|000040410000b2c2])",
 'shape0x3[0]': 'list(list(), raise builtins.IndexError: list index out of range)',
 'shape0x3c[0]': 'list(list(), raise builtins.IndexError: list index out of range)',
 'shape0x3[all]': 'list(list(builtins.str:"open((\'IMG\',), {\'mode\': \'rb\'})", '
                  "builtins.str:'enter', builtins.str:'exit(None)'), ndarray[<u2|(0, 3)|])",
 'shape0x3c[all]': 'list(list(builtins.str:"open((\'IMG\',), {\'mode\': \'rb\'})", '
                   "builtins.str:'enter', builtins.str:'exit(None)'), ndarray[<c8|(0, 3)|])",
 'shape0x3[::-1]': 'list(list(builtins.str:"open((\'IMG\',), {\'mode\': \'rb\'})", '
                   "builtins.str:'enter', builtins.str:'exit(None)'), ndarray[<u2|(0, 3)|])",
 'shape0x3c[::-1]': 'list(list(builtins.str:"open((\'IMG\',), {\'mode\': \'rb\'})", '
                    "builtins.str:'enter', builtins.str:'exit(None)'), ndarray[<c8|(0, 3)|])",
 'shape0x3[0:0]': 'list(list(builtins.str:"open((\'IMG\',), {\'mode\': \'rb\'})", '
                  "builtins.str:'enter', builtins.str:'exit(None)'), ndarray[<u2|(0, 3)|])",
 'shape0x3c[0:0]': 'list(list(builtins.str:"open((\'IMG\',), {\'mode\': \'rb\'})", '
                   "builtins.str:'enter', builtins.str:'exit(None)'), ndarray[<c8|(0, 3)|])",
 'shape0x3[-1]': 'list(list(), raise builtins.IndexError: list index out of range)',
 'shape0x3c[-1]': 'list(list(), raise builtins.IndexError: list index out of range)',
 'shape0x0[0]': 'list(list(), raise builtins.IndexError: list index out of range)',
 'shape0x0c[0]': 'list(list(), raise builtins.IndexError: list index out of range)',
 'shape0x0[all]': 'list(list(builtins.str:"open((\'IMG\',), {\'mode\': \'rb\'})", '
                  "builtins.str:'enter', builtins.str:'exit(None)'), ndarray[<u2|(0, 0)|])",
 'shape0x0c[all]': 'list(list(builtins.str:"open((\'IMG\',), {\'mode\': \'rb\'})", '
                   "builtins.str:'enter', builtins.str:'exit(None)'), ndarray[<c8|(0, 0)|])",
 'shape0x0[::-1]': 'list(list(builtins.str:"open((\'IMG\',), {\'mode\': \'rb\'})", '
                   "builtins.str:'enter', builtins.str:'exit(None)'), ndarray[<u2|(0, 0)|])",
 'shape0x0c[::-1]': 'list(list(builtins.str:"open((\'IMG\',), {\'mode\': \'rb\'})", '
                    "builtins.str:'enter', builtins.str:'exit(None)'), ndarray[<c8|(0, 0)|])",
 'shape0x0[0:0]': 'list(list(builtins.str:"open((\'IMG\',), {\'mode\': \'rb\'})", '
                  "builtins.str:'enter', builtins.str:'exit(None)'), ndarray[<u2|(0, 0)|])",
 'shape0x0c[0:0]': 'list(list(builtins.str:"open((\'IMG\',), {\'mode\': \'rb\'})", '
                   "builtins.str:'enter', builtins.str:'exit(None)'), ndarray[<c8|(0, 0)|])",
 'shape0x0[-1]': 'list(list(), raise builtins.IndexError: list index out of range)',
 'shape0x0c[-1]': 'list(list(), raise builtins.IndexError: list index out of range)',
 'shape12x2[0]': 'list(list(builtins.str:"open((\'IMG\',), {\'mode\': \'rb\'})", '
                 "builtins.str:'enter', builtins.str:'seek(15, 0)', builtins.str:'read(20)', "
                 "builtins.str:'exit(None)'), ndarray[<u2|(2,)|27e8be01])",
 'shape12x2c[0]': 'list(list(builtins.str:"open((\'IMG\',), {\'mode\': \'rb\'})", '
                  "builtins.str:'enter', builtins.str:'seek(15, 0)', builtins.str:'read(96)', "
                  "builtins.str:'exit(None)'), ndarray[<c8|(2,)|0000a2420000bcc20000c6c20000c0c0])",
 'shape12x2[all]': 'list(list(builtins.str:"open((\'IMG\',), {\'mode\': \'rb\'})", '
                   "builtins.str:'enter', builtins.str:'seek(15, 0)', builtins.str:'read(20)', "
                   "builtins.str:'seek(39, 0)', builtins.str:'read(20)', builtins.str:'seek(63, "
                   "0)', builtins.str:'read(20)', builtins.str:'seek(87, 0)', "
                   "builtins.str:'read(20)', builtins.str:'exit(None)'), ndarray[<u2|(12, "
                   '2)|27e8be019262ef628f9aa4a752f228caa677844a6fc2f900a2b61ba7832b50b578361b412eb5856081b480a4dec09179])',
 'shape12x2c[all]': 'list(list(builtins.str:"open((\'IMG\',), {\'mode\': \'rb\'})", '
                    "builtins.str:'enter', builtins.str:'seek(15, 0)', builtins.str:'read(96)', "
                    "builtins.str:'seek(115, 0)', builtins.str:'read(96)', builtins.str:'seek(215, "
                    "0)', builtins.str:'read(36)', builtins.str:'exit(None)'), ndarray[<c8|(12, "
                    '2)|0000a2420000bcc20000c6c20000c0c00000b8c100008a420000b8c100003c420000a0410000a8c10000f0410000d8c10000b24200009041000064420000be420000e0c000004c42000028c200009a4200004c42000092c20000c8c20000b04100002842000080c20000f0410000a4c2000086c20000bcc200002442000064c2000068c20000b042000048c20000bcc200002442000010410000c8c100008041000024420000c2c20000e0410000c0c0000048420000a8420000c0c00000c8c1])',
 'shape12x2[::-1]': 'list(list(builtins.str:"open((\'IMG\',), {\'mode\': \'rb\'})", '
                    "builtins.str:'enter', builtins.str:'seek(87, 0)', builtins.str:'read(20)', "
                    "builtins.str:'seek(63, 0)', builtins.str:'read(20)', builtins.str:'seek(39, "
                    "0)', builtins.str:'read(20)', builtins.str:'seek(15, 0)', "
                    "builtins.str:'read(20)', builtins.str:'exit(None)'), ndarray[<u2|(12, "
                    '2)|dec0917981b480a42eb5856078361b41832b50b5a2b61ba76fc2f900a677844a52f228ca8f9aa4a79262ef6227e8be01])',
 'shape12x2c[::-1]': 'list(list(builtins.str:"open((\'IMG\',), {\'mode\': \'rb\'})", '
                     "builtins.str:'enter', builtins.str:'seek(215, 0)', builtins.str:'read(36)', "
                     "builtins.str:'seek(115, 0)', builtins.str:'read(96)', builtins.str:'seek(15, "
                     "0)', builtins.str:'read(96)', builtins.str:'exit(None)'), ndarray[<c8|(12, "
                     '2)|000048420000a8420000c0c00000c8c1000024420000c2c20000e0410000c0c000002442000010410000c8c100008041000068c20000b042000048c20000bcc2000086c20000bcc200002442000064c200002842000080c20000f0410000a4c200004c42000092c20000c8c20000b0410000e0c000004c42000028c200009a420000b24200009041000064420000be420000a0410000a8c10000f0410000d8c10000b8c100008a420000b8c100003c420000a2420000bcc20000c6c20000c0c0])',
 'shape12x2[0:0]': 'list(list(builtins.str:"open((\'IMG\',), {\'mode\': \'rb\'})", '
                   "builtins.str:'enter', builtins.str:'exit(None)'), ndarray[<u2|(0, 2)|])",
 'shape12x2c[0:0]': 'list(list(builtins.str:"open((\'IMG\',), {\'mode\': \'rb\'})", '
                    "builtins.str:'enter', builtins.str:'exit(None)'), ndarray[<c8|(0, 2)|])",
 'shape12x2[-1]': 'list(list(builtins.str:"open((\'IMG\',), {\'mode\': \'rb\'})", '
                  "builtins.str:'enter', builtins.str:'seek(87, 0)', builtins.str:'read(20)', "
                  "builtins.str:'exit(None)'), ndarray[<u2|(2,)|dec09179])",
 'shape12x2c[-1]': 'list(list(builtins.str:"open((\'IMG\',), {\'mode\': \'rb\'})", '
                   "builtins.str:'enter', builtins.str:'seek(215, 0)', builtins.str:'read(36)', "
                   "builtins.str:'exit(None)'), "
                   'ndarray[<c8|(2,)|000048420000a8420000c0c00000c8c1])',
 'unknown-code[0]': 'list(list(builtins.str:"open((\'IMG\',), {\'mode\': \'rb\'})", '
                    "builtins.str:'enter', builtins.str:'seek(15, 0)', builtins.str:'read(38)', "
                    "builtins.str:'exit(ValueError)'), raise builtins.ValueError: unknown type "
                    'code: F*8)',
 'wrong-code[0]': 'list(list(builtins.str:"open((\'IMG\',), {\'mode\': \'rb\'})", '
                  "builtins.str:'enter', builtins.str:'seek(15, 0)', builtins.str:'read(38)', "
                  "builtins.str:'exit(ValueError)'), raise builtins.ValueError: buffer size must "
                  'be a multiple of element size)',
 'wrong-code-c[0]': 'list(list(builtins.str:"open((\'IMG\',), {\'mode\': \'rb\'})", '
                    "builtins.str:'enter', builtins.str:'seek(15, 0)', builtins.str:'read(128)', "
                    "builtins.str:'exit(None)'), "
                    'ndarray[<u2|(20,)|88c2000074c2000080c2000014c200008040000080bf00009a42000030410000c041000040410000])',
 'missing-file[0]': 'list(list(builtins.str:"open((\'other\',), {\'mode\': \'rb\'})"), raise '
                    'builtins.FileNotFoundError: other)',
 'truncated0[0]': 'list(list(builtins.str:"open((\'IMG\',), {\'mode\': \'rb\'})", '
                  "builtins.str:'enter', builtins.str:'seek(15, 0)', builtins.str:'read(38)', "
                  "builtins.str:'exit(None)'), ndarray[<u2|(0,)|])",
 'truncated0c[0]': 'list(list(builtins.str:"open((\'IMG\',), {\'mode\': \'rb\'})", '
                   "builtins.str:'enter', builtins.str:'seek(15, 0)', builtins.str:'read(128)', "
                   "builtins.str:'exit(None)'), ndarray[<c8|(0,)|])",
 'truncated20[0]': 'list(list(builtins.str:"open((\'IMG\',), {\'mode\': \'rb\'})", '
                   "builtins.str:'enter', builtins.str:'seek(15, 0)', builtins.str:'read(38)', "
                   "builtins.str:'exit(ValueError)'), raise builtins.ValueError: buffer size must "
                   'be a multiple of element size)',
 'truncated20c[0]': 'list(list(builtins.str:"open((\'IMG\',), {\'mode\': \'rb\'})", '
                    "builtins.str:'enter', builtins.str:'seek(15, 0)', builtins.str:'read(128)', "
                    "builtins.str:'exit(ValueError)'), raise builtins.ValueError: buffer size must "
                    'be a multiple of element size)',
 'truncated48[0]': 'list(list(builtins.str:"open((\'IMG\',), {\'mode\': \'rb\'})", '
                   "builtins.str:'enter', builtins.str:'seek(15, 0)', builtins.str:'read(38)', "
                   "builtins.str:'exit(None)'), ndarray[<u2|(5,)|6629092f3a86a4e3c49e])",
 'truncated48c[0]': 'list(list(builtins.str:"open((\'IMG\',), {\'mode\': \'rb\'})", '
                    "builtins.str:'enter', builtins.str:'seek(15, 0)', builtins.str:'read(128)', "
                    "builtins.str:'exit(ValueError)'), raise builtins.ValueError: buffer size must "
                    'be a multiple of element size)',
 'truncated60[0]': 'list(list(builtins.str:"open((\'IMG\',), {\'mode\': \'rb\'})", '
                   "builtins.str:'enter', builtins.str:'seek(15, 0)', builtins.str:'read(38)', "
                   "builtins.str:'exit(None)'), ndarray[<u2|(5,)|6629092f3a86a4e3c49e])",
 'truncated60c[0]': 'list(list(builtins.str:"open((\'IMG\',), {\'mode\': \'rb\'})", '
                    "builtins.str:'enter', builtins.str:'seek(15, 0)', builtins.str:'read(128)', "
                    "builtins.str:'exit(None)'), "
                    'ndarray[<c8|(5,)|000088c2000074c2000080c2000014c200008040000080bf00009a42000030410000c04100004041])',
 'truncated75[0]': 'list(list(builtins.str:"open((\'IMG\',), {\'mode\': \'rb\'})", '
                   "builtins.str:'enter', builtins.str:'seek(15, 0)', builtins.str:'read(38)', "
                   "builtins.str:'exit(None)'), ndarray[<u2|(5,)|6629092f3a86a4e3c49e])",
 'truncated75c[0]': 'list(list(builtins.str:"open((\'IMG\',), {\'mode\': \'rb\'})", '
                    "builtins.str:'enter', builtins.str:'seek(15, 0)', builtins.str:'read(128)', "
                    "builtins.str:'exit(None)'), "
                    'ndarray[<c8|(5,)|000088c2000074c2000080c2000014c200008040000080bf00009a42000030410000c04100004041])',
 'declared-shape[0]': 'list(list(builtins.str:"open((\'IMG\',), {\'mode\': \'rb\'})", '
                      "builtins.str:'enter', builtins.str:'seek(15, 0)', builtins.str:'read(38)', "
                      "builtins.str:'exit(None)'), ndarray[<u2|(5,)|6629092f3a86a4e3c49e])",
 'declared-shape-1d[0]': 'list(list(builtins.str:"open((\'IMG\',), {\'mode\': \'rb\'})", '
                         "builtins.str:'enter', builtins.str:'seek(15, 0)', "
                         "builtins.str:'read(38)', builtins.str:'exit(None)'), "
                         'ndarray[<u2|(5,)|6629092f3a86a4e3c49e])',
 'declared-shape-3d[0]': 'list(list(builtins.str:"open((\'IMG\',), {\'mode\': \'rb\'})", '
                         "builtins.str:'enter', builtins.str:'seek(15, 0)', "
                         "builtins.str:'read(38)', builtins.str:'exit(None)'), "
                         'ndarray[<u2|(5,)|6629092f3a86a4e3c49e])',
 'stale_chunks[0]': 'list(list(builtins.str:"open((\'IMG\',), {\'mode\': \'rb\'})", '
                    "builtins.str:'enter', builtins.str:'seek(15, 0)', builtins.str:'read(38)', "
                    "builtins.str:'exit(None)'), ndarray[<u2|(5,)|6629092f3a86a4e3c49e])",
 'odd_ranges[0]': 'list(list(builtins.str:"open((\'IMG\',), {\'mode\': \'rb\'})", '
                  "builtins.str:'enter', builtins.str:'seek(15, 0)', builtins.str:'read(38)', "
                  "builtins.str:'exit(None)'), ndarray[<u2|(5,)|6629092f3a86a4e3c49e])",
 'bad_ranges[0]': 'list(list(), raise builtins.ValueError: too many values to unpack (expected 2))',
 'bad_offsets[0]': 'list(list(builtins.str:"open((\'IMG\',), {\'mode\': \'rb\'})", '
                   "builtins.str:'enter', builtins.str:'exit(TypeError)'), raise "
                   'builtins.TypeError: read_chunk() missing 1 required positional argument: '
                   "'size')",
 'extra_offsets[0]': 'list(list(builtins.str:"open((\'IMG\',), {\'mode\': \'rb\'})", '
                     "builtins.str:'enter', builtins.str:'exit(TypeError)'), raise "
                     'builtins.TypeError: read_chunk() got an unexpected keyword argument '
                     "'whence')",
 'no_offset_key[0]': "list(list(), raise builtins.KeyError: 'offset')",
 'zero_chunks[0]': 'list(list(), raise builtins.ZeroDivisionError: integer division or modulo by '
                   'zero)',
 'dtype_other[0]': 'list(list(builtins.str:"open((\'IMG\',), {\'mode\': \'rb\'})", '
                   "builtins.str:'enter', builtins.str:'seek(15, 0)', builtins.str:'read(38)', "
                   "builtins.str:'exit(None)'), ndarray[<u2|(5,)|6629092f3a86a4e3c49e])",
 'unknown-code[6]': 'list(list(builtins.str:"open((\'IMG\',), {\'mode\': \'rb\'})", '
                    "builtins.str:'enter', builtins.str:'seek(99, 0)', builtins.str:'read(10)', "
                    "builtins.str:'exit(ValueError)'), raise builtins.ValueError: unknown type "
                    'code: F*8)',
 'wrong-code[6]': 'list(list(builtins.str:"open((\'IMG\',), {\'mode\': \'rb\'})", '
                  "builtins.str:'enter', builtins.str:'seek(99, 0)', builtins.str:'read(10)', "
                  "builtins.str:'exit(ValueError)'), raise builtins.ValueError: buffer size must "
                  'be a multiple of element size)',
 'wrong-code-c[6]': 'list(list(builtins.str:"open((\'IMG\',), {\'mode\': \'rb\'})", '
                    "builtins.str:'enter', builtins.str:'seek(279, 0)', builtins.str:'read(40)', "
                    "builtins.str:'exit(None)'), "
                    'ndarray[<u2|(20,)|30420000b0c20000a8c20000c2c2000050420000904200003cc20000a4c200008042000078c20000])',
 'missing-file[6]': 'list(list(builtins.str:"open((\'other\',), {\'mode\': \'rb\'})"), raise '
                    'builtins.FileNotFoundError: other)',
 'truncated0[6]': 'list(list(builtins.str:"open((\'IMG\',), {\'mode\': \'rb\'})", '
                  "builtins.str:'enter', builtins.str:'seek(99, 0)', builtins.str:'read(10)', "
                  "builtins.str:'exit(None)'), ndarray[<u2|(0,)|])",
 'truncated0c[6]': 'list(list(builtins.str:"open((\'IMG\',), {\'mode\': \'rb\'})", '
                   "builtins.str:'enter', builtins.str:'seek(279, 0)', builtins.str:'read(40)', "
                   "builtins.str:'exit(None)'), ndarray[<c8|(0,)|])",
 'truncated20[6]': 'list(list(builtins.str:"open((\'IMG\',), {\'mode\': \'rb\'})", '
                   "builtins.str:'enter', builtins.str:'seek(99, 0)', builtins.str:'read(10)', "
                   "builtins.str:'exit(None)'), ndarray[<u2|(0,)|])",
 'truncated20c[6]': 'list(list(builtins.str:"open((\'IMG\',), {\'mode\': \'rb\'})", '
                    "builtins.str:'enter', builtins.str:'seek(279, 0)', builtins.str:'read(40)', "
                    "builtins.str:'exit(None)'), ndarray[<c8|(0,)|])",
 'truncated48[6]': 'list(list(builtins.str:"open((\'IMG\',), {\'mode\': \'rb\'})", '
                   "builtins.str:'enter', builtins.str:'seek(99, 0)', builtins.str:'read(10)', "
                   "builtins.str:'exit(None)'), ndarray[<u2|(0,)|])",
 'truncated48c[6]': 'list(list(builtins.str:"open((\'IMG\',), {\'mode\': \'rb\'})", '
                    "builtins.str:'enter', builtins.str:'seek(279, 0)', builtins.str:'read(40)', "
                    "builtins.str:'exit(None)'), ndarray[<c8|(0,)|])",
 'truncated60[6]': 'list(list(builtins.str:"open((\'IMG\',), {\'mode\': \'rb\'})", '
                   "builtins.str:'enter', builtins.str:'seek(99, 0)', builtins.str:'read(10)', "
                   "builtins.str:'exit(None)'), ndarray[<u2|(0,)|])",
 'truncated60c[6]': 'list(list(builtins.str:"open((\'IMG\',), {\'mode\': \'rb\'})", '
                    "builtins.str:'enter', builtins.str:'seek(279, 0)', builtins.str:'read(40)', "
                    "builtins.str:'exit(None)'), ndarray[<c8|(0,)|])",
 'truncated75[6]': 'list(list(builtins.str:"open((\'IMG\',), {\'mode\': \'rb\'})", '
                   "builtins.str:'enter', builtins.str:'seek(99, 0)', builtins.str:'read(10)', "
                   "builtins.str:'exit(None)'), ndarray[<u2|(0,)|])",
 'truncated75c[6]': 'list(list(builtins.str:"open((\'IMG\',), {\'mode\': \'rb\'})", '
                    "builtins.str:'enter', builtins.str:'seek(279, 0)', builtins.str:'read(40)', "
                    "builtins.str:'exit(None)'), ndarray[<c8|(0,)|])",
 'declared-shape[6]': 'list(list(builtins.str:"open((\'IMG\',), {\'mode\': \'rb\'})", '
                      "builtins.str:'enter', builtins.str:'seek(99, 0)', builtins.str:'read(10)', "
                      "builtins.str:'exit(None)'), ndarray[<u2|(5,)|91b9aa159cc2ea440bd3])",
 'declared-shape-1d[6]': 'list(list(builtins.str:"open((\'IMG\',), {\'mode\': \'rb\'})", '
                         "builtins.str:'enter', builtins.str:'seek(99, 0)', "
                         "builtins.str:'read(10)', builtins.str:'exit(None)'), "
                         'ndarray[<u2|(5,)|91b9aa159cc2ea440bd3])',
 'declared-shape-3d[6]': 'list(list(builtins.str:"open((\'IMG\',), {\'mode\': \'rb\'})", '
                         "builtins.str:'enter', builtins.str:'seek(99, 0)', "
                         "builtins.str:'read(10)', builtins.str:'exit(None)'), "
                         'ndarray[<u2|(5,)|91b9aa159cc2ea440bd3])',
 'stale_chunks[6]': 'list(list(), raise builtins.KeyError: 6)',
 'odd_ranges[6]': 'list(list(builtins.str:"open((\'IMG\',), {\'mode\': \'rb\'})", '
                  "builtins.str:'enter', builtins.str:'seek(99, 0)', builtins.str:'read(10)', "
                  "builtins.str:'exit(None)'), ndarray[<u2|(5,)|91b9aa159cc2ea440bd3])",
 'bad_ranges[6]': 'list(list(), raise builtins.ValueError: too many values to unpack (expected 2))',
 'bad_offsets[6]': 'list(list(builtins.str:"open((\'IMG\',), {\'mode\': \'rb\'})", '
                   "builtins.str:'enter', builtins.str:'exit(TypeError)'), raise "
                   'builtins.TypeError: read_chunk() missing 1 required positional argument: '
                   "'size')",
 'extra_offsets[6]': 'list(list(builtins.str:"open((\'IMG\',), {\'mode\': \'rb\'})", '
                     "builtins.str:'enter', builtins.str:'exit(TypeError)'), raise "
                     'builtins.TypeError: read_chunk() got an unexpected keyword argument '
                     "'whence')",
 'no_offset_key[6]': "list(list(), raise builtins.KeyError: 'offset')",
 'zero_chunks[6]': 'list(list(), raise builtins.ZeroDivisionError: integer division or modulo by '
                   'zero)',
 'dtype_other[6]': 'list(list(builtins.str:"open((\'IMG\',), {\'mode\': \'rb\'})", '
                   "builtins.str:'enter', builtins.str:'seek(99, 0)', builtins.str:'read(10)', "
                   "builtins.str:'exit(None)'), ndarray[<u2|(5,)|91b9aa159cc2ea440bd3])",
 'unknown-code[all]': 'list(list(builtins.str:"open((\'IMG\',), {\'mode\': \'rb\'})", '
                      "builtins.str:'enter', builtins.str:'seek(15, 0)', builtins.str:'read(38)', "
                      "builtins.str:'exit(ValueError)'), raise builtins.ValueError: unknown type "
                      'code: F*8)',
 'wrong-code[all]': 'list(list(builtins.str:"open((\'IMG\',), {\'mode\': \'rb\'})", '
                    "builtins.str:'enter', builtins.str:'seek(15, 0)', builtins.str:'read(38)', "
                    "builtins.str:'exit(ValueError)'), raise builtins.ValueError: buffer size must "
                    'be a multiple of element size)',
 'wrong-code-c[all]': 'list(list(builtins.str:"open((\'IMG\',), {\'mode\': \'rb\'})", '
                      "builtins.str:'enter', builtins.str:'seek(15, 0)', builtins.str:'read(128)', "
                      "builtins.str:'seek(147, 0)', builtins.str:'read(128)', "
                      "builtins.str:'seek(279, 0)', builtins.str:'read(40)', "
                      "builtins.str:'exit(None)'), ndarray[<u2|(7, "
                      '20)|88c2000074c2000080c2000014c200008040000080bf00009a42000030410000c04100004041000080c00000384200006c42000034420000e0410000a0c2000010420000c242000014c20000a84100007cc2000080c20000744200008c420000c042000034c2000070c200007c420000c4c20000b2c200008042000040c1000018420000e8c10000a0c00000804100000442000044c2000044c20000ba420000c0c1000090c1000060410000bcc200001c42000084420000f0410000b0c100005c4200005842000030c10000a2c2000058420000a6c20000a6c20000b0420000c0400000bac20000a0c10000a642000030420000b0c20000a8c20000c2c2000050420000904200003cc20000a4c200008042000078c20000])',
 'missing-file[all]': 'list(list(builtins.str:"open((\'other\',), {\'mode\': \'rb\'})"), raise '
                      'builtins.FileNotFoundError: other)',
 'truncated0[all]': 'list(list(builtins.str:"open((\'IMG\',), {\'mode\': \'rb\'})", '
                    "builtins.str:'enter', builtins.str:'seek(15, 0)', builtins.str:'read(38)', "
                    "builtins.str:'seek(57, 0)', builtins.str:'read(38)', builtins.str:'seek(99, "
                    "0)', builtins.str:'read(10)', builtins.str:'exit(None)'), ndarray[<u2|(7, "
                    '0)|])',
 'truncated0c[all]': 'list(list(builtins.str:"open((\'IMG\',), {\'mode\': \'rb\'})", '
                     "builtins.str:'enter', builtins.str:'seek(15, 0)', builtins.str:'read(128)', "
                     "builtins.str:'seek(147, 0)', builtins.str:'read(128)', "
                     "builtins.str:'seek(279, 0)', builtins.str:'read(40)', "
                     "builtins.str:'exit(None)'), ndarray[<c8|(7, 0)|])",
 'truncated20[all]': 'list(list(builtins.str:"open((\'IMG\',), {\'mode\': \'rb\'})", '
                     "builtins.str:'enter', builtins.str:'seek(15, 0)', builtins.str:'read(38)', "
                     "builtins.str:'exit(ValueError)'), raise builtins.ValueError: buffer size "
                     'must be a multiple of element size)',
 'truncated20c[all]': 'list(list(builtins.str:"open((\'IMG\',), {\'mode\': \'rb\'})", '
                      "builtins.str:'enter', builtins.str:'seek(15, 0)', builtins.str:'read(128)', "
                      "builtins.str:'exit(ValueError)'), raise builtins.ValueError: buffer size "
                      'must be a multiple of element size)',
 'truncated48[all]': 'list(list(builtins.str:"open((\'IMG\',), {\'mode\': \'rb\'})", '
                     "builtins.str:'enter', builtins.str:'seek(15, 0)', builtins.str:'read(38)', "
                     "builtins.str:'exit(ValueError)'), raise builtins.ValueError: buffer size "
                     'must be a multiple of element size)',
 'truncated48c[all]': 'list(list(builtins.str:"open((\'IMG\',), {\'mode\': \'rb\'})", '
                      "builtins.str:'enter', builtins.str:'seek(15, 0)', builtins.str:'read(128)', "
                      "builtins.str:'exit(ValueError)'), raise builtins.ValueError: buffer size "
                      'must be a multiple of element size)',
 'truncated60[all]': 'list(list(builtins.str:"open((\'IMG\',), {\'mode\': \'rb\'})", '
                     "builtins.str:'enter', builtins.str:'seek(15, 0)', builtins.str:'read(38)', "
                     "builtins.str:'seek(57, 0)', builtins.str:'read(38)', "
                     "builtins.str:'exit(ValueError)'), raise builtins.ValueError: buffer size "
                     'must be a multiple of element size)',
 'truncated60c[all]': 'list(list(builtins.str:"open((\'IMG\',), {\'mode\': \'rb\'})", '
                      "builtins.str:'enter', builtins.str:'seek(15, 0)', builtins.str:'read(128)', "
                      "builtins.str:'exit(ValueError)'), raise builtins.ValueError: buffer size "
                      'must be a multiple of element size)',
 'truncated75[all]': 'list(list(builtins.str:"open((\'IMG\',), {\'mode\': \'rb\'})", '
                     "builtins.str:'enter', builtins.str:'seek(15, 0)', builtins.str:'read(38)', "
                     "builtins.str:'seek(57, 0)', builtins.str:'read(38)', builtins.str:'seek(99, "
                     "0)', builtins.str:'read(10)', builtins.str:'exit(ValueError)'), raise "
                     'builtins.ValueError: all input arrays must have the same shape)',
 'truncated75c[all]': 'list(list(builtins.str:"open((\'IMG\',), {\'mode\': \'rb\'})", '
                      "builtins.str:'enter', builtins.str:'seek(15, 0)', builtins.str:'read(128)', "
                      "builtins.str:'seek(147, 0)', builtins.str:'read(128)', "
                      "builtins.str:'seek(279, 0)', builtins.str:'read(40)', "
                      "builtins.str:'exit(ValueError)'), raise builtins.ValueError: all input "
                      'arrays must have the same shape)',
 'declared-shape[all]': 'list(list(builtins.str:"open((\'IMG\',), {\'mode\': \'rb\'})", '
                        "builtins.str:'enter', builtins.str:'seek(15, 0)', "
                        "builtins.str:'read(38)', builtins.str:'seek(57, 0)', "
                        "builtins.str:'read(38)', builtins.str:'seek(99, 0)', "
                        "builtins.str:'read(10)', builtins.str:'exit(None)'), ndarray[<u2|(7, "
                        '5)|6629092f3a86a4e3c49e217bf9cbeaa366ae3051ae2fd1cefbfaa7339b0298d2e0b1e97993aa3d423662f39290b23fa7c4c6487238c56716f687576791b9aa159cc2ea440bd3])',
 'declared-shape-1d[all]': 'list(list(builtins.str:"open((\'IMG\',), {\'mode\': \'rb\'})", '
                           "builtins.str:'enter', builtins.str:'seek(15, 0)', "
                           "builtins.str:'read(38)', builtins.str:'seek(57, 0)', "
                           "builtins.str:'read(38)', builtins.str:'seek(99, 0)', "
                           "builtins.str:'read(10)', builtins.str:'exit(None)'), ndarray[<u2|(7, "
                           '5)|6629092f3a86a4e3c49e217bf9cbeaa366ae3051ae2fd1cefbfaa7339b0298d2e0b1e97993aa3d423662f39290b23fa7c4c6487238c56716f687576791b9aa159cc2ea440bd3])',
 'declared-shape-3d[all]': 'list(list(builtins.str:"open((\'IMG\',), {\'mode\': \'rb\'})", '
                           "builtins.str:'enter', builtins.str:'seek(15, 0)', "
                           "builtins.str:'read(38)', builtins.str:'seek(57, 0)', "
                           "builtins.str:'read(38)', builtins.str:'seek(99, 0)', "
                           "builtins.str:'read(10)', builtins.str:'exit(None)'), ndarray[<u2|(7, "
                           '5)|6629092f3a86a4e3c49e217bf9cbeaa366ae3051ae2fd1cefbfaa7339b0298d2e0b1e97993aa3d423662f39290b23fa7c4c6487238c56716f687576791b9aa159cc2ea440bd3])',
 'stale_chunks[all]': 'list(list(), raise builtins.KeyError: 3)',
 'odd_ranges[all]': 'list(list(builtins.str:"open((\'IMG\',), {\'mode\': \'rb\'})", '
                    "builtins.str:'enter', builtins.str:'seek(15, 0)', builtins.str:'read(38)', "
                    "builtins.str:'seek(57, 0)', builtins.str:'read(38)', builtins.str:'seek(99, "
                    "0)', builtins.str:'read(10)', builtins.str:'exit(ValueError)'), raise "
                    'builtins.ValueError: all input arrays must have the same shape)',
 'bad_ranges[all]': 'list(list(), raise builtins.ValueError: too many values to unpack (expected '
                    '2))',
 'bad_offsets[all]': 'list(list(builtins.str:"open((\'IMG\',), {\'mode\': \'rb\'})", '
                     "builtins.str:'enter', builtins.str:'exit(TypeError)'), raise "
                     'builtins.TypeError: read_chunk() missing 1 required positional argument: '
                     "'size')",
 'extra_offsets[all]': 'list(list(builtins.str:"open((\'IMG\',), {\'mode\': \'rb\'})", '
                       "builtins.str:'enter', builtins.str:'exit(TypeError)'), raise "
                       'builtins.TypeError: read_chunk() got an unexpected keyword argument '
                       "'whence')",
 'no_offset_key[all]': "list(list(), raise builtins.KeyError: 'offset')",
 'zero_chunks[all]': 'list(list(), raise builtins.ZeroDivisionError: integer division or modulo by '
                     'zero)',
 'dtype_other[all]': 'list(list(builtins.str:"open((\'IMG\',), {\'mode\': \'rb\'})", '
                     "builtins.str:'enter', builtins.str:'seek(15, 0)', builtins.str:'read(38)', "
                     "builtins.str:'seek(57, 0)', builtins.str:'read(38)', builtins.str:'seek(99, "
                     "0)', builtins.str:'read(10)', builtins.str:'exit(None)'), ndarray[<u2|(7, "
                     '5)|6629092f3a86a4e3c49e217bf9cbeaa366ae3051ae2fd1cefbfaa7339b0298d2e0b1e97993aa3d423662f39290b23fa7c4c6487238c56716f687576791b9aa159cc2ea440bd3])',
 'unknown-code[::-1]': 'list(list(builtins.str:"open((\'IMG\',), {\'mode\': \'rb\'})", '
                       "builtins.str:'enter', builtins.str:'seek(99, 0)', builtins.str:'read(10)', "
                       "builtins.str:'exit(ValueError)'), raise builtins.ValueError: unknown type "
                       'code: F*8)',
 'wrong-code[::-1]': 'list(list(builtins.str:"open((\'IMG\',), {\'mode\': \'rb\'})", '
                     "builtins.str:'enter', builtins.str:'seek(99, 0)', builtins.str:'read(10)', "
                     "builtins.str:'exit(ValueError)'), raise builtins.ValueError: buffer size "
                     'must be a multiple of element size)',
 'wrong-code-c[::-1]': 'list(list(builtins.str:"open((\'IMG\',), {\'mode\': \'rb\'})", '
                       "builtins.str:'enter', builtins.str:'seek(279, 0)', "
                       "builtins.str:'read(40)', builtins.str:'seek(147, 0)', "
                       "builtins.str:'read(128)', builtins.str:'seek(15, 0)', "
                       "builtins.str:'read(128)', builtins.str:'exit(None)'), ndarray[<u2|(7, "
                       '20)|30420000b0c20000a8c20000c2c2000050420000904200003cc20000a4c200008042000078c2000030c10000a2c2000058420000a6c20000a6c20000b0420000c0400000bac20000a0c10000a6420000c0c1000090c1000060410000bcc200001c42000084420000f0410000b0c100005c420000584200008042000040c1000018420000e8c10000a0c00000804100000442000044c2000044c20000ba4200007cc2000080c20000744200008c420000c042000034c2000070c200007c420000c4c20000b2c2000080c00000384200006c42000034420000e0410000a0c2000010420000c242000014c20000a841000088c2000074c2000080c2000014c200008040000080bf00009a42000030410000c041000040410000])',
 'missing-file[::-1]': 'list(list(builtins.str:"open((\'other\',), {\'mode\': \'rb\'})"), raise '
                       'builtins.FileNotFoundError: other)',
 'truncated0[::-1]': 'list(list(builtins.str:"open((\'IMG\',), {\'mode\': \'rb\'})", '
                     "builtins.str:'enter', builtins.str:'seek(99, 0)', builtins.str:'read(10)', "
                     "builtins.str:'seek(57, 0)', builtins.str:'read(38)', builtins.str:'seek(15, "
                     "0)', builtins.str:'read(38)', builtins.str:'exit(None)'), ndarray[<u2|(7, "
                     '0)|])',
 'truncated0c[::-1]': 'list(list(builtins.str:"open((\'IMG\',), {\'mode\': \'rb\'})", '
                      "builtins.str:'enter', builtins.str:'seek(279, 0)', builtins.str:'read(40)', "
                      "builtins.str:'seek(147, 0)', builtins.str:'read(128)', "
                      "builtins.str:'seek(15, 0)', builtins.str:'read(128)', "
                      "builtins.str:'exit(None)'), ndarray[<c8|(7, 0)|])",
 'truncated20[::-1]': 'list(list(builtins.str:"open((\'IMG\',), {\'mode\': \'rb\'})", '
                      "builtins.str:'enter', builtins.str:'seek(99, 0)', builtins.str:'read(10)', "
                      "builtins.str:'seek(57, 0)', builtins.str:'read(38)', builtins.str:'seek(15, "
                      "0)', builtins.str:'read(38)', builtins.str:'exit(ValueError)'), raise "
                      'builtins.ValueError: buffer size must be a multiple of element size)',
 'truncated20c[::-1]': 'list(list(builtins.str:"open((\'IMG\',), {\'mode\': \'rb\'})", '
                       "builtins.str:'enter', builtins.str:'seek(279, 0)', "
                       "builtins.str:'read(40)', builtins.str:'seek(147, 0)', "
                       "builtins.str:'read(128)', builtins.str:'seek(15, 0)', "
                       "builtins.str:'read(128)', builtins.str:'exit(ValueError)'), raise "
                       'builtins.ValueError: buffer size must be a multiple of element size)',
 'truncated48[::-1]': 'list(list(builtins.str:"open((\'IMG\',), {\'mode\': \'rb\'})", '
                      "builtins.str:'enter', builtins.str:'seek(99, 0)', builtins.str:'read(10)', "
                      "builtins.str:'seek(57, 0)', builtins.str:'read(38)', builtins.str:'seek(15, "
                      "0)', builtins.str:'read(38)', builtins.str:'exit(ValueError)'), raise "
                      'builtins.ValueError: buffer size must be a multiple of element size)',
 'truncated48c[::-1]': 'list(list(builtins.str:"open((\'IMG\',), {\'mode\': \'rb\'})", '
                       "builtins.str:'enter', builtins.str:'seek(279, 0)', "
                       "builtins.str:'read(40)', builtins.str:'seek(147, 0)', "
                       "builtins.str:'read(128)', builtins.str:'seek(15, 0)', "
                       "builtins.str:'read(128)', builtins.str:'exit(ValueError)'), raise "
                       'builtins.ValueError: buffer size must be a multiple of element size)',
 'truncated60[::-1]': 'list(list(builtins.str:"open((\'IMG\',), {\'mode\': \'rb\'})", '
                      "builtins.str:'enter', builtins.str:'seek(99, 0)', builtins.str:'read(10)', "
                      "builtins.str:'seek(57, 0)', builtins.str:'read(38)', "
                      "builtins.str:'exit(ValueError)'), raise builtins.ValueError: buffer size "
                      'must be a multiple of element size)',
 'truncated60c[::-1]': 'list(list(builtins.str:"open((\'IMG\',), {\'mode\': \'rb\'})", '
                       "builtins.str:'enter', builtins.str:'seek(279, 0)', "
                       "builtins.str:'read(40)', builtins.str:'seek(147, 0)', "
                       "builtins.str:'read(128)', builtins.str:'seek(15, 0)', "
                       "builtins.str:'read(128)', builtins.str:'exit(ValueError)'), raise "
                       'builtins.ValueError: buffer size must be a multiple of element size)',
 'truncated75[::-1]': 'list(list(builtins.str:"open((\'IMG\',), {\'mode\': \'rb\'})", '
                      "builtins.str:'enter', builtins.str:'seek(99, 0)', builtins.str:'read(10)', "
                      "builtins.str:'seek(57, 0)', builtins.str:'read(38)', builtins.str:'seek(15, "
                      "0)', builtins.str:'read(38)', builtins.str:'exit(ValueError)'), raise "
                      'builtins.ValueError: all input arrays must have the same shape)',
 'truncated75c[::-1]': 'list(list(builtins.str:"open((\'IMG\',), {\'mode\': \'rb\'})", '
                       "builtins.str:'enter', builtins.str:'seek(279, 0)', "
                       "builtins.str:'read(40)', builtins.str:'seek(147, 0)', "
                       "builtins.str:'read(128)', builtins.str:'seek(15, 0)', "
                       "builtins.str:'read(128)', builtins.str:'exit(ValueError)'), raise "
                       'builtins.ValueError: all input arrays must have the same shape)',
 'declared-shape[::-1]': 'list(list(builtins.str:"open((\'IMG\',), {\'mode\': \'rb\'})", '
                         "builtins.str:'enter', builtins.str:'seek(99, 0)', "
                         "builtins.str:'read(10)', builtins.str:'seek(57, 0)', "
                         "builtins.str:'read(38)', builtins.str:'seek(15, 0)', "
                         "builtins.str:'read(38)', builtins.str:'exit(None)'), ndarray[<u2|(7, "
                         '5)|91b9aa159cc2ea440bd3487238c56716f68757673662f39290b23fa7c4c698d2e0b1e97993aa3d42ae2fd1cefbfaa7339b02217bf9cbeaa366ae30516629092f3a86a4e3c49e])',
 'declared-shape-1d[::-1]': 'list(list(builtins.str:"open((\'IMG\',), {\'mode\': \'rb\'})", '
                            "builtins.str:'enter', builtins.str:'seek(99, 0)', "
                            "builtins.str:'read(10)', builtins.str:'seek(57, 0)', "
                            "builtins.str:'read(38)', builtins.str:'seek(15, 0)', "
                            "builtins.str:'read(38)', builtins.str:'exit(None)'), ndarray[<u2|(7, "
                            '5)|91b9aa159cc2ea440bd3487238c56716f68757673662f39290b23fa7c4c698d2e0b1e97993aa3d42ae2fd1cefbfaa7339b02217bf9cbeaa366ae30516629092f3a86a4e3c49e])',
 'declared-shape-3d[::-1]': 'list(list(builtins.str:"open((\'IMG\',), {\'mode\': \'rb\'})", '
                            "builtins.str:'enter', builtins.str:'seek(99, 0)', "
                            "builtins.str:'read(10)', builtins.str:'seek(57, 0)', "
                            "builtins.str:'read(38)', builtins.str:'seek(15, 0)', "
                            "builtins.str:'read(38)', builtins.str:'exit(None)'), ndarray[<u2|(7, "
                            '5)|91b9aa159cc2ea440bd3487238c56716f68757673662f39290b23fa7c4c698d2e0b1e97993aa3d42ae2fd1cefbfaa7339b02217bf9cbeaa366ae30516629092f3a86a4e3c49e])',
 'stale_chunks[::-1]': 'list(list(), raise builtins.KeyError: 6)',
 'odd_ranges[::-1]': 'list(list(builtins.str:"open((\'IMG\',), {\'mode\': \'rb\'})", '
                     "builtins.str:'enter', builtins.str:'seek(99, 0)', builtins.str:'read(10)', "
                     "builtins.str:'seek(57, 0)', builtins.str:'read(38)', builtins.str:'seek(15, "
                     "0)', builtins.str:'read(38)', builtins.str:'exit(ValueError)'), raise "
                     'builtins.ValueError: all input arrays must have the same shape)',
 'bad_ranges[::-1]': 'list(list(), raise builtins.ValueError: too many values to unpack (expected '
                     '2))',
 'bad_offsets[::-1]': 'list(list(builtins.str:"open((\'IMG\',), {\'mode\': \'rb\'})", '
                      "builtins.str:'enter', builtins.str:'exit(TypeError)'), raise "
                      'builtins.TypeError: read_chunk() missing 1 required positional argument: '
                      "'size')",
 'extra_offsets[::-1]': 'list(list(builtins.str:"open((\'IMG\',), {\'mode\': \'rb\'})", '
                        "builtins.str:'enter', builtins.str:'exit(TypeError)'), raise "
                        'builtins.TypeError: read_chunk() got an unexpected keyword argument '
                        "'whence')",
 'no_offset_key[::-1]': "list(list(), raise builtins.KeyError: 'offset')",
 'zero_chunks[::-1]': 'list(list(), raise builtins.ZeroDivisionError: integer division or modulo '
                      'by zero)',
 'dtype_other[::-1]': 'list(list(builtins.str:"open((\'IMG\',), {\'mode\': \'rb\'})", '
                      "builtins.str:'enter', builtins.str:'seek(99, 0)', builtins.str:'read(10)', "
                      "builtins.str:'seek(57, 0)', builtins.str:'read(38)', builtins.str:'seek(15, "
                      "0)', builtins.str:'read(38)', builtins.str:'exit(None)'), ndarray[<u2|(7, "
                      '5)|91b9aa159cc2ea440bd3487238c56716f68757673662f39290b23fa7c4c698d2e0b1e97993aa3d42ae2fd1cefbfaa7339b02217bf9cbeaa366ae30516629092f3a86a4e3c49e])',
 'unknown-code[0:0]': 'list(list(builtins.str:"open((\'IMG\',), {\'mode\': \'rb\'})", '
                      "builtins.str:'enter', builtins.str:'exit(None)'), ndarray[<u2|(0, 5)|])",
 'wrong-code[0:0]': 'list(list(builtins.str:"open((\'IMG\',), {\'mode\': \'rb\'})", '
                    "builtins.str:'enter', builtins.str:'exit(None)'), ndarray[<u2|(0, 5)|])",
 'wrong-code-c[0:0]': 'list(list(builtins.str:"open((\'IMG\',), {\'mode\': \'rb\'})", '
                      "builtins.str:'enter', builtins.str:'exit(None)'), ndarray[<c8|(0, 5)|])",
 'missing-file[0:0]': 'list(list(builtins.str:"open((\'other\',), {\'mode\': \'rb\'})"), raise '
                      'builtins.FileNotFoundError: other)',
 'truncated0[0:0]': 'list(list(builtins.str:"open((\'IMG\',), {\'mode\': \'rb\'})", '
                    "builtins.str:'enter', builtins.str:'exit(None)'), ndarray[<u2|(0, 5)|])",
 'truncated0c[0:0]': 'list(list(builtins.str:"open((\'IMG\',), {\'mode\': \'rb\'})", '
                     "builtins.str:'enter', builtins.str:'exit(None)'), ndarray[<c8|(0, 5)|])",
 'truncated20[0:0]': 'list(list(builtins.str:"open((\'IMG\',), {\'mode\': \'rb\'})", '
                     "builtins.str:'enter', builtins.str:'exit(None)'), ndarray[<u2|(0, 5)|])",
 'truncated20c[0:0]': 'list(list(builtins.str:"open((\'IMG\',), {\'mode\': \'rb\'})", '
                      "builtins.str:'enter', builtins.str:'exit(None)'), ndarray[<c8|(0, 5)|])",
 'truncated48[0:0]': 'list(list(builtins.str:"open((\'IMG\',), {\'mode\': \'rb\'})", '
                     "builtins.str:'enter', builtins.str:'exit(None)'), ndarray[<u2|(0, 5)|])",
 'truncated48c[0:0]': 'list(list(builtins.str:"open((\'IMG\',), {\'mode\': \'rb\'})", '
                      "builtins.str:'enter', builtins.str:'exit(None)'), ndarray[<c8|(0, 5)|])",
 'truncated60[0:0]': 'list(list(builtins.str:"open((\'IMG\',), {\'mode\': \'rb\'})", '
                     "builtins.str:'enter', builtins.str:'exit(None)'), ndarray[<u2|(0, 5)|])",
 'truncated60c[0:0]': 'list(list(builtins.str:"open((\'IMG\',), {\'mode\': \'rb\'})", '
                      "builtins.str:'enter', builtins.str:'exit(None)'), ndarray[<c8|(0, 5)|])",
 'truncated75[0:0]': 'list(list(builtins.str:"open((\'IMG\',), {\'mode\': \'rb\'})", '
                     "builtins.str:'enter', builtins.str:'exit(None)'), ndarray[<u2|(0, 5)|])",
 'truncated75c[0:0]': 'list(list(builtins.str:"open((\'IMG\',), {\'mode\': \'rb\'})", '
                      "builtins.str:'enter', builtins.str:'exit(None)'), ndarray[<c8|(0, 5)|])",
 'declared-shape[0:0]': 'list(list(builtins.str:"open((\'IMG\',), {\'mode\': \'rb\'})", '
                        "builtins.str:'enter', builtins.str:'exit(None)'), ndarray[<u2|(0, 9)|])",
 'declared-shape-1d[0:0]': 'list(list(builtins.str:"open((\'IMG\',), {\'mode\': \'rb\'})", '
                           "builtins.str:'enter', builtins.str:'exit(None)'), ndarray[<u2|(0,)|])",
 'declared-shape-3d[0:0]': 'list(list(builtins.str:"open((\'IMG\',), {\'mode\': \'rb\'})", '
                           "builtins.str:'enter', builtins.str:'exit(None)'), ndarray[<u2|(0, 5, "
                           '2)|])',
 'stale_chunks[0:0]': 'list(list(builtins.str:"open((\'IMG\',), {\'mode\': \'rb\'})", '
                      "builtins.str:'enter', builtins.str:'exit(None)'), ndarray[<u2|(0, 5)|])",
 'odd_ranges[0:0]': 'list(list(builtins.str:"open((\'IMG\',), {\'mode\': \'rb\'})", '
                    "builtins.str:'enter', builtins.str:'exit(None)'), ndarray[<u2|(0, 5)|])",
 'bad_ranges[0:0]': 'list(list(builtins.str:"open((\'IMG\',), {\'mode\': \'rb\'})", '
                    "builtins.str:'enter', builtins.str:'exit(None)'), ndarray[<u2|(0, 5)|])",
 'bad_offsets[0:0]': 'list(list(builtins.str:"open((\'IMG\',), {\'mode\': \'rb\'})", '
                     "builtins.str:'enter', builtins.str:'exit(None)'), ndarray[<u2|(0, 5)|])",
 'extra_offsets[0:0]': 'list(list(builtins.str:"open((\'IMG\',), {\'mode\': \'rb\'})", '
                       "builtins.str:'enter', builtins.str:'exit(None)'), ndarray[<u2|(0, 5)|])",
 'no_offset_key[0:0]': 'list(list(builtins.str:"open((\'IMG\',), {\'mode\': \'rb\'})", '
                       "builtins.str:'enter', builtins.str:'exit(None)'), ndarray[<u2|(0, 5)|])",
 'zero_chunks[0:0]': 'list(list(builtins.str:"open((\'IMG\',), {\'mode\': \'rb\'})", '
                     "builtins.str:'enter', builtins.str:'exit(None)'), ndarray[<u2|(0, 5)|])",
 'dtype_other[0:0]': 'list(list(builtins.str:"open((\'IMG\',), {\'mode\': \'rb\'})", '
                     "builtins.str:'enter', builtins.str:'exit(None)'), ndarray[<f4|(0, 5)|])",
 'fsspec-uint16-scalar': 'numpy.uint16(np.uint16(7199))',
 'fsspec-uint16-row': 'ndarray[<u2|(4,)|82bf2e9697c9ea39]',
 'fsspec-uint16-block': 'ndarray[<u2|(4, 2)|30611e511f1c66da1e82b85cd55bd48e]',
 'fsspec-uint16-rev': 'ndarray[<u2|(6, '
                      '4)|ea3997c92e9682bf45dbd48ed55b33ee8330b85c1e821435b30d66da1f1ca68cdc5e1e513061aeedd83dedf33f3458eb]',
 'fsspec-uint16-empty': 'ndarray[<u2|(0, 4)|]',
 'fsspec-uint16-oob': 'raise builtins.IndexError: list index out of range',
 'fsspec-complex64-scalar': 'numpy.complex64(np.complex64(-79-24j))',
 'fsspec-complex64-row': 'ndarray[<c8|(4,)|00004442000070c200008841000050c2000064420000be4200005cc2000060c2]',
 'fsspec-complex64-block': 'ndarray[<c8|(4, '
                           '2)|0000c8c100000442000014c20000bcc200009ec20000c0c100008c42000024c20000803f00009cc20000e0c1000054c20000e8c1000048c20000304100007442]',
 'fsspec-complex64-rev': 'ndarray[<c8|(6, '
                         '4)|00005cc2000060c2000064420000be4200008841000050c200004442000070c200008e42000000c000003041000074420000e8c1000048c20000ac420000b44200007cc200001cc20000e0c1000054c20000803f00009cc200006cc20000a4c20000b4c20000c84100008c42000024c200009ec20000c0c1000010410000c0410000d0c1000070c1000014c20000bcc20000c8c1000004420000aa420000c442000050c2000086c20000b442000030c1000070c2000038c20000a642000088c2]',
 'fsspec-complex64-empty': 'ndarray[<c8|(0, 4)|]',
 'fsspec-complex64-oob': 'raise builtins.IndexError: list index out of range',
 'relocate-regular': "list(tuple(dict{builtins.str:'offset': builtins.int:10, builtins.str:'size': "
                     'builtins.int:200}, list(tuple(builtins.int:30, builtins.int:33), '
                     'tuple(builtins.int:33, builtins.int:36), tuple(builtins.int:36, '
                     'builtins.int:39))), builtins.bool:True)',
 'relocate-zero-regular': "list(tuple(dict{builtins.str:'offset': builtins.int:0}, "
                          'list(tuple(builtins.int:40, builtins.int:43), tuple(builtins.int:43, '
                          'builtins.int:46), tuple(builtins.int:46, builtins.int:49))), '
                          'builtins.bool:True)',
 'relocate-missing-regular': "raise builtins.KeyError: 'offset'",
 'relocate-none-regular': "raise builtins.TypeError: 'NoneType' object is not subscriptable",
 'relocate-float-regular': "list(tuple(dict{builtins.str:'offset': builtins.float:0.5, "
                           "builtins.str:'size': builtins.int:1}, list(tuple(builtins.float:39.5, "
                           'builtins.float:42.5), tuple(builtins.float:42.5, builtins.float:45.5), '
                           'tuple(builtins.float:45.5, builtins.float:48.5))), builtins.bool:True)',
 'relocate-empty': "list(tuple(dict{builtins.str:'offset': builtins.int:10, builtins.str:'size': "
                   'builtins.int:200}, list()), builtins.bool:True)',
 'relocate-zero-empty': "list(tuple(dict{builtins.str:'offset': builtins.int:0}, list()), "
                        'builtins.bool:True)',
 'relocate-missing-empty': "raise builtins.KeyError: 'offset'",
 'relocate-none-empty': "raise builtins.TypeError: 'NoneType' object is not subscriptable",
 'relocate-float-empty': "list(tuple(dict{builtins.str:'offset': builtins.float:0.5, "
                         "builtins.str:'size': builtins.int:1}, list()), builtins.bool:True)",
 'relocate-tuple': "list(tuple(dict{builtins.str:'offset': builtins.int:10, builtins.str:'size': "
                   'builtins.int:200}, list(tuple(builtins.int:0, builtins.int:2), '
                   'tuple(builtins.int:2, builtins.int:5))), builtins.bool:True)',
 'relocate-zero-tuple': "list(tuple(dict{builtins.str:'offset': builtins.int:0}, "
                        'list(tuple(builtins.int:10, builtins.int:12), tuple(builtins.int:12, '
                        'builtins.int:15))), builtins.bool:True)',
 'relocate-missing-tuple': "raise builtins.KeyError: 'offset'",
 'relocate-none-tuple': "raise builtins.TypeError: 'NoneType' object is not subscriptable",
 'relocate-float-tuple': "list(tuple(dict{builtins.str:'offset': builtins.float:0.5, "
                         "builtins.str:'size': builtins.int:1}, list(tuple(builtins.float:9.5, "
                         'builtins.float:11.5), tuple(builtins.float:11.5, builtins.float:14.5))), '
                         'builtins.bool:True)',
 'relocate-before': "list(tuple(dict{builtins.str:'offset': builtins.int:10, builtins.str:'size': "
                    'builtins.int:200}, list(tuple(builtins.int:-10, builtins.int:-5))), '
                    'builtins.bool:True)',
 'relocate-zero-before': "list(tuple(dict{builtins.str:'offset': builtins.int:0}, "
                         'list(tuple(builtins.int:0, builtins.int:5))), builtins.bool:True)',
 'relocate-missing-before': "raise builtins.KeyError: 'offset'",
 'relocate-none-before': "raise builtins.TypeError: 'NoneType' object is not subscriptable",
 'relocate-float-before': "list(tuple(dict{builtins.str:'offset': builtins.float:0.5, "
                          "builtins.str:'size': builtins.int:1}, list(tuple(builtins.float:-0.5, "
                          'builtins.float:4.5))), builtins.bool:True)',
 'relocate-lists': "list(tuple(dict{builtins.str:'offset': builtins.int:10, builtins.str:'size': "
                   'builtins.int:200}, list(tuple(builtins.int:2, builtins.int:4), '
                   'tuple(builtins.int:4, builtins.int:6))), builtins.bool:True)',
 'relocate-zero-lists': "list(tuple(dict{builtins.str:'offset': builtins.int:0}, "
                        'list(tuple(builtins.int:12, builtins.int:14), tuple(builtins.int:14, '
                        'builtins.int:16))), builtins.bool:True)',
 'relocate-missing-lists': "raise builtins.KeyError: 'offset'",
 'relocate-none-lists': "raise builtins.TypeError: 'NoneType' object is not subscriptable",
 'relocate-float-lists': "list(tuple(dict{builtins.str:'offset': builtins.float:0.5, "
                         "builtins.str:'size': builtins.int:1}, list(tuple(builtins.float:11.5, "
                         'builtins.float:13.5), tuple(builtins.float:13.5, builtins.float:15.5))), '
                         'builtins.bool:True)',
 'relocate-float': "list(tuple(dict{builtins.str:'offset': builtins.int:10, builtins.str:'size': "
                   'builtins.int:200}, list(tuple(builtins.float:0.5, builtins.float:1.5))), '
                   'builtins.bool:True)',
 'relocate-zero-float': "list(tuple(dict{builtins.str:'offset': builtins.int:0}, "
                        'list(tuple(builtins.float:10.5, builtins.float:11.5))), '
                        'builtins.bool:True)',
 'relocate-missing-float': "raise builtins.KeyError: 'offset'",
 'relocate-none-float': "raise builtins.TypeError: 'NoneType' object is not subscriptable",
 'relocate-float-float': "list(tuple(dict{builtins.str:'offset': builtins.float:0.5, "
                         "builtins.str:'size': builtins.int:1}, list(tuple(builtins.float:10.0, "
                         'builtins.float:11.0))), builtins.bool:True)',
 'relocate-np': "list(tuple(dict{builtins.str:'offset': builtins.int:10, builtins.str:'size': "
                'builtins.int:200}, list(tuple(numpy.int64(np.int64(10)), '
                'numpy.int64(np.int64(20))))), builtins.bool:True)',
 'relocate-zero-np': "list(tuple(dict{builtins.str:'offset': builtins.int:0}, "
                     'list(tuple(numpy.int64(np.int64(20)), numpy.int64(np.int64(30))))), '
                     'builtins.bool:True)',
 'relocate-missing-np': "raise builtins.KeyError: 'offset'",
 'relocate-none-np': "raise builtins.TypeError: 'NoneType' object is not subscriptable",
 'relocate-float-np': "list(tuple(dict{builtins.str:'offset': builtins.float:0.5, "
                      "builtins.str:'size': builtins.int:1}, "
                      'list(tuple(numpy.float64(np.float64(19.5)), '
                      'numpy.float64(np.float64(29.5))))), builtins.bool:True)',
 'relocate-three': 'raise builtins.ValueError: too many values to unpack (expected 2)',
 'relocate-zero-three': 'raise builtins.ValueError: too many values to unpack (expected 2)',
 'relocate-missing-three': "raise builtins.KeyError: 'offset'",
 'relocate-none-three': "raise builtins.TypeError: 'NoneType' object is not subscriptable",
 'relocate-float-three': 'raise builtins.ValueError: too many values to unpack (expected 2)',
 'relocate-one': 'raise builtins.ValueError: not enough values to unpack (expected 2, got 1)',
 'relocate-zero-one': 'raise builtins.ValueError: not enough values to unpack (expected 2, got 1)',
 'relocate-missing-one': "raise builtins.KeyError: 'offset'",
 'relocate-none-one': "raise builtins.TypeError: 'NoneType' object is not subscriptable",
 'relocate-float-one': 'raise builtins.ValueError: not enough values to unpack (expected 2, got 1)',
 'relocate-ints': 'raise builtins.TypeError: cannot unpack non-iterable int object',
 'relocate-zero-ints': 'raise builtins.TypeError: cannot unpack non-iterable int object',
 'relocate-missing-ints': "raise builtins.KeyError: 'offset'",
 'relocate-none-ints': "raise builtins.TypeError: 'NoneType' object is not subscriptable",
 'relocate-float-ints': 'raise builtins.TypeError: cannot unpack non-iterable int object',
 'relocate-none': "raise builtins.TypeError: 'NoneType' object is not iterable",
 'relocate-zero-none': "raise builtins.TypeError: 'NoneType' object is not iterable",
 'relocate-missing-none': "raise builtins.KeyError: 'offset'",
 'relocate-none-none': "raise builtins.TypeError: 'NoneType' object is not subscriptable",
 'relocate-float-none': "raise builtins.TypeError: 'NoneType' object is not iterable",
 'relocate-str': "raise builtins.TypeError: unsupported operand type(s) for -: 'str' and 'int'",
 'relocate-zero-str': "raise builtins.TypeError: unsupported operand type(s) for -: 'str' and "
                      "'int'",
 'relocate-missing-str': "raise builtins.KeyError: 'offset'",
 'relocate-none-str': "raise builtins.TypeError: 'NoneType' object is not subscriptable",
 'relocate-float-str': "raise builtins.TypeError: unsupported operand type(s) for -: 'str' and "
                       "'float'",
 'relocate-none-items': "raise builtins.TypeError: unsupported operand type(s) for -: 'NoneType' "
                        "and 'int'",
 'relocate-zero-none-items': 'raise builtins.TypeError: unsupported operand type(s) for -: '
                             "'NoneType' and 'int'",
 'relocate-missing-none-items': "raise builtins.KeyError: 'offset'",
 'relocate-none-none-items': "raise builtins.TypeError: 'NoneType' object is not subscriptable",
 'relocate-float-none-items': 'raise builtins.TypeError: unsupported operand type(s) for -: '
                              "'NoneType' and 'float'",
 'relocate-mixed': 'raise builtins.ValueError: not enough values to unpack (expected 2, got 1)',
 'relocate-zero-mixed': 'raise builtins.ValueError: not enough values to unpack (expected 2, got '
                        '1)',
 'relocate-missing-mixed': "raise builtins.KeyError: 'offset'",
 'relocate-none-mixed': "raise builtins.TypeError: 'NoneType' object is not subscriptable",
 'relocate-float-mixed': 'raise builtins.ValueError: not enough values to unpack (expected 2, got '
                         '1)',
 'relocate-gen': "list(tuple(dict{builtins.str:'offset': builtins.int:10, builtins.str:'size': "
                 'builtins.int:200}, list(tuple(builtins.int:0, builtins.int:2), '
                 'tuple(builtins.int:5, builtins.int:7))), builtins.bool:True)',
 'relocate-kw': "tuple(dict{builtins.str:'offset': builtins.int:10, builtins.str:'size': "
                'builtins.int:200}, list(tuple(builtins.int:1, builtins.int:2)))'}


# --------------------------------------------------------------------------
# harness: canonical description of results, comparison against EXPECTED
# --------------------------------------------------------------------------
import sys
import warnings


def describe(value):
    """canonical, type-aware text form of a result"""
    import numpy as _np

    if isinstance(value, BaseException):
        return f"raise {type(value).__module__}.{type(value).__qualname__}: {value}"
    if isinstance(value, _np.ndarray):
        if value.dtype == object:
            body = repr(value.tolist())
        else:
            body = value.tobytes().hex()
        return f"ndarray[{value.dtype.str}|{value.shape}|{body}]"
    if isinstance(value, _np.generic):
        return f"{type(value).__module__}.{type(value).__name__}({value!r})"
    if isinstance(value, dict):
        items = ", ".join(f"{describe(k)}: {describe(v)}" for k, v in value.items())
        return f"{type(value).__name__}{{{items}}}"
    if isinstance(value, (list, tuple)):
        items = ", ".join(describe(v) for v in value)
        return f"{type(value).__name__}({items})"
    return f"{type(value).__module__}.{type(value).__qualname__}:{value!r}"


def run_case(thunk):
    with warnings.catch_warnings():
        warnings.simplefilter("ignore")
        try:
            return describe(thunk())
        except Exception as e:  # noqa: BLE001
            return describe(e)


def collect():
    results = {}
    for name, thunk in cases():
        if name in results:
            raise RuntimeError(f"duplicate case name: {name}")
        results[name] = run_case(thunk)
    return results


def main(argv):
    results = collect()
    if "--record" in argv:
        import pprint

        pprint.pprint(results, width=100, sort_dicts=False)
        return 0

    failures = []
    for name, actual in results.items():
        expected = EXPECTED.get(name, "<missing>")
        if actual != expected:
            failures.append((name, expected, actual))
    missing = sorted(set(EXPECTED) - set(results))
    for name, expected, actual in failures:
        print(f"MISMATCH {name}\n  expected: {expected}\n  actual:   {actual}")
    for name in missing:
        print(f"NOT RUN {name}")
    n_raise = sum(1 for v in results.values() if v.startswith("raise "))
    print(f"{len(results)} cases ({n_raise} raising), {len(failures)} mismatches, {len(missing)} not run")
    return 1 if failures or missing else 0


def test_equivalence():
    assert main([]) == 0


if __name__ == "__main__":
    sys.exit(main(sys.argv[1:]))
