"""Equivalence check for refactoring 3 (``compute_selected_ranges`` and ``groupby_chunks``
in ceos_alos2/array.py).

Calls both helpers directly with a spread of well-formed and malformed inputs and also
through ``Array.__getitem__`` on a recording file system; compares results (values, container
and key types, ordering), exception types and messages, and the I/O requests with what the
unchanged code produced.

Run as ``PYTHONPATH=<worktree> python equiv.py`` (exit status 0 = equivalent) or with pytest.
"""

import io
import pprint
import sys

import numpy as np


def canon(obj):
    """Canonical, type-preserving text form of a result."""
    if isinstance(obj, BaseException):
        return f"raise {type(obj).__module__}.{type(obj).__qualname__}: {obj}"
    if isinstance(obj, np.ndarray):
        return f"ndarray[{obj.dtype.str}{obj.shape}]{obj.tolist()!r}"
    if isinstance(obj, np.generic):
        return f"{type(obj).__name__}({obj.item()!r})"
    if isinstance(obj, dict):
        items = ", ".join(f"{canon(k)}: {canon(v)}" for k, v in obj.items())
        return f"{type(obj).__name__}{{{items}}}"
    if isinstance(obj, (list, tuple)):
        return f"{type(obj).__name__}({', '.join(canon(v) for v in obj)})"
    return f"{type(obj).__name__}:{obj!r}"


def attempt(func, *args, **kwargs):
    try:
        return canon(func(*args, **kwargs))
    except Exception as e:  # noqa: BLE001
        return canon(e)


class RecordingFile:
    def __init__(self, content, log):
        self._buffer = io.BytesIO(content)
        self._log = log

    def __enter__(self):
        self._log.append("enter")
        return self

    def __exit__(self, *exc_info):
        self._log.append("exit")
        return False

    def seek(self, *args, **kwargs):
        self._log.append(("seek", args, kwargs))
        return self._buffer.seek(*args, **kwargs)

    def read(self, *args, **kwargs):
        self._log.append(("read", args, kwargs))
        return self._buffer.read(*args, **kwargs)


class RecordingFS:
    """minimal file system: records every request made by the code under test"""

    def __init__(self, files):
        self.files = files
        self.log = []

    def open(self, *args, **kwargs):
        self.log.append(("open", args, kwargs))
        return RecordingFile(self.files[args[0]], self.log)

    def take_log(self):
        log, self.log = self.log, []
        return repr(log)


import warnings  # noqa: E402
from fractions import Fraction  # noqa: E402

from ceos_alos2 import array  # noqa: E402


class Index:
    def __init__(self, value):
        self.value = value

    def __index__(self):
        return self.value

    def __repr__(self):
        return f"Index({self.value})"


class MyInt(int):
    pass


class Rows:
    """sized, iterable, but not a list"""

    def __init__(self, items):
        self.items = items

    def __len__(self):
        return len(self.items)

    def __iter__(self):
        return iter(self.items)


BYTE_RANGES = {
    "list4": lambda: [(0, 3), (5, 8), (16, 19), (22, 25)],
    "list1": lambda: [(7, 9)],
    "empty": lambda: [],
    "tuple3": lambda: ((0, 3), (5, 8), (16, 19)),
    "lists": lambda: [[0, 3], [5, 8]],
    "array": lambda: np.array([(0, 3), (5, 8), (16, 19)]),
    "rows": lambda: Rows([(0, 3), (5, 8), (16, 19)]),
    "dict": lambda: {(0, 3): "a", (5, 8): "b"},
    "str": lambda: "abcd",
    "range": lambda: range(10, 15),
    "mixed": lambda: [(0, 3), None, "xy", 4.5],
    "generator": lambda: ((i, i + 1) for i in range(3)),
    "None": lambda: None,
    "int": lambda: 4,
}

ROW_INDEXERS = {
    "0": lambda: 0,
    "2": lambda: 2,
    "-1": lambda: -1,
    "-4": lambda: -4,
    "4": lambda: 4,
    "-5": lambda: -5,
    "True": lambda: True,
    "False": lambda: False,
    "MyInt(1)": lambda: MyInt(1),
    "np.int64(1)": lambda: np.int64(1),
    "np.uint8(3)": lambda: np.uint8(3),
    "np.bool(True)": lambda: np.bool_(True),
    "Index(1)": lambda: Index(1),
    "1.0": lambda: 1.0,
    "None": lambda: None,
    "Ellipsis": lambda: Ellipsis,
    "all": lambda: slice(None),
    "0:1": lambda: slice(0, 1),
    "2:": lambda: slice(2, None),
    ":2": lambda: slice(None, 2),
    "-2:": lambda: slice(-2, None),
    ":-2": lambda: slice(None, -2),
    "::2": lambda: slice(None, None, 2),
    "1::2": lambda: slice(1, None, 2),
    "::-1": lambda: slice(None, None, -1),
    "-1::-2": lambda: slice(-1, None, -2),
    "3:0:-1": lambda: slice(3, 0, -1),
    "0:0": lambda: slice(0, 0),
    "3:1": lambda: slice(3, 1),
    "10:20": lambda: slice(10, 20),
    "-10:10": lambda: slice(-10, 10),
    "::0": lambda: slice(None, None, 0),
    "1.5:": lambda: slice(1.5, None),
    "'a':": lambda: slice("a", None),
    "Index(1):Index(3)": lambda: slice(Index(1), Index(3)),
    "np:np": lambda: slice(np.int64(1), np.int64(3)),
    "[]": lambda: [],
    "[0]": lambda: [0],
    "[3]": lambda: [3],
    "[4]": lambda: [4],
    "[0,2]": lambda: [0, 2],
    "[0,-1]": lambda: [0, -1],
    "[3,1,1,0]": lambda: [3, 1, 1, 0],
    "[0,4]": lambda: [0, 4],
    "[4,'a']": lambda: [4, "a"],
    "['a',4]": lambda: ["a", 4],
    "[0,'a']": lambda: [0, "a"],
    "[0,None]": lambda: [0, None],
    "[1.0]": lambda: [1.0],
    "[0,1.0]": lambda: [0, 1.0],
    "[True,False]": lambda: [True, False],
    "[Index(2)]": lambda: [Index(2)],
    "[Index(2),0]": lambda: [Index(2), 0],
    "[np.int64(2),np.int64(0)]": lambda: [np.int64(2), np.int64(0)],
    "[slice]": lambda: [slice(0, 2)],
    "[0,slice]": lambda: [0, slice(1, None)],
    "[[0,1]]": lambda: [[0, 1]],
    "[[0],[1]]": lambda: [[0], [1]],
    "[(0,)]": lambda: [(0,)],
    "(0,2)": lambda: (0, 2),
    "()": lambda: (),
    "(1,)": lambda: (1,),
    "array[2,0]": lambda: np.array([2, 0]),
    "array[]": lambda: np.array([], dtype=int),
    "array[1.0]": lambda: np.array([1.0]),
    "array-bool": lambda: np.array([True, False, True, False]),
    "array-0d": lambda: np.array(1),
    "array-2d": lambda: np.array([[0, 1]]),
    "range(1,3)": lambda: range(1, 3),
    "range(3,-1,-1)": lambda: range(3, -1, -1),
    "gen": lambda: (i for i in (2, 0)),
    "set": lambda: {1},
    "dict": lambda: {1: "a", 0: "b"},
    "'12'": lambda: "12",
    "''": lambda: "",
    "b'\\x01'": lambda: b"\x01",
}


def numbered(ranges):
    return list(enumerate(ranges))


REGULAR = [(0, 3), (3, 6), (6, 9), (9, 12), (12, 15), (15, 18)]

GROUP_INPUTS = {
    "regular": lambda: numbered(REGULAR),
    "empty": lambda: [],
    "single": lambda: [(4, (1, 2))],
    "reversed": lambda: numbered(REGULAR)[::-1],
    "unordered-duplicates": lambda: [(5, "f"), (0, "a"), (4, "e"), (0, "a"), (1, "b"), (5, "f2")],
    "negative-rows": lambda: [(-1, "z"), (-2, "y"), (-3, "x"), (0, "a")],
    "tuple-of-tuples": lambda: tuple(numbered(REGULAR)),
    "lists": lambda: [[0, (0, 3)], [1, (3, 6)], [2, (6, 9)]],
    "generator": lambda: ((i, r) for i, r in enumerate(REGULAR)),
    "dict-items": lambda: {0: "a", 1: "b", 2: "c"}.items(),
    "np-rows": lambda: [(np.int64(i), r) for i, r in enumerate(REGULAR)],
    "bool-rows": lambda: [(True, "t"), (False, "f"), (2, "two")],
    "equal-keys": lambda: [(0.0, "float"), (0, "int"), (False, "bool"), (2, "x"), (2.0, "y")],
    "float-rows": lambda: [(0.5, "a"), (1.5, "b"), (2.5, "c")],
    "fraction-rows": lambda: [(Fraction(1, 2), "a"), (Fraction(5, 2), "b")],
    "str-values": lambda: [(0, "ab"), (1, "cd")],
    "triples": lambda: [(0, 1, 2), (1, 2, 3)],
    "triple-last": lambda: [(0, 1), (1, 2, 3)],
    "singles": lambda: [(0,), (1,)],
    "single-then-bad-row": lambda: [(0,), ("a", 1)],
    "triple-then-bad-row": lambda: [(0, 1, 2), ("a", 1)],
    "bad-row-then-triple": lambda: [("a", 1), (0, 1, 2)],
    "bad-row-last": lambda: [(0, "a"), (1, "b"), (None, "c")],
    "str-items": lambda: ["ab", "cd"],
    "two-char-str-rows": lambda: [("a", 1)],
    "ints": lambda: [0, 1, 2],
    "none-item": lambda: [(0, "a"), None],
    "empty-items": lambda: [(), ()],
    "unhashable-key": lambda: [(np.array([0, 1]), "a")],
    "list-row": lambda: [([0], "a")],
    "dict-item": lambda: [{0: 5, 1: 6}],
    "nested-values": lambda: [(0, [1, 2]), (1, [3, 4]), (2, [5, 6])],
    "str": lambda: "abc",
    "None": lambda: None,
    "int": lambda: 3,
}

CHUNKSIZES = {
    "1": 1,
    "2": 2,
    "3": 3,
    "4": 4,
    "6": 6,
    "100": 100,
    "-1": -1,
    "-2": -2,
    "0": 0,
    "True": True,
    "2.0": 2.0,
    "1.5": 1.5,
    "0.0": 0.0,
    "inf": float("inf"),
    "np.int64(2)": np.int64(2),
    "np.int64(0)": np.int64(0),
    "np.float64(2)": np.float64(2),
    "Fraction(3,2)": Fraction(3, 2),
    "None": None,
    "'a'": "a",
    "[2]": [2],
    "2j": 2j,
}


def identity_check():
    """the values of the result are the very objects passed in"""
    ranges = [[0, 3], [5, 8], [16, 19]]
    selected = array.compute_selected_ranges(ranges, slice(None, None, -1))
    grouped = array.groupby_chunks(selected, 2)
    flat = [r for group in grouped.values() for r in group]
    return repr(
        (
            [any(item[1] is r for r in ranges) for item in selected],
            [any(item is r for r in ranges) for item in flat],
            type(selected).__name__,
            [type(item).__name__ for item in selected],
            type(grouped).__name__,
            [type(group).__name__ for group in grouped.values()],
        )
    )


def collect():
    # numpy scalars warn about division by zero, the plain python numbers raise
    warnings.simplefilter("ignore", RuntimeWarning)
    results = {}

    for bname, make_ranges in BYTE_RANGES.items():
        for iname, make_indexer in ROW_INDEXERS.items():
            key = f"select {bname} [{iname}]"
            results[key] = attempt(array.compute_selected_ranges, make_ranges(), make_indexer())

    # keyword arguments
    results["select kw"] = attempt(
        lambda: array.compute_selected_ranges(byte_ranges=[(0, 1), (1, 2)], indexer=slice(None))
    )
    results["group kw"] = attempt(
        lambda: array.groupby_chunks(byte_ranges=[(0, "a"), (1, "b")], chunksize=1)
    )

    for gname, make_input in GROUP_INPUTS.items():
        for cname, chunksize in CHUNKSIZES.items():
            key = f"group {gname} chunksize={cname}"
            results[key] = attempt(array.groupby_chunks, make_input(), chunksize)

    # inputs are left alone
    ranges = [(0, 3), (5, 8), (16, 19)]
    indexer = [2, 0]
    array.compute_selected_ranges(ranges, indexer)
    selected = numbered(ranges)
    array.groupby_chunks(selected, 2)
    results["inputs untouched"] = canon((ranges, indexer, selected))
    results["identity"] = identity_check()

    # both helpers combined the way Array.__getitem__ combines them
    for iname in ("all", "::-1", "1::2", "[3,1,1,0]", "-1", "0:0", "[]", "array[2,0]", "[0,4]"):
        for chunksize in (1, 2, 3, 4, 5):
            selected = attempt_raw(array.compute_selected_ranges, BYTE_RANGES["list4"](), ROW_INDEXERS[iname]())
            if isinstance(selected, str):
                results[f"combined [{iname}] chunksize={chunksize}"] = selected
                continue
            results[f"combined [{iname}] chunksize={chunksize}"] = attempt(
                array.groupby_chunks, selected, chunksize
            )

    # through the array: values and I/O requests
    data = np.arange(120, dtype="uint16").reshape(6, 20)
    content = b""
    byte_ranges = []
    for row in data:
        content += b"\xee" * 12
        byte_ranges.append((len(content), len(content) + 40))
        content += row.astype(">u2").tobytes()
    fs = RecordingFS({"image-file": content})
    for rpc in (None, 1, 2, 4, 6, 9, "80B"):
        arr = array.Array(
            fs=fs,
            url="image-file",
            byte_ranges=byte_ranges,
            shape=data.shape,
            dtype="uint16",
            type_code="IU2",
            records_per_chunk=rpc,
        )
        for iname, make_indexer in ROW_INDEXERS.items():
            value = attempt(lambda: arr[(make_indexer(), slice(None, None, 7))])
            results[f"array rpc={rpc!r} [{iname}]"] = f"{value} || io={fs.take_log()}"

    return results


def attempt_raw(func, *args):
    try:
        return func(*args)
    except Exception as e:  # noqa: BLE001
        return canon(e)


# recorded from the unchanged code (HEAD 405b008) with `python equiv.py --record`
EXPECTED = {'select list4 [0]': 'list(tuple(int:0, tuple(int:0, int:3)))',
 'select list4 [2]': 'list(tuple(int:2, tuple(int:16, int:19)))',
 'select list4 [-1]': 'list(tuple(int:3, tuple(int:22, int:25)))',
 'select list4 [-4]': 'list(tuple(int:0, tuple(int:0, int:3)))',
 'select list4 [4]': 'raise builtins.IndexError: list index out of range',
 'select list4 [-5]': 'raise builtins.IndexError: list index out of range',
 'select list4 [True]': 'list(tuple(int:1, tuple(int:5, int:8)))',
 'select list4 [False]': 'list(tuple(int:0, tuple(int:0, int:3)))',
 'select list4 [MyInt(1)]': 'list(tuple(int:1, tuple(int:5, int:8)))',
 'select list4 [np.int64(1)]': "raise builtins.TypeError: 'numpy.int64' object is not iterable",
 'select list4 [np.uint8(3)]': "raise builtins.TypeError: 'numpy.uint8' object is not iterable",
 'select list4 [np.bool(True)]': "raise builtins.TypeError: 'numpy.bool' object is not iterable",
 'select list4 [Index(1)]': "raise builtins.TypeError: 'Index' object is not iterable",
 'select list4 [1.0]': "raise builtins.TypeError: 'float' object is not iterable",
 'select list4 [None]': "raise builtins.TypeError: 'NoneType' object is not iterable",
 'select list4 [Ellipsis]': "raise builtins.TypeError: 'ellipsis' object is not iterable",
 'select list4 [all]': 'list(tuple(int:0, tuple(int:0, int:3)), tuple(int:1, tuple(int:5, int:8)), '
                       'tuple(int:2, tuple(int:16, int:19)), tuple(int:3, tuple(int:22, int:25)))',
 'select list4 [0:1]': 'list(tuple(int:0, tuple(int:0, int:3)))',
 'select list4 [2:]': 'list(tuple(int:2, tuple(int:16, int:19)), tuple(int:3, tuple(int:22, int:25)))',
 'select list4 [:2]': 'list(tuple(int:0, tuple(int:0, int:3)), tuple(int:1, tuple(int:5, int:8)))',
 'select list4 [-2:]': 'list(tuple(int:2, tuple(int:16, int:19)), tuple(int:3, tuple(int:22, int:25)))',
 'select list4 [:-2]': 'list(tuple(int:0, tuple(int:0, int:3)), tuple(int:1, tuple(int:5, int:8)))',
 'select list4 [::2]': 'list(tuple(int:0, tuple(int:0, int:3)), tuple(int:2, tuple(int:16, int:19)))',
 'select list4 [1::2]': 'list(tuple(int:1, tuple(int:5, int:8)), tuple(int:3, tuple(int:22, int:25)))',
 'select list4 [::-1]': 'list(tuple(int:3, tuple(int:22, int:25)), tuple(int:2, tuple(int:16, int:19)), '
                        'tuple(int:1, tuple(int:5, int:8)), tuple(int:0, tuple(int:0, int:3)))',
 'select list4 [-1::-2]': 'list(tuple(int:3, tuple(int:22, int:25)), tuple(int:1, tuple(int:5, int:8)))',
 'select list4 [3:0:-1]': 'list(tuple(int:3, tuple(int:22, int:25)), tuple(int:2, tuple(int:16, int:19)), '
                          'tuple(int:1, tuple(int:5, int:8)))',
 'select list4 [0:0]': 'list()',
 'select list4 [3:1]': 'list()',
 'select list4 [10:20]': 'list()',
 'select list4 [-10:10]': 'list(tuple(int:0, tuple(int:0, int:3)), tuple(int:1, tuple(int:5, int:8)), '
                          'tuple(int:2, tuple(int:16, int:19)), tuple(int:3, tuple(int:22, int:25)))',
 'select list4 [::0]': 'raise builtins.ValueError: slice step cannot be zero',
 'select list4 [1.5:]': 'raise builtins.TypeError: slice indices must be integers or None or have an '
                        '__index__ method',
 "select list4 ['a':]": 'raise builtins.TypeError: slice indices must be integers or None or have an '
                        '__index__ method',
 'select list4 [Index(1):Index(3)]': 'list(tuple(int:1, tuple(int:5, int:8)), tuple(int:2, tuple(int:16, '
                                     'int:19)))',
 'select list4 [np:np]': 'list(tuple(int:1, tuple(int:5, int:8)), tuple(int:2, tuple(int:16, int:19)))',
 'select list4 [[]]': 'list()',
 'select list4 [[0]]': 'list(tuple(int:0, tuple(int:0, int:3)))',
 'select list4 [[3]]': 'list(tuple(int:3, tuple(int:22, int:25)))',
 'select list4 [[4]]': 'raise builtins.IndexError: list index out of range',
 'select list4 [[0,2]]': 'list(tuple(int:0, tuple(int:0, int:3)), tuple(int:2, tuple(int:16, int:19)))',
 'select list4 [[0,-1]]': 'list(tuple(int:0, tuple(int:0, int:3)), tuple(int:3, tuple(int:22, int:25)))',
 'select list4 [[3,1,1,0]]': 'list(tuple(int:3, tuple(int:22, int:25)), tuple(int:1, tuple(int:5, int:8)), '
                             'tuple(int:1, tuple(int:5, int:8)), tuple(int:0, tuple(int:0, int:3)))',
 'select list4 [[0,4]]': 'raise builtins.IndexError: list index out of range',
 "select list4 [[4,'a']]": 'raise builtins.IndexError: list index out of range',
 "select list4 [['a',4]]": 'raise builtins.TypeError: list indices must be integers or slices, not str',
 "select list4 [[0,'a']]": 'raise builtins.TypeError: list indices must be integers or slices, not str',
 'select list4 [[0,None]]': 'raise builtins.TypeError: list indices must be integers or slices, not NoneType',
 'select list4 [[1.0]]': 'raise builtins.TypeError: list indices must be integers or slices, not float',
 'select list4 [[0,1.0]]': 'raise builtins.TypeError: list indices must be integers or slices, not float',
 'select list4 [[True,False]]': 'list(tuple(int:1, tuple(int:5, int:8)), tuple(int:0, tuple(int:0, int:3)))',
 'select list4 [[Index(2)]]': 'list(tuple(int:2, tuple(int:16, int:19)))',
 'select list4 [[Index(2),0]]': 'list(tuple(int:2, tuple(int:16, int:19)), tuple(int:0, tuple(int:0, '
                                'int:3)))',
 'select list4 [[np.int64(2),np.int64(0)]]': 'list(tuple(int:2, tuple(int:16, int:19)), tuple(int:0, '
                                             'tuple(int:0, int:3)))',
 'select list4 [[slice]]': 'list(list(tuple(int:0, tuple(int:0, int:3)), tuple(int:1, tuple(int:5, int:8))))',
 'select list4 [[0,slice]]': 'list(tuple(int:0, tuple(int:0, int:3)), list(tuple(int:1, tuple(int:5, '
                             'int:8)), tuple(int:2, tuple(int:16, int:19)), tuple(int:3, tuple(int:22, '
                             'int:25))))',
 'select list4 [[[0,1]]]': 'raise builtins.TypeError: list indices must be integers or slices, not list',
 'select list4 [[[0],[1]]]': 'raise builtins.TypeError: list indices must be integers or slices, not list',
 'select list4 [[(0,)]]': 'raise builtins.TypeError: list indices must be integers or slices, not tuple',
 'select list4 [(0,2)]': 'list(tuple(int:0, tuple(int:0, int:3)), tuple(int:2, tuple(int:16, int:19)))',
 'select list4 [()]': 'list()',
 'select list4 [(1,)]': 'list(tuple(int:1, tuple(int:5, int:8)))',
 'select list4 [array[2,0]]': 'list(tuple(int:2, tuple(int:16, int:19)), tuple(int:0, tuple(int:0, int:3)))',
 'select list4 [array[]]': 'list()',
 'select list4 [array[1.0]]': 'raise builtins.TypeError: list indices must be integers or slices, not '
                              'numpy.float64',
 'select list4 [array-bool]': 'raise builtins.TypeError: list indices must be integers or slices, not '
                              'numpy.bool',
 'select list4 [array-0d]': 'raise builtins.TypeError: iteration over a 0-d array',
 'select list4 [array-2d]': 'raise builtins.TypeError: only integer scalar arrays can be converted to a '
                            'scalar index',
 'select list4 [range(1,3)]': 'list(tuple(int:1, tuple(int:5, int:8)), tuple(int:2, tuple(int:16, int:19)))',
 'select list4 [range(3,-1,-1)]': 'list(tuple(int:3, tuple(int:22, int:25)), tuple(int:2, tuple(int:16, '
                                  'int:19)), tuple(int:1, tuple(int:5, int:8)), tuple(int:0, tuple(int:0, '
                                  'int:3)))',
 'select list4 [gen]': 'list(tuple(int:2, tuple(int:16, int:19)), tuple(int:0, tuple(int:0, int:3)))',
 'select list4 [set]': 'list(tuple(int:1, tuple(int:5, int:8)))',
 'select list4 [dict]': 'list(tuple(int:1, tuple(int:5, int:8)), tuple(int:0, tuple(int:0, int:3)))',
 "select list4 ['12']": 'raise builtins.TypeError: list indices must be integers or slices, not str',
 "select list4 ['']": 'list()',
 "select list4 [b'\\x01']": 'list(tuple(int:1, tuple(int:5, int:8)))',
 'select list1 [0]': 'list(tuple(int:0, tuple(int:7, int:9)))',
 'select list1 [2]': 'raise builtins.IndexError: list index out of range',
 'select list1 [-1]': 'list(tuple(int:0, tuple(int:7, int:9)))',
 'select list1 [-4]': 'raise builtins.IndexError: list index out of range',
 'select list1 [4]': 'raise builtins.IndexError: list index out of range',
 'select list1 [-5]': 'raise builtins.IndexError: list index out of range',
 'select list1 [True]': 'raise builtins.IndexError: list index out of range',
 'select list1 [False]': 'list(tuple(int:0, tuple(int:7, int:9)))',
 'select list1 [MyInt(1)]': 'raise builtins.IndexError: list index out of range',
 'select list1 [np.int64(1)]': "raise builtins.TypeError: 'numpy.int64' object is not iterable",
 'select list1 [np.uint8(3)]': "raise builtins.TypeError: 'numpy.uint8' object is not iterable",
 'select list1 [np.bool(True)]': "raise builtins.TypeError: 'numpy.bool' object is not iterable",
 'select list1 [Index(1)]': "raise builtins.TypeError: 'Index' object is not iterable",
 'select list1 [1.0]': "raise builtins.TypeError: 'float' object is not iterable",
 'select list1 [None]': "raise builtins.TypeError: 'NoneType' object is not iterable",
 'select list1 [Ellipsis]': "raise builtins.TypeError: 'ellipsis' object is not iterable",
 'select list1 [all]': 'list(tuple(int:0, tuple(int:7, int:9)))',
 'select list1 [0:1]': 'list(tuple(int:0, tuple(int:7, int:9)))',
 'select list1 [2:]': 'list()',
 'select list1 [:2]': 'list(tuple(int:0, tuple(int:7, int:9)))',
 'select list1 [-2:]': 'list(tuple(int:0, tuple(int:7, int:9)))',
 'select list1 [:-2]': 'list()',
 'select list1 [::2]': 'list(tuple(int:0, tuple(int:7, int:9)))',
 'select list1 [1::2]': 'list()',
 'select list1 [::-1]': 'list(tuple(int:0, tuple(int:7, int:9)))',
 'select list1 [-1::-2]': 'list(tuple(int:0, tuple(int:7, int:9)))',
 'select list1 [3:0:-1]': 'list()',
 'select list1 [0:0]': 'list()',
 'select list1 [3:1]': 'list()',
 'select list1 [10:20]': 'list()',
 'select list1 [-10:10]': 'list(tuple(int:0, tuple(int:7, int:9)))',
 'select list1 [::0]': 'raise builtins.ValueError: slice step cannot be zero',
 'select list1 [1.5:]': 'raise builtins.TypeError: slice indices must be integers or None or have an '
                        '__index__ method',
 "select list1 ['a':]": 'raise builtins.TypeError: slice indices must be integers or None or have an '
                        '__index__ method',
 'select list1 [Index(1):Index(3)]': 'list()',
 'select list1 [np:np]': 'list()',
 'select list1 [[]]': 'list()',
 'select list1 [[0]]': 'list(tuple(int:0, tuple(int:7, int:9)))',
 'select list1 [[3]]': 'raise builtins.IndexError: list index out of range',
 'select list1 [[4]]': 'raise builtins.IndexError: list index out of range',
 'select list1 [[0,2]]': 'raise builtins.IndexError: list index out of range',
 'select list1 [[0,-1]]': 'list(tuple(int:0, tuple(int:7, int:9)), tuple(int:0, tuple(int:7, int:9)))',
 'select list1 [[3,1,1,0]]': 'raise builtins.IndexError: list index out of range',
 'select list1 [[0,4]]': 'raise builtins.IndexError: list index out of range',
 "select list1 [[4,'a']]": 'raise builtins.IndexError: list index out of range',
 "select list1 [['a',4]]": 'raise builtins.TypeError: list indices must be integers or slices, not str',
 "select list1 [[0,'a']]": 'raise builtins.TypeError: list indices must be integers or slices, not str',
 'select list1 [[0,None]]': 'raise builtins.TypeError: list indices must be integers or slices, not NoneType',
 'select list1 [[1.0]]': 'raise builtins.TypeError: list indices must be integers or slices, not float',
 'select list1 [[0,1.0]]': 'raise builtins.TypeError: list indices must be integers or slices, not float',
 'select list1 [[True,False]]': 'raise builtins.IndexError: list index out of range',
 'select list1 [[Index(2)]]': 'raise builtins.IndexError: list index out of range',
 'select list1 [[Index(2),0]]': 'raise builtins.IndexError: list index out of range',
 'select list1 [[np.int64(2),np.int64(0)]]': 'raise builtins.IndexError: list index out of range',
 'select list1 [[slice]]': 'list(list(tuple(int:0, tuple(int:7, int:9))))',
 'select list1 [[0,slice]]': 'list(tuple(int:0, tuple(int:7, int:9)), list())',
 'select list1 [[[0,1]]]': 'raise builtins.TypeError: list indices must be integers or slices, not list',
 'select list1 [[[0],[1]]]': 'raise builtins.TypeError: list indices must be integers or slices, not list',
 'select list1 [[(0,)]]': 'raise builtins.TypeError: list indices must be integers or slices, not tuple',
 'select list1 [(0,2)]': 'raise builtins.IndexError: list index out of range',
 'select list1 [()]': 'list()',
 'select list1 [(1,)]': 'raise builtins.IndexError: list index out of range',
 'select list1 [array[2,0]]': 'raise builtins.IndexError: list index out of range',
 'select list1 [array[]]': 'list()',
 'select list1 [array[1.0]]': 'raise builtins.TypeError: list indices must be integers or slices, not '
                              'numpy.float64',
 'select list1 [array-bool]': 'raise builtins.TypeError: list indices must be integers or slices, not '
                              'numpy.bool',
 'select list1 [array-0d]': 'raise builtins.TypeError: iteration over a 0-d array',
 'select list1 [array-2d]': 'raise builtins.TypeError: only integer scalar arrays can be converted to a '
                            'scalar index',
 'select list1 [range(1,3)]': 'raise builtins.IndexError: list index out of range',
 'select list1 [range(3,-1,-1)]': 'raise builtins.IndexError: list index out of range',
 'select list1 [gen]': 'raise builtins.IndexError: list index out of range',
 'select list1 [set]': 'raise builtins.IndexError: list index out of range',
 'select list1 [dict]': 'raise builtins.IndexError: list index out of range',
 "select list1 ['12']": 'raise builtins.TypeError: list indices must be integers or slices, not str',
 "select list1 ['']": 'list()',
 "select list1 [b'\\x01']": 'raise builtins.IndexError: list index out of range',
 'select empty [0]': 'raise builtins.IndexError: list index out of range',
 'select empty [2]': 'raise builtins.IndexError: list index out of range',
 'select empty [-1]': 'raise builtins.IndexError: list index out of range',
 'select empty [-4]': 'raise builtins.IndexError: list index out of range',
 'select empty [4]': 'raise builtins.IndexError: list index out of range',
 'select empty [-5]': 'raise builtins.IndexError: list index out of range',
 'select empty [True]': 'raise builtins.IndexError: list index out of range',
 'select empty [False]': 'raise builtins.IndexError: list index out of range',
 'select empty [MyInt(1)]': 'raise builtins.IndexError: list index out of range',
 'select empty [np.int64(1)]': "raise builtins.TypeError: 'numpy.int64' object is not iterable",
 'select empty [np.uint8(3)]': "raise builtins.TypeError: 'numpy.uint8' object is not iterable",
 'select empty [np.bool(True)]': "raise builtins.TypeError: 'numpy.bool' object is not iterable",
 'select empty [Index(1)]': "raise builtins.TypeError: 'Index' object is not iterable",
 'select empty [1.0]': "raise builtins.TypeError: 'float' object is not iterable",
 'select empty [None]': "raise builtins.TypeError: 'NoneType' object is not iterable",
 'select empty [Ellipsis]': "raise builtins.TypeError: 'ellipsis' object is not iterable",
 'select empty [all]': 'list()',
 'select empty [0:1]': 'list()',
 'select empty [2:]': 'list()',
 'select empty [:2]': 'list()',
 'select empty [-2:]': 'list()',
 'select empty [:-2]': 'list()',
 'select empty [::2]': 'list()',
 'select empty [1::2]': 'list()',
 'select empty [::-1]': 'list()',
 'select empty [-1::-2]': 'list()',
 'select empty [3:0:-1]': 'list()',
 'select empty [0:0]': 'list()',
 'select empty [3:1]': 'list()',
 'select empty [10:20]': 'list()',
 'select empty [-10:10]': 'list()',
 'select empty [::0]': 'raise builtins.ValueError: slice step cannot be zero',
 'select empty [1.5:]': 'raise builtins.TypeError: slice indices must be integers or None or have an '
                        '__index__ method',
 "select empty ['a':]": 'raise builtins.TypeError: slice indices must be integers or None or have an '
                        '__index__ method',
 'select empty [Index(1):Index(3)]': 'list()',
 'select empty [np:np]': 'list()',
 'select empty [[]]': 'list()',
 'select empty [[0]]': 'raise builtins.IndexError: list index out of range',
 'select empty [[3]]': 'raise builtins.IndexError: list index out of range',
 'select empty [[4]]': 'raise builtins.IndexError: list index out of range',
 'select empty [[0,2]]': 'raise builtins.IndexError: list index out of range',
 'select empty [[0,-1]]': 'raise builtins.IndexError: list index out of range',
 'select empty [[3,1,1,0]]': 'raise builtins.IndexError: list index out of range',
 'select empty [[0,4]]': 'raise builtins.IndexError: list index out of range',
 "select empty [[4,'a']]": 'raise builtins.IndexError: list index out of range',
 "select empty [['a',4]]": 'raise builtins.TypeError: list indices must be integers or slices, not str',
 "select empty [[0,'a']]": 'raise builtins.IndexError: list index out of range',
 'select empty [[0,None]]': 'raise builtins.IndexError: list index out of range',
 'select empty [[1.0]]': 'raise builtins.TypeError: list indices must be integers or slices, not float',
 'select empty [[0,1.0]]': 'raise builtins.IndexError: list index out of range',
 'select empty [[True,False]]': 'raise builtins.IndexError: list index out of range',
 'select empty [[Index(2)]]': 'raise builtins.IndexError: list index out of range',
 'select empty [[Index(2),0]]': 'raise builtins.IndexError: list index out of range',
 'select empty [[np.int64(2),np.int64(0)]]': 'raise builtins.IndexError: list index out of range',
 'select empty [[slice]]': 'list(list())',
 'select empty [[0,slice]]': 'raise builtins.IndexError: list index out of range',
 'select empty [[[0,1]]]': 'raise builtins.TypeError: list indices must be integers or slices, not list',
 'select empty [[[0],[1]]]': 'raise builtins.TypeError: list indices must be integers or slices, not list',
 'select empty [[(0,)]]': 'raise builtins.TypeError: list indices must be integers or slices, not tuple',
 'select empty [(0,2)]': 'raise builtins.IndexError: list index out of range',
 'select empty [()]': 'list()',
 'select empty [(1,)]': 'raise builtins.IndexError: list index out of range',
 'select empty [array[2,0]]': 'raise builtins.IndexError: list index out of range',
 'select empty [array[]]': 'list()',
 'select empty [array[1.0]]': 'raise builtins.TypeError: list indices must be integers or slices, not '
                              'numpy.float64',
 'select empty [array-bool]': 'raise builtins.TypeError: list indices must be integers or slices, not '
                              'numpy.bool',
 'select empty [array-0d]': 'raise builtins.TypeError: iteration over a 0-d array',
 'select empty [array-2d]': 'raise builtins.TypeError: only integer scalar arrays can be converted to a '
                            'scalar index',
 'select empty [range(1,3)]': 'raise builtins.IndexError: list index out of range',
 'select empty [range(3,-1,-1)]': 'raise builtins.IndexError: list index out of range',
 'select empty [gen]': 'raise builtins.IndexError: list index out of range',
 'select empty [set]': 'raise builtins.IndexError: list index out of range',
 'select empty [dict]': 'raise builtins.IndexError: list index out of range',
 "select empty ['12']": 'raise builtins.TypeError: list indices must be integers or slices, not str',
 "select empty ['']": 'list()',
 "select empty [b'\\x01']": 'raise builtins.IndexError: list index out of range',
 'select tuple3 [0]': 'list(tuple(int:0, tuple(int:0, int:3)))',
 'select tuple3 [2]': 'list(tuple(int:2, tuple(int:16, int:19)))',
 'select tuple3 [-1]': 'list(tuple(int:2, tuple(int:16, int:19)))',
 'select tuple3 [-4]': 'raise builtins.IndexError: list index out of range',
 'select tuple3 [4]': 'raise builtins.IndexError: list index out of range',
 'select tuple3 [-5]': 'raise builtins.IndexError: list index out of range',
 'select tuple3 [True]': 'list(tuple(int:1, tuple(int:5, int:8)))',
 'select tuple3 [False]': 'list(tuple(int:0, tuple(int:0, int:3)))',
 'select tuple3 [MyInt(1)]': 'list(tuple(int:1, tuple(int:5, int:8)))',
 'select tuple3 [np.int64(1)]': "raise builtins.TypeError: 'numpy.int64' object is not iterable",
 'select tuple3 [np.uint8(3)]': "raise builtins.TypeError: 'numpy.uint8' object is not iterable",
 'select tuple3 [np.bool(True)]': "raise builtins.TypeError: 'numpy.bool' object is not iterable",
 'select tuple3 [Index(1)]': "raise builtins.TypeError: 'Index' object is not iterable",
 'select tuple3 [1.0]': "raise builtins.TypeError: 'float' object is not iterable",
 'select tuple3 [None]': "raise builtins.TypeError: 'NoneType' object is not iterable",
 'select tuple3 [Ellipsis]': "raise builtins.TypeError: 'ellipsis' object is not iterable",
 'select tuple3 [all]': 'list(tuple(int:0, tuple(int:0, int:3)), tuple(int:1, tuple(int:5, int:8)), '
                        'tuple(int:2, tuple(int:16, int:19)))',
 'select tuple3 [0:1]': 'list(tuple(int:0, tuple(int:0, int:3)))',
 'select tuple3 [2:]': 'list(tuple(int:2, tuple(int:16, int:19)))',
 'select tuple3 [:2]': 'list(tuple(int:0, tuple(int:0, int:3)), tuple(int:1, tuple(int:5, int:8)))',
 'select tuple3 [-2:]': 'list(tuple(int:1, tuple(int:5, int:8)), tuple(int:2, tuple(int:16, int:19)))',
 'select tuple3 [:-2]': 'list(tuple(int:0, tuple(int:0, int:3)))',
 'select tuple3 [::2]': 'list(tuple(int:0, tuple(int:0, int:3)), tuple(int:2, tuple(int:16, int:19)))',
 'select tuple3 [1::2]': 'list(tuple(int:1, tuple(int:5, int:8)))',
 'select tuple3 [::-1]': 'list(tuple(int:2, tuple(int:16, int:19)), tuple(int:1, tuple(int:5, int:8)), '
                         'tuple(int:0, tuple(int:0, int:3)))',
 'select tuple3 [-1::-2]': 'list(tuple(int:2, tuple(int:16, int:19)), tuple(int:0, tuple(int:0, int:3)))',
 'select tuple3 [3:0:-1]': 'list(tuple(int:2, tuple(int:16, int:19)), tuple(int:1, tuple(int:5, int:8)))',
 'select tuple3 [0:0]': 'list()',
 'select tuple3 [3:1]': 'list()',
 'select tuple3 [10:20]': 'list()',
 'select tuple3 [-10:10]': 'list(tuple(int:0, tuple(int:0, int:3)), tuple(int:1, tuple(int:5, int:8)), '
                           'tuple(int:2, tuple(int:16, int:19)))',
 'select tuple3 [::0]': 'raise builtins.ValueError: slice step cannot be zero',
 'select tuple3 [1.5:]': 'raise builtins.TypeError: slice indices must be integers or None or have an '
                         '__index__ method',
 "select tuple3 ['a':]": 'raise builtins.TypeError: slice indices must be integers or None or have an '
                         '__index__ method',
 'select tuple3 [Index(1):Index(3)]': 'list(tuple(int:1, tuple(int:5, int:8)), tuple(int:2, tuple(int:16, '
                                      'int:19)))',
 'select tuple3 [np:np]': 'list(tuple(int:1, tuple(int:5, int:8)), tuple(int:2, tuple(int:16, int:19)))',
 'select tuple3 [[]]': 'list()',
 'select tuple3 [[0]]': 'list(tuple(int:0, tuple(int:0, int:3)))',
 'select tuple3 [[3]]': 'raise builtins.IndexError: list index out of range',
 'select tuple3 [[4]]': 'raise builtins.IndexError: list index out of range',
 'select tuple3 [[0,2]]': 'list(tuple(int:0, tuple(int:0, int:3)), tuple(int:2, tuple(int:16, int:19)))',
 'select tuple3 [[0,-1]]': 'list(tuple(int:0, tuple(int:0, int:3)), tuple(int:2, tuple(int:16, int:19)))',
 'select tuple3 [[3,1,1,0]]': 'raise builtins.IndexError: list index out of range',
 'select tuple3 [[0,4]]': 'raise builtins.IndexError: list index out of range',
 "select tuple3 [[4,'a']]": 'raise builtins.IndexError: list index out of range',
 "select tuple3 [['a',4]]": 'raise builtins.TypeError: list indices must be integers or slices, not str',
 "select tuple3 [[0,'a']]": 'raise builtins.TypeError: list indices must be integers or slices, not str',
 'select tuple3 [[0,None]]': 'raise builtins.TypeError: list indices must be integers or slices, not '
                             'NoneType',
 'select tuple3 [[1.0]]': 'raise builtins.TypeError: list indices must be integers or slices, not float',
 'select tuple3 [[0,1.0]]': 'raise builtins.TypeError: list indices must be integers or slices, not float',
 'select tuple3 [[True,False]]': 'list(tuple(int:1, tuple(int:5, int:8)), tuple(int:0, tuple(int:0, int:3)))',
 'select tuple3 [[Index(2)]]': 'list(tuple(int:2, tuple(int:16, int:19)))',
 'select tuple3 [[Index(2),0]]': 'list(tuple(int:2, tuple(int:16, int:19)), tuple(int:0, tuple(int:0, '
                                 'int:3)))',
 'select tuple3 [[np.int64(2),np.int64(0)]]': 'list(tuple(int:2, tuple(int:16, int:19)), tuple(int:0, '
                                              'tuple(int:0, int:3)))',
 'select tuple3 [[slice]]': 'list(list(tuple(int:0, tuple(int:0, int:3)), tuple(int:1, tuple(int:5, '
                            'int:8))))',
 'select tuple3 [[0,slice]]': 'list(tuple(int:0, tuple(int:0, int:3)), list(tuple(int:1, tuple(int:5, '
                              'int:8)), tuple(int:2, tuple(int:16, int:19))))',
 'select tuple3 [[[0,1]]]': 'raise builtins.TypeError: list indices must be integers or slices, not list',
 'select tuple3 [[[0],[1]]]': 'raise builtins.TypeError: list indices must be integers or slices, not list',
 'select tuple3 [[(0,)]]': 'raise builtins.TypeError: list indices must be integers or slices, not tuple',
 'select tuple3 [(0,2)]': 'list(tuple(int:0, tuple(int:0, int:3)), tuple(int:2, tuple(int:16, int:19)))',
 'select tuple3 [()]': 'list()',
 'select tuple3 [(1,)]': 'list(tuple(int:1, tuple(int:5, int:8)))',
 'select tuple3 [array[2,0]]': 'list(tuple(int:2, tuple(int:16, int:19)), tuple(int:0, tuple(int:0, int:3)))',
 'select tuple3 [array[]]': 'list()',
 'select tuple3 [array[1.0]]': 'raise builtins.TypeError: list indices must be integers or slices, not '
                               'numpy.float64',
 'select tuple3 [array-bool]': 'raise builtins.TypeError: list indices must be integers or slices, not '
                               'numpy.bool',
 'select tuple3 [array-0d]': 'raise builtins.TypeError: iteration over a 0-d array',
 'select tuple3 [array-2d]': 'raise builtins.TypeError: only integer scalar arrays can be converted to a '
                             'scalar index',
 'select tuple3 [range(1,3)]': 'list(tuple(int:1, tuple(int:5, int:8)), tuple(int:2, tuple(int:16, int:19)))',
 'select tuple3 [range(3,-1,-1)]': 'raise builtins.IndexError: list index out of range',
 'select tuple3 [gen]': 'list(tuple(int:2, tuple(int:16, int:19)), tuple(int:0, tuple(int:0, int:3)))',
 'select tuple3 [set]': 'list(tuple(int:1, tuple(int:5, int:8)))',
 'select tuple3 [dict]': 'list(tuple(int:1, tuple(int:5, int:8)), tuple(int:0, tuple(int:0, int:3)))',
 "select tuple3 ['12']": 'raise builtins.TypeError: list indices must be integers or slices, not str',
 "select tuple3 ['']": 'list()',
 "select tuple3 [b'\\x01']": 'list(tuple(int:1, tuple(int:5, int:8)))',
 'select lists [0]': 'list(tuple(int:0, list(int:0, int:3)))',
 'select lists [2]': 'raise builtins.IndexError: list index out of range',
 'select lists [-1]': 'list(tuple(int:1, list(int:5, int:8)))',
 'select lists [-4]': 'raise builtins.IndexError: list index out of range',
 'select lists [4]': 'raise builtins.IndexError: list index out of range',
 'select lists [-5]': 'raise builtins.IndexError: list index out of range',
 'select lists [True]': 'list(tuple(int:1, list(int:5, int:8)))',
 'select lists [False]': 'list(tuple(int:0, list(int:0, int:3)))',
 'select lists [MyInt(1)]': 'list(tuple(int:1, list(int:5, int:8)))',
 'select lists [np.int64(1)]': "raise builtins.TypeError: 'numpy.int64' object is not iterable",
 'select lists [np.uint8(3)]': "raise builtins.TypeError: 'numpy.uint8' object is not iterable",
 'select lists [np.bool(True)]': "raise builtins.TypeError: 'numpy.bool' object is not iterable",
 'select lists [Index(1)]': "raise builtins.TypeError: 'Index' object is not iterable",
 'select lists [1.0]': "raise builtins.TypeError: 'float' object is not iterable",
 'select lists [None]': "raise builtins.TypeError: 'NoneType' object is not iterable",
 'select lists [Ellipsis]': "raise builtins.TypeError: 'ellipsis' object is not iterable",
 'select lists [all]': 'list(tuple(int:0, list(int:0, int:3)), tuple(int:1, list(int:5, int:8)))',
 'select lists [0:1]': 'list(tuple(int:0, list(int:0, int:3)))',
 'select lists [2:]': 'list()',
 'select lists [:2]': 'list(tuple(int:0, list(int:0, int:3)), tuple(int:1, list(int:5, int:8)))',
 'select lists [-2:]': 'list(tuple(int:0, list(int:0, int:3)), tuple(int:1, list(int:5, int:8)))',
 'select lists [:-2]': 'list()',
 'select lists [::2]': 'list(tuple(int:0, list(int:0, int:3)))',
 'select lists [1::2]': 'list(tuple(int:1, list(int:5, int:8)))',
 'select lists [::-1]': 'list(tuple(int:1, list(int:5, int:8)), tuple(int:0, list(int:0, int:3)))',
 'select lists [-1::-2]': 'list(tuple(int:1, list(int:5, int:8)))',
 'select lists [3:0:-1]': 'list(tuple(int:1, list(int:5, int:8)))',
 'select lists [0:0]': 'list()',
 'select lists [3:1]': 'list()',
 'select lists [10:20]': 'list()',
 'select lists [-10:10]': 'list(tuple(int:0, list(int:0, int:3)), tuple(int:1, list(int:5, int:8)))',
 'select lists [::0]': 'raise builtins.ValueError: slice step cannot be zero',
 'select lists [1.5:]': 'raise builtins.TypeError: slice indices must be integers or None or have an '
                        '__index__ method',
 "select lists ['a':]": 'raise builtins.TypeError: slice indices must be integers or None or have an '
                        '__index__ method',
 'select lists [Index(1):Index(3)]': 'list(tuple(int:1, list(int:5, int:8)))',
 'select lists [np:np]': 'list(tuple(int:1, list(int:5, int:8)))',
 'select lists [[]]': 'list()',
 'select lists [[0]]': 'list(tuple(int:0, list(int:0, int:3)))',
 'select lists [[3]]': 'raise builtins.IndexError: list index out of range',
 'select lists [[4]]': 'raise builtins.IndexError: list index out of range',
 'select lists [[0,2]]': 'raise builtins.IndexError: list index out of range',
 'select lists [[0,-1]]': 'list(tuple(int:0, list(int:0, int:3)), tuple(int:1, list(int:5, int:8)))',
 'select lists [[3,1,1,0]]': 'raise builtins.IndexError: list index out of range',
 'select lists [[0,4]]': 'raise builtins.IndexError: list index out of range',
 "select lists [[4,'a']]": 'raise builtins.IndexError: list index out of range',
 "select lists [['a',4]]": 'raise builtins.TypeError: list indices must be integers or slices, not str',
 "select lists [[0,'a']]": 'raise builtins.TypeError: list indices must be integers or slices, not str',
 'select lists [[0,None]]': 'raise builtins.TypeError: list indices must be integers or slices, not NoneType',
 'select lists [[1.0]]': 'raise builtins.TypeError: list indices must be integers or slices, not float',
 'select lists [[0,1.0]]': 'raise builtins.TypeError: list indices must be integers or slices, not float',
 'select lists [[True,False]]': 'list(tuple(int:1, list(int:5, int:8)), tuple(int:0, list(int:0, int:3)))',
 'select lists [[Index(2)]]': 'raise builtins.IndexError: list index out of range',
 'select lists [[Index(2),0]]': 'raise builtins.IndexError: list index out of range',
 'select lists [[np.int64(2),np.int64(0)]]': 'raise builtins.IndexError: list index out of range',
 'select lists [[slice]]': 'list(list(tuple(int:0, list(int:0, int:3)), tuple(int:1, list(int:5, int:8))))',
 'select lists [[0,slice]]': 'list(tuple(int:0, list(int:0, int:3)), list(tuple(int:1, list(int:5, int:8))))',
 'select lists [[[0,1]]]': 'raise builtins.TypeError: list indices must be integers or slices, not list',
 'select lists [[[0],[1]]]': 'raise builtins.TypeError: list indices must be integers or slices, not list',
 'select lists [[(0,)]]': 'raise builtins.TypeError: list indices must be integers or slices, not tuple',
 'select lists [(0,2)]': 'raise builtins.IndexError: list index out of range',
 'select lists [()]': 'list()',
 'select lists [(1,)]': 'list(tuple(int:1, list(int:5, int:8)))',
 'select lists [array[2,0]]': 'raise builtins.IndexError: list index out of range',
 'select lists [array[]]': 'list()',
 'select lists [array[1.0]]': 'raise builtins.TypeError: list indices must be integers or slices, not '
                              'numpy.float64',
 'select lists [array-bool]': 'raise builtins.TypeError: list indices must be integers or slices, not '
                              'numpy.bool',
 'select lists [array-0d]': 'raise builtins.TypeError: iteration over a 0-d array',
 'select lists [array-2d]': 'raise builtins.TypeError: only integer scalar arrays can be converted to a '
                            'scalar index',
 'select lists [range(1,3)]': 'raise builtins.IndexError: list index out of range',
 'select lists [range(3,-1,-1)]': 'raise builtins.IndexError: list index out of range',
 'select lists [gen]': 'raise builtins.IndexError: list index out of range',
 'select lists [set]': 'list(tuple(int:1, list(int:5, int:8)))',
 'select lists [dict]': 'list(tuple(int:1, list(int:5, int:8)), tuple(int:0, list(int:0, int:3)))',
 "select lists ['12']": 'raise builtins.TypeError: list indices must be integers or slices, not str',
 "select lists ['']": 'list()',
 "select lists [b'\\x01']": 'list(tuple(int:1, list(int:5, int:8)))',
 'select array [0]': 'list(tuple(int:0, ndarray[<i8(2,)][0, 3]))',
 'select array [2]': 'list(tuple(int:2, ndarray[<i8(2,)][16, 19]))',
 'select array [-1]': 'list(tuple(int:2, ndarray[<i8(2,)][16, 19]))',
 'select array [-4]': 'raise builtins.IndexError: list index out of range',
 'select array [4]': 'raise builtins.IndexError: list index out of range',
 'select array [-5]': 'raise builtins.IndexError: list index out of range',
 'select array [True]': 'list(tuple(int:1, ndarray[<i8(2,)][5, 8]))',
 'select array [False]': 'list(tuple(int:0, ndarray[<i8(2,)][0, 3]))',
 'select array [MyInt(1)]': 'list(tuple(int:1, ndarray[<i8(2,)][5, 8]))',
 'select array [np.int64(1)]': "raise builtins.TypeError: 'numpy.int64' object is not iterable",
 'select array [np.uint8(3)]': "raise builtins.TypeError: 'numpy.uint8' object is not iterable",
 'select array [np.bool(True)]': "raise builtins.TypeError: 'numpy.bool' object is not iterable",
 'select array [Index(1)]': "raise builtins.TypeError: 'Index' object is not iterable",
 'select array [1.0]': "raise builtins.TypeError: 'float' object is not iterable",
 'select array [None]': "raise builtins.TypeError: 'NoneType' object is not iterable",
 'select array [Ellipsis]': "raise builtins.TypeError: 'ellipsis' object is not iterable",
 'select array [all]': 'list(tuple(int:0, ndarray[<i8(2,)][0, 3]), tuple(int:1, ndarray[<i8(2,)][5, 8]), '
                       'tuple(int:2, ndarray[<i8(2,)][16, 19]))',
 'select array [0:1]': 'list(tuple(int:0, ndarray[<i8(2,)][0, 3]))',
 'select array [2:]': 'list(tuple(int:2, ndarray[<i8(2,)][16, 19]))',
 'select array [:2]': 'list(tuple(int:0, ndarray[<i8(2,)][0, 3]), tuple(int:1, ndarray[<i8(2,)][5, 8]))',
 'select array [-2:]': 'list(tuple(int:1, ndarray[<i8(2,)][5, 8]), tuple(int:2, ndarray[<i8(2,)][16, 19]))',
 'select array [:-2]': 'list(tuple(int:0, ndarray[<i8(2,)][0, 3]))',
 'select array [::2]': 'list(tuple(int:0, ndarray[<i8(2,)][0, 3]), tuple(int:2, ndarray[<i8(2,)][16, 19]))',
 'select array [1::2]': 'list(tuple(int:1, ndarray[<i8(2,)][5, 8]))',
 'select array [::-1]': 'list(tuple(int:2, ndarray[<i8(2,)][16, 19]), tuple(int:1, ndarray[<i8(2,)][5, 8]), '
                        'tuple(int:0, ndarray[<i8(2,)][0, 3]))',
 'select array [-1::-2]': 'list(tuple(int:2, ndarray[<i8(2,)][16, 19]), tuple(int:0, ndarray[<i8(2,)][0, '
                          '3]))',
 'select array [3:0:-1]': 'list(tuple(int:2, ndarray[<i8(2,)][16, 19]), tuple(int:1, ndarray[<i8(2,)][5, '
                          '8]))',
 'select array [0:0]': 'list()',
 'select array [3:1]': 'list()',
 'select array [10:20]': 'list()',
 'select array [-10:10]': 'list(tuple(int:0, ndarray[<i8(2,)][0, 3]), tuple(int:1, ndarray[<i8(2,)][5, 8]), '
                          'tuple(int:2, ndarray[<i8(2,)][16, 19]))',
 'select array [::0]': 'raise builtins.ValueError: slice step cannot be zero',
 'select array [1.5:]': 'raise builtins.TypeError: slice indices must be integers or None or have an '
                        '__index__ method',
 "select array ['a':]": 'raise builtins.TypeError: slice indices must be integers or None or have an '
                        '__index__ method',
 'select array [Index(1):Index(3)]': 'list(tuple(int:1, ndarray[<i8(2,)][5, 8]), tuple(int:2, '
                                     'ndarray[<i8(2,)][16, 19]))',
 'select array [np:np]': 'list(tuple(int:1, ndarray[<i8(2,)][5, 8]), tuple(int:2, ndarray[<i8(2,)][16, 19]))',
 'select array [[]]': 'list()',
 'select array [[0]]': 'list(tuple(int:0, ndarray[<i8(2,)][0, 3]))',
 'select array [[3]]': 'raise builtins.IndexError: list index out of range',
 'select array [[4]]': 'raise builtins.IndexError: list index out of range',
 'select array [[0,2]]': 'list(tuple(int:0, ndarray[<i8(2,)][0, 3]), tuple(int:2, ndarray[<i8(2,)][16, 19]))',
 'select array [[0,-1]]': 'list(tuple(int:0, ndarray[<i8(2,)][0, 3]), tuple(int:2, ndarray[<i8(2,)][16, '
                          '19]))',
 'select array [[3,1,1,0]]': 'raise builtins.IndexError: list index out of range',
 'select array [[0,4]]': 'raise builtins.IndexError: list index out of range',
 "select array [[4,'a']]": 'raise builtins.IndexError: list index out of range',
 "select array [['a',4]]": 'raise builtins.TypeError: list indices must be integers or slices, not str',
 "select array [[0,'a']]": 'raise builtins.TypeError: list indices must be integers or slices, not str',
 'select array [[0,None]]': 'raise builtins.TypeError: list indices must be integers or slices, not NoneType',
 'select array [[1.0]]': 'raise builtins.TypeError: list indices must be integers or slices, not float',
 'select array [[0,1.0]]': 'raise builtins.TypeError: list indices must be integers or slices, not float',
 'select array [[True,False]]': 'list(tuple(int:1, ndarray[<i8(2,)][5, 8]), tuple(int:0, ndarray[<i8(2,)][0, '
                                '3]))',
 'select array [[Index(2)]]': 'list(tuple(int:2, ndarray[<i8(2,)][16, 19]))',
 'select array [[Index(2),0]]': 'list(tuple(int:2, ndarray[<i8(2,)][16, 19]), tuple(int:0, '
                                'ndarray[<i8(2,)][0, 3]))',
 'select array [[np.int64(2),np.int64(0)]]': 'list(tuple(int:2, ndarray[<i8(2,)][16, 19]), tuple(int:0, '
                                             'ndarray[<i8(2,)][0, 3]))',
 'select array [[slice]]': 'list(list(tuple(int:0, ndarray[<i8(2,)][0, 3]), tuple(int:1, ndarray[<i8(2,)][5, '
                           '8])))',
 'select array [[0,slice]]': 'list(tuple(int:0, ndarray[<i8(2,)][0, 3]), list(tuple(int:1, '
                             'ndarray[<i8(2,)][5, 8]), tuple(int:2, ndarray[<i8(2,)][16, 19])))',
 'select array [[[0,1]]]': 'raise builtins.TypeError: list indices must be integers or slices, not list',
 'select array [[[0],[1]]]': 'raise builtins.TypeError: list indices must be integers or slices, not list',
 'select array [[(0,)]]': 'raise builtins.TypeError: list indices must be integers or slices, not tuple',
 'select array [(0,2)]': 'list(tuple(int:0, ndarray[<i8(2,)][0, 3]), tuple(int:2, ndarray[<i8(2,)][16, 19]))',
 'select array [()]': 'list()',
 'select array [(1,)]': 'list(tuple(int:1, ndarray[<i8(2,)][5, 8]))',
 'select array [array[2,0]]': 'list(tuple(int:2, ndarray[<i8(2,)][16, 19]), tuple(int:0, ndarray[<i8(2,)][0, '
                              '3]))',
 'select array [array[]]': 'list()',
 'select array [array[1.0]]': 'raise builtins.TypeError: list indices must be integers or slices, not '
                              'numpy.float64',
 'select array [array-bool]': 'raise builtins.TypeError: list indices must be integers or slices, not '
                              'numpy.bool',
 'select array [array-0d]': 'raise builtins.TypeError: iteration over a 0-d array',
 'select array [array-2d]': 'raise builtins.TypeError: only integer scalar arrays can be converted to a '
                            'scalar index',
 'select array [range(1,3)]': 'list(tuple(int:1, ndarray[<i8(2,)][5, 8]), tuple(int:2, ndarray[<i8(2,)][16, '
                              '19]))',
 'select array [range(3,-1,-1)]': 'raise builtins.IndexError: list index out of range',
 'select array [gen]': 'list(tuple(int:2, ndarray[<i8(2,)][16, 19]), tuple(int:0, ndarray[<i8(2,)][0, 3]))',
 'select array [set]': 'list(tuple(int:1, ndarray[<i8(2,)][5, 8]))',
 'select array [dict]': 'list(tuple(int:1, ndarray[<i8(2,)][5, 8]), tuple(int:0, ndarray[<i8(2,)][0, 3]))',
 "select array ['12']": 'raise builtins.TypeError: list indices must be integers or slices, not str',
 "select array ['']": 'list()',
 "select array [b'\\x01']": 'list(tuple(int:1, ndarray[<i8(2,)][5, 8]))',
 'select rows [0]': 'list(tuple(int:0, tuple(int:0, int:3)))',
 'select rows [2]': 'list(tuple(int:2, tuple(int:16, int:19)))',
 'select rows [-1]': 'list(tuple(int:2, tuple(int:16, int:19)))',
 'select rows [-4]': 'raise builtins.IndexError: list index out of range',
 'select rows [4]': 'raise builtins.IndexError: list index out of range',
 'select rows [-5]': 'raise builtins.IndexError: list index out of range',
 'select rows [True]': 'list(tuple(int:1, tuple(int:5, int:8)))',
 'select rows [False]': 'list(tuple(int:0, tuple(int:0, int:3)))',
 'select rows [MyInt(1)]': 'list(tuple(int:1, tuple(int:5, int:8)))',
 'select rows [np.int64(1)]': "raise builtins.TypeError: 'numpy.int64' object is not iterable",
 'select rows [np.uint8(3)]': "raise builtins.TypeError: 'numpy.uint8' object is not iterable",
 'select rows [np.bool(True)]': "raise builtins.TypeError: 'numpy.bool' object is not iterable",
 'select rows [Index(1)]': "raise builtins.TypeError: 'Index' object is not iterable",
 'select rows [1.0]': "raise builtins.TypeError: 'float' object is not iterable",
 'select rows [None]': "raise builtins.TypeError: 'NoneType' object is not iterable",
 'select rows [Ellipsis]': "raise builtins.TypeError: 'ellipsis' object is not iterable",
 'select rows [all]': 'list(tuple(int:0, tuple(int:0, int:3)), tuple(int:1, tuple(int:5, int:8)), '
                      'tuple(int:2, tuple(int:16, int:19)))',
 'select rows [0:1]': 'list(tuple(int:0, tuple(int:0, int:3)))',
 'select rows [2:]': 'list(tuple(int:2, tuple(int:16, int:19)))',
 'select rows [:2]': 'list(tuple(int:0, tuple(int:0, int:3)), tuple(int:1, tuple(int:5, int:8)))',
 'select rows [-2:]': 'list(tuple(int:1, tuple(int:5, int:8)), tuple(int:2, tuple(int:16, int:19)))',
 'select rows [:-2]': 'list(tuple(int:0, tuple(int:0, int:3)))',
 'select rows [::2]': 'list(tuple(int:0, tuple(int:0, int:3)), tuple(int:2, tuple(int:16, int:19)))',
 'select rows [1::2]': 'list(tuple(int:1, tuple(int:5, int:8)))',
 'select rows [::-1]': 'list(tuple(int:2, tuple(int:16, int:19)), tuple(int:1, tuple(int:5, int:8)), '
                       'tuple(int:0, tuple(int:0, int:3)))',
 'select rows [-1::-2]': 'list(tuple(int:2, tuple(int:16, int:19)), tuple(int:0, tuple(int:0, int:3)))',
 'select rows [3:0:-1]': 'list(tuple(int:2, tuple(int:16, int:19)), tuple(int:1, tuple(int:5, int:8)))',
 'select rows [0:0]': 'list()',
 'select rows [3:1]': 'list()',
 'select rows [10:20]': 'list()',
 'select rows [-10:10]': 'list(tuple(int:0, tuple(int:0, int:3)), tuple(int:1, tuple(int:5, int:8)), '
                         'tuple(int:2, tuple(int:16, int:19)))',
 'select rows [::0]': 'raise builtins.ValueError: slice step cannot be zero',
 'select rows [1.5:]': 'raise builtins.TypeError: slice indices must be integers or None or have an '
                       '__index__ method',
 "select rows ['a':]": 'raise builtins.TypeError: slice indices must be integers or None or have an '
                       '__index__ method',
 'select rows [Index(1):Index(3)]': 'list(tuple(int:1, tuple(int:5, int:8)), tuple(int:2, tuple(int:16, '
                                    'int:19)))',
 'select rows [np:np]': 'list(tuple(int:1, tuple(int:5, int:8)), tuple(int:2, tuple(int:16, int:19)))',
 'select rows [[]]': 'list()',
 'select rows [[0]]': 'list(tuple(int:0, tuple(int:0, int:3)))',
 'select rows [[3]]': 'raise builtins.IndexError: list index out of range',
 'select rows [[4]]': 'raise builtins.IndexError: list index out of range',
 'select rows [[0,2]]': 'list(tuple(int:0, tuple(int:0, int:3)), tuple(int:2, tuple(int:16, int:19)))',
 'select rows [[0,-1]]': 'list(tuple(int:0, tuple(int:0, int:3)), tuple(int:2, tuple(int:16, int:19)))',
 'select rows [[3,1,1,0]]': 'raise builtins.IndexError: list index out of range',
 'select rows [[0,4]]': 'raise builtins.IndexError: list index out of range',
 "select rows [[4,'a']]": 'raise builtins.IndexError: list index out of range',
 "select rows [['a',4]]": 'raise builtins.TypeError: list indices must be integers or slices, not str',
 "select rows [[0,'a']]": 'raise builtins.TypeError: list indices must be integers or slices, not str',
 'select rows [[0,None]]': 'raise builtins.TypeError: list indices must be integers or slices, not NoneType',
 'select rows [[1.0]]': 'raise builtins.TypeError: list indices must be integers or slices, not float',
 'select rows [[0,1.0]]': 'raise builtins.TypeError: list indices must be integers or slices, not float',
 'select rows [[True,False]]': 'list(tuple(int:1, tuple(int:5, int:8)), tuple(int:0, tuple(int:0, int:3)))',
 'select rows [[Index(2)]]': 'list(tuple(int:2, tuple(int:16, int:19)))',
 'select rows [[Index(2),0]]': 'list(tuple(int:2, tuple(int:16, int:19)), tuple(int:0, tuple(int:0, int:3)))',
 'select rows [[np.int64(2),np.int64(0)]]': 'list(tuple(int:2, tuple(int:16, int:19)), tuple(int:0, '
                                            'tuple(int:0, int:3)))',
 'select rows [[slice]]': 'list(list(tuple(int:0, tuple(int:0, int:3)), tuple(int:1, tuple(int:5, int:8))))',
 'select rows [[0,slice]]': 'list(tuple(int:0, tuple(int:0, int:3)), list(tuple(int:1, tuple(int:5, int:8)), '
                            'tuple(int:2, tuple(int:16, int:19))))',
 'select rows [[[0,1]]]': 'raise builtins.TypeError: list indices must be integers or slices, not list',
 'select rows [[[0],[1]]]': 'raise builtins.TypeError: list indices must be integers or slices, not list',
 'select rows [[(0,)]]': 'raise builtins.TypeError: list indices must be integers or slices, not tuple',
 'select rows [(0,2)]': 'list(tuple(int:0, tuple(int:0, int:3)), tuple(int:2, tuple(int:16, int:19)))',
 'select rows [()]': 'list()',
 'select rows [(1,)]': 'list(tuple(int:1, tuple(int:5, int:8)))',
 'select rows [array[2,0]]': 'list(tuple(int:2, tuple(int:16, int:19)), tuple(int:0, tuple(int:0, int:3)))',
 'select rows [array[]]': 'list()',
 'select rows [array[1.0]]': 'raise builtins.TypeError: list indices must be integers or slices, not '
                             'numpy.float64',
 'select rows [array-bool]': 'raise builtins.TypeError: list indices must be integers or slices, not '
                             'numpy.bool',
 'select rows [array-0d]': 'raise builtins.TypeError: iteration over a 0-d array',
 'select rows [array-2d]': 'raise builtins.TypeError: only integer scalar arrays can be converted to a '
                           'scalar index',
 'select rows [range(1,3)]': 'list(tuple(int:1, tuple(int:5, int:8)), tuple(int:2, tuple(int:16, int:19)))',
 'select rows [range(3,-1,-1)]': 'raise builtins.IndexError: list index out of range',
 'select rows [gen]': 'list(tuple(int:2, tuple(int:16, int:19)), tuple(int:0, tuple(int:0, int:3)))',
 'select rows [set]': 'list(tuple(int:1, tuple(int:5, int:8)))',
 'select rows [dict]': 'list(tuple(int:1, tuple(int:5, int:8)), tuple(int:0, tuple(int:0, int:3)))',
 "select rows ['12']": 'raise builtins.TypeError: list indices must be integers or slices, not str',
 "select rows ['']": 'list()',
 "select rows [b'\\x01']": 'list(tuple(int:1, tuple(int:5, int:8)))',
 'select dict [0]': 'list(tuple(int:0, tuple(int:0, int:3)))',
 'select dict [2]': 'raise builtins.IndexError: list index out of range',
 'select dict [-1]': 'list(tuple(int:1, tuple(int:5, int:8)))',
 'select dict [-4]': 'raise builtins.IndexError: list index out of range',
 'select dict [4]': 'raise builtins.IndexError: list index out of range',
 'select dict [-5]': 'raise builtins.IndexError: list index out of range',
 'select dict [True]': 'list(tuple(int:1, tuple(int:5, int:8)))',
 'select dict [False]': 'list(tuple(int:0, tuple(int:0, int:3)))',
 'select dict [MyInt(1)]': 'list(tuple(int:1, tuple(int:5, int:8)))',
 'select dict [np.int64(1)]': "raise builtins.TypeError: 'numpy.int64' object is not iterable",
 'select dict [np.uint8(3)]': "raise builtins.TypeError: 'numpy.uint8' object is not iterable",
 'select dict [np.bool(True)]': "raise builtins.TypeError: 'numpy.bool' object is not iterable",
 'select dict [Index(1)]': "raise builtins.TypeError: 'Index' object is not iterable",
 'select dict [1.0]': "raise builtins.TypeError: 'float' object is not iterable",
 'select dict [None]': "raise builtins.TypeError: 'NoneType' object is not iterable",
 'select dict [Ellipsis]': "raise builtins.TypeError: 'ellipsis' object is not iterable",
 'select dict [all]': 'list(tuple(int:0, tuple(int:0, int:3)), tuple(int:1, tuple(int:5, int:8)))',
 'select dict [0:1]': 'list(tuple(int:0, tuple(int:0, int:3)))',
 'select dict [2:]': 'list()',
 'select dict [:2]': 'list(tuple(int:0, tuple(int:0, int:3)), tuple(int:1, tuple(int:5, int:8)))',
 'select dict [-2:]': 'list(tuple(int:0, tuple(int:0, int:3)), tuple(int:1, tuple(int:5, int:8)))',
 'select dict [:-2]': 'list()',
 'select dict [::2]': 'list(tuple(int:0, tuple(int:0, int:3)))',
 'select dict [1::2]': 'list(tuple(int:1, tuple(int:5, int:8)))',
 'select dict [::-1]': 'list(tuple(int:1, tuple(int:5, int:8)), tuple(int:0, tuple(int:0, int:3)))',
 'select dict [-1::-2]': 'list(tuple(int:1, tuple(int:5, int:8)))',
 'select dict [3:0:-1]': 'list(tuple(int:1, tuple(int:5, int:8)))',
 'select dict [0:0]': 'list()',
 'select dict [3:1]': 'list()',
 'select dict [10:20]': 'list()',
 'select dict [-10:10]': 'list(tuple(int:0, tuple(int:0, int:3)), tuple(int:1, tuple(int:5, int:8)))',
 'select dict [::0]': 'raise builtins.ValueError: slice step cannot be zero',
 'select dict [1.5:]': 'raise builtins.TypeError: slice indices must be integers or None or have an '
                       '__index__ method',
 "select dict ['a':]": 'raise builtins.TypeError: slice indices must be integers or None or have an '
                       '__index__ method',
 'select dict [Index(1):Index(3)]': 'list(tuple(int:1, tuple(int:5, int:8)))',
 'select dict [np:np]': 'list(tuple(int:1, tuple(int:5, int:8)))',
 'select dict [[]]': 'list()',
 'select dict [[0]]': 'list(tuple(int:0, tuple(int:0, int:3)))',
 'select dict [[3]]': 'raise builtins.IndexError: list index out of range',
 'select dict [[4]]': 'raise builtins.IndexError: list index out of range',
 'select dict [[0,2]]': 'raise builtins.IndexError: list index out of range',
 'select dict [[0,-1]]': 'list(tuple(int:0, tuple(int:0, int:3)), tuple(int:1, tuple(int:5, int:8)))',
 'select dict [[3,1,1,0]]': 'raise builtins.IndexError: list index out of range',
 'select dict [[0,4]]': 'raise builtins.IndexError: list index out of range',
 "select dict [[4,'a']]": 'raise builtins.IndexError: list index out of range',
 "select dict [['a',4]]": 'raise builtins.TypeError: list indices must be integers or slices, not str',
 "select dict [[0,'a']]": 'raise builtins.TypeError: list indices must be integers or slices, not str',
 'select dict [[0,None]]': 'raise builtins.TypeError: list indices must be integers or slices, not NoneType',
 'select dict [[1.0]]': 'raise builtins.TypeError: list indices must be integers or slices, not float',
 'select dict [[0,1.0]]': 'raise builtins.TypeError: list indices must be integers or slices, not float',
 'select dict [[True,False]]': 'list(tuple(int:1, tuple(int:5, int:8)), tuple(int:0, tuple(int:0, int:3)))',
 'select dict [[Index(2)]]': 'raise builtins.IndexError: list index out of range',
 'select dict [[Index(2),0]]': 'raise builtins.IndexError: list index out of range',
 'select dict [[np.int64(2),np.int64(0)]]': 'raise builtins.IndexError: list index out of range',
 'select dict [[slice]]': 'list(list(tuple(int:0, tuple(int:0, int:3)), tuple(int:1, tuple(int:5, int:8))))',
 'select dict [[0,slice]]': 'list(tuple(int:0, tuple(int:0, int:3)), list(tuple(int:1, tuple(int:5, '
                            'int:8))))',
 'select dict [[[0,1]]]': 'raise builtins.TypeError: list indices must be integers or slices, not list',
 'select dict [[[0],[1]]]': 'raise builtins.TypeError: list indices must be integers or slices, not list',
 'select dict [[(0,)]]': 'raise builtins.TypeError: list indices must be integers or slices, not tuple',
 'select dict [(0,2)]': 'raise builtins.IndexError: list index out of range',
 'select dict [()]': 'list()',
 'select dict [(1,)]': 'list(tuple(int:1, tuple(int:5, int:8)))',
 'select dict [array[2,0]]': 'raise builtins.IndexError: list index out of range',
 'select dict [array[]]': 'list()',
 'select dict [array[1.0]]': 'raise builtins.TypeError: list indices must be integers or slices, not '
                             'numpy.float64',
 'select dict [array-bool]': 'raise builtins.TypeError: list indices must be integers or slices, not '
                             'numpy.bool',
 'select dict [array-0d]': 'raise builtins.TypeError: iteration over a 0-d array',
 'select dict [array-2d]': 'raise builtins.TypeError: only integer scalar arrays can be converted to a '
                           'scalar index',
 'select dict [range(1,3)]': 'raise builtins.IndexError: list index out of range',
 'select dict [range(3,-1,-1)]': 'raise builtins.IndexError: list index out of range',
 'select dict [gen]': 'raise builtins.IndexError: list index out of range',
 'select dict [set]': 'list(tuple(int:1, tuple(int:5, int:8)))',
 'select dict [dict]': 'list(tuple(int:1, tuple(int:5, int:8)), tuple(int:0, tuple(int:0, int:3)))',
 "select dict ['12']": 'raise builtins.TypeError: list indices must be integers or slices, not str',
 "select dict ['']": 'list()',
 "select dict [b'\\x01']": 'list(tuple(int:1, tuple(int:5, int:8)))',
 'select str [0]': "list(tuple(int:0, str:'a'))",
 'select str [2]': "list(tuple(int:2, str:'c'))",
 'select str [-1]': "list(tuple(int:3, str:'d'))",
 'select str [-4]': "list(tuple(int:0, str:'a'))",
 'select str [4]': 'raise builtins.IndexError: list index out of range',
 'select str [-5]': 'raise builtins.IndexError: list index out of range',
 'select str [True]': "list(tuple(int:1, str:'b'))",
 'select str [False]': "list(tuple(int:0, str:'a'))",
 'select str [MyInt(1)]': "list(tuple(int:1, str:'b'))",
 'select str [np.int64(1)]': "raise builtins.TypeError: 'numpy.int64' object is not iterable",
 'select str [np.uint8(3)]': "raise builtins.TypeError: 'numpy.uint8' object is not iterable",
 'select str [np.bool(True)]': "raise builtins.TypeError: 'numpy.bool' object is not iterable",
 'select str [Index(1)]': "raise builtins.TypeError: 'Index' object is not iterable",
 'select str [1.0]': "raise builtins.TypeError: 'float' object is not iterable",
 'select str [None]': "raise builtins.TypeError: 'NoneType' object is not iterable",
 'select str [Ellipsis]': "raise builtins.TypeError: 'ellipsis' object is not iterable",
 'select str [all]': "list(tuple(int:0, str:'a'), tuple(int:1, str:'b'), tuple(int:2, str:'c'), tuple(int:3, "
                     "str:'d'))",
 'select str [0:1]': "list(tuple(int:0, str:'a'))",
 'select str [2:]': "list(tuple(int:2, str:'c'), tuple(int:3, str:'d'))",
 'select str [:2]': "list(tuple(int:0, str:'a'), tuple(int:1, str:'b'))",
 'select str [-2:]': "list(tuple(int:2, str:'c'), tuple(int:3, str:'d'))",
 'select str [:-2]': "list(tuple(int:0, str:'a'), tuple(int:1, str:'b'))",
 'select str [::2]': "list(tuple(int:0, str:'a'), tuple(int:2, str:'c'))",
 'select str [1::2]': "list(tuple(int:1, str:'b'), tuple(int:3, str:'d'))",
 'select str [::-1]': "list(tuple(int:3, str:'d'), tuple(int:2, str:'c'), tuple(int:1, str:'b'), "
                      "tuple(int:0, str:'a'))",
 'select str [-1::-2]': "list(tuple(int:3, str:'d'), tuple(int:1, str:'b'))",
 'select str [3:0:-1]': "list(tuple(int:3, str:'d'), tuple(int:2, str:'c'), tuple(int:1, str:'b'))",
 'select str [0:0]': 'list()',
 'select str [3:1]': 'list()',
 'select str [10:20]': 'list()',
 'select str [-10:10]': "list(tuple(int:0, str:'a'), tuple(int:1, str:'b'), tuple(int:2, str:'c'), "
                        "tuple(int:3, str:'d'))",
 'select str [::0]': 'raise builtins.ValueError: slice step cannot be zero',
 'select str [1.5:]': 'raise builtins.TypeError: slice indices must be integers or None or have an __index__ '
                      'method',
 "select str ['a':]": 'raise builtins.TypeError: slice indices must be integers or None or have an __index__ '
                      'method',
 'select str [Index(1):Index(3)]': "list(tuple(int:1, str:'b'), tuple(int:2, str:'c'))",
 'select str [np:np]': "list(tuple(int:1, str:'b'), tuple(int:2, str:'c'))",
 'select str [[]]': 'list()',
 'select str [[0]]': "list(tuple(int:0, str:'a'))",
 'select str [[3]]': "list(tuple(int:3, str:'d'))",
 'select str [[4]]': 'raise builtins.IndexError: list index out of range',
 'select str [[0,2]]': "list(tuple(int:0, str:'a'), tuple(int:2, str:'c'))",
 'select str [[0,-1]]': "list(tuple(int:0, str:'a'), tuple(int:3, str:'d'))",
 'select str [[3,1,1,0]]': "list(tuple(int:3, str:'d'), tuple(int:1, str:'b'), tuple(int:1, str:'b'), "
                           "tuple(int:0, str:'a'))",
 'select str [[0,4]]': 'raise builtins.IndexError: list index out of range',
 "select str [[4,'a']]": 'raise builtins.IndexError: list index out of range',
 "select str [['a',4]]": 'raise builtins.TypeError: list indices must be integers or slices, not str',
 "select str [[0,'a']]": 'raise builtins.TypeError: list indices must be integers or slices, not str',
 'select str [[0,None]]': 'raise builtins.TypeError: list indices must be integers or slices, not NoneType',
 'select str [[1.0]]': 'raise builtins.TypeError: list indices must be integers or slices, not float',
 'select str [[0,1.0]]': 'raise builtins.TypeError: list indices must be integers or slices, not float',
 'select str [[True,False]]': "list(tuple(int:1, str:'b'), tuple(int:0, str:'a'))",
 'select str [[Index(2)]]': "list(tuple(int:2, str:'c'))",
 'select str [[Index(2),0]]': "list(tuple(int:2, str:'c'), tuple(int:0, str:'a'))",
 'select str [[np.int64(2),np.int64(0)]]': "list(tuple(int:2, str:'c'), tuple(int:0, str:'a'))",
 'select str [[slice]]': "list(list(tuple(int:0, str:'a'), tuple(int:1, str:'b')))",
 'select str [[0,slice]]': "list(tuple(int:0, str:'a'), list(tuple(int:1, str:'b'), tuple(int:2, str:'c'), "
                           "tuple(int:3, str:'d')))",
 'select str [[[0,1]]]': 'raise builtins.TypeError: list indices must be integers or slices, not list',
 'select str [[[0],[1]]]': 'raise builtins.TypeError: list indices must be integers or slices, not list',
 'select str [[(0,)]]': 'raise builtins.TypeError: list indices must be integers or slices, not tuple',
 'select str [(0,2)]': "list(tuple(int:0, str:'a'), tuple(int:2, str:'c'))",
 'select str [()]': 'list()',
 'select str [(1,)]': "list(tuple(int:1, str:'b'))",
 'select str [array[2,0]]': "list(tuple(int:2, str:'c'), tuple(int:0, str:'a'))",
 'select str [array[]]': 'list()',
 'select str [array[1.0]]': 'raise builtins.TypeError: list indices must be integers or slices, not '
                            'numpy.float64',
 'select str [array-bool]': 'raise builtins.TypeError: list indices must be integers or slices, not '
                            'numpy.bool',
 'select str [array-0d]': 'raise builtins.TypeError: iteration over a 0-d array',
 'select str [array-2d]': 'raise builtins.TypeError: only integer scalar arrays can be converted to a scalar '
                          'index',
 'select str [range(1,3)]': "list(tuple(int:1, str:'b'), tuple(int:2, str:'c'))",
 'select str [range(3,-1,-1)]': "list(tuple(int:3, str:'d'), tuple(int:2, str:'c'), tuple(int:1, str:'b'), "
                                "tuple(int:0, str:'a'))",
 'select str [gen]': "list(tuple(int:2, str:'c'), tuple(int:0, str:'a'))",
 'select str [set]': "list(tuple(int:1, str:'b'))",
 'select str [dict]': "list(tuple(int:1, str:'b'), tuple(int:0, str:'a'))",
 "select str ['12']": 'raise builtins.TypeError: list indices must be integers or slices, not str',
 "select str ['']": 'list()',
 "select str [b'\\x01']": "list(tuple(int:1, str:'b'))",
 'select range [0]': 'list(tuple(int:0, int:10))',
 'select range [2]': 'list(tuple(int:2, int:12))',
 'select range [-1]': 'list(tuple(int:4, int:14))',
 'select range [-4]': 'list(tuple(int:1, int:11))',
 'select range [4]': 'list(tuple(int:4, int:14))',
 'select range [-5]': 'list(tuple(int:0, int:10))',
 'select range [True]': 'list(tuple(int:1, int:11))',
 'select range [False]': 'list(tuple(int:0, int:10))',
 'select range [MyInt(1)]': 'list(tuple(int:1, int:11))',
 'select range [np.int64(1)]': "raise builtins.TypeError: 'numpy.int64' object is not iterable",
 'select range [np.uint8(3)]': "raise builtins.TypeError: 'numpy.uint8' object is not iterable",
 'select range [np.bool(True)]': "raise builtins.TypeError: 'numpy.bool' object is not iterable",
 'select range [Index(1)]': "raise builtins.TypeError: 'Index' object is not iterable",
 'select range [1.0]': "raise builtins.TypeError: 'float' object is not iterable",
 'select range [None]': "raise builtins.TypeError: 'NoneType' object is not iterable",
 'select range [Ellipsis]': "raise builtins.TypeError: 'ellipsis' object is not iterable",
 'select range [all]': 'list(tuple(int:0, int:10), tuple(int:1, int:11), tuple(int:2, int:12), tuple(int:3, '
                       'int:13), tuple(int:4, int:14))',
 'select range [0:1]': 'list(tuple(int:0, int:10))',
 'select range [2:]': 'list(tuple(int:2, int:12), tuple(int:3, int:13), tuple(int:4, int:14))',
 'select range [:2]': 'list(tuple(int:0, int:10), tuple(int:1, int:11))',
 'select range [-2:]': 'list(tuple(int:3, int:13), tuple(int:4, int:14))',
 'select range [:-2]': 'list(tuple(int:0, int:10), tuple(int:1, int:11), tuple(int:2, int:12))',
 'select range [::2]': 'list(tuple(int:0, int:10), tuple(int:2, int:12), tuple(int:4, int:14))',
 'select range [1::2]': 'list(tuple(int:1, int:11), tuple(int:3, int:13))',
 'select range [::-1]': 'list(tuple(int:4, int:14), tuple(int:3, int:13), tuple(int:2, int:12), tuple(int:1, '
                        'int:11), tuple(int:0, int:10))',
 'select range [-1::-2]': 'list(tuple(int:4, int:14), tuple(int:2, int:12), tuple(int:0, int:10))',
 'select range [3:0:-1]': 'list(tuple(int:3, int:13), tuple(int:2, int:12), tuple(int:1, int:11))',
 'select range [0:0]': 'list()',
 'select range [3:1]': 'list()',
 'select range [10:20]': 'list()',
 'select range [-10:10]': 'list(tuple(int:0, int:10), tuple(int:1, int:11), tuple(int:2, int:12), '
                          'tuple(int:3, int:13), tuple(int:4, int:14))',
 'select range [::0]': 'raise builtins.ValueError: slice step cannot be zero',
 'select range [1.5:]': 'raise builtins.TypeError: slice indices must be integers or None or have an '
                        '__index__ method',
 "select range ['a':]": 'raise builtins.TypeError: slice indices must be integers or None or have an '
                        '__index__ method',
 'select range [Index(1):Index(3)]': 'list(tuple(int:1, int:11), tuple(int:2, int:12))',
 'select range [np:np]': 'list(tuple(int:1, int:11), tuple(int:2, int:12))',
 'select range [[]]': 'list()',
 'select range [[0]]': 'list(tuple(int:0, int:10))',
 'select range [[3]]': 'list(tuple(int:3, int:13))',
 'select range [[4]]': 'list(tuple(int:4, int:14))',
 'select range [[0,2]]': 'list(tuple(int:0, int:10), tuple(int:2, int:12))',
 'select range [[0,-1]]': 'list(tuple(int:0, int:10), tuple(int:4, int:14))',
 'select range [[3,1,1,0]]': 'list(tuple(int:3, int:13), tuple(int:1, int:11), tuple(int:1, int:11), '
                             'tuple(int:0, int:10))',
 'select range [[0,4]]': 'list(tuple(int:0, int:10), tuple(int:4, int:14))',
 "select range [[4,'a']]": 'raise builtins.TypeError: list indices must be integers or slices, not str',
 "select range [['a',4]]": 'raise builtins.TypeError: list indices must be integers or slices, not str',
 "select range [[0,'a']]": 'raise builtins.TypeError: list indices must be integers or slices, not str',
 'select range [[0,None]]': 'raise builtins.TypeError: list indices must be integers or slices, not NoneType',
 'select range [[1.0]]': 'raise builtins.TypeError: list indices must be integers or slices, not float',
 'select range [[0,1.0]]': 'raise builtins.TypeError: list indices must be integers or slices, not float',
 'select range [[True,False]]': 'list(tuple(int:1, int:11), tuple(int:0, int:10))',
 'select range [[Index(2)]]': 'list(tuple(int:2, int:12))',
 'select range [[Index(2),0]]': 'list(tuple(int:2, int:12), tuple(int:0, int:10))',
 'select range [[np.int64(2),np.int64(0)]]': 'list(tuple(int:2, int:12), tuple(int:0, int:10))',
 'select range [[slice]]': 'list(list(tuple(int:0, int:10), tuple(int:1, int:11)))',
 'select range [[0,slice]]': 'list(tuple(int:0, int:10), list(tuple(int:1, int:11), tuple(int:2, int:12), '
                             'tuple(int:3, int:13), tuple(int:4, int:14)))',
 'select range [[[0,1]]]': 'raise builtins.TypeError: list indices must be integers or slices, not list',
 'select range [[[0],[1]]]': 'raise builtins.TypeError: list indices must be integers or slices, not list',
 'select range [[(0,)]]': 'raise builtins.TypeError: list indices must be integers or slices, not tuple',
 'select range [(0,2)]': 'list(tuple(int:0, int:10), tuple(int:2, int:12))',
 'select range [()]': 'list()',
 'select range [(1,)]': 'list(tuple(int:1, int:11))',
 'select range [array[2,0]]': 'list(tuple(int:2, int:12), tuple(int:0, int:10))',
 'select range [array[]]': 'list()',
 'select range [array[1.0]]': 'raise builtins.TypeError: list indices must be integers or slices, not '
                              'numpy.float64',
 'select range [array-bool]': 'raise builtins.TypeError: list indices must be integers or slices, not '
                              'numpy.bool',
 'select range [array-0d]': 'raise builtins.TypeError: iteration over a 0-d array',
 'select range [array-2d]': 'raise builtins.TypeError: only integer scalar arrays can be converted to a '
                            'scalar index',
 'select range [range(1,3)]': 'list(tuple(int:1, int:11), tuple(int:2, int:12))',
 'select range [range(3,-1,-1)]': 'list(tuple(int:3, int:13), tuple(int:2, int:12), tuple(int:1, int:11), '
                                  'tuple(int:0, int:10))',
 'select range [gen]': 'list(tuple(int:2, int:12), tuple(int:0, int:10))',
 'select range [set]': 'list(tuple(int:1, int:11))',
 'select range [dict]': 'list(tuple(int:1, int:11), tuple(int:0, int:10))',
 "select range ['12']": 'raise builtins.TypeError: list indices must be integers or slices, not str',
 "select range ['']": 'list()',
 "select range [b'\\x01']": 'list(tuple(int:1, int:11))',
 'select mixed [0]': 'list(tuple(int:0, tuple(int:0, int:3)))',
 'select mixed [2]': "list(tuple(int:2, str:'xy'))",
 'select mixed [-1]': 'list(tuple(int:3, float:4.5))',
 'select mixed [-4]': 'list(tuple(int:0, tuple(int:0, int:3)))',
 'select mixed [4]': 'raise builtins.IndexError: list index out of range',
 'select mixed [-5]': 'raise builtins.IndexError: list index out of range',
 'select mixed [True]': 'list(tuple(int:1, NoneType:None))',
 'select mixed [False]': 'list(tuple(int:0, tuple(int:0, int:3)))',
 'select mixed [MyInt(1)]': 'list(tuple(int:1, NoneType:None))',
 'select mixed [np.int64(1)]': "raise builtins.TypeError: 'numpy.int64' object is not iterable",
 'select mixed [np.uint8(3)]': "raise builtins.TypeError: 'numpy.uint8' object is not iterable",
 'select mixed [np.bool(True)]': "raise builtins.TypeError: 'numpy.bool' object is not iterable",
 'select mixed [Index(1)]': "raise builtins.TypeError: 'Index' object is not iterable",
 'select mixed [1.0]': "raise builtins.TypeError: 'float' object is not iterable",
 'select mixed [None]': "raise builtins.TypeError: 'NoneType' object is not iterable",
 'select mixed [Ellipsis]': "raise builtins.TypeError: 'ellipsis' object is not iterable",
 'select mixed [all]': 'list(tuple(int:0, tuple(int:0, int:3)), tuple(int:1, NoneType:None), tuple(int:2, '
                       "str:'xy'), tuple(int:3, float:4.5))",
 'select mixed [0:1]': 'list(tuple(int:0, tuple(int:0, int:3)))',
 'select mixed [2:]': "list(tuple(int:2, str:'xy'), tuple(int:3, float:4.5))",
 'select mixed [:2]': 'list(tuple(int:0, tuple(int:0, int:3)), tuple(int:1, NoneType:None))',
 'select mixed [-2:]': "list(tuple(int:2, str:'xy'), tuple(int:3, float:4.5))",
 'select mixed [:-2]': 'list(tuple(int:0, tuple(int:0, int:3)), tuple(int:1, NoneType:None))',
 'select mixed [::2]': "list(tuple(int:0, tuple(int:0, int:3)), tuple(int:2, str:'xy'))",
 'select mixed [1::2]': 'list(tuple(int:1, NoneType:None), tuple(int:3, float:4.5))',
 'select mixed [::-1]': "list(tuple(int:3, float:4.5), tuple(int:2, str:'xy'), tuple(int:1, NoneType:None), "
                        'tuple(int:0, tuple(int:0, int:3)))',
 'select mixed [-1::-2]': 'list(tuple(int:3, float:4.5), tuple(int:1, NoneType:None))',
 'select mixed [3:0:-1]': "list(tuple(int:3, float:4.5), tuple(int:2, str:'xy'), tuple(int:1, "
                          'NoneType:None))',
 'select mixed [0:0]': 'list()',
 'select mixed [3:1]': 'list()',
 'select mixed [10:20]': 'list()',
 'select mixed [-10:10]': 'list(tuple(int:0, tuple(int:0, int:3)), tuple(int:1, NoneType:None), tuple(int:2, '
                          "str:'xy'), tuple(int:3, float:4.5))",
 'select mixed [::0]': 'raise builtins.ValueError: slice step cannot be zero',
 'select mixed [1.5:]': 'raise builtins.TypeError: slice indices must be integers or None or have an '
                        '__index__ method',
 "select mixed ['a':]": 'raise builtins.TypeError: slice indices must be integers or None or have an '
                        '__index__ method',
 'select mixed [Index(1):Index(3)]': "list(tuple(int:1, NoneType:None), tuple(int:2, str:'xy'))",
 'select mixed [np:np]': "list(tuple(int:1, NoneType:None), tuple(int:2, str:'xy'))",
 'select mixed [[]]': 'list()',
 'select mixed [[0]]': 'list(tuple(int:0, tuple(int:0, int:3)))',
 'select mixed [[3]]': 'list(tuple(int:3, float:4.5))',
 'select mixed [[4]]': 'raise builtins.IndexError: list index out of range',
 'select mixed [[0,2]]': "list(tuple(int:0, tuple(int:0, int:3)), tuple(int:2, str:'xy'))",
 'select mixed [[0,-1]]': 'list(tuple(int:0, tuple(int:0, int:3)), tuple(int:3, float:4.5))',
 'select mixed [[3,1,1,0]]': 'list(tuple(int:3, float:4.5), tuple(int:1, NoneType:None), tuple(int:1, '
                             'NoneType:None), tuple(int:0, tuple(int:0, int:3)))',
 'select mixed [[0,4]]': 'raise builtins.IndexError: list index out of range',
 "select mixed [[4,'a']]": 'raise builtins.IndexError: list index out of range',
 "select mixed [['a',4]]": 'raise builtins.TypeError: list indices must be integers or slices, not str',
 "select mixed [[0,'a']]": 'raise builtins.TypeError: list indices must be integers or slices, not str',
 'select mixed [[0,None]]': 'raise builtins.TypeError: list indices must be integers or slices, not NoneType',
 'select mixed [[1.0]]': 'raise builtins.TypeError: list indices must be integers or slices, not float',
 'select mixed [[0,1.0]]': 'raise builtins.TypeError: list indices must be integers or slices, not float',
 'select mixed [[True,False]]': 'list(tuple(int:1, NoneType:None), tuple(int:0, tuple(int:0, int:3)))',
 'select mixed [[Index(2)]]': "list(tuple(int:2, str:'xy'))",
 'select mixed [[Index(2),0]]': "list(tuple(int:2, str:'xy'), tuple(int:0, tuple(int:0, int:3)))",
 'select mixed [[np.int64(2),np.int64(0)]]': "list(tuple(int:2, str:'xy'), tuple(int:0, tuple(int:0, "
                                             'int:3)))',
 'select mixed [[slice]]': 'list(list(tuple(int:0, tuple(int:0, int:3)), tuple(int:1, NoneType:None)))',
 'select mixed [[0,slice]]': 'list(tuple(int:0, tuple(int:0, int:3)), list(tuple(int:1, NoneType:None), '
                             "tuple(int:2, str:'xy'), tuple(int:3, float:4.5)))",
 'select mixed [[[0,1]]]': 'raise builtins.TypeError: list indices must be integers or slices, not list',
 'select mixed [[[0],[1]]]': 'raise builtins.TypeError: list indices must be integers or slices, not list',
 'select mixed [[(0,)]]': 'raise builtins.TypeError: list indices must be integers or slices, not tuple',
 'select mixed [(0,2)]': "list(tuple(int:0, tuple(int:0, int:3)), tuple(int:2, str:'xy'))",
 'select mixed [()]': 'list()',
 'select mixed [(1,)]': 'list(tuple(int:1, NoneType:None))',
 'select mixed [array[2,0]]': "list(tuple(int:2, str:'xy'), tuple(int:0, tuple(int:0, int:3)))",
 'select mixed [array[]]': 'list()',
 'select mixed [array[1.0]]': 'raise builtins.TypeError: list indices must be integers or slices, not '
                              'numpy.float64',
 'select mixed [array-bool]': 'raise builtins.TypeError: list indices must be integers or slices, not '
                              'numpy.bool',
 'select mixed [array-0d]': 'raise builtins.TypeError: iteration over a 0-d array',
 'select mixed [array-2d]': 'raise builtins.TypeError: only integer scalar arrays can be converted to a '
                            'scalar index',
 'select mixed [range(1,3)]': "list(tuple(int:1, NoneType:None), tuple(int:2, str:'xy'))",
 'select mixed [range(3,-1,-1)]': "list(tuple(int:3, float:4.5), tuple(int:2, str:'xy'), tuple(int:1, "
                                  'NoneType:None), tuple(int:0, tuple(int:0, int:3)))',
 'select mixed [gen]': "list(tuple(int:2, str:'xy'), tuple(int:0, tuple(int:0, int:3)))",
 'select mixed [set]': 'list(tuple(int:1, NoneType:None))',
 'select mixed [dict]': 'list(tuple(int:1, NoneType:None), tuple(int:0, tuple(int:0, int:3)))',
 "select mixed ['12']": 'raise builtins.TypeError: list indices must be integers or slices, not str',
 "select mixed ['']": 'list()',
 "select mixed [b'\\x01']": 'list(tuple(int:1, NoneType:None))',
 'select generator [0]': "raise builtins.TypeError: object of type 'generator' has no len()",
 'select generator [2]': "raise builtins.TypeError: object of type 'generator' has no len()",
 'select generator [-1]': "raise builtins.TypeError: object of type 'generator' has no len()",
 'select generator [-4]': "raise builtins.TypeError: object of type 'generator' has no len()",
 'select generator [4]': "raise builtins.TypeError: object of type 'generator' has no len()",
 'select generator [-5]': "raise builtins.TypeError: object of type 'generator' has no len()",
 'select generator [True]': "raise builtins.TypeError: object of type 'generator' has no len()",
 'select generator [False]': "raise builtins.TypeError: object of type 'generator' has no len()",
 'select generator [MyInt(1)]': "raise builtins.TypeError: object of type 'generator' has no len()",
 'select generator [np.int64(1)]': "raise builtins.TypeError: object of type 'generator' has no len()",
 'select generator [np.uint8(3)]': "raise builtins.TypeError: object of type 'generator' has no len()",
 'select generator [np.bool(True)]': "raise builtins.TypeError: object of type 'generator' has no len()",
 'select generator [Index(1)]': "raise builtins.TypeError: object of type 'generator' has no len()",
 'select generator [1.0]': "raise builtins.TypeError: object of type 'generator' has no len()",
 'select generator [None]': "raise builtins.TypeError: object of type 'generator' has no len()",
 'select generator [Ellipsis]': "raise builtins.TypeError: object of type 'generator' has no len()",
 'select generator [all]': "raise builtins.TypeError: object of type 'generator' has no len()",
 'select generator [0:1]': "raise builtins.TypeError: object of type 'generator' has no len()",
 'select generator [2:]': "raise builtins.TypeError: object of type 'generator' has no len()",
 'select generator [:2]': "raise builtins.TypeError: object of type 'generator' has no len()",
 'select generator [-2:]': "raise builtins.TypeError: object of type 'generator' has no len()",
 'select generator [:-2]': "raise builtins.TypeError: object of type 'generator' has no len()",
 'select generator [::2]': "raise builtins.TypeError: object of type 'generator' has no len()",
 'select generator [1::2]': "raise builtins.TypeError: object of type 'generator' has no len()",
 'select generator [::-1]': "raise builtins.TypeError: object of type 'generator' has no len()",
 'select generator [-1::-2]': "raise builtins.TypeError: object of type 'generator' has no len()",
 'select generator [3:0:-1]': "raise builtins.TypeError: object of type 'generator' has no len()",
 'select generator [0:0]': "raise builtins.TypeError: object of type 'generator' has no len()",
 'select generator [3:1]': "raise builtins.TypeError: object of type 'generator' has no len()",
 'select generator [10:20]': "raise builtins.TypeError: object of type 'generator' has no len()",
 'select generator [-10:10]': "raise builtins.TypeError: object of type 'generator' has no len()",
 'select generator [::0]': "raise builtins.TypeError: object of type 'generator' has no len()",
 'select generator [1.5:]': "raise builtins.TypeError: object of type 'generator' has no len()",
 "select generator ['a':]": "raise builtins.TypeError: object of type 'generator' has no len()",
 'select generator [Index(1):Index(3)]': "raise builtins.TypeError: object of type 'generator' has no len()",
 'select generator [np:np]': "raise builtins.TypeError: object of type 'generator' has no len()",
 'select generator [[]]': "raise builtins.TypeError: object of type 'generator' has no len()",
 'select generator [[0]]': "raise builtins.TypeError: object of type 'generator' has no len()",
 'select generator [[3]]': "raise builtins.TypeError: object of type 'generator' has no len()",
 'select generator [[4]]': "raise builtins.TypeError: object of type 'generator' has no len()",
 'select generator [[0,2]]': "raise builtins.TypeError: object of type 'generator' has no len()",
 'select generator [[0,-1]]': "raise builtins.TypeError: object of type 'generator' has no len()",
 'select generator [[3,1,1,0]]': "raise builtins.TypeError: object of type 'generator' has no len()",
 'select generator [[0,4]]': "raise builtins.TypeError: object of type 'generator' has no len()",
 "select generator [[4,'a']]": "raise builtins.TypeError: object of type 'generator' has no len()",
 "select generator [['a',4]]": "raise builtins.TypeError: object of type 'generator' has no len()",
 "select generator [[0,'a']]": "raise builtins.TypeError: object of type 'generator' has no len()",
 'select generator [[0,None]]': "raise builtins.TypeError: object of type 'generator' has no len()",
 'select generator [[1.0]]': "raise builtins.TypeError: object of type 'generator' has no len()",
 'select generator [[0,1.0]]': "raise builtins.TypeError: object of type 'generator' has no len()",
 'select generator [[True,False]]': "raise builtins.TypeError: object of type 'generator' has no len()",
 'select generator [[Index(2)]]': "raise builtins.TypeError: object of type 'generator' has no len()",
 'select generator [[Index(2),0]]': "raise builtins.TypeError: object of type 'generator' has no len()",
 'select generator [[np.int64(2),np.int64(0)]]': "raise builtins.TypeError: object of type 'generator' has "
                                                 'no len()',
 'select generator [[slice]]': "raise builtins.TypeError: object of type 'generator' has no len()",
 'select generator [[0,slice]]': "raise builtins.TypeError: object of type 'generator' has no len()",
 'select generator [[[0,1]]]': "raise builtins.TypeError: object of type 'generator' has no len()",
 'select generator [[[0],[1]]]': "raise builtins.TypeError: object of type 'generator' has no len()",
 'select generator [[(0,)]]': "raise builtins.TypeError: object of type 'generator' has no len()",
 'select generator [(0,2)]': "raise builtins.TypeError: object of type 'generator' has no len()",
 'select generator [()]': "raise builtins.TypeError: object of type 'generator' has no len()",
 'select generator [(1,)]': "raise builtins.TypeError: object of type 'generator' has no len()",
 'select generator [array[2,0]]': "raise builtins.TypeError: object of type 'generator' has no len()",
 'select generator [array[]]': "raise builtins.TypeError: object of type 'generator' has no len()",
 'select generator [array[1.0]]': "raise builtins.TypeError: object of type 'generator' has no len()",
 'select generator [array-bool]': "raise builtins.TypeError: object of type 'generator' has no len()",
 'select generator [array-0d]': "raise builtins.TypeError: object of type 'generator' has no len()",
 'select generator [array-2d]': "raise builtins.TypeError: object of type 'generator' has no len()",
 'select generator [range(1,3)]': "raise builtins.TypeError: object of type 'generator' has no len()",
 'select generator [range(3,-1,-1)]': "raise builtins.TypeError: object of type 'generator' has no len()",
 'select generator [gen]': "raise builtins.TypeError: object of type 'generator' has no len()",
 'select generator [set]': "raise builtins.TypeError: object of type 'generator' has no len()",
 'select generator [dict]': "raise builtins.TypeError: object of type 'generator' has no len()",
 "select generator ['12']": "raise builtins.TypeError: object of type 'generator' has no len()",
 "select generator ['']": "raise builtins.TypeError: object of type 'generator' has no len()",
 "select generator [b'\\x01']": "raise builtins.TypeError: object of type 'generator' has no len()",
 'select None [0]': "raise builtins.TypeError: object of type 'NoneType' has no len()",
 'select None [2]': "raise builtins.TypeError: object of type 'NoneType' has no len()",
 'select None [-1]': "raise builtins.TypeError: object of type 'NoneType' has no len()",
 'select None [-4]': "raise builtins.TypeError: object of type 'NoneType' has no len()",
 'select None [4]': "raise builtins.TypeError: object of type 'NoneType' has no len()",
 'select None [-5]': "raise builtins.TypeError: object of type 'NoneType' has no len()",
 'select None [True]': "raise builtins.TypeError: object of type 'NoneType' has no len()",
 'select None [False]': "raise builtins.TypeError: object of type 'NoneType' has no len()",
 'select None [MyInt(1)]': "raise builtins.TypeError: object of type 'NoneType' has no len()",
 'select None [np.int64(1)]': "raise builtins.TypeError: object of type 'NoneType' has no len()",
 'select None [np.uint8(3)]': "raise builtins.TypeError: object of type 'NoneType' has no len()",
 'select None [np.bool(True)]': "raise builtins.TypeError: object of type 'NoneType' has no len()",
 'select None [Index(1)]': "raise builtins.TypeError: object of type 'NoneType' has no len()",
 'select None [1.0]': "raise builtins.TypeError: object of type 'NoneType' has no len()",
 'select None [None]': "raise builtins.TypeError: object of type 'NoneType' has no len()",
 'select None [Ellipsis]': "raise builtins.TypeError: object of type 'NoneType' has no len()",
 'select None [all]': "raise builtins.TypeError: object of type 'NoneType' has no len()",
 'select None [0:1]': "raise builtins.TypeError: object of type 'NoneType' has no len()",
 'select None [2:]': "raise builtins.TypeError: object of type 'NoneType' has no len()",
 'select None [:2]': "raise builtins.TypeError: object of type 'NoneType' has no len()",
 'select None [-2:]': "raise builtins.TypeError: object of type 'NoneType' has no len()",
 'select None [:-2]': "raise builtins.TypeError: object of type 'NoneType' has no len()",
 'select None [::2]': "raise builtins.TypeError: object of type 'NoneType' has no len()",
 'select None [1::2]': "raise builtins.TypeError: object of type 'NoneType' has no len()",
 'select None [::-1]': "raise builtins.TypeError: object of type 'NoneType' has no len()",
 'select None [-1::-2]': "raise builtins.TypeError: object of type 'NoneType' has no len()",
 'select None [3:0:-1]': "raise builtins.TypeError: object of type 'NoneType' has no len()",
 'select None [0:0]': "raise builtins.TypeError: object of type 'NoneType' has no len()",
 'select None [3:1]': "raise builtins.TypeError: object of type 'NoneType' has no len()",
 'select None [10:20]': "raise builtins.TypeError: object of type 'NoneType' has no len()",
 'select None [-10:10]': "raise builtins.TypeError: object of type 'NoneType' has no len()",
 'select None [::0]': "raise builtins.TypeError: object of type 'NoneType' has no len()",
 'select None [1.5:]': "raise builtins.TypeError: object of type 'NoneType' has no len()",
 "select None ['a':]": "raise builtins.TypeError: object of type 'NoneType' has no len()",
 'select None [Index(1):Index(3)]': "raise builtins.TypeError: object of type 'NoneType' has no len()",
 'select None [np:np]': "raise builtins.TypeError: object of type 'NoneType' has no len()",
 'select None [[]]': "raise builtins.TypeError: object of type 'NoneType' has no len()",
 'select None [[0]]': "raise builtins.TypeError: object of type 'NoneType' has no len()",
 'select None [[3]]': "raise builtins.TypeError: object of type 'NoneType' has no len()",
 'select None [[4]]': "raise builtins.TypeError: object of type 'NoneType' has no len()",
 'select None [[0,2]]': "raise builtins.TypeError: object of type 'NoneType' has no len()",
 'select None [[0,-1]]': "raise builtins.TypeError: object of type 'NoneType' has no len()",
 'select None [[3,1,1,0]]': "raise builtins.TypeError: object of type 'NoneType' has no len()",
 'select None [[0,4]]': "raise builtins.TypeError: object of type 'NoneType' has no len()",
 "select None [[4,'a']]": "raise builtins.TypeError: object of type 'NoneType' has no len()",
 "select None [['a',4]]": "raise builtins.TypeError: object of type 'NoneType' has no len()",
 "select None [[0,'a']]": "raise builtins.TypeError: object of type 'NoneType' has no len()",
 'select None [[0,None]]': "raise builtins.TypeError: object of type 'NoneType' has no len()",
 'select None [[1.0]]': "raise builtins.TypeError: object of type 'NoneType' has no len()",
 'select None [[0,1.0]]': "raise builtins.TypeError: object of type 'NoneType' has no len()",
 'select None [[True,False]]': "raise builtins.TypeError: object of type 'NoneType' has no len()",
 'select None [[Index(2)]]': "raise builtins.TypeError: object of type 'NoneType' has no len()",
 'select None [[Index(2),0]]': "raise builtins.TypeError: object of type 'NoneType' has no len()",
 'select None [[np.int64(2),np.int64(0)]]': "raise builtins.TypeError: object of type 'NoneType' has no "
                                            'len()',
 'select None [[slice]]': "raise builtins.TypeError: object of type 'NoneType' has no len()",
 'select None [[0,slice]]': "raise builtins.TypeError: object of type 'NoneType' has no len()",
 'select None [[[0,1]]]': "raise builtins.TypeError: object of type 'NoneType' has no len()",
 'select None [[[0],[1]]]': "raise builtins.TypeError: object of type 'NoneType' has no len()",
 'select None [[(0,)]]': "raise builtins.TypeError: object of type 'NoneType' has no len()",
 'select None [(0,2)]': "raise builtins.TypeError: object of type 'NoneType' has no len()",
 'select None [()]': "raise builtins.TypeError: object of type 'NoneType' has no len()",
 'select None [(1,)]': "raise builtins.TypeError: object of type 'NoneType' has no len()",
 'select None [array[2,0]]': "raise builtins.TypeError: object of type 'NoneType' has no len()",
 'select None [array[]]': "raise builtins.TypeError: object of type 'NoneType' has no len()",
 'select None [array[1.0]]': "raise builtins.TypeError: object of type 'NoneType' has no len()",
 'select None [array-bool]': "raise builtins.TypeError: object of type 'NoneType' has no len()",
 'select None [array-0d]': "raise builtins.TypeError: object of type 'NoneType' has no len()",
 'select None [array-2d]': "raise builtins.TypeError: object of type 'NoneType' has no len()",
 'select None [range(1,3)]': "raise builtins.TypeError: object of type 'NoneType' has no len()",
 'select None [range(3,-1,-1)]': "raise builtins.TypeError: object of type 'NoneType' has no len()",
 'select None [gen]': "raise builtins.TypeError: object of type 'NoneType' has no len()",
 'select None [set]': "raise builtins.TypeError: object of type 'NoneType' has no len()",
 'select None [dict]': "raise builtins.TypeError: object of type 'NoneType' has no len()",
 "select None ['12']": "raise builtins.TypeError: object of type 'NoneType' has no len()",
 "select None ['']": "raise builtins.TypeError: object of type 'NoneType' has no len()",
 "select None [b'\\x01']": "raise builtins.TypeError: object of type 'NoneType' has no len()",
 'select int [0]': "raise builtins.TypeError: object of type 'int' has no len()",
 'select int [2]': "raise builtins.TypeError: object of type 'int' has no len()",
 'select int [-1]': "raise builtins.TypeError: object of type 'int' has no len()",
 'select int [-4]': "raise builtins.TypeError: object of type 'int' has no len()",
 'select int [4]': "raise builtins.TypeError: object of type 'int' has no len()",
 'select int [-5]': "raise builtins.TypeError: object of type 'int' has no len()",
 'select int [True]': "raise builtins.TypeError: object of type 'int' has no len()",
 'select int [False]': "raise builtins.TypeError: object of type 'int' has no len()",
 'select int [MyInt(1)]': "raise builtins.TypeError: object of type 'int' has no len()",
 'select int [np.int64(1)]': "raise builtins.TypeError: object of type 'int' has no len()",
 'select int [np.uint8(3)]': "raise builtins.TypeError: object of type 'int' has no len()",
 'select int [np.bool(True)]': "raise builtins.TypeError: object of type 'int' has no len()",
 'select int [Index(1)]': "raise builtins.TypeError: object of type 'int' has no len()",
 'select int [1.0]': "raise builtins.TypeError: object of type 'int' has no len()",
 'select int [None]': "raise builtins.TypeError: object of type 'int' has no len()",
 'select int [Ellipsis]': "raise builtins.TypeError: object of type 'int' has no len()",
 'select int [all]': "raise builtins.TypeError: object of type 'int' has no len()",
 'select int [0:1]': "raise builtins.TypeError: object of type 'int' has no len()",
 'select int [2:]': "raise builtins.TypeError: object of type 'int' has no len()",
 'select int [:2]': "raise builtins.TypeError: object of type 'int' has no len()",
 'select int [-2:]': "raise builtins.TypeError: object of type 'int' has no len()",
 'select int [:-2]': "raise builtins.TypeError: object of type 'int' has no len()",
 'select int [::2]': "raise builtins.TypeError: object of type 'int' has no len()",
 'select int [1::2]': "raise builtins.TypeError: object of type 'int' has no len()",
 'select int [::-1]': "raise builtins.TypeError: object of type 'int' has no len()",
 'select int [-1::-2]': "raise builtins.TypeError: object of type 'int' has no len()",
 'select int [3:0:-1]': "raise builtins.TypeError: object of type 'int' has no len()",
 'select int [0:0]': "raise builtins.TypeError: object of type 'int' has no len()",
 'select int [3:1]': "raise builtins.TypeError: object of type 'int' has no len()",
 'select int [10:20]': "raise builtins.TypeError: object of type 'int' has no len()",
 'select int [-10:10]': "raise builtins.TypeError: object of type 'int' has no len()",
 'select int [::0]': "raise builtins.TypeError: object of type 'int' has no len()",
 'select int [1.5:]': "raise builtins.TypeError: object of type 'int' has no len()",
 "select int ['a':]": "raise builtins.TypeError: object of type 'int' has no len()",
 'select int [Index(1):Index(3)]': "raise builtins.TypeError: object of type 'int' has no len()",
 'select int [np:np]': "raise builtins.TypeError: object of type 'int' has no len()",
 'select int [[]]': "raise builtins.TypeError: object of type 'int' has no len()",
 'select int [[0]]': "raise builtins.TypeError: object of type 'int' has no len()",
 'select int [[3]]': "raise builtins.TypeError: object of type 'int' has no len()",
 'select int [[4]]': "raise builtins.TypeError: object of type 'int' has no len()",
 'select int [[0,2]]': "raise builtins.TypeError: object of type 'int' has no len()",
 'select int [[0,-1]]': "raise builtins.TypeError: object of type 'int' has no len()",
 'select int [[3,1,1,0]]': "raise builtins.TypeError: object of type 'int' has no len()",
 'select int [[0,4]]': "raise builtins.TypeError: object of type 'int' has no len()",
 "select int [[4,'a']]": "raise builtins.TypeError: object of type 'int' has no len()",
 "select int [['a',4]]": "raise builtins.TypeError: object of type 'int' has no len()",
 "select int [[0,'a']]": "raise builtins.TypeError: object of type 'int' has no len()",
 'select int [[0,None]]': "raise builtins.TypeError: object of type 'int' has no len()",
 'select int [[1.0]]': "raise builtins.TypeError: object of type 'int' has no len()",
 'select int [[0,1.0]]': "raise builtins.TypeError: object of type 'int' has no len()",
 'select int [[True,False]]': "raise builtins.TypeError: object of type 'int' has no len()",
 'select int [[Index(2)]]': "raise builtins.TypeError: object of type 'int' has no len()",
 'select int [[Index(2),0]]': "raise builtins.TypeError: object of type 'int' has no len()",
 'select int [[np.int64(2),np.int64(0)]]': "raise builtins.TypeError: object of type 'int' has no len()",
 'select int [[slice]]': "raise builtins.TypeError: object of type 'int' has no len()",
 'select int [[0,slice]]': "raise builtins.TypeError: object of type 'int' has no len()",
 'select int [[[0,1]]]': "raise builtins.TypeError: object of type 'int' has no len()",
 'select int [[[0],[1]]]': "raise builtins.TypeError: object of type 'int' has no len()",
 'select int [[(0,)]]': "raise builtins.TypeError: object of type 'int' has no len()",
 'select int [(0,2)]': "raise builtins.TypeError: object of type 'int' has no len()",
 'select int [()]': "raise builtins.TypeError: object of type 'int' has no len()",
 'select int [(1,)]': "raise builtins.TypeError: object of type 'int' has no len()",
 'select int [array[2,0]]': "raise builtins.TypeError: object of type 'int' has no len()",
 'select int [array[]]': "raise builtins.TypeError: object of type 'int' has no len()",
 'select int [array[1.0]]': "raise builtins.TypeError: object of type 'int' has no len()",
 'select int [array-bool]': "raise builtins.TypeError: object of type 'int' has no len()",
 'select int [array-0d]': "raise builtins.TypeError: object of type 'int' has no len()",
 'select int [array-2d]': "raise builtins.TypeError: object of type 'int' has no len()",
 'select int [range(1,3)]': "raise builtins.TypeError: object of type 'int' has no len()",
 'select int [range(3,-1,-1)]': "raise builtins.TypeError: object of type 'int' has no len()",
 'select int [gen]': "raise builtins.TypeError: object of type 'int' has no len()",
 'select int [set]': "raise builtins.TypeError: object of type 'int' has no len()",
 'select int [dict]': "raise builtins.TypeError: object of type 'int' has no len()",
 "select int ['12']": "raise builtins.TypeError: object of type 'int' has no len()",
 "select int ['']": "raise builtins.TypeError: object of type 'int' has no len()",
 "select int [b'\\x01']": "raise builtins.TypeError: object of type 'int' has no len()",
 'select kw': 'list(tuple(int:0, tuple(int:0, int:1)), tuple(int:1, tuple(int:1, int:2)))',
 'group kw': "dict{int:0: list(str:'a'), int:1: list(str:'b')}",
 'group regular chunksize=1': 'dict{int:0: list(tuple(int:0, int:3)), int:1: list(tuple(int:3, int:6)), '
                              'int:2: list(tuple(int:6, int:9)), int:3: list(tuple(int:9, int:12)), int:4: '
                              'list(tuple(int:12, int:15)), int:5: list(tuple(int:15, int:18))}',
 'group regular chunksize=2': 'dict{int:0: list(tuple(int:0, int:3), tuple(int:3, int:6)), int:1: '
                              'list(tuple(int:6, int:9), tuple(int:9, int:12)), int:2: list(tuple(int:12, '
                              'int:15), tuple(int:15, int:18))}',
 'group regular chunksize=3': 'dict{int:0: list(tuple(int:0, int:3), tuple(int:3, int:6), tuple(int:6, '
                              'int:9)), int:1: list(tuple(int:9, int:12), tuple(int:12, int:15), '
                              'tuple(int:15, int:18))}',
 'group regular chunksize=4': 'dict{int:0: list(tuple(int:0, int:3), tuple(int:3, int:6), tuple(int:6, '
                              'int:9), tuple(int:9, int:12)), int:1: list(tuple(int:12, int:15), '
                              'tuple(int:15, int:18))}',
 'group regular chunksize=6': 'dict{int:0: list(tuple(int:0, int:3), tuple(int:3, int:6), tuple(int:6, '
                              'int:9), tuple(int:9, int:12), tuple(int:12, int:15), tuple(int:15, int:18))}',
 'group regular chunksize=100': 'dict{int:0: list(tuple(int:0, int:3), tuple(int:3, int:6), tuple(int:6, '
                                'int:9), tuple(int:9, int:12), tuple(int:12, int:15), tuple(int:15, '
                                'int:18))}',
 'group regular chunksize=-1': 'dict{int:0: list(tuple(int:0, int:3)), int:-1: list(tuple(int:3, int:6)), '
                               'int:-2: list(tuple(int:6, int:9)), int:-3: list(tuple(int:9, int:12)), '
                               'int:-4: list(tuple(int:12, int:15)), int:-5: list(tuple(int:15, int:18))}',
 'group regular chunksize=-2': 'dict{int:0: list(tuple(int:0, int:3)), int:-1: list(tuple(int:3, int:6), '
                               'tuple(int:6, int:9)), int:-2: list(tuple(int:9, int:12), tuple(int:12, '
                               'int:15)), int:-3: list(tuple(int:15, int:18))}',
 'group regular chunksize=0': 'raise builtins.ZeroDivisionError: integer division or modulo by zero',
 'group regular chunksize=True': 'dict{int:0: list(tuple(int:0, int:3)), int:1: list(tuple(int:3, int:6)), '
                                 'int:2: list(tuple(int:6, int:9)), int:3: list(tuple(int:9, int:12)), '
                                 'int:4: list(tuple(int:12, int:15)), int:5: list(tuple(int:15, int:18))}',
 'group regular chunksize=2.0': 'dict{float:0.0: list(tuple(int:0, int:3), tuple(int:3, int:6)), float:1.0: '
                                'list(tuple(int:6, int:9), tuple(int:9, int:12)), float:2.0: '
                                'list(tuple(int:12, int:15), tuple(int:15, int:18))}',
 'group regular chunksize=1.5': 'dict{float:0.0: list(tuple(int:0, int:3), tuple(int:3, int:6)), float:1.0: '
                                'list(tuple(int:6, int:9)), float:2.0: list(tuple(int:9, int:12), '
                                'tuple(int:12, int:15)), float:3.0: list(tuple(int:15, int:18))}',
 'group regular chunksize=0.0': 'raise builtins.ZeroDivisionError: float floor division by zero',
 'group regular chunksize=inf': 'dict{float:0.0: list(tuple(int:0, int:3), tuple(int:3, int:6), tuple(int:6, '
                                'int:9), tuple(int:9, int:12), tuple(int:12, int:15), tuple(int:15, '
                                'int:18))}',
 'group regular chunksize=np.int64(2)': 'dict{int64(0): list(tuple(int:0, int:3), tuple(int:3, int:6)), '
                                        'int64(1): list(tuple(int:6, int:9), tuple(int:9, int:12)), '
                                        'int64(2): list(tuple(int:12, int:15), tuple(int:15, int:18))}',
 'group regular chunksize=np.int64(0)': 'dict{int64(0): list(tuple(int:0, int:3), tuple(int:3, int:6), '
                                        'tuple(int:6, int:9), tuple(int:9, int:12), tuple(int:12, int:15), '
                                        'tuple(int:15, int:18))}',
 'group regular chunksize=np.float64(2)': 'dict{float64(0.0): list(tuple(int:0, int:3), tuple(int:3, '
                                          'int:6)), float64(1.0): list(tuple(int:6, int:9), tuple(int:9, '
                                          'int:12)), float64(2.0): list(tuple(int:12, int:15), tuple(int:15, '
                                          'int:18))}',
 'group regular chunksize=Fraction(3,2)': 'dict{int:0: list(tuple(int:0, int:3), tuple(int:3, int:6)), '
                                          'int:1: list(tuple(int:6, int:9)), int:2: list(tuple(int:9, '
                                          'int:12), tuple(int:12, int:15)), int:3: list(tuple(int:15, '
                                          'int:18))}',
 'group regular chunksize=None': "raise builtins.TypeError: unsupported operand type(s) for //: 'int' and "
                                 "'NoneType'",
 "group regular chunksize='a'": "raise builtins.TypeError: unsupported operand type(s) for //: 'int' and "
                                "'str'",
 'group regular chunksize=[2]': "raise builtins.TypeError: unsupported operand type(s) for //: 'int' and "
                                "'list'",
 'group regular chunksize=2j': "raise builtins.TypeError: unsupported operand type(s) for //: 'int' and "
                               "'complex'",
 'group empty chunksize=1': 'dict{}',
 'group empty chunksize=2': 'dict{}',
 'group empty chunksize=3': 'dict{}',
 'group empty chunksize=4': 'dict{}',
 'group empty chunksize=6': 'dict{}',
 'group empty chunksize=100': 'dict{}',
 'group empty chunksize=-1': 'dict{}',
 'group empty chunksize=-2': 'dict{}',
 'group empty chunksize=0': 'dict{}',
 'group empty chunksize=True': 'dict{}',
 'group empty chunksize=2.0': 'dict{}',
 'group empty chunksize=1.5': 'dict{}',
 'group empty chunksize=0.0': 'dict{}',
 'group empty chunksize=inf': 'dict{}',
 'group empty chunksize=np.int64(2)': 'dict{}',
 'group empty chunksize=np.int64(0)': 'dict{}',
 'group empty chunksize=np.float64(2)': 'dict{}',
 'group empty chunksize=Fraction(3,2)': 'dict{}',
 'group empty chunksize=None': 'dict{}',
 "group empty chunksize='a'": 'dict{}',
 'group empty chunksize=[2]': 'dict{}',
 'group empty chunksize=2j': 'dict{}',
 'group single chunksize=1': 'dict{int:4: list(tuple(int:1, int:2))}',
 'group single chunksize=2': 'dict{int:2: list(tuple(int:1, int:2))}',
 'group single chunksize=3': 'dict{int:1: list(tuple(int:1, int:2))}',
 'group single chunksize=4': 'dict{int:1: list(tuple(int:1, int:2))}',
 'group single chunksize=6': 'dict{int:0: list(tuple(int:1, int:2))}',
 'group single chunksize=100': 'dict{int:0: list(tuple(int:1, int:2))}',
 'group single chunksize=-1': 'dict{int:-4: list(tuple(int:1, int:2))}',
 'group single chunksize=-2': 'dict{int:-2: list(tuple(int:1, int:2))}',
 'group single chunksize=0': 'raise builtins.ZeroDivisionError: integer division or modulo by zero',
 'group single chunksize=True': 'dict{int:4: list(tuple(int:1, int:2))}',
 'group single chunksize=2.0': 'dict{float:2.0: list(tuple(int:1, int:2))}',
 'group single chunksize=1.5': 'dict{float:2.0: list(tuple(int:1, int:2))}',
 'group single chunksize=0.0': 'raise builtins.ZeroDivisionError: float floor division by zero',
 'group single chunksize=inf': 'dict{float:0.0: list(tuple(int:1, int:2))}',
 'group single chunksize=np.int64(2)': 'dict{int64(2): list(tuple(int:1, int:2))}',
 'group single chunksize=np.int64(0)': 'dict{int64(0): list(tuple(int:1, int:2))}',
 'group single chunksize=np.float64(2)': 'dict{float64(2.0): list(tuple(int:1, int:2))}',
 'group single chunksize=Fraction(3,2)': 'dict{int:2: list(tuple(int:1, int:2))}',
 'group single chunksize=None': "raise builtins.TypeError: unsupported operand type(s) for //: 'int' and "
                                "'NoneType'",
 "group single chunksize='a'": "raise builtins.TypeError: unsupported operand type(s) for //: 'int' and "
                               "'str'",
 'group single chunksize=[2]': "raise builtins.TypeError: unsupported operand type(s) for //: 'int' and "
                               "'list'",
 'group single chunksize=2j': "raise builtins.TypeError: unsupported operand type(s) for //: 'int' and "
                              "'complex'",
 'group reversed chunksize=1': 'dict{int:5: list(tuple(int:15, int:18)), int:4: list(tuple(int:12, int:15)), '
                               'int:3: list(tuple(int:9, int:12)), int:2: list(tuple(int:6, int:9)), int:1: '
                               'list(tuple(int:3, int:6)), int:0: list(tuple(int:0, int:3))}',
 'group reversed chunksize=2': 'dict{int:2: list(tuple(int:15, int:18), tuple(int:12, int:15)), int:1: '
                               'list(tuple(int:9, int:12), tuple(int:6, int:9)), int:0: list(tuple(int:3, '
                               'int:6), tuple(int:0, int:3))}',
 'group reversed chunksize=3': 'dict{int:1: list(tuple(int:15, int:18), tuple(int:12, int:15), tuple(int:9, '
                               'int:12)), int:0: list(tuple(int:6, int:9), tuple(int:3, int:6), tuple(int:0, '
                               'int:3))}',
 'group reversed chunksize=4': 'dict{int:1: list(tuple(int:15, int:18), tuple(int:12, int:15)), int:0: '
                               'list(tuple(int:9, int:12), tuple(int:6, int:9), tuple(int:3, int:6), '
                               'tuple(int:0, int:3))}',
 'group reversed chunksize=6': 'dict{int:0: list(tuple(int:15, int:18), tuple(int:12, int:15), tuple(int:9, '
                               'int:12), tuple(int:6, int:9), tuple(int:3, int:6), tuple(int:0, int:3))}',
 'group reversed chunksize=100': 'dict{int:0: list(tuple(int:15, int:18), tuple(int:12, int:15), '
                                 'tuple(int:9, int:12), tuple(int:6, int:9), tuple(int:3, int:6), '
                                 'tuple(int:0, int:3))}',
 'group reversed chunksize=-1': 'dict{int:-5: list(tuple(int:15, int:18)), int:-4: list(tuple(int:12, '
                                'int:15)), int:-3: list(tuple(int:9, int:12)), int:-2: list(tuple(int:6, '
                                'int:9)), int:-1: list(tuple(int:3, int:6)), int:0: list(tuple(int:0, '
                                'int:3))}',
 'group reversed chunksize=-2': 'dict{int:-3: list(tuple(int:15, int:18)), int:-2: list(tuple(int:12, '
                                'int:15), tuple(int:9, int:12)), int:-1: list(tuple(int:6, int:9), '
                                'tuple(int:3, int:6)), int:0: list(tuple(int:0, int:3))}',
 'group reversed chunksize=0': 'raise builtins.ZeroDivisionError: integer division or modulo by zero',
 'group reversed chunksize=True': 'dict{int:5: list(tuple(int:15, int:18)), int:4: list(tuple(int:12, '
                                  'int:15)), int:3: list(tuple(int:9, int:12)), int:2: list(tuple(int:6, '
                                  'int:9)), int:1: list(tuple(int:3, int:6)), int:0: list(tuple(int:0, '
                                  'int:3))}',
 'group reversed chunksize=2.0': 'dict{float:2.0: list(tuple(int:15, int:18), tuple(int:12, int:15)), '
                                 'float:1.0: list(tuple(int:9, int:12), tuple(int:6, int:9)), float:0.0: '
                                 'list(tuple(int:3, int:6), tuple(int:0, int:3))}',
 'group reversed chunksize=1.5': 'dict{float:3.0: list(tuple(int:15, int:18)), float:2.0: list(tuple(int:12, '
                                 'int:15), tuple(int:9, int:12)), float:1.0: list(tuple(int:6, int:9)), '
                                 'float:0.0: list(tuple(int:3, int:6), tuple(int:0, int:3))}',
 'group reversed chunksize=0.0': 'raise builtins.ZeroDivisionError: float floor division by zero',
 'group reversed chunksize=inf': 'dict{float:0.0: list(tuple(int:15, int:18), tuple(int:12, int:15), '
                                 'tuple(int:9, int:12), tuple(int:6, int:9), tuple(int:3, int:6), '
                                 'tuple(int:0, int:3))}',
 'group reversed chunksize=np.int64(2)': 'dict{int64(2): list(tuple(int:15, int:18), tuple(int:12, int:15)), '
                                         'int64(1): list(tuple(int:9, int:12), tuple(int:6, int:9)), '
                                         'int64(0): list(tuple(int:3, int:6), tuple(int:0, int:3))}',
 'group reversed chunksize=np.int64(0)': 'dict{int64(0): list(tuple(int:15, int:18), tuple(int:12, int:15), '
                                         'tuple(int:9, int:12), tuple(int:6, int:9), tuple(int:3, int:6), '
                                         'tuple(int:0, int:3))}',
 'group reversed chunksize=np.float64(2)': 'dict{float64(2.0): list(tuple(int:15, int:18), tuple(int:12, '
                                           'int:15)), float64(1.0): list(tuple(int:9, int:12), tuple(int:6, '
                                           'int:9)), float64(0.0): list(tuple(int:3, int:6), tuple(int:0, '
                                           'int:3))}',
 'group reversed chunksize=Fraction(3,2)': 'dict{int:3: list(tuple(int:15, int:18)), int:2: '
                                           'list(tuple(int:12, int:15), tuple(int:9, int:12)), int:1: '
                                           'list(tuple(int:6, int:9)), int:0: list(tuple(int:3, int:6), '
                                           'tuple(int:0, int:3))}',
 'group reversed chunksize=None': "raise builtins.TypeError: unsupported operand type(s) for //: 'int' and "
                                  "'NoneType'",
 "group reversed chunksize='a'": "raise builtins.TypeError: unsupported operand type(s) for //: 'int' and "
                                 "'str'",
 'group reversed chunksize=[2]': "raise builtins.TypeError: unsupported operand type(s) for //: 'int' and "
                                 "'list'",
 'group reversed chunksize=2j': "raise builtins.TypeError: unsupported operand type(s) for //: 'int' and "
                                "'complex'",
 'group unordered-duplicates chunksize=1': "dict{int:5: list(str:'f', str:'f2'), int:0: list(str:'a', "
                                           "str:'a'), int:4: list(str:'e'), int:1: list(str:'b')}",
 'group unordered-duplicates chunksize=2': "dict{int:2: list(str:'f', str:'e', str:'f2'), int:0: "
                                           "list(str:'a', str:'a', str:'b')}",
 'group unordered-duplicates chunksize=3': "dict{int:1: list(str:'f', str:'e', str:'f2'), int:0: "
                                           "list(str:'a', str:'a', str:'b')}",
 'group unordered-duplicates chunksize=4': "dict{int:1: list(str:'f', str:'e', str:'f2'), int:0: "
                                           "list(str:'a', str:'a', str:'b')}",
 'group unordered-duplicates chunksize=6': "dict{int:0: list(str:'f', str:'a', str:'e', str:'a', str:'b', "
                                           "str:'f2')}",
 'group unordered-duplicates chunksize=100': "dict{int:0: list(str:'f', str:'a', str:'e', str:'a', str:'b', "
                                             "str:'f2')}",
 'group unordered-duplicates chunksize=-1': "dict{int:-5: list(str:'f', str:'f2'), int:0: list(str:'a', "
                                            "str:'a'), int:-4: list(str:'e'), int:-1: list(str:'b')}",
 'group unordered-duplicates chunksize=-2': "dict{int:-3: list(str:'f', str:'f2'), int:0: list(str:'a', "
                                            "str:'a'), int:-2: list(str:'e'), int:-1: list(str:'b')}",
 'group unordered-duplicates chunksize=0': 'raise builtins.ZeroDivisionError: integer division or modulo by '
                                           'zero',
 'group unordered-duplicates chunksize=True': "dict{int:5: list(str:'f', str:'f2'), int:0: list(str:'a', "
                                              "str:'a'), int:4: list(str:'e'), int:1: list(str:'b')}",
 'group unordered-duplicates chunksize=2.0': "dict{float:2.0: list(str:'f', str:'e', str:'f2'), float:0.0: "
                                             "list(str:'a', str:'a', str:'b')}",
 'group unordered-duplicates chunksize=1.5': "dict{float:3.0: list(str:'f', str:'f2'), float:0.0: "
                                             "list(str:'a', str:'a', str:'b'), float:2.0: list(str:'e')}",
 'group unordered-duplicates chunksize=0.0': 'raise builtins.ZeroDivisionError: float floor division by zero',
 'group unordered-duplicates chunksize=inf': "dict{float:0.0: list(str:'f', str:'a', str:'e', str:'a', "
                                             "str:'b', str:'f2')}",
 'group unordered-duplicates chunksize=np.int64(2)': "dict{int64(2): list(str:'f', str:'e', str:'f2'), "
                                                     "int64(0): list(str:'a', str:'a', str:'b')}",
 'group unordered-duplicates chunksize=np.int64(0)': "dict{int64(0): list(str:'f', str:'a', str:'e', "
                                                     "str:'a', str:'b', str:'f2')}",
 'group unordered-duplicates chunksize=np.float64(2)': "dict{float64(2.0): list(str:'f', str:'e', str:'f2'), "
                                                       "float64(0.0): list(str:'a', str:'a', str:'b')}",
 'group unordered-duplicates chunksize=Fraction(3,2)': "dict{int:3: list(str:'f', str:'f2'), int:0: "
                                                       "list(str:'a', str:'a', str:'b'), int:2: "
                                                       "list(str:'e')}",
 'group unordered-duplicates chunksize=None': 'raise builtins.TypeError: unsupported operand type(s) for //: '
                                              "'int' and 'NoneType'",
 "group unordered-duplicates chunksize='a'": 'raise builtins.TypeError: unsupported operand type(s) for //: '
                                             "'int' and 'str'",
 'group unordered-duplicates chunksize=[2]': 'raise builtins.TypeError: unsupported operand type(s) for //: '
                                             "'int' and 'list'",
 'group unordered-duplicates chunksize=2j': 'raise builtins.TypeError: unsupported operand type(s) for //: '
                                            "'int' and 'complex'",
 'group negative-rows chunksize=1': "dict{int:-1: list(str:'z'), int:-2: list(str:'y'), int:-3: "
                                    "list(str:'x'), int:0: list(str:'a')}",
 'group negative-rows chunksize=2': "dict{int:-1: list(str:'z', str:'y'), int:-2: list(str:'x'), int:0: "
                                    "list(str:'a')}",
 'group negative-rows chunksize=3': "dict{int:-1: list(str:'z', str:'y', str:'x'), int:0: list(str:'a')}",
 'group negative-rows chunksize=4': "dict{int:-1: list(str:'z', str:'y', str:'x'), int:0: list(str:'a')}",
 'group negative-rows chunksize=6': "dict{int:-1: list(str:'z', str:'y', str:'x'), int:0: list(str:'a')}",
 'group negative-rows chunksize=100': "dict{int:-1: list(str:'z', str:'y', str:'x'), int:0: list(str:'a')}",
 'group negative-rows chunksize=-1': "dict{int:1: list(str:'z'), int:2: list(str:'y'), int:3: list(str:'x'), "
                                     "int:0: list(str:'a')}",
 'group negative-rows chunksize=-2': "dict{int:0: list(str:'z', str:'a'), int:1: list(str:'y', str:'x')}",
 'group negative-rows chunksize=0': 'raise builtins.ZeroDivisionError: integer division or modulo by zero',
 'group negative-rows chunksize=True': "dict{int:-1: list(str:'z'), int:-2: list(str:'y'), int:-3: "
                                       "list(str:'x'), int:0: list(str:'a')}",
 'group negative-rows chunksize=2.0': "dict{float:-1.0: list(str:'z', str:'y'), float:-2.0: list(str:'x'), "
                                      "float:0.0: list(str:'a')}",
 'group negative-rows chunksize=1.5': "dict{float:-1.0: list(str:'z'), float:-2.0: list(str:'y', str:'x'), "
                                      "float:0.0: list(str:'a')}",
 'group negative-rows chunksize=0.0': 'raise builtins.ZeroDivisionError: float floor division by zero',
 'group negative-rows chunksize=inf': "dict{float:-1.0: list(str:'z', str:'y', str:'x'), float:0.0: "
                                      "list(str:'a')}",
 'group negative-rows chunksize=np.int64(2)': "dict{int64(-1): list(str:'z', str:'y'), int64(-2): "
                                              "list(str:'x'), int64(0): list(str:'a')}",
 'group negative-rows chunksize=np.int64(0)': "dict{int64(0): list(str:'z', str:'y', str:'x', str:'a')}",
 'group negative-rows chunksize=np.float64(2)': "dict{float64(-1.0): list(str:'z', str:'y'), float64(-2.0): "
                                                "list(str:'x'), float64(0.0): list(str:'a')}",
 'group negative-rows chunksize=Fraction(3,2)': "dict{int:-1: list(str:'z'), int:-2: list(str:'y', str:'x'), "
                                                "int:0: list(str:'a')}",
 'group negative-rows chunksize=None': "raise builtins.TypeError: unsupported operand type(s) for //: 'int' "
                                       "and 'NoneType'",
 "group negative-rows chunksize='a'": "raise builtins.TypeError: unsupported operand type(s) for //: 'int' "
                                      "and 'str'",
 'group negative-rows chunksize=[2]': "raise builtins.TypeError: unsupported operand type(s) for //: 'int' "
                                      "and 'list'",
 'group negative-rows chunksize=2j': "raise builtins.TypeError: unsupported operand type(s) for //: 'int' "
                                     "and 'complex'",
 'group tuple-of-tuples chunksize=1': 'dict{int:0: list(tuple(int:0, int:3)), int:1: list(tuple(int:3, '
                                      'int:6)), int:2: list(tuple(int:6, int:9)), int:3: list(tuple(int:9, '
                                      'int:12)), int:4: list(tuple(int:12, int:15)), int:5: '
                                      'list(tuple(int:15, int:18))}',
 'group tuple-of-tuples chunksize=2': 'dict{int:0: list(tuple(int:0, int:3), tuple(int:3, int:6)), int:1: '
                                      'list(tuple(int:6, int:9), tuple(int:9, int:12)), int:2: '
                                      'list(tuple(int:12, int:15), tuple(int:15, int:18))}',
 'group tuple-of-tuples chunksize=3': 'dict{int:0: list(tuple(int:0, int:3), tuple(int:3, int:6), '
                                      'tuple(int:6, int:9)), int:1: list(tuple(int:9, int:12), tuple(int:12, '
                                      'int:15), tuple(int:15, int:18))}',
 'group tuple-of-tuples chunksize=4': 'dict{int:0: list(tuple(int:0, int:3), tuple(int:3, int:6), '
                                      'tuple(int:6, int:9), tuple(int:9, int:12)), int:1: list(tuple(int:12, '
                                      'int:15), tuple(int:15, int:18))}',
 'group tuple-of-tuples chunksize=6': 'dict{int:0: list(tuple(int:0, int:3), tuple(int:3, int:6), '
                                      'tuple(int:6, int:9), tuple(int:9, int:12), tuple(int:12, int:15), '
                                      'tuple(int:15, int:18))}',
 'group tuple-of-tuples chunksize=100': 'dict{int:0: list(tuple(int:0, int:3), tuple(int:3, int:6), '
                                        'tuple(int:6, int:9), tuple(int:9, int:12), tuple(int:12, int:15), '
                                        'tuple(int:15, int:18))}',
 'group tuple-of-tuples chunksize=-1': 'dict{int:0: list(tuple(int:0, int:3)), int:-1: list(tuple(int:3, '
                                       'int:6)), int:-2: list(tuple(int:6, int:9)), int:-3: '
                                       'list(tuple(int:9, int:12)), int:-4: list(tuple(int:12, int:15)), '
                                       'int:-5: list(tuple(int:15, int:18))}',
 'group tuple-of-tuples chunksize=-2': 'dict{int:0: list(tuple(int:0, int:3)), int:-1: list(tuple(int:3, '
                                       'int:6), tuple(int:6, int:9)), int:-2: list(tuple(int:9, int:12), '
                                       'tuple(int:12, int:15)), int:-3: list(tuple(int:15, int:18))}',
 'group tuple-of-tuples chunksize=0': 'raise builtins.ZeroDivisionError: integer division or modulo by zero',
 'group tuple-of-tuples chunksize=True': 'dict{int:0: list(tuple(int:0, int:3)), int:1: list(tuple(int:3, '
                                         'int:6)), int:2: list(tuple(int:6, int:9)), int:3: '
                                         'list(tuple(int:9, int:12)), int:4: list(tuple(int:12, int:15)), '
                                         'int:5: list(tuple(int:15, int:18))}',
 'group tuple-of-tuples chunksize=2.0': 'dict{float:0.0: list(tuple(int:0, int:3), tuple(int:3, int:6)), '
                                        'float:1.0: list(tuple(int:6, int:9), tuple(int:9, int:12)), '
                                        'float:2.0: list(tuple(int:12, int:15), tuple(int:15, int:18))}',
 'group tuple-of-tuples chunksize=1.5': 'dict{float:0.0: list(tuple(int:0, int:3), tuple(int:3, int:6)), '
                                        'float:1.0: list(tuple(int:6, int:9)), float:2.0: list(tuple(int:9, '
                                        'int:12), tuple(int:12, int:15)), float:3.0: list(tuple(int:15, '
                                        'int:18))}',
 'group tuple-of-tuples chunksize=0.0': 'raise builtins.ZeroDivisionError: float floor division by zero',
 'group tuple-of-tuples chunksize=inf': 'dict{float:0.0: list(tuple(int:0, int:3), tuple(int:3, int:6), '
                                        'tuple(int:6, int:9), tuple(int:9, int:12), tuple(int:12, int:15), '
                                        'tuple(int:15, int:18))}',
 'group tuple-of-tuples chunksize=np.int64(2)': 'dict{int64(0): list(tuple(int:0, int:3), tuple(int:3, '
                                                'int:6)), int64(1): list(tuple(int:6, int:9), tuple(int:9, '
                                                'int:12)), int64(2): list(tuple(int:12, int:15), '
                                                'tuple(int:15, int:18))}',
 'group tuple-of-tuples chunksize=np.int64(0)': 'dict{int64(0): list(tuple(int:0, int:3), tuple(int:3, '
                                                'int:6), tuple(int:6, int:9), tuple(int:9, int:12), '
                                                'tuple(int:12, int:15), tuple(int:15, int:18))}',
 'group tuple-of-tuples chunksize=np.float64(2)': 'dict{float64(0.0): list(tuple(int:0, int:3), tuple(int:3, '
                                                  'int:6)), float64(1.0): list(tuple(int:6, int:9), '
                                                  'tuple(int:9, int:12)), float64(2.0): list(tuple(int:12, '
                                                  'int:15), tuple(int:15, int:18))}',
 'group tuple-of-tuples chunksize=Fraction(3,2)': 'dict{int:0: list(tuple(int:0, int:3), tuple(int:3, '
                                                  'int:6)), int:1: list(tuple(int:6, int:9)), int:2: '
                                                  'list(tuple(int:9, int:12), tuple(int:12, int:15)), int:3: '
                                                  'list(tuple(int:15, int:18))}',
 'group tuple-of-tuples chunksize=None': 'raise builtins.TypeError: unsupported operand type(s) for //: '
                                         "'int' and 'NoneType'",
 "group tuple-of-tuples chunksize='a'": "raise builtins.TypeError: unsupported operand type(s) for //: 'int' "
                                        "and 'str'",
 'group tuple-of-tuples chunksize=[2]': "raise builtins.TypeError: unsupported operand type(s) for //: 'int' "
                                        "and 'list'",
 'group tuple-of-tuples chunksize=2j': "raise builtins.TypeError: unsupported operand type(s) for //: 'int' "
                                       "and 'complex'",
 'group lists chunksize=1': 'dict{int:0: list(tuple(int:0, int:3)), int:1: list(tuple(int:3, int:6)), int:2: '
                            'list(tuple(int:6, int:9))}',
 'group lists chunksize=2': 'dict{int:0: list(tuple(int:0, int:3), tuple(int:3, int:6)), int:1: '
                            'list(tuple(int:6, int:9))}',
 'group lists chunksize=3': 'dict{int:0: list(tuple(int:0, int:3), tuple(int:3, int:6), tuple(int:6, '
                            'int:9))}',
 'group lists chunksize=4': 'dict{int:0: list(tuple(int:0, int:3), tuple(int:3, int:6), tuple(int:6, '
                            'int:9))}',
 'group lists chunksize=6': 'dict{int:0: list(tuple(int:0, int:3), tuple(int:3, int:6), tuple(int:6, '
                            'int:9))}',
 'group lists chunksize=100': 'dict{int:0: list(tuple(int:0, int:3), tuple(int:3, int:6), tuple(int:6, '
                              'int:9))}',
 'group lists chunksize=-1': 'dict{int:0: list(tuple(int:0, int:3)), int:-1: list(tuple(int:3, int:6)), '
                             'int:-2: list(tuple(int:6, int:9))}',
 'group lists chunksize=-2': 'dict{int:0: list(tuple(int:0, int:3)), int:-1: list(tuple(int:3, int:6), '
                             'tuple(int:6, int:9))}',
 'group lists chunksize=0': 'raise builtins.ZeroDivisionError: integer division or modulo by zero',
 'group lists chunksize=True': 'dict{int:0: list(tuple(int:0, int:3)), int:1: list(tuple(int:3, int:6)), '
                               'int:2: list(tuple(int:6, int:9))}',
 'group lists chunksize=2.0': 'dict{float:0.0: list(tuple(int:0, int:3), tuple(int:3, int:6)), float:1.0: '
                              'list(tuple(int:6, int:9))}',
 'group lists chunksize=1.5': 'dict{float:0.0: list(tuple(int:0, int:3), tuple(int:3, int:6)), float:1.0: '
                              'list(tuple(int:6, int:9))}',
 'group lists chunksize=0.0': 'raise builtins.ZeroDivisionError: float floor division by zero',
 'group lists chunksize=inf': 'dict{float:0.0: list(tuple(int:0, int:3), tuple(int:3, int:6), tuple(int:6, '
                              'int:9))}',
 'group lists chunksize=np.int64(2)': 'dict{int64(0): list(tuple(int:0, int:3), tuple(int:3, int:6)), '
                                      'int64(1): list(tuple(int:6, int:9))}',
 'group lists chunksize=np.int64(0)': 'dict{int64(0): list(tuple(int:0, int:3), tuple(int:3, int:6), '
                                      'tuple(int:6, int:9))}',
 'group lists chunksize=np.float64(2)': 'dict{float64(0.0): list(tuple(int:0, int:3), tuple(int:3, int:6)), '
                                        'float64(1.0): list(tuple(int:6, int:9))}',
 'group lists chunksize=Fraction(3,2)': 'dict{int:0: list(tuple(int:0, int:3), tuple(int:3, int:6)), int:1: '
                                        'list(tuple(int:6, int:9))}',
 'group lists chunksize=None': "raise builtins.TypeError: unsupported operand type(s) for //: 'int' and "
                               "'NoneType'",
 "group lists chunksize='a'": "raise builtins.TypeError: unsupported operand type(s) for //: 'int' and 'str'",
 'group lists chunksize=[2]': "raise builtins.TypeError: unsupported operand type(s) for //: 'int' and "
                              "'list'",
 'group lists chunksize=2j': "raise builtins.TypeError: unsupported operand type(s) for //: 'int' and "
                             "'complex'",
 'group generator chunksize=1': 'dict{int:0: list(tuple(int:0, int:3)), int:1: list(tuple(int:3, int:6)), '
                                'int:2: list(tuple(int:6, int:9)), int:3: list(tuple(int:9, int:12)), int:4: '
                                'list(tuple(int:12, int:15)), int:5: list(tuple(int:15, int:18))}',
 'group generator chunksize=2': 'dict{int:0: list(tuple(int:0, int:3), tuple(int:3, int:6)), int:1: '
                                'list(tuple(int:6, int:9), tuple(int:9, int:12)), int:2: list(tuple(int:12, '
                                'int:15), tuple(int:15, int:18))}',
 'group generator chunksize=3': 'dict{int:0: list(tuple(int:0, int:3), tuple(int:3, int:6), tuple(int:6, '
                                'int:9)), int:1: list(tuple(int:9, int:12), tuple(int:12, int:15), '
                                'tuple(int:15, int:18))}',
 'group generator chunksize=4': 'dict{int:0: list(tuple(int:0, int:3), tuple(int:3, int:6), tuple(int:6, '
                                'int:9), tuple(int:9, int:12)), int:1: list(tuple(int:12, int:15), '
                                'tuple(int:15, int:18))}',
 'group generator chunksize=6': 'dict{int:0: list(tuple(int:0, int:3), tuple(int:3, int:6), tuple(int:6, '
                                'int:9), tuple(int:9, int:12), tuple(int:12, int:15), tuple(int:15, '
                                'int:18))}',
 'group generator chunksize=100': 'dict{int:0: list(tuple(int:0, int:3), tuple(int:3, int:6), tuple(int:6, '
                                  'int:9), tuple(int:9, int:12), tuple(int:12, int:15), tuple(int:15, '
                                  'int:18))}',
 'group generator chunksize=-1': 'dict{int:0: list(tuple(int:0, int:3)), int:-1: list(tuple(int:3, int:6)), '
                                 'int:-2: list(tuple(int:6, int:9)), int:-3: list(tuple(int:9, int:12)), '
                                 'int:-4: list(tuple(int:12, int:15)), int:-5: list(tuple(int:15, int:18))}',
 'group generator chunksize=-2': 'dict{int:0: list(tuple(int:0, int:3)), int:-1: list(tuple(int:3, int:6), '
                                 'tuple(int:6, int:9)), int:-2: list(tuple(int:9, int:12), tuple(int:12, '
                                 'int:15)), int:-3: list(tuple(int:15, int:18))}',
 'group generator chunksize=0': 'raise builtins.ZeroDivisionError: integer division or modulo by zero',
 'group generator chunksize=True': 'dict{int:0: list(tuple(int:0, int:3)), int:1: list(tuple(int:3, int:6)), '
                                   'int:2: list(tuple(int:6, int:9)), int:3: list(tuple(int:9, int:12)), '
                                   'int:4: list(tuple(int:12, int:15)), int:5: list(tuple(int:15, int:18))}',
 'group generator chunksize=2.0': 'dict{float:0.0: list(tuple(int:0, int:3), tuple(int:3, int:6)), '
                                  'float:1.0: list(tuple(int:6, int:9), tuple(int:9, int:12)), float:2.0: '
                                  'list(tuple(int:12, int:15), tuple(int:15, int:18))}',
 'group generator chunksize=1.5': 'dict{float:0.0: list(tuple(int:0, int:3), tuple(int:3, int:6)), '
                                  'float:1.0: list(tuple(int:6, int:9)), float:2.0: list(tuple(int:9, '
                                  'int:12), tuple(int:12, int:15)), float:3.0: list(tuple(int:15, int:18))}',
 'group generator chunksize=0.0': 'raise builtins.ZeroDivisionError: float floor division by zero',
 'group generator chunksize=inf': 'dict{float:0.0: list(tuple(int:0, int:3), tuple(int:3, int:6), '
                                  'tuple(int:6, int:9), tuple(int:9, int:12), tuple(int:12, int:15), '
                                  'tuple(int:15, int:18))}',
 'group generator chunksize=np.int64(2)': 'dict{int64(0): list(tuple(int:0, int:3), tuple(int:3, int:6)), '
                                          'int64(1): list(tuple(int:6, int:9), tuple(int:9, int:12)), '
                                          'int64(2): list(tuple(int:12, int:15), tuple(int:15, int:18))}',
 'group generator chunksize=np.int64(0)': 'dict{int64(0): list(tuple(int:0, int:3), tuple(int:3, int:6), '
                                          'tuple(int:6, int:9), tuple(int:9, int:12), tuple(int:12, int:15), '
                                          'tuple(int:15, int:18))}',
 'group generator chunksize=np.float64(2)': 'dict{float64(0.0): list(tuple(int:0, int:3), tuple(int:3, '
                                            'int:6)), float64(1.0): list(tuple(int:6, int:9), tuple(int:9, '
                                            'int:12)), float64(2.0): list(tuple(int:12, int:15), '
                                            'tuple(int:15, int:18))}',
 'group generator chunksize=Fraction(3,2)': 'dict{int:0: list(tuple(int:0, int:3), tuple(int:3, int:6)), '
                                            'int:1: list(tuple(int:6, int:9)), int:2: list(tuple(int:9, '
                                            'int:12), tuple(int:12, int:15)), int:3: list(tuple(int:15, '
                                            'int:18))}',
 'group generator chunksize=None': "raise builtins.TypeError: unsupported operand type(s) for //: 'int' and "
                                   "'NoneType'",
 "group generator chunksize='a'": "raise builtins.TypeError: unsupported operand type(s) for //: 'int' and "
                                  "'str'",
 'group generator chunksize=[2]': "raise builtins.TypeError: unsupported operand type(s) for //: 'int' and "
                                  "'list'",
 'group generator chunksize=2j': "raise builtins.TypeError: unsupported operand type(s) for //: 'int' and "
                                 "'complex'",
 'group dict-items chunksize=1': "dict{int:0: list(str:'a'), int:1: list(str:'b'), int:2: list(str:'c')}",
 'group dict-items chunksize=2': "dict{int:0: list(str:'a', str:'b'), int:1: list(str:'c')}",
 'group dict-items chunksize=3': "dict{int:0: list(str:'a', str:'b', str:'c')}",
 'group dict-items chunksize=4': "dict{int:0: list(str:'a', str:'b', str:'c')}",
 'group dict-items chunksize=6': "dict{int:0: list(str:'a', str:'b', str:'c')}",
 'group dict-items chunksize=100': "dict{int:0: list(str:'a', str:'b', str:'c')}",
 'group dict-items chunksize=-1': "dict{int:0: list(str:'a'), int:-1: list(str:'b'), int:-2: list(str:'c')}",
 'group dict-items chunksize=-2': "dict{int:0: list(str:'a'), int:-1: list(str:'b', str:'c')}",
 'group dict-items chunksize=0': 'raise builtins.ZeroDivisionError: integer division or modulo by zero',
 'group dict-items chunksize=True': "dict{int:0: list(str:'a'), int:1: list(str:'b'), int:2: list(str:'c')}",
 'group dict-items chunksize=2.0': "dict{float:0.0: list(str:'a', str:'b'), float:1.0: list(str:'c')}",
 'group dict-items chunksize=1.5': "dict{float:0.0: list(str:'a', str:'b'), float:1.0: list(str:'c')}",
 'group dict-items chunksize=0.0': 'raise builtins.ZeroDivisionError: float floor division by zero',
 'group dict-items chunksize=inf': "dict{float:0.0: list(str:'a', str:'b', str:'c')}",
 'group dict-items chunksize=np.int64(2)': "dict{int64(0): list(str:'a', str:'b'), int64(1): list(str:'c')}",
 'group dict-items chunksize=np.int64(0)': "dict{int64(0): list(str:'a', str:'b', str:'c')}",
 'group dict-items chunksize=np.float64(2)': "dict{float64(0.0): list(str:'a', str:'b'), float64(1.0): "
                                             "list(str:'c')}",
 'group dict-items chunksize=Fraction(3,2)': "dict{int:0: list(str:'a', str:'b'), int:1: list(str:'c')}",
 'group dict-items chunksize=None': "raise builtins.TypeError: unsupported operand type(s) for //: 'int' and "
                                    "'NoneType'",
 "group dict-items chunksize='a'": "raise builtins.TypeError: unsupported operand type(s) for //: 'int' and "
                                   "'str'",
 'group dict-items chunksize=[2]': "raise builtins.TypeError: unsupported operand type(s) for //: 'int' and "
                                   "'list'",
 'group dict-items chunksize=2j': "raise builtins.TypeError: unsupported operand type(s) for //: 'int' and "
                                  "'complex'",
 'group np-rows chunksize=1': 'dict{int64(0): list(tuple(int:0, int:3)), int64(1): list(tuple(int:3, '
                              'int:6)), int64(2): list(tuple(int:6, int:9)), int64(3): list(tuple(int:9, '
                              'int:12)), int64(4): list(tuple(int:12, int:15)), int64(5): list(tuple(int:15, '
                              'int:18))}',
 'group np-rows chunksize=2': 'dict{int64(0): list(tuple(int:0, int:3), tuple(int:3, int:6)), int64(1): '
                              'list(tuple(int:6, int:9), tuple(int:9, int:12)), int64(2): list(tuple(int:12, '
                              'int:15), tuple(int:15, int:18))}',
 'group np-rows chunksize=3': 'dict{int64(0): list(tuple(int:0, int:3), tuple(int:3, int:6), tuple(int:6, '
                              'int:9)), int64(1): list(tuple(int:9, int:12), tuple(int:12, int:15), '
                              'tuple(int:15, int:18))}',
 'group np-rows chunksize=4': 'dict{int64(0): list(tuple(int:0, int:3), tuple(int:3, int:6), tuple(int:6, '
                              'int:9), tuple(int:9, int:12)), int64(1): list(tuple(int:12, int:15), '
                              'tuple(int:15, int:18))}',
 'group np-rows chunksize=6': 'dict{int64(0): list(tuple(int:0, int:3), tuple(int:3, int:6), tuple(int:6, '
                              'int:9), tuple(int:9, int:12), tuple(int:12, int:15), tuple(int:15, int:18))}',
 'group np-rows chunksize=100': 'dict{int64(0): list(tuple(int:0, int:3), tuple(int:3, int:6), tuple(int:6, '
                                'int:9), tuple(int:9, int:12), tuple(int:12, int:15), tuple(int:15, '
                                'int:18))}',
 'group np-rows chunksize=-1': 'dict{int64(0): list(tuple(int:0, int:3)), int64(-1): list(tuple(int:3, '
                               'int:6)), int64(-2): list(tuple(int:6, int:9)), int64(-3): list(tuple(int:9, '
                               'int:12)), int64(-4): list(tuple(int:12, int:15)), int64(-5): '
                               'list(tuple(int:15, int:18))}',
 'group np-rows chunksize=-2': 'dict{int64(0): list(tuple(int:0, int:3)), int64(-1): list(tuple(int:3, '
                               'int:6), tuple(int:6, int:9)), int64(-2): list(tuple(int:9, int:12), '
                               'tuple(int:12, int:15)), int64(-3): list(tuple(int:15, int:18))}',
 'group np-rows chunksize=0': 'dict{int64(0): list(tuple(int:0, int:3), tuple(int:3, int:6), tuple(int:6, '
                              'int:9), tuple(int:9, int:12), tuple(int:12, int:15), tuple(int:15, int:18))}',
 'group np-rows chunksize=True': 'dict{int64(0): list(tuple(int:0, int:3)), int64(1): list(tuple(int:3, '
                                 'int:6)), int64(2): list(tuple(int:6, int:9)), int64(3): list(tuple(int:9, '
                                 'int:12)), int64(4): list(tuple(int:12, int:15)), int64(5): '
                                 'list(tuple(int:15, int:18))}',
 'group np-rows chunksize=2.0': 'dict{float64(0.0): list(tuple(int:0, int:3), tuple(int:3, int:6)), '
                                'float64(1.0): list(tuple(int:6, int:9), tuple(int:9, int:12)), '
                                'float64(2.0): list(tuple(int:12, int:15), tuple(int:15, int:18))}',
 'group np-rows chunksize=1.5': 'dict{float64(0.0): list(tuple(int:0, int:3), tuple(int:3, int:6)), '
                                'float64(1.0): list(tuple(int:6, int:9)), float64(2.0): list(tuple(int:9, '
                                'int:12), tuple(int:12, int:15)), float64(3.0): list(tuple(int:15, int:18))}',
 'group np-rows chunksize=0.0': 'dict{float64(nan): list(tuple(int:0, int:3)), float64(inf): '
                                'list(tuple(int:3, int:6), tuple(int:6, int:9), tuple(int:9, int:12), '
                                'tuple(int:12, int:15), tuple(int:15, int:18))}',
 'group np-rows chunksize=inf': 'dict{float64(0.0): list(tuple(int:0, int:3), tuple(int:3, int:6), '
                                'tuple(int:6, int:9), tuple(int:9, int:12), tuple(int:12, int:15), '
                                'tuple(int:15, int:18))}',
 'group np-rows chunksize=np.int64(2)': 'dict{int64(0): list(tuple(int:0, int:3), tuple(int:3, int:6)), '
                                        'int64(1): list(tuple(int:6, int:9), tuple(int:9, int:12)), '
                                        'int64(2): list(tuple(int:12, int:15), tuple(int:15, int:18))}',
 'group np-rows chunksize=np.int64(0)': 'dict{int64(0): list(tuple(int:0, int:3), tuple(int:3, int:6), '
                                        'tuple(int:6, int:9), tuple(int:9, int:12), tuple(int:12, int:15), '
                                        'tuple(int:15, int:18))}',
 'group np-rows chunksize=np.float64(2)': 'dict{float64(0.0): list(tuple(int:0, int:3), tuple(int:3, '
                                          'int:6)), float64(1.0): list(tuple(int:6, int:9), tuple(int:9, '
                                          'int:12)), float64(2.0): list(tuple(int:12, int:15), tuple(int:15, '
                                          'int:18))}',
 'group np-rows chunksize=Fraction(3,2)': 'dict{int:0: list(tuple(int:0, int:3), tuple(int:3, int:6)), '
                                          'int:1: list(tuple(int:6, int:9)), int:2: list(tuple(int:9, '
                                          'int:12), tuple(int:12, int:15)), int:3: list(tuple(int:15, '
                                          'int:18))}',
 'group np-rows chunksize=None': "raise builtins.TypeError: unsupported operand type(s) for //: 'int' and "
                                 "'NoneType'",
 "group np-rows chunksize='a'": "raise builtins.TypeError: ufunc 'floor_divide' not supported for the input "
                                'types, and the inputs could not be safely coerced to any supported types '
                                "according to the casting rule ''safe''",
 'group np-rows chunksize=[2]': "raise builtins.TypeError: unhashable type: 'numpy.ndarray'",
 'group np-rows chunksize=2j': "raise builtins.TypeError: ufunc 'floor_divide' not supported for the input "
                               'types, and the inputs could not be safely coerced to any supported types '
                               "according to the casting rule ''safe''",
 'group bool-rows chunksize=1': "dict{int:1: list(str:'t'), int:0: list(str:'f'), int:2: list(str:'two')}",
 'group bool-rows chunksize=2': "dict{int:0: list(str:'t', str:'f'), int:1: list(str:'two')}",
 'group bool-rows chunksize=3': "dict{int:0: list(str:'t', str:'f', str:'two')}",
 'group bool-rows chunksize=4': "dict{int:0: list(str:'t', str:'f', str:'two')}",
 'group bool-rows chunksize=6': "dict{int:0: list(str:'t', str:'f', str:'two')}",
 'group bool-rows chunksize=100': "dict{int:0: list(str:'t', str:'f', str:'two')}",
 'group bool-rows chunksize=-1': "dict{int:-1: list(str:'t'), int:0: list(str:'f'), int:-2: list(str:'two')}",
 'group bool-rows chunksize=-2': "dict{int:-1: list(str:'t', str:'two'), int:0: list(str:'f')}",
 'group bool-rows chunksize=0': 'raise builtins.ZeroDivisionError: integer division or modulo by zero',
 'group bool-rows chunksize=True': "dict{int:1: list(str:'t'), int:0: list(str:'f'), int:2: list(str:'two')}",
 'group bool-rows chunksize=2.0': "dict{float:0.0: list(str:'t', str:'f'), float:1.0: list(str:'two')}",
 'group bool-rows chunksize=1.5': "dict{float:0.0: list(str:'t', str:'f'), float:1.0: list(str:'two')}",
 'group bool-rows chunksize=0.0': 'raise builtins.ZeroDivisionError: float floor division by zero',
 'group bool-rows chunksize=inf': "dict{float:0.0: list(str:'t', str:'f', str:'two')}",
 'group bool-rows chunksize=np.int64(2)': "dict{int64(0): list(str:'t', str:'f'), int64(1): list(str:'two')}",
 'group bool-rows chunksize=np.int64(0)': "dict{int64(0): list(str:'t', str:'f', str:'two')}",
 'group bool-rows chunksize=np.float64(2)': "dict{float64(0.0): list(str:'t', str:'f'), float64(1.0): "
                                            "list(str:'two')}",
 'group bool-rows chunksize=Fraction(3,2)': "dict{int:0: list(str:'t', str:'f'), int:1: list(str:'two')}",
 'group bool-rows chunksize=None': "raise builtins.TypeError: unsupported operand type(s) for //: 'bool' and "
                                   "'NoneType'",
 "group bool-rows chunksize='a'": "raise builtins.TypeError: unsupported operand type(s) for //: 'bool' and "
                                  "'str'",
 'group bool-rows chunksize=[2]': "raise builtins.TypeError: unsupported operand type(s) for //: 'bool' and "
                                  "'list'",
 'group bool-rows chunksize=2j': "raise builtins.TypeError: unsupported operand type(s) for //: 'bool' and "
                                 "'complex'",
 'group equal-keys chunksize=1': "dict{float:0.0: list(str:'float', str:'int', str:'bool'), int:2: "
                                 "list(str:'x', str:'y')}",
 'group equal-keys chunksize=2': "dict{float:0.0: list(str:'float', str:'int', str:'bool'), int:1: "
                                 "list(str:'x', str:'y')}",
 'group equal-keys chunksize=3': "dict{float:0.0: list(str:'float', str:'int', str:'bool', str:'x', "
                                 "str:'y')}",
 'group equal-keys chunksize=4': "dict{float:0.0: list(str:'float', str:'int', str:'bool', str:'x', "
                                 "str:'y')}",
 'group equal-keys chunksize=6': "dict{float:0.0: list(str:'float', str:'int', str:'bool', str:'x', "
                                 "str:'y')}",
 'group equal-keys chunksize=100': "dict{float:0.0: list(str:'float', str:'int', str:'bool', str:'x', "
                                   "str:'y')}",
 'group equal-keys chunksize=-1': "dict{float:-0.0: list(str:'float', str:'int', str:'bool'), int:-2: "
                                  "list(str:'x', str:'y')}",
 'group equal-keys chunksize=-2': "dict{float:-0.0: list(str:'float', str:'int', str:'bool'), int:-1: "
                                  "list(str:'x', str:'y')}",
 'group equal-keys chunksize=0': 'raise builtins.ZeroDivisionError: float floor division by zero',
 'group equal-keys chunksize=True': "dict{float:0.0: list(str:'float', str:'int', str:'bool'), int:2: "
                                    "list(str:'x', str:'y')}",
 'group equal-keys chunksize=2.0': "dict{float:0.0: list(str:'float', str:'int', str:'bool'), float:1.0: "
                                   "list(str:'x', str:'y')}",
 'group equal-keys chunksize=1.5': "dict{float:0.0: list(str:'float', str:'int', str:'bool'), float:1.0: "
                                   "list(str:'x', str:'y')}",
 'group equal-keys chunksize=0.0': 'raise builtins.ZeroDivisionError: float floor division by zero',
 'group equal-keys chunksize=inf': "dict{float:0.0: list(str:'float', str:'int', str:'bool', str:'x', "
                                   "str:'y')}",
 'group equal-keys chunksize=np.int64(2)': "dict{float64(0.0): list(str:'float', str:'int', str:'bool'), "
                                           "int64(1): list(str:'x', str:'y')}",
 'group equal-keys chunksize=np.int64(0)': "dict{float64(nan): list(str:'float'), int64(0): list(str:'int', "
                                           "str:'bool', str:'x'), float64(inf): list(str:'y')}",
 'group equal-keys chunksize=np.float64(2)': "dict{float64(0.0): list(str:'float', str:'int', str:'bool'), "
                                             "float64(1.0): list(str:'x', str:'y')}",
 'group equal-keys chunksize=Fraction(3,2)': "dict{float:0.0: list(str:'float', str:'int', str:'bool'), "
                                             "int:1: list(str:'x', str:'y')}",
 'group equal-keys chunksize=None': "raise builtins.TypeError: unsupported operand type(s) for //: 'float' "
                                    "and 'NoneType'",
 "group equal-keys chunksize='a'": "raise builtins.TypeError: unsupported operand type(s) for //: 'float' "
                                   "and 'str'",
 'group equal-keys chunksize=[2]': "raise builtins.TypeError: unsupported operand type(s) for //: 'float' "
                                   "and 'list'",
 'group equal-keys chunksize=2j': "raise builtins.TypeError: unsupported operand type(s) for //: 'float' and "
                                  "'complex'",
 'group float-rows chunksize=1': "dict{float:0.0: list(str:'a'), float:1.0: list(str:'b'), float:2.0: "
                                 "list(str:'c')}",
 'group float-rows chunksize=2': "dict{float:0.0: list(str:'a', str:'b'), float:1.0: list(str:'c')}",
 'group float-rows chunksize=3': "dict{float:0.0: list(str:'a', str:'b', str:'c')}",
 'group float-rows chunksize=4': "dict{float:0.0: list(str:'a', str:'b', str:'c')}",
 'group float-rows chunksize=6': "dict{float:0.0: list(str:'a', str:'b', str:'c')}",
 'group float-rows chunksize=100': "dict{float:0.0: list(str:'a', str:'b', str:'c')}",
 'group float-rows chunksize=-1': "dict{float:-1.0: list(str:'a'), float:-2.0: list(str:'b'), float:-3.0: "
                                  "list(str:'c')}",
 'group float-rows chunksize=-2': "dict{float:-1.0: list(str:'a', str:'b'), float:-2.0: list(str:'c')}",
 'group float-rows chunksize=0': 'raise builtins.ZeroDivisionError: float floor division by zero',
 'group float-rows chunksize=True': "dict{float:0.0: list(str:'a'), float:1.0: list(str:'b'), float:2.0: "
                                    "list(str:'c')}",
 'group float-rows chunksize=2.0': "dict{float:0.0: list(str:'a', str:'b'), float:1.0: list(str:'c')}",
 'group float-rows chunksize=1.5': "dict{float:0.0: list(str:'a'), float:1.0: list(str:'b', str:'c')}",
 'group float-rows chunksize=0.0': 'raise builtins.ZeroDivisionError: float floor division by zero',
 'group float-rows chunksize=inf': "dict{float:0.0: list(str:'a', str:'b', str:'c')}",
 'group float-rows chunksize=np.int64(2)': "dict{float64(0.0): list(str:'a', str:'b'), float64(1.0): "
                                           "list(str:'c')}",
 'group float-rows chunksize=np.int64(0)': "dict{float64(inf): list(str:'a', str:'b', str:'c')}",
 'group float-rows chunksize=np.float64(2)': "dict{float64(0.0): list(str:'a', str:'b'), float64(1.0): "
                                             "list(str:'c')}",
 'group float-rows chunksize=Fraction(3,2)': "dict{float:0.0: list(str:'a'), float:1.0: list(str:'b', "
                                             "str:'c')}",
 'group float-rows chunksize=None': "raise builtins.TypeError: unsupported operand type(s) for //: 'float' "
                                    "and 'NoneType'",
 "group float-rows chunksize='a'": "raise builtins.TypeError: unsupported operand type(s) for //: 'float' "
                                   "and 'str'",
 'group float-rows chunksize=[2]': "raise builtins.TypeError: unsupported operand type(s) for //: 'float' "
                                   "and 'list'",
 'group float-rows chunksize=2j': "raise builtins.TypeError: unsupported operand type(s) for //: 'float' and "
                                  "'complex'",
 'group fraction-rows chunksize=1': "dict{int:0: list(str:'a'), int:2: list(str:'b')}",
 'group fraction-rows chunksize=2': "dict{int:0: list(str:'a'), int:1: list(str:'b')}",
 'group fraction-rows chunksize=3': "dict{int:0: list(str:'a', str:'b')}",
 'group fraction-rows chunksize=4': "dict{int:0: list(str:'a', str:'b')}",
 'group fraction-rows chunksize=6': "dict{int:0: list(str:'a', str:'b')}",
 'group fraction-rows chunksize=100': "dict{int:0: list(str:'a', str:'b')}",
 'group fraction-rows chunksize=-1': "dict{int:-1: list(str:'a'), int:-3: list(str:'b')}",
 'group fraction-rows chunksize=-2': "dict{int:-1: list(str:'a'), int:-2: list(str:'b')}",
 'group fraction-rows chunksize=0': 'raise builtins.ZeroDivisionError: integer division or modulo by zero',
 'group fraction-rows chunksize=True': "dict{int:0: list(str:'a'), int:2: list(str:'b')}",
 'group fraction-rows chunksize=2.0': "dict{float:0.0: list(str:'a'), float:1.0: list(str:'b')}",
 'group fraction-rows chunksize=1.5': "dict{float:0.0: list(str:'a'), float:1.0: list(str:'b')}",
 'group fraction-rows chunksize=0.0': 'raise builtins.ZeroDivisionError: float floor division by zero',
 'group fraction-rows chunksize=inf': "dict{float:0.0: list(str:'a', str:'b')}",
 'group fraction-rows chunksize=np.int64(2)': "dict{int:0: list(str:'a'), int:1: list(str:'b')}",
 'group fraction-rows chunksize=np.int64(0)': 'raise builtins.ZeroDivisionError: integer division or modulo '
                                              'by zero',
 'group fraction-rows chunksize=np.float64(2)': "dict{float64(0.0): list(str:'a'), float64(1.0): "
                                                "list(str:'b')}",
 'group fraction-rows chunksize=Fraction(3,2)': "dict{int:0: list(str:'a'), int:1: list(str:'b')}",
 'group fraction-rows chunksize=None': 'raise builtins.TypeError: unsupported operand type(s) for //: '
                                       "'Fraction' and 'NoneType'",
 "group fraction-rows chunksize='a'": 'raise builtins.TypeError: unsupported operand type(s) for //: '
                                      "'Fraction' and 'str'",
 'group fraction-rows chunksize=[2]': 'raise builtins.TypeError: unsupported operand type(s) for //: '
                                      "'Fraction' and 'list'",
 'group fraction-rows chunksize=2j': 'raise builtins.TypeError: unsupported operand type(s) for //: '
                                     "'complex' and 'complex'",
 'group str-values chunksize=1': "dict{int:0: list(str:'ab'), int:1: list(str:'cd')}",
 'group str-values chunksize=2': "dict{int:0: list(str:'ab', str:'cd')}",
 'group str-values chunksize=3': "dict{int:0: list(str:'ab', str:'cd')}",
 'group str-values chunksize=4': "dict{int:0: list(str:'ab', str:'cd')}",
 'group str-values chunksize=6': "dict{int:0: list(str:'ab', str:'cd')}",
 'group str-values chunksize=100': "dict{int:0: list(str:'ab', str:'cd')}",
 'group str-values chunksize=-1': "dict{int:0: list(str:'ab'), int:-1: list(str:'cd')}",
 'group str-values chunksize=-2': "dict{int:0: list(str:'ab'), int:-1: list(str:'cd')}",
 'group str-values chunksize=0': 'raise builtins.ZeroDivisionError: integer division or modulo by zero',
 'group str-values chunksize=True': "dict{int:0: list(str:'ab'), int:1: list(str:'cd')}",
 'group str-values chunksize=2.0': "dict{float:0.0: list(str:'ab', str:'cd')}",
 'group str-values chunksize=1.5': "dict{float:0.0: list(str:'ab', str:'cd')}",
 'group str-values chunksize=0.0': 'raise builtins.ZeroDivisionError: float floor division by zero',
 'group str-values chunksize=inf': "dict{float:0.0: list(str:'ab', str:'cd')}",
 'group str-values chunksize=np.int64(2)': "dict{int64(0): list(str:'ab', str:'cd')}",
 'group str-values chunksize=np.int64(0)': "dict{int64(0): list(str:'ab', str:'cd')}",
 'group str-values chunksize=np.float64(2)': "dict{float64(0.0): list(str:'ab', str:'cd')}",
 'group str-values chunksize=Fraction(3,2)': "dict{int:0: list(str:'ab', str:'cd')}",
 'group str-values chunksize=None': "raise builtins.TypeError: unsupported operand type(s) for //: 'int' and "
                                    "'NoneType'",
 "group str-values chunksize='a'": "raise builtins.TypeError: unsupported operand type(s) for //: 'int' and "
                                   "'str'",
 'group str-values chunksize=[2]': "raise builtins.TypeError: unsupported operand type(s) for //: 'int' and "
                                   "'list'",
 'group str-values chunksize=2j': "raise builtins.TypeError: unsupported operand type(s) for //: 'int' and "
                                  "'complex'",
 'group triples chunksize=1': 'raise builtins.ValueError: too many values to unpack (expected 2)',
 'group triples chunksize=2': 'raise builtins.ValueError: too many values to unpack (expected 2)',
 'group triples chunksize=3': 'raise builtins.ValueError: too many values to unpack (expected 2)',
 'group triples chunksize=4': 'raise builtins.ValueError: too many values to unpack (expected 2)',
 'group triples chunksize=6': 'raise builtins.ValueError: too many values to unpack (expected 2)',
 'group triples chunksize=100': 'raise builtins.ValueError: too many values to unpack (expected 2)',
 'group triples chunksize=-1': 'raise builtins.ValueError: too many values to unpack (expected 2)',
 'group triples chunksize=-2': 'raise builtins.ValueError: too many values to unpack (expected 2)',
 'group triples chunksize=0': 'raise builtins.ZeroDivisionError: integer division or modulo by zero',
 'group triples chunksize=True': 'raise builtins.ValueError: too many values to unpack (expected 2)',
 'group triples chunksize=2.0': 'raise builtins.ValueError: too many values to unpack (expected 2)',
 'group triples chunksize=1.5': 'raise builtins.ValueError: too many values to unpack (expected 2)',
 'group triples chunksize=0.0': 'raise builtins.ZeroDivisionError: float floor division by zero',
 'group triples chunksize=inf': 'raise builtins.ValueError: too many values to unpack (expected 2)',
 'group triples chunksize=np.int64(2)': 'raise builtins.ValueError: too many values to unpack (expected 2)',
 'group triples chunksize=np.int64(0)': 'raise builtins.ValueError: too many values to unpack (expected 2)',
 'group triples chunksize=np.float64(2)': 'raise builtins.ValueError: too many values to unpack (expected 2)',
 'group triples chunksize=Fraction(3,2)': 'raise builtins.ValueError: too many values to unpack (expected 2)',
 'group triples chunksize=None': "raise builtins.TypeError: unsupported operand type(s) for //: 'int' and "
                                 "'NoneType'",
 "group triples chunksize='a'": "raise builtins.TypeError: unsupported operand type(s) for //: 'int' and "
                                "'str'",
 'group triples chunksize=[2]': "raise builtins.TypeError: unsupported operand type(s) for //: 'int' and "
                                "'list'",
 'group triples chunksize=2j': "raise builtins.TypeError: unsupported operand type(s) for //: 'int' and "
                               "'complex'",
 'group triple-last chunksize=1': 'raise builtins.ValueError: too many values to unpack (expected 2)',
 'group triple-last chunksize=2': 'raise builtins.ValueError: too many values to unpack (expected 2)',
 'group triple-last chunksize=3': 'raise builtins.ValueError: too many values to unpack (expected 2)',
 'group triple-last chunksize=4': 'raise builtins.ValueError: too many values to unpack (expected 2)',
 'group triple-last chunksize=6': 'raise builtins.ValueError: too many values to unpack (expected 2)',
 'group triple-last chunksize=100': 'raise builtins.ValueError: too many values to unpack (expected 2)',
 'group triple-last chunksize=-1': 'raise builtins.ValueError: too many values to unpack (expected 2)',
 'group triple-last chunksize=-2': 'raise builtins.ValueError: too many values to unpack (expected 2)',
 'group triple-last chunksize=0': 'raise builtins.ZeroDivisionError: integer division or modulo by zero',
 'group triple-last chunksize=True': 'raise builtins.ValueError: too many values to unpack (expected 2)',
 'group triple-last chunksize=2.0': 'raise builtins.ValueError: too many values to unpack (expected 2)',
 'group triple-last chunksize=1.5': 'raise builtins.ValueError: too many values to unpack (expected 2)',
 'group triple-last chunksize=0.0': 'raise builtins.ZeroDivisionError: float floor division by zero',
 'group triple-last chunksize=inf': 'raise builtins.ValueError: too many values to unpack (expected 2)',
 'group triple-last chunksize=np.int64(2)': 'raise builtins.ValueError: too many values to unpack (expected '
                                            '2)',
 'group triple-last chunksize=np.int64(0)': 'raise builtins.ValueError: too many values to unpack (expected '
                                            '2)',
 'group triple-last chunksize=np.float64(2)': 'raise builtins.ValueError: too many values to unpack '
                                              '(expected 2)',
 'group triple-last chunksize=Fraction(3,2)': 'raise builtins.ValueError: too many values to unpack '
                                              '(expected 2)',
 'group triple-last chunksize=None': "raise builtins.TypeError: unsupported operand type(s) for //: 'int' "
                                     "and 'NoneType'",
 "group triple-last chunksize='a'": "raise builtins.TypeError: unsupported operand type(s) for //: 'int' and "
                                    "'str'",
 'group triple-last chunksize=[2]': "raise builtins.TypeError: unsupported operand type(s) for //: 'int' and "
                                    "'list'",
 'group triple-last chunksize=2j': "raise builtins.TypeError: unsupported operand type(s) for //: 'int' and "
                                   "'complex'",
 'group singles chunksize=1': 'raise builtins.ValueError: not enough values to unpack (expected 2, got 1)',
 'group singles chunksize=2': 'raise builtins.ValueError: not enough values to unpack (expected 2, got 1)',
 'group singles chunksize=3': 'raise builtins.ValueError: not enough values to unpack (expected 2, got 1)',
 'group singles chunksize=4': 'raise builtins.ValueError: not enough values to unpack (expected 2, got 1)',
 'group singles chunksize=6': 'raise builtins.ValueError: not enough values to unpack (expected 2, got 1)',
 'group singles chunksize=100': 'raise builtins.ValueError: not enough values to unpack (expected 2, got 1)',
 'group singles chunksize=-1': 'raise builtins.ValueError: not enough values to unpack (expected 2, got 1)',
 'group singles chunksize=-2': 'raise builtins.ValueError: not enough values to unpack (expected 2, got 1)',
 'group singles chunksize=0': 'raise builtins.ZeroDivisionError: integer division or modulo by zero',
 'group singles chunksize=True': 'raise builtins.ValueError: not enough values to unpack (expected 2, got 1)',
 'group singles chunksize=2.0': 'raise builtins.ValueError: not enough values to unpack (expected 2, got 1)',
 'group singles chunksize=1.5': 'raise builtins.ValueError: not enough values to unpack (expected 2, got 1)',
 'group singles chunksize=0.0': 'raise builtins.ZeroDivisionError: float floor division by zero',
 'group singles chunksize=inf': 'raise builtins.ValueError: not enough values to unpack (expected 2, got 1)',
 'group singles chunksize=np.int64(2)': 'raise builtins.ValueError: not enough values to unpack (expected 2, '
                                        'got 1)',
 'group singles chunksize=np.int64(0)': 'raise builtins.ValueError: not enough values to unpack (expected 2, '
                                        'got 1)',
 'group singles chunksize=np.float64(2)': 'raise builtins.ValueError: not enough values to unpack (expected '
                                          '2, got 1)',
 'group singles chunksize=Fraction(3,2)': 'raise builtins.ValueError: not enough values to unpack (expected '
                                          '2, got 1)',
 'group singles chunksize=None': "raise builtins.TypeError: unsupported operand type(s) for //: 'int' and "
                                 "'NoneType'",
 "group singles chunksize='a'": "raise builtins.TypeError: unsupported operand type(s) for //: 'int' and "
                                "'str'",
 'group singles chunksize=[2]': "raise builtins.TypeError: unsupported operand type(s) for //: 'int' and "
                                "'list'",
 'group singles chunksize=2j': "raise builtins.TypeError: unsupported operand type(s) for //: 'int' and "
                               "'complex'",
 'group single-then-bad-row chunksize=1': 'raise builtins.TypeError: unsupported operand type(s) for //: '
                                          "'str' and 'int'",
 'group single-then-bad-row chunksize=2': 'raise builtins.TypeError: unsupported operand type(s) for //: '
                                          "'str' and 'int'",
 'group single-then-bad-row chunksize=3': 'raise builtins.TypeError: unsupported operand type(s) for //: '
                                          "'str' and 'int'",
 'group single-then-bad-row chunksize=4': 'raise builtins.TypeError: unsupported operand type(s) for //: '
                                          "'str' and 'int'",
 'group single-then-bad-row chunksize=6': 'raise builtins.TypeError: unsupported operand type(s) for //: '
                                          "'str' and 'int'",
 'group single-then-bad-row chunksize=100': 'raise builtins.TypeError: unsupported operand type(s) for //: '
                                            "'str' and 'int'",
 'group single-then-bad-row chunksize=-1': 'raise builtins.TypeError: unsupported operand type(s) for //: '
                                           "'str' and 'int'",
 'group single-then-bad-row chunksize=-2': 'raise builtins.TypeError: unsupported operand type(s) for //: '
                                           "'str' and 'int'",
 'group single-then-bad-row chunksize=0': 'raise builtins.ZeroDivisionError: integer division or modulo by '
                                          'zero',
 'group single-then-bad-row chunksize=True': 'raise builtins.TypeError: unsupported operand type(s) for //: '
                                             "'str' and 'bool'",
 'group single-then-bad-row chunksize=2.0': 'raise builtins.TypeError: unsupported operand type(s) for //: '
                                            "'str' and 'float'",
 'group single-then-bad-row chunksize=1.5': 'raise builtins.TypeError: unsupported operand type(s) for //: '
                                            "'str' and 'float'",
 'group single-then-bad-row chunksize=0.0': 'raise builtins.ZeroDivisionError: float floor division by zero',
 'group single-then-bad-row chunksize=inf': 'raise builtins.TypeError: unsupported operand type(s) for //: '
                                            "'str' and 'float'",
 'group single-then-bad-row chunksize=np.int64(2)': "raise builtins.TypeError: ufunc 'floor_divide' not "
                                                    'supported for the input types, and the inputs could not '
                                                    'be safely coerced to any supported types according to '
                                                    "the casting rule ''safe''",
 'group single-then-bad-row chunksize=np.int64(0)': "raise builtins.TypeError: ufunc 'floor_divide' not "
                                                    'supported for the input types, and the inputs could not '
                                                    'be safely coerced to any supported types according to '
                                                    "the casting rule ''safe''",
 'group single-then-bad-row chunksize=np.float64(2)': "raise builtins.TypeError: ufunc 'floor_divide' not "
                                                      'supported for the input types, and the inputs could '
                                                      'not be safely coerced to any supported types '
                                                      "according to the casting rule ''safe''",
 'group single-then-bad-row chunksize=Fraction(3,2)': 'raise builtins.TypeError: unsupported operand type(s) '
                                                      "for //: 'str' and 'Fraction'",
 'group single-then-bad-row chunksize=None': 'raise builtins.TypeError: unsupported operand type(s) for //: '
                                             "'int' and 'NoneType'",
 "group single-then-bad-row chunksize='a'": 'raise builtins.TypeError: unsupported operand type(s) for //: '
                                            "'int' and 'str'",
 'group single-then-bad-row chunksize=[2]': 'raise builtins.TypeError: unsupported operand type(s) for //: '
                                            "'int' and 'list'",
 'group single-then-bad-row chunksize=2j': 'raise builtins.TypeError: unsupported operand type(s) for //: '
                                           "'int' and 'complex'",
 'group triple-then-bad-row chunksize=1': 'raise builtins.TypeError: unsupported operand type(s) for //: '
                                          "'str' and 'int'",
 'group triple-then-bad-row chunksize=2': 'raise builtins.TypeError: unsupported operand type(s) for //: '
                                          "'str' and 'int'",
 'group triple-then-bad-row chunksize=3': 'raise builtins.TypeError: unsupported operand type(s) for //: '
                                          "'str' and 'int'",
 'group triple-then-bad-row chunksize=4': 'raise builtins.TypeError: unsupported operand type(s) for //: '
                                          "'str' and 'int'",
 'group triple-then-bad-row chunksize=6': 'raise builtins.TypeError: unsupported operand type(s) for //: '
                                          "'str' and 'int'",
 'group triple-then-bad-row chunksize=100': 'raise builtins.TypeError: unsupported operand type(s) for //: '
                                            "'str' and 'int'",
 'group triple-then-bad-row chunksize=-1': 'raise builtins.TypeError: unsupported operand type(s) for //: '
                                           "'str' and 'int'",
 'group triple-then-bad-row chunksize=-2': 'raise builtins.TypeError: unsupported operand type(s) for //: '
                                           "'str' and 'int'",
 'group triple-then-bad-row chunksize=0': 'raise builtins.ZeroDivisionError: integer division or modulo by '
                                          'zero',
 'group triple-then-bad-row chunksize=True': 'raise builtins.TypeError: unsupported operand type(s) for //: '
                                             "'str' and 'bool'",
 'group triple-then-bad-row chunksize=2.0': 'raise builtins.TypeError: unsupported operand type(s) for //: '
                                            "'str' and 'float'",
 'group triple-then-bad-row chunksize=1.5': 'raise builtins.TypeError: unsupported operand type(s) for //: '
                                            "'str' and 'float'",
 'group triple-then-bad-row chunksize=0.0': 'raise builtins.ZeroDivisionError: float floor division by zero',
 'group triple-then-bad-row chunksize=inf': 'raise builtins.TypeError: unsupported operand type(s) for //: '
                                            "'str' and 'float'",
 'group triple-then-bad-row chunksize=np.int64(2)': "raise builtins.TypeError: ufunc 'floor_divide' not "
                                                    'supported for the input types, and the inputs could not '
                                                    'be safely coerced to any supported types according to '
                                                    "the casting rule ''safe''",
 'group triple-then-bad-row chunksize=np.int64(0)': "raise builtins.TypeError: ufunc 'floor_divide' not "
                                                    'supported for the input types, and the inputs could not '
                                                    'be safely coerced to any supported types according to '
                                                    "the casting rule ''safe''",
 'group triple-then-bad-row chunksize=np.float64(2)': "raise builtins.TypeError: ufunc 'floor_divide' not "
                                                      'supported for the input types, and the inputs could '
                                                      'not be safely coerced to any supported types '
                                                      "according to the casting rule ''safe''",
 'group triple-then-bad-row chunksize=Fraction(3,2)': 'raise builtins.TypeError: unsupported operand type(s) '
                                                      "for //: 'str' and 'Fraction'",
 'group triple-then-bad-row chunksize=None': 'raise builtins.TypeError: unsupported operand type(s) for //: '
                                             "'int' and 'NoneType'",
 "group triple-then-bad-row chunksize='a'": 'raise builtins.TypeError: unsupported operand type(s) for //: '
                                            "'int' and 'str'",
 'group triple-then-bad-row chunksize=[2]': 'raise builtins.TypeError: unsupported operand type(s) for //: '
                                            "'int' and 'list'",
 'group triple-then-bad-row chunksize=2j': 'raise builtins.TypeError: unsupported operand type(s) for //: '
                                           "'int' and 'complex'",
 'group bad-row-then-triple chunksize=1': 'raise builtins.TypeError: unsupported operand type(s) for //: '
                                          "'str' and 'int'",
 'group bad-row-then-triple chunksize=2': 'raise builtins.TypeError: unsupported operand type(s) for //: '
                                          "'str' and 'int'",
 'group bad-row-then-triple chunksize=3': 'raise builtins.TypeError: unsupported operand type(s) for //: '
                                          "'str' and 'int'",
 'group bad-row-then-triple chunksize=4': 'raise builtins.TypeError: unsupported operand type(s) for //: '
                                          "'str' and 'int'",
 'group bad-row-then-triple chunksize=6': 'raise builtins.TypeError: unsupported operand type(s) for //: '
                                          "'str' and 'int'",
 'group bad-row-then-triple chunksize=100': 'raise builtins.TypeError: unsupported operand type(s) for //: '
                                            "'str' and 'int'",
 'group bad-row-then-triple chunksize=-1': 'raise builtins.TypeError: unsupported operand type(s) for //: '
                                           "'str' and 'int'",
 'group bad-row-then-triple chunksize=-2': 'raise builtins.TypeError: unsupported operand type(s) for //: '
                                           "'str' and 'int'",
 'group bad-row-then-triple chunksize=0': 'raise builtins.TypeError: unsupported operand type(s) for //: '
                                          "'str' and 'int'",
 'group bad-row-then-triple chunksize=True': 'raise builtins.TypeError: unsupported operand type(s) for //: '
                                             "'str' and 'bool'",
 'group bad-row-then-triple chunksize=2.0': 'raise builtins.TypeError: unsupported operand type(s) for //: '
                                            "'str' and 'float'",
 'group bad-row-then-triple chunksize=1.5': 'raise builtins.TypeError: unsupported operand type(s) for //: '
                                            "'str' and 'float'",
 'group bad-row-then-triple chunksize=0.0': 'raise builtins.TypeError: unsupported operand type(s) for //: '
                                            "'str' and 'float'",
 'group bad-row-then-triple chunksize=inf': 'raise builtins.TypeError: unsupported operand type(s) for //: '
                                            "'str' and 'float'",
 'group bad-row-then-triple chunksize=np.int64(2)': "raise builtins.TypeError: ufunc 'floor_divide' not "
                                                    'supported for the input types, and the inputs could not '
                                                    'be safely coerced to any supported types according to '
                                                    "the casting rule ''safe''",
 'group bad-row-then-triple chunksize=np.int64(0)': "raise builtins.TypeError: ufunc 'floor_divide' not "
                                                    'supported for the input types, and the inputs could not '
                                                    'be safely coerced to any supported types according to '
                                                    "the casting rule ''safe''",
 'group bad-row-then-triple chunksize=np.float64(2)': "raise builtins.TypeError: ufunc 'floor_divide' not "
                                                      'supported for the input types, and the inputs could '
                                                      'not be safely coerced to any supported types '
                                                      "according to the casting rule ''safe''",
 'group bad-row-then-triple chunksize=Fraction(3,2)': 'raise builtins.TypeError: unsupported operand type(s) '
                                                      "for //: 'str' and 'Fraction'",
 'group bad-row-then-triple chunksize=None': 'raise builtins.TypeError: unsupported operand type(s) for //: '
                                             "'str' and 'NoneType'",
 "group bad-row-then-triple chunksize='a'": 'raise builtins.TypeError: unsupported operand type(s) for //: '
                                            "'str' and 'str'",
 'group bad-row-then-triple chunksize=[2]': 'raise builtins.TypeError: unsupported operand type(s) for //: '
                                            "'str' and 'list'",
 'group bad-row-then-triple chunksize=2j': 'raise builtins.TypeError: unsupported operand type(s) for //: '
                                           "'str' and 'complex'",
 'group bad-row-last chunksize=1': "raise builtins.TypeError: unsupported operand type(s) for //: 'NoneType' "
                                   "and 'int'",
 'group bad-row-last chunksize=2': "raise builtins.TypeError: unsupported operand type(s) for //: 'NoneType' "
                                   "and 'int'",
 'group bad-row-last chunksize=3': "raise builtins.TypeError: unsupported operand type(s) for //: 'NoneType' "
                                   "and 'int'",
 'group bad-row-last chunksize=4': "raise builtins.TypeError: unsupported operand type(s) for //: 'NoneType' "
                                   "and 'int'",
 'group bad-row-last chunksize=6': "raise builtins.TypeError: unsupported operand type(s) for //: 'NoneType' "
                                   "and 'int'",
 'group bad-row-last chunksize=100': 'raise builtins.TypeError: unsupported operand type(s) for //: '
                                     "'NoneType' and 'int'",
 'group bad-row-last chunksize=-1': 'raise builtins.TypeError: unsupported operand type(s) for //: '
                                    "'NoneType' and 'int'",
 'group bad-row-last chunksize=-2': 'raise builtins.TypeError: unsupported operand type(s) for //: '
                                    "'NoneType' and 'int'",
 'group bad-row-last chunksize=0': 'raise builtins.ZeroDivisionError: integer division or modulo by zero',
 'group bad-row-last chunksize=True': 'raise builtins.TypeError: unsupported operand type(s) for //: '
                                      "'NoneType' and 'bool'",
 'group bad-row-last chunksize=2.0': 'raise builtins.TypeError: unsupported operand type(s) for //: '
                                     "'NoneType' and 'float'",
 'group bad-row-last chunksize=1.5': 'raise builtins.TypeError: unsupported operand type(s) for //: '
                                     "'NoneType' and 'float'",
 'group bad-row-last chunksize=0.0': 'raise builtins.ZeroDivisionError: float floor division by zero',
 'group bad-row-last chunksize=inf': 'raise builtins.TypeError: unsupported operand type(s) for //: '
                                     "'NoneType' and 'float'",
 'group bad-row-last chunksize=np.int64(2)': 'raise builtins.TypeError: unsupported operand type(s) for //: '
                                             "'NoneType' and 'int'",
 'group bad-row-last chunksize=np.int64(0)': 'raise builtins.TypeError: unsupported operand type(s) for //: '
                                             "'NoneType' and 'int'",
 'group bad-row-last chunksize=np.float64(2)': 'raise builtins.TypeError: unsupported operand type(s) for '
                                               "//: 'NoneType' and 'float'",
 'group bad-row-last chunksize=Fraction(3,2)': 'raise builtins.TypeError: unsupported operand type(s) for '
                                               "//: 'NoneType' and 'Fraction'",
 'group bad-row-last chunksize=None': "raise builtins.TypeError: unsupported operand type(s) for //: 'int' "
                                      "and 'NoneType'",
 "group bad-row-last chunksize='a'": "raise builtins.TypeError: unsupported operand type(s) for //: 'int' "
                                     "and 'str'",
 'group bad-row-last chunksize=[2]': "raise builtins.TypeError: unsupported operand type(s) for //: 'int' "
                                     "and 'list'",
 'group bad-row-last chunksize=2j': "raise builtins.TypeError: unsupported operand type(s) for //: 'int' and "
                                    "'complex'",
 'group str-items chunksize=1': "raise builtins.TypeError: unsupported operand type(s) for //: 'str' and "
                                "'int'",
 'group str-items chunksize=2': "raise builtins.TypeError: unsupported operand type(s) for //: 'str' and "
                                "'int'",
 'group str-items chunksize=3': "raise builtins.TypeError: unsupported operand type(s) for //: 'str' and "
                                "'int'",
 'group str-items chunksize=4': "raise builtins.TypeError: unsupported operand type(s) for //: 'str' and "
                                "'int'",
 'group str-items chunksize=6': "raise builtins.TypeError: unsupported operand type(s) for //: 'str' and "
                                "'int'",
 'group str-items chunksize=100': "raise builtins.TypeError: unsupported operand type(s) for //: 'str' and "
                                  "'int'",
 'group str-items chunksize=-1': "raise builtins.TypeError: unsupported operand type(s) for //: 'str' and "
                                 "'int'",
 'group str-items chunksize=-2': "raise builtins.TypeError: unsupported operand type(s) for //: 'str' and "
                                 "'int'",
 'group str-items chunksize=0': "raise builtins.TypeError: unsupported operand type(s) for //: 'str' and "
                                "'int'",
 'group str-items chunksize=True': "raise builtins.TypeError: unsupported operand type(s) for //: 'str' and "
                                   "'bool'",
 'group str-items chunksize=2.0': "raise builtins.TypeError: unsupported operand type(s) for //: 'str' and "
                                  "'float'",
 'group str-items chunksize=1.5': "raise builtins.TypeError: unsupported operand type(s) for //: 'str' and "
                                  "'float'",
 'group str-items chunksize=0.0': "raise builtins.TypeError: unsupported operand type(s) for //: 'str' and "
                                  "'float'",
 'group str-items chunksize=inf': "raise builtins.TypeError: unsupported operand type(s) for //: 'str' and "
                                  "'float'",
 'group str-items chunksize=np.int64(2)': "raise builtins.TypeError: ufunc 'floor_divide' not supported for "
                                          'the input types, and the inputs could not be safely coerced to '
                                          "any supported types according to the casting rule ''safe''",
 'group str-items chunksize=np.int64(0)': "raise builtins.TypeError: ufunc 'floor_divide' not supported for "
                                          'the input types, and the inputs could not be safely coerced to '
                                          "any supported types according to the casting rule ''safe''",
 'group str-items chunksize=np.float64(2)': "raise builtins.TypeError: ufunc 'floor_divide' not supported "
                                            'for the input types, and the inputs could not be safely coerced '
                                            "to any supported types according to the casting rule ''safe''",
 'group str-items chunksize=Fraction(3,2)': 'raise builtins.TypeError: unsupported operand type(s) for //: '
                                            "'str' and 'Fraction'",
 'group str-items chunksize=None': "raise builtins.TypeError: unsupported operand type(s) for //: 'str' and "
                                   "'NoneType'",
 "group str-items chunksize='a'": "raise builtins.TypeError: unsupported operand type(s) for //: 'str' and "
                                  "'str'",
 'group str-items chunksize=[2]': "raise builtins.TypeError: unsupported operand type(s) for //: 'str' and "
                                  "'list'",
 'group str-items chunksize=2j': "raise builtins.TypeError: unsupported operand type(s) for //: 'str' and "
                                 "'complex'",
 'group two-char-str-rows chunksize=1': "raise builtins.TypeError: unsupported operand type(s) for //: 'str' "
                                        "and 'int'",
 'group two-char-str-rows chunksize=2': "raise builtins.TypeError: unsupported operand type(s) for //: 'str' "
                                        "and 'int'",
 'group two-char-str-rows chunksize=3': "raise builtins.TypeError: unsupported operand type(s) for //: 'str' "
                                        "and 'int'",
 'group two-char-str-rows chunksize=4': "raise builtins.TypeError: unsupported operand type(s) for //: 'str' "
                                        "and 'int'",
 'group two-char-str-rows chunksize=6': "raise builtins.TypeError: unsupported operand type(s) for //: 'str' "
                                        "and 'int'",
 'group two-char-str-rows chunksize=100': 'raise builtins.TypeError: unsupported operand type(s) for //: '
                                          "'str' and 'int'",
 'group two-char-str-rows chunksize=-1': 'raise builtins.TypeError: unsupported operand type(s) for //: '
                                         "'str' and 'int'",
 'group two-char-str-rows chunksize=-2': 'raise builtins.TypeError: unsupported operand type(s) for //: '
                                         "'str' and 'int'",
 'group two-char-str-rows chunksize=0': "raise builtins.TypeError: unsupported operand type(s) for //: 'str' "
                                        "and 'int'",
 'group two-char-str-rows chunksize=True': 'raise builtins.TypeError: unsupported operand type(s) for //: '
                                           "'str' and 'bool'",
 'group two-char-str-rows chunksize=2.0': 'raise builtins.TypeError: unsupported operand type(s) for //: '
                                          "'str' and 'float'",
 'group two-char-str-rows chunksize=1.5': 'raise builtins.TypeError: unsupported operand type(s) for //: '
                                          "'str' and 'float'",
 'group two-char-str-rows chunksize=0.0': 'raise builtins.TypeError: unsupported operand type(s) for //: '
                                          "'str' and 'float'",
 'group two-char-str-rows chunksize=inf': 'raise builtins.TypeError: unsupported operand type(s) for //: '
                                          "'str' and 'float'",
 'group two-char-str-rows chunksize=np.int64(2)': "raise builtins.TypeError: ufunc 'floor_divide' not "
                                                  'supported for the input types, and the inputs could not '
                                                  'be safely coerced to any supported types according to the '
                                                  "casting rule ''safe''",
 'group two-char-str-rows chunksize=np.int64(0)': "raise builtins.TypeError: ufunc 'floor_divide' not "
                                                  'supported for the input types, and the inputs could not '
                                                  'be safely coerced to any supported types according to the '
                                                  "casting rule ''safe''",
 'group two-char-str-rows chunksize=np.float64(2)': "raise builtins.TypeError: ufunc 'floor_divide' not "
                                                    'supported for the input types, and the inputs could not '
                                                    'be safely coerced to any supported types according to '
                                                    "the casting rule ''safe''",
 'group two-char-str-rows chunksize=Fraction(3,2)': 'raise builtins.TypeError: unsupported operand type(s) '
                                                    "for //: 'str' and 'Fraction'",
 'group two-char-str-rows chunksize=None': 'raise builtins.TypeError: unsupported operand type(s) for //: '
                                           "'str' and 'NoneType'",
 "group two-char-str-rows chunksize='a'": 'raise builtins.TypeError: unsupported operand type(s) for //: '
                                          "'str' and 'str'",
 'group two-char-str-rows chunksize=[2]': 'raise builtins.TypeError: unsupported operand type(s) for //: '
                                          "'str' and 'list'",
 'group two-char-str-rows chunksize=2j': 'raise builtins.TypeError: unsupported operand type(s) for //: '
                                         "'str' and 'complex'",
 'group ints chunksize=1': "raise builtins.TypeError: 'int' object is not subscriptable",
 'group ints chunksize=2': "raise builtins.TypeError: 'int' object is not subscriptable",
 'group ints chunksize=3': "raise builtins.TypeError: 'int' object is not subscriptable",
 'group ints chunksize=4': "raise builtins.TypeError: 'int' object is not subscriptable",
 'group ints chunksize=6': "raise builtins.TypeError: 'int' object is not subscriptable",
 'group ints chunksize=100': "raise builtins.TypeError: 'int' object is not subscriptable",
 'group ints chunksize=-1': "raise builtins.TypeError: 'int' object is not subscriptable",
 'group ints chunksize=-2': "raise builtins.TypeError: 'int' object is not subscriptable",
 'group ints chunksize=0': "raise builtins.TypeError: 'int' object is not subscriptable",
 'group ints chunksize=True': "raise builtins.TypeError: 'int' object is not subscriptable",
 'group ints chunksize=2.0': "raise builtins.TypeError: 'int' object is not subscriptable",
 'group ints chunksize=1.5': "raise builtins.TypeError: 'int' object is not subscriptable",
 'group ints chunksize=0.0': "raise builtins.TypeError: 'int' object is not subscriptable",
 'group ints chunksize=inf': "raise builtins.TypeError: 'int' object is not subscriptable",
 'group ints chunksize=np.int64(2)': "raise builtins.TypeError: 'int' object is not subscriptable",
 'group ints chunksize=np.int64(0)': "raise builtins.TypeError: 'int' object is not subscriptable",
 'group ints chunksize=np.float64(2)': "raise builtins.TypeError: 'int' object is not subscriptable",
 'group ints chunksize=Fraction(3,2)': "raise builtins.TypeError: 'int' object is not subscriptable",
 'group ints chunksize=None': "raise builtins.TypeError: 'int' object is not subscriptable",
 "group ints chunksize='a'": "raise builtins.TypeError: 'int' object is not subscriptable",
 'group ints chunksize=[2]': "raise builtins.TypeError: 'int' object is not subscriptable",
 'group ints chunksize=2j': "raise builtins.TypeError: 'int' object is not subscriptable",
 'group none-item chunksize=1': "raise builtins.TypeError: 'NoneType' object is not subscriptable",
 'group none-item chunksize=2': "raise builtins.TypeError: 'NoneType' object is not subscriptable",
 'group none-item chunksize=3': "raise builtins.TypeError: 'NoneType' object is not subscriptable",
 'group none-item chunksize=4': "raise builtins.TypeError: 'NoneType' object is not subscriptable",
 'group none-item chunksize=6': "raise builtins.TypeError: 'NoneType' object is not subscriptable",
 'group none-item chunksize=100': "raise builtins.TypeError: 'NoneType' object is not subscriptable",
 'group none-item chunksize=-1': "raise builtins.TypeError: 'NoneType' object is not subscriptable",
 'group none-item chunksize=-2': "raise builtins.TypeError: 'NoneType' object is not subscriptable",
 'group none-item chunksize=0': 'raise builtins.ZeroDivisionError: integer division or modulo by zero',
 'group none-item chunksize=True': "raise builtins.TypeError: 'NoneType' object is not subscriptable",
 'group none-item chunksize=2.0': "raise builtins.TypeError: 'NoneType' object is not subscriptable",
 'group none-item chunksize=1.5': "raise builtins.TypeError: 'NoneType' object is not subscriptable",
 'group none-item chunksize=0.0': 'raise builtins.ZeroDivisionError: float floor division by zero',
 'group none-item chunksize=inf': "raise builtins.TypeError: 'NoneType' object is not subscriptable",
 'group none-item chunksize=np.int64(2)': "raise builtins.TypeError: 'NoneType' object is not subscriptable",
 'group none-item chunksize=np.int64(0)': "raise builtins.TypeError: 'NoneType' object is not subscriptable",
 'group none-item chunksize=np.float64(2)': "raise builtins.TypeError: 'NoneType' object is not "
                                            'subscriptable',
 'group none-item chunksize=Fraction(3,2)': "raise builtins.TypeError: 'NoneType' object is not "
                                            'subscriptable',
 'group none-item chunksize=None': "raise builtins.TypeError: unsupported operand type(s) for //: 'int' and "
                                   "'NoneType'",
 "group none-item chunksize='a'": "raise builtins.TypeError: unsupported operand type(s) for //: 'int' and "
                                  "'str'",
 'group none-item chunksize=[2]': "raise builtins.TypeError: unsupported operand type(s) for //: 'int' and "
                                  "'list'",
 'group none-item chunksize=2j': "raise builtins.TypeError: unsupported operand type(s) for //: 'int' and "
                                 "'complex'",
 'group empty-items chunksize=1': 'raise builtins.IndexError: tuple index out of range',
 'group empty-items chunksize=2': 'raise builtins.IndexError: tuple index out of range',
 'group empty-items chunksize=3': 'raise builtins.IndexError: tuple index out of range',
 'group empty-items chunksize=4': 'raise builtins.IndexError: tuple index out of range',
 'group empty-items chunksize=6': 'raise builtins.IndexError: tuple index out of range',
 'group empty-items chunksize=100': 'raise builtins.IndexError: tuple index out of range',
 'group empty-items chunksize=-1': 'raise builtins.IndexError: tuple index out of range',
 'group empty-items chunksize=-2': 'raise builtins.IndexError: tuple index out of range',
 'group empty-items chunksize=0': 'raise builtins.IndexError: tuple index out of range',
 'group empty-items chunksize=True': 'raise builtins.IndexError: tuple index out of range',
 'group empty-items chunksize=2.0': 'raise builtins.IndexError: tuple index out of range',
 'group empty-items chunksize=1.5': 'raise builtins.IndexError: tuple index out of range',
 'group empty-items chunksize=0.0': 'raise builtins.IndexError: tuple index out of range',
 'group empty-items chunksize=inf': 'raise builtins.IndexError: tuple index out of range',
 'group empty-items chunksize=np.int64(2)': 'raise builtins.IndexError: tuple index out of range',
 'group empty-items chunksize=np.int64(0)': 'raise builtins.IndexError: tuple index out of range',
 'group empty-items chunksize=np.float64(2)': 'raise builtins.IndexError: tuple index out of range',
 'group empty-items chunksize=Fraction(3,2)': 'raise builtins.IndexError: tuple index out of range',
 'group empty-items chunksize=None': 'raise builtins.IndexError: tuple index out of range',
 "group empty-items chunksize='a'": 'raise builtins.IndexError: tuple index out of range',
 'group empty-items chunksize=[2]': 'raise builtins.IndexError: tuple index out of range',
 'group empty-items chunksize=2j': 'raise builtins.IndexError: tuple index out of range',
 'group unhashable-key chunksize=1': "raise builtins.TypeError: unhashable type: 'numpy.ndarray'",
 'group unhashable-key chunksize=2': "raise builtins.TypeError: unhashable type: 'numpy.ndarray'",
 'group unhashable-key chunksize=3': "raise builtins.TypeError: unhashable type: 'numpy.ndarray'",
 'group unhashable-key chunksize=4': "raise builtins.TypeError: unhashable type: 'numpy.ndarray'",
 'group unhashable-key chunksize=6': "raise builtins.TypeError: unhashable type: 'numpy.ndarray'",
 'group unhashable-key chunksize=100': "raise builtins.TypeError: unhashable type: 'numpy.ndarray'",
 'group unhashable-key chunksize=-1': "raise builtins.TypeError: unhashable type: 'numpy.ndarray'",
 'group unhashable-key chunksize=-2': "raise builtins.TypeError: unhashable type: 'numpy.ndarray'",
 'group unhashable-key chunksize=0': "raise builtins.TypeError: unhashable type: 'numpy.ndarray'",
 'group unhashable-key chunksize=True': "raise builtins.TypeError: unhashable type: 'numpy.ndarray'",
 'group unhashable-key chunksize=2.0': "raise builtins.TypeError: unhashable type: 'numpy.ndarray'",
 'group unhashable-key chunksize=1.5': "raise builtins.TypeError: unhashable type: 'numpy.ndarray'",
 'group unhashable-key chunksize=0.0': "raise builtins.TypeError: unhashable type: 'numpy.ndarray'",
 'group unhashable-key chunksize=inf': "raise builtins.TypeError: unhashable type: 'numpy.ndarray'",
 'group unhashable-key chunksize=np.int64(2)': "raise builtins.TypeError: unhashable type: 'numpy.ndarray'",
 'group unhashable-key chunksize=np.int64(0)': "raise builtins.TypeError: unhashable type: 'numpy.ndarray'",
 'group unhashable-key chunksize=np.float64(2)': "raise builtins.TypeError: unhashable type: 'numpy.ndarray'",
 'group unhashable-key chunksize=Fraction(3,2)': "raise builtins.TypeError: unhashable type: 'numpy.ndarray'",
 'group unhashable-key chunksize=None': "raise builtins.TypeError: unsupported operand type(s) for //: 'int' "
                                        "and 'NoneType'",
 "group unhashable-key chunksize='a'": "raise builtins.TypeError: ufunc 'floor_divide' not supported for the "
                                       'input types, and the inputs could not be safely coerced to any '
                                       "supported types according to the casting rule ''safe''",
 'group unhashable-key chunksize=[2]': "raise builtins.TypeError: unhashable type: 'numpy.ndarray'",
 'group unhashable-key chunksize=2j': "raise builtins.TypeError: ufunc 'floor_divide' not supported for the "
                                      'input types, and the inputs could not be safely coerced to any '
                                      "supported types according to the casting rule ''safe''",
 'group list-row chunksize=1': "raise builtins.TypeError: unsupported operand type(s) for //: 'list' and "
                               "'int'",
 'group list-row chunksize=2': "raise builtins.TypeError: unsupported operand type(s) for //: 'list' and "
                               "'int'",
 'group list-row chunksize=3': "raise builtins.TypeError: unsupported operand type(s) for //: 'list' and "
                               "'int'",
 'group list-row chunksize=4': "raise builtins.TypeError: unsupported operand type(s) for //: 'list' and "
                               "'int'",
 'group list-row chunksize=6': "raise builtins.TypeError: unsupported operand type(s) for //: 'list' and "
                               "'int'",
 'group list-row chunksize=100': "raise builtins.TypeError: unsupported operand type(s) for //: 'list' and "
                                 "'int'",
 'group list-row chunksize=-1': "raise builtins.TypeError: unsupported operand type(s) for //: 'list' and "
                                "'int'",
 'group list-row chunksize=-2': "raise builtins.TypeError: unsupported operand type(s) for //: 'list' and "
                                "'int'",
 'group list-row chunksize=0': "raise builtins.TypeError: unsupported operand type(s) for //: 'list' and "
                               "'int'",
 'group list-row chunksize=True': "raise builtins.TypeError: unsupported operand type(s) for //: 'list' and "
                                  "'bool'",
 'group list-row chunksize=2.0': "raise builtins.TypeError: unsupported operand type(s) for //: 'list' and "
                                 "'float'",
 'group list-row chunksize=1.5': "raise builtins.TypeError: unsupported operand type(s) for //: 'list' and "
                                 "'float'",
 'group list-row chunksize=0.0': "raise builtins.TypeError: unsupported operand type(s) for //: 'list' and "
                                 "'float'",
 'group list-row chunksize=inf': "raise builtins.TypeError: unsupported operand type(s) for //: 'list' and "
                                 "'float'",
 'group list-row chunksize=np.int64(2)': "raise builtins.TypeError: unhashable type: 'numpy.ndarray'",
 'group list-row chunksize=np.int64(0)': "raise builtins.TypeError: unhashable type: 'numpy.ndarray'",
 'group list-row chunksize=np.float64(2)': "raise builtins.TypeError: unhashable type: 'numpy.ndarray'",
 'group list-row chunksize=Fraction(3,2)': 'raise builtins.TypeError: unsupported operand type(s) for //: '
                                           "'list' and 'Fraction'",
 'group list-row chunksize=None': "raise builtins.TypeError: unsupported operand type(s) for //: 'list' and "
                                  "'NoneType'",
 "group list-row chunksize='a'": "raise builtins.TypeError: unsupported operand type(s) for //: 'list' and "
                                 "'str'",
 'group list-row chunksize=[2]': "raise builtins.TypeError: unsupported operand type(s) for //: 'list' and "
                                 "'list'",
 'group list-row chunksize=2j': "raise builtins.TypeError: unsupported operand type(s) for //: 'list' and "
                                "'complex'",
 'group dict-item chunksize=1': 'dict{int:5: list(int:1)}',
 'group dict-item chunksize=2': 'dict{int:2: list(int:1)}',
 'group dict-item chunksize=3': 'dict{int:1: list(int:1)}',
 'group dict-item chunksize=4': 'dict{int:1: list(int:1)}',
 'group dict-item chunksize=6': 'dict{int:0: list(int:1)}',
 'group dict-item chunksize=100': 'dict{int:0: list(int:1)}',
 'group dict-item chunksize=-1': 'dict{int:-5: list(int:1)}',
 'group dict-item chunksize=-2': 'dict{int:-3: list(int:1)}',
 'group dict-item chunksize=0': 'raise builtins.ZeroDivisionError: integer division or modulo by zero',
 'group dict-item chunksize=True': 'dict{int:5: list(int:1)}',
 'group dict-item chunksize=2.0': 'dict{float:2.0: list(int:1)}',
 'group dict-item chunksize=1.5': 'dict{float:3.0: list(int:1)}',
 'group dict-item chunksize=0.0': 'raise builtins.ZeroDivisionError: float floor division by zero',
 'group dict-item chunksize=inf': 'dict{float:0.0: list(int:1)}',
 'group dict-item chunksize=np.int64(2)': 'dict{int64(2): list(int:1)}',
 'group dict-item chunksize=np.int64(0)': 'dict{int64(0): list(int:1)}',
 'group dict-item chunksize=np.float64(2)': 'dict{float64(2.0): list(int:1)}',
 'group dict-item chunksize=Fraction(3,2)': 'dict{int:3: list(int:1)}',
 'group dict-item chunksize=None': "raise builtins.TypeError: unsupported operand type(s) for //: 'int' and "
                                   "'NoneType'",
 "group dict-item chunksize='a'": "raise builtins.TypeError: unsupported operand type(s) for //: 'int' and "
                                  "'str'",
 'group dict-item chunksize=[2]': "raise builtins.TypeError: unsupported operand type(s) for //: 'int' and "
                                  "'list'",
 'group dict-item chunksize=2j': "raise builtins.TypeError: unsupported operand type(s) for //: 'int' and "
                                 "'complex'",
 'group nested-values chunksize=1': 'dict{int:0: list(list(int:1, int:2)), int:1: list(list(int:3, int:4)), '
                                    'int:2: list(list(int:5, int:6))}',
 'group nested-values chunksize=2': 'dict{int:0: list(list(int:1, int:2), list(int:3, int:4)), int:1: '
                                    'list(list(int:5, int:6))}',
 'group nested-values chunksize=3': 'dict{int:0: list(list(int:1, int:2), list(int:3, int:4), list(int:5, '
                                    'int:6))}',
 'group nested-values chunksize=4': 'dict{int:0: list(list(int:1, int:2), list(int:3, int:4), list(int:5, '
                                    'int:6))}',
 'group nested-values chunksize=6': 'dict{int:0: list(list(int:1, int:2), list(int:3, int:4), list(int:5, '
                                    'int:6))}',
 'group nested-values chunksize=100': 'dict{int:0: list(list(int:1, int:2), list(int:3, int:4), list(int:5, '
                                      'int:6))}',
 'group nested-values chunksize=-1': 'dict{int:0: list(list(int:1, int:2)), int:-1: list(list(int:3, '
                                     'int:4)), int:-2: list(list(int:5, int:6))}',
 'group nested-values chunksize=-2': 'dict{int:0: list(list(int:1, int:2)), int:-1: list(list(int:3, int:4), '
                                     'list(int:5, int:6))}',
 'group nested-values chunksize=0': 'raise builtins.ZeroDivisionError: integer division or modulo by zero',
 'group nested-values chunksize=True': 'dict{int:0: list(list(int:1, int:2)), int:1: list(list(int:3, '
                                       'int:4)), int:2: list(list(int:5, int:6))}',
 'group nested-values chunksize=2.0': 'dict{float:0.0: list(list(int:1, int:2), list(int:3, int:4)), '
                                      'float:1.0: list(list(int:5, int:6))}',
 'group nested-values chunksize=1.5': 'dict{float:0.0: list(list(int:1, int:2), list(int:3, int:4)), '
                                      'float:1.0: list(list(int:5, int:6))}',
 'group nested-values chunksize=0.0': 'raise builtins.ZeroDivisionError: float floor division by zero',
 'group nested-values chunksize=inf': 'dict{float:0.0: list(list(int:1, int:2), list(int:3, int:4), '
                                      'list(int:5, int:6))}',
 'group nested-values chunksize=np.int64(2)': 'dict{int64(0): list(list(int:1, int:2), list(int:3, int:4)), '
                                              'int64(1): list(list(int:5, int:6))}',
 'group nested-values chunksize=np.int64(0)': 'dict{int64(0): list(list(int:1, int:2), list(int:3, int:4), '
                                              'list(int:5, int:6))}',
 'group nested-values chunksize=np.float64(2)': 'dict{float64(0.0): list(list(int:1, int:2), list(int:3, '
                                                'int:4)), float64(1.0): list(list(int:5, int:6))}',
 'group nested-values chunksize=Fraction(3,2)': 'dict{int:0: list(list(int:1, int:2), list(int:3, int:4)), '
                                                'int:1: list(list(int:5, int:6))}',
 'group nested-values chunksize=None': "raise builtins.TypeError: unsupported operand type(s) for //: 'int' "
                                       "and 'NoneType'",
 "group nested-values chunksize='a'": "raise builtins.TypeError: unsupported operand type(s) for //: 'int' "
                                      "and 'str'",
 'group nested-values chunksize=[2]': "raise builtins.TypeError: unsupported operand type(s) for //: 'int' "
                                      "and 'list'",
 'group nested-values chunksize=2j': "raise builtins.TypeError: unsupported operand type(s) for //: 'int' "
                                     "and 'complex'",
 'group str chunksize=1': "raise builtins.TypeError: unsupported operand type(s) for //: 'str' and 'int'",
 'group str chunksize=2': "raise builtins.TypeError: unsupported operand type(s) for //: 'str' and 'int'",
 'group str chunksize=3': "raise builtins.TypeError: unsupported operand type(s) for //: 'str' and 'int'",
 'group str chunksize=4': "raise builtins.TypeError: unsupported operand type(s) for //: 'str' and 'int'",
 'group str chunksize=6': "raise builtins.TypeError: unsupported operand type(s) for //: 'str' and 'int'",
 'group str chunksize=100': "raise builtins.TypeError: unsupported operand type(s) for //: 'str' and 'int'",
 'group str chunksize=-1': "raise builtins.TypeError: unsupported operand type(s) for //: 'str' and 'int'",
 'group str chunksize=-2': "raise builtins.TypeError: unsupported operand type(s) for //: 'str' and 'int'",
 'group str chunksize=0': "raise builtins.TypeError: unsupported operand type(s) for //: 'str' and 'int'",
 'group str chunksize=True': "raise builtins.TypeError: unsupported operand type(s) for //: 'str' and 'bool'",
 'group str chunksize=2.0': "raise builtins.TypeError: unsupported operand type(s) for //: 'str' and 'float'",
 'group str chunksize=1.5': "raise builtins.TypeError: unsupported operand type(s) for //: 'str' and 'float'",
 'group str chunksize=0.0': "raise builtins.TypeError: unsupported operand type(s) for //: 'str' and 'float'",
 'group str chunksize=inf': "raise builtins.TypeError: unsupported operand type(s) for //: 'str' and 'float'",
 'group str chunksize=np.int64(2)': "raise builtins.TypeError: ufunc 'floor_divide' not supported for the "
                                    'input types, and the inputs could not be safely coerced to any '
                                    "supported types according to the casting rule ''safe''",
 'group str chunksize=np.int64(0)': "raise builtins.TypeError: ufunc 'floor_divide' not supported for the "
                                    'input types, and the inputs could not be safely coerced to any '
                                    "supported types according to the casting rule ''safe''",
 'group str chunksize=np.float64(2)': "raise builtins.TypeError: ufunc 'floor_divide' not supported for the "
                                      'input types, and the inputs could not be safely coerced to any '
                                      "supported types according to the casting rule ''safe''",
 'group str chunksize=Fraction(3,2)': "raise builtins.TypeError: unsupported operand type(s) for //: 'str' "
                                      "and 'Fraction'",
 'group str chunksize=None': "raise builtins.TypeError: unsupported operand type(s) for //: 'str' and "
                             "'NoneType'",
 "group str chunksize='a'": "raise builtins.TypeError: unsupported operand type(s) for //: 'str' and 'str'",
 'group str chunksize=[2]': "raise builtins.TypeError: unsupported operand type(s) for //: 'str' and 'list'",
 'group str chunksize=2j': "raise builtins.TypeError: unsupported operand type(s) for //: 'str' and "
                           "'complex'",
 'group None chunksize=1': "raise builtins.TypeError: 'NoneType' object is not iterable",
 'group None chunksize=2': "raise builtins.TypeError: 'NoneType' object is not iterable",
 'group None chunksize=3': "raise builtins.TypeError: 'NoneType' object is not iterable",
 'group None chunksize=4': "raise builtins.TypeError: 'NoneType' object is not iterable",
 'group None chunksize=6': "raise builtins.TypeError: 'NoneType' object is not iterable",
 'group None chunksize=100': "raise builtins.TypeError: 'NoneType' object is not iterable",
 'group None chunksize=-1': "raise builtins.TypeError: 'NoneType' object is not iterable",
 'group None chunksize=-2': "raise builtins.TypeError: 'NoneType' object is not iterable",
 'group None chunksize=0': "raise builtins.TypeError: 'NoneType' object is not iterable",
 'group None chunksize=True': "raise builtins.TypeError: 'NoneType' object is not iterable",
 'group None chunksize=2.0': "raise builtins.TypeError: 'NoneType' object is not iterable",
 'group None chunksize=1.5': "raise builtins.TypeError: 'NoneType' object is not iterable",
 'group None chunksize=0.0': "raise builtins.TypeError: 'NoneType' object is not iterable",
 'group None chunksize=inf': "raise builtins.TypeError: 'NoneType' object is not iterable",
 'group None chunksize=np.int64(2)': "raise builtins.TypeError: 'NoneType' object is not iterable",
 'group None chunksize=np.int64(0)': "raise builtins.TypeError: 'NoneType' object is not iterable",
 'group None chunksize=np.float64(2)': "raise builtins.TypeError: 'NoneType' object is not iterable",
 'group None chunksize=Fraction(3,2)': "raise builtins.TypeError: 'NoneType' object is not iterable",
 'group None chunksize=None': "raise builtins.TypeError: 'NoneType' object is not iterable",
 "group None chunksize='a'": "raise builtins.TypeError: 'NoneType' object is not iterable",
 'group None chunksize=[2]': "raise builtins.TypeError: 'NoneType' object is not iterable",
 'group None chunksize=2j': "raise builtins.TypeError: 'NoneType' object is not iterable",
 'group int chunksize=1': "raise builtins.TypeError: 'int' object is not iterable",
 'group int chunksize=2': "raise builtins.TypeError: 'int' object is not iterable",
 'group int chunksize=3': "raise builtins.TypeError: 'int' object is not iterable",
 'group int chunksize=4': "raise builtins.TypeError: 'int' object is not iterable",
 'group int chunksize=6': "raise builtins.TypeError: 'int' object is not iterable",
 'group int chunksize=100': "raise builtins.TypeError: 'int' object is not iterable",
 'group int chunksize=-1': "raise builtins.TypeError: 'int' object is not iterable",
 'group int chunksize=-2': "raise builtins.TypeError: 'int' object is not iterable",
 'group int chunksize=0': "raise builtins.TypeError: 'int' object is not iterable",
 'group int chunksize=True': "raise builtins.TypeError: 'int' object is not iterable",
 'group int chunksize=2.0': "raise builtins.TypeError: 'int' object is not iterable",
 'group int chunksize=1.5': "raise builtins.TypeError: 'int' object is not iterable",
 'group int chunksize=0.0': "raise builtins.TypeError: 'int' object is not iterable",
 'group int chunksize=inf': "raise builtins.TypeError: 'int' object is not iterable",
 'group int chunksize=np.int64(2)': "raise builtins.TypeError: 'int' object is not iterable",
 'group int chunksize=np.int64(0)': "raise builtins.TypeError: 'int' object is not iterable",
 'group int chunksize=np.float64(2)': "raise builtins.TypeError: 'int' object is not iterable",
 'group int chunksize=Fraction(3,2)': "raise builtins.TypeError: 'int' object is not iterable",
 'group int chunksize=None': "raise builtins.TypeError: 'int' object is not iterable",
 "group int chunksize='a'": "raise builtins.TypeError: 'int' object is not iterable",
 'group int chunksize=[2]': "raise builtins.TypeError: 'int' object is not iterable",
 'group int chunksize=2j': "raise builtins.TypeError: 'int' object is not iterable",
 'inputs untouched': 'tuple(list(tuple(int:0, int:3), tuple(int:5, int:8), tuple(int:16, int:19)), '
                     'list(int:2, int:0), list(tuple(int:0, tuple(int:0, int:3)), tuple(int:1, tuple(int:5, '
                     'int:8)), tuple(int:2, tuple(int:16, int:19))))',
 'identity': "([True, True, True], [True, True, True], 'list', ['tuple', 'tuple', 'tuple'], 'dict', ['list', "
             "'list'])",
 'combined [all] chunksize=1': 'dict{int:0: list(tuple(int:0, int:3)), int:1: list(tuple(int:5, int:8)), '
                               'int:2: list(tuple(int:16, int:19)), int:3: list(tuple(int:22, int:25))}',
 'combined [all] chunksize=2': 'dict{int:0: list(tuple(int:0, int:3), tuple(int:5, int:8)), int:1: '
                               'list(tuple(int:16, int:19), tuple(int:22, int:25))}',
 'combined [all] chunksize=3': 'dict{int:0: list(tuple(int:0, int:3), tuple(int:5, int:8), tuple(int:16, '
                               'int:19)), int:1: list(tuple(int:22, int:25))}',
 'combined [all] chunksize=4': 'dict{int:0: list(tuple(int:0, int:3), tuple(int:5, int:8), tuple(int:16, '
                               'int:19), tuple(int:22, int:25))}',
 'combined [all] chunksize=5': 'dict{int:0: list(tuple(int:0, int:3), tuple(int:5, int:8), tuple(int:16, '
                               'int:19), tuple(int:22, int:25))}',
 'combined [::-1] chunksize=1': 'dict{int:3: list(tuple(int:22, int:25)), int:2: list(tuple(int:16, '
                                'int:19)), int:1: list(tuple(int:5, int:8)), int:0: list(tuple(int:0, '
                                'int:3))}',
 'combined [::-1] chunksize=2': 'dict{int:1: list(tuple(int:22, int:25), tuple(int:16, int:19)), int:0: '
                                'list(tuple(int:5, int:8), tuple(int:0, int:3))}',
 'combined [::-1] chunksize=3': 'dict{int:1: list(tuple(int:22, int:25)), int:0: list(tuple(int:16, int:19), '
                                'tuple(int:5, int:8), tuple(int:0, int:3))}',
 'combined [::-1] chunksize=4': 'dict{int:0: list(tuple(int:22, int:25), tuple(int:16, int:19), tuple(int:5, '
                                'int:8), tuple(int:0, int:3))}',
 'combined [::-1] chunksize=5': 'dict{int:0: list(tuple(int:22, int:25), tuple(int:16, int:19), tuple(int:5, '
                                'int:8), tuple(int:0, int:3))}',
 'combined [1::2] chunksize=1': 'dict{int:1: list(tuple(int:5, int:8)), int:3: list(tuple(int:22, int:25))}',
 'combined [1::2] chunksize=2': 'dict{int:0: list(tuple(int:5, int:8)), int:1: list(tuple(int:22, int:25))}',
 'combined [1::2] chunksize=3': 'dict{int:0: list(tuple(int:5, int:8)), int:1: list(tuple(int:22, int:25))}',
 'combined [1::2] chunksize=4': 'dict{int:0: list(tuple(int:5, int:8), tuple(int:22, int:25))}',
 'combined [1::2] chunksize=5': 'dict{int:0: list(tuple(int:5, int:8), tuple(int:22, int:25))}',
 'combined [[3,1,1,0]] chunksize=1': 'dict{int:3: list(tuple(int:22, int:25)), int:1: list(tuple(int:5, '
                                     'int:8), tuple(int:5, int:8)), int:0: list(tuple(int:0, int:3))}',
 'combined [[3,1,1,0]] chunksize=2': 'dict{int:1: list(tuple(int:22, int:25)), int:0: list(tuple(int:5, '
                                     'int:8), tuple(int:5, int:8), tuple(int:0, int:3))}',
 'combined [[3,1,1,0]] chunksize=3': 'dict{int:1: list(tuple(int:22, int:25)), int:0: list(tuple(int:5, '
                                     'int:8), tuple(int:5, int:8), tuple(int:0, int:3))}',
 'combined [[3,1,1,0]] chunksize=4': 'dict{int:0: list(tuple(int:22, int:25), tuple(int:5, int:8), '
                                     'tuple(int:5, int:8), tuple(int:0, int:3))}',
 'combined [[3,1,1,0]] chunksize=5': 'dict{int:0: list(tuple(int:22, int:25), tuple(int:5, int:8), '
                                     'tuple(int:5, int:8), tuple(int:0, int:3))}',
 'combined [-1] chunksize=1': 'dict{int:3: list(tuple(int:22, int:25))}',
 'combined [-1] chunksize=2': 'dict{int:1: list(tuple(int:22, int:25))}',
 'combined [-1] chunksize=3': 'dict{int:1: list(tuple(int:22, int:25))}',
 'combined [-1] chunksize=4': 'dict{int:0: list(tuple(int:22, int:25))}',
 'combined [-1] chunksize=5': 'dict{int:0: list(tuple(int:22, int:25))}',
 'combined [0:0] chunksize=1': 'dict{}',
 'combined [0:0] chunksize=2': 'dict{}',
 'combined [0:0] chunksize=3': 'dict{}',
 'combined [0:0] chunksize=4': 'dict{}',
 'combined [0:0] chunksize=5': 'dict{}',
 'combined [[]] chunksize=1': 'dict{}',
 'combined [[]] chunksize=2': 'dict{}',
 'combined [[]] chunksize=3': 'dict{}',
 'combined [[]] chunksize=4': 'dict{}',
 'combined [[]] chunksize=5': 'dict{}',
 'combined [array[2,0]] chunksize=1': 'dict{int:2: list(tuple(int:16, int:19)), int:0: list(tuple(int:0, '
                                      'int:3))}',
 'combined [array[2,0]] chunksize=2': 'dict{int:1: list(tuple(int:16, int:19)), int:0: list(tuple(int:0, '
                                      'int:3))}',
 'combined [array[2,0]] chunksize=3': 'dict{int:0: list(tuple(int:16, int:19), tuple(int:0, int:3))}',
 'combined [array[2,0]] chunksize=4': 'dict{int:0: list(tuple(int:16, int:19), tuple(int:0, int:3))}',
 'combined [array[2,0]] chunksize=5': 'dict{int:0: list(tuple(int:16, int:19), tuple(int:0, int:3))}',
 'combined [[0,4]] chunksize=1': 'raise builtins.IndexError: list index out of range',
 'combined [[0,4]] chunksize=2': 'raise builtins.IndexError: list index out of range',
 'combined [[0,4]] chunksize=3': 'raise builtins.IndexError: list index out of range',
 'combined [[0,4]] chunksize=4': 'raise builtins.IndexError: list index out of range',
 'combined [[0,4]] chunksize=5': 'raise builtins.IndexError: list index out of range',
 'array rpc=None [0]': "ndarray[<u2(3,)][0, 7, 14] || io=[('open', ('image-file',), {'mode': 'rb'}), "
                       "'enter', ('seek', (12,), {}), ('read', (300,), {}), 'exit']",
 'array rpc=None [2]': "ndarray[<u2(3,)][40, 47, 54] || io=[('open', ('image-file',), {'mode': 'rb'}), "
                       "'enter', ('seek', (12,), {}), ('read', (300,), {}), 'exit']",
 'array rpc=None [-1]': "ndarray[<u2(3,)][100, 107, 114] || io=[('open', ('image-file',), {'mode': 'rb'}), "
                        "'enter', ('seek', (12,), {}), ('read', (300,), {}), 'exit']",
 'array rpc=None [-4]': "ndarray[<u2(3,)][40, 47, 54] || io=[('open', ('image-file',), {'mode': 'rb'}), "
                        "'enter', ('seek', (12,), {}), ('read', (300,), {}), 'exit']",
 'array rpc=None [4]': "ndarray[<u2(3,)][80, 87, 94] || io=[('open', ('image-file',), {'mode': 'rb'}), "
                       "'enter', ('seek', (12,), {}), ('read', (300,), {}), 'exit']",
 'array rpc=None [-5]': "ndarray[<u2(3,)][20, 27, 34] || io=[('open', ('image-file',), {'mode': 'rb'}), "
                        "'enter', ('seek', (12,), {}), ('read', (300,), {}), 'exit']",
 'array rpc=None [True]': "ndarray[<u2(3,)][20, 27, 34] || io=[('open', ('image-file',), {'mode': 'rb'}), "
                          "'enter', ('seek', (12,), {}), ('read', (300,), {}), 'exit']",
 'array rpc=None [False]': "ndarray[<u2(3,)][0, 7, 14] || io=[('open', ('image-file',), {'mode': 'rb'}), "
                           "'enter', ('seek', (12,), {}), ('read', (300,), {}), 'exit']",
 'array rpc=None [MyInt(1)]': "ndarray[<u2(3,)][20, 27, 34] || io=[('open', ('image-file',), {'mode': "
                              "'rb'}), 'enter', ('seek', (12,), {}), ('read', (300,), {}), 'exit']",
 'array rpc=None [np.int64(1)]': "raise builtins.TypeError: 'numpy.int64' object is not iterable || io=[]",
 'array rpc=None [np.uint8(3)]': "raise builtins.TypeError: 'numpy.uint8' object is not iterable || io=[]",
 'array rpc=None [np.bool(True)]': "raise builtins.TypeError: 'numpy.bool' object is not iterable || io=[]",
 'array rpc=None [Index(1)]': "raise builtins.TypeError: 'Index' object is not iterable || io=[]",
 'array rpc=None [1.0]': "raise builtins.TypeError: 'float' object is not iterable || io=[]",
 'array rpc=None [None]': "raise builtins.TypeError: 'NoneType' object is not iterable || io=[]",
 'array rpc=None [Ellipsis]': "raise builtins.TypeError: 'ellipsis' object is not iterable || io=[]",
 'array rpc=None [all]': 'ndarray[<u2(6, 3)][[0, 7, 14], [20, 27, 34], [40, 47, 54], [60, 67, 74], [80, 87, '
                         "94], [100, 107, 114]] || io=[('open', ('image-file',), {'mode': 'rb'}), 'enter', "
                         "('seek', (12,), {}), ('read', (300,), {}), 'exit']",
 'array rpc=None [0:1]': "ndarray[<u2(1, 3)][[0, 7, 14]] || io=[('open', ('image-file',), {'mode': 'rb'}), "
                         "'enter', ('seek', (12,), {}), ('read', (300,), {}), 'exit']",
 'array rpc=None [2:]': 'ndarray[<u2(4, 3)][[40, 47, 54], [60, 67, 74], [80, 87, 94], [100, 107, 114]] || '
                        "io=[('open', ('image-file',), {'mode': 'rb'}), 'enter', ('seek', (12,), {}), "
                        "('read', (300,), {}), 'exit']",
 'array rpc=None [:2]': "ndarray[<u2(2, 3)][[0, 7, 14], [20, 27, 34]] || io=[('open', ('image-file',), "
                        "{'mode': 'rb'}), 'enter', ('seek', (12,), {}), ('read', (300,), {}), 'exit']",
 'array rpc=None [-2:]': "ndarray[<u2(2, 3)][[80, 87, 94], [100, 107, 114]] || io=[('open', ('image-file',), "
                         "{'mode': 'rb'}), 'enter', ('seek', (12,), {}), ('read', (300,), {}), 'exit']",
 'array rpc=None [:-2]': 'ndarray[<u2(4, 3)][[0, 7, 14], [20, 27, 34], [40, 47, 54], [60, 67, 74]] || '
                         "io=[('open', ('image-file',), {'mode': 'rb'}), 'enter', ('seek', (12,), {}), "
                         "('read', (300,), {}), 'exit']",
 'array rpc=None [::2]': "ndarray[<u2(3, 3)][[0, 7, 14], [40, 47, 54], [80, 87, 94]] || io=[('open', "
                         "('image-file',), {'mode': 'rb'}), 'enter', ('seek', (12,), {}), ('read', (300,), "
                         "{}), 'exit']",
 'array rpc=None [1::2]': "ndarray[<u2(3, 3)][[20, 27, 34], [60, 67, 74], [100, 107, 114]] || io=[('open', "
                          "('image-file',), {'mode': 'rb'}), 'enter', ('seek', (12,), {}), ('read', (300,), "
                          "{}), 'exit']",
 'array rpc=None [::-1]': 'ndarray[<u2(6, 3)][[100, 107, 114], [80, 87, 94], [60, 67, 74], [40, 47, 54], '
                          "[20, 27, 34], [0, 7, 14]] || io=[('open', ('image-file',), {'mode': 'rb'}), "
                          "'enter', ('seek', (12,), {}), ('read', (300,), {}), 'exit']",
 'array rpc=None [-1::-2]': "ndarray[<u2(3, 3)][[100, 107, 114], [60, 67, 74], [20, 27, 34]] || io=[('open', "
                            "('image-file',), {'mode': 'rb'}), 'enter', ('seek', (12,), {}), ('read', "
                            "(300,), {}), 'exit']",
 'array rpc=None [3:0:-1]': "ndarray[<u2(3, 3)][[60, 67, 74], [40, 47, 54], [20, 27, 34]] || io=[('open', "
                            "('image-file',), {'mode': 'rb'}), 'enter', ('seek', (12,), {}), ('read', "
                            "(300,), {}), 'exit']",
 'array rpc=None [0:0]': "ndarray[<u2(0, 3)][] || io=[('open', ('image-file',), {'mode': 'rb'}), 'enter', "
                         "'exit']",
 'array rpc=None [3:1]': "ndarray[<u2(0, 3)][] || io=[('open', ('image-file',), {'mode': 'rb'}), 'enter', "
                         "'exit']",
 'array rpc=None [10:20]': "ndarray[<u2(0, 3)][] || io=[('open', ('image-file',), {'mode': 'rb'}), 'enter', "
                           "'exit']",
 'array rpc=None [-10:10]': 'ndarray[<u2(6, 3)][[0, 7, 14], [20, 27, 34], [40, 47, 54], [60, 67, 74], [80, '
                            "87, 94], [100, 107, 114]] || io=[('open', ('image-file',), {'mode': 'rb'}), "
                            "'enter', ('seek', (12,), {}), ('read', (300,), {}), 'exit']",
 'array rpc=None [::0]': 'raise builtins.ValueError: slice step cannot be zero || io=[]',
 'array rpc=None [1.5:]': 'raise builtins.TypeError: slice indices must be integers or None or have an '
                          '__index__ method || io=[]',
 "array rpc=None ['a':]": 'raise builtins.TypeError: slice indices must be integers or None or have an '
                          '__index__ method || io=[]',
 'array rpc=None [Index(1):Index(3)]': "ndarray[<u2(2, 3)][[20, 27, 34], [40, 47, 54]] || io=[('open', "
                                       "('image-file',), {'mode': 'rb'}), 'enter', ('seek', (12,), {}), "
                                       "('read', (300,), {}), 'exit']",
 'array rpc=None [np:np]': "ndarray[<u2(2, 3)][[20, 27, 34], [40, 47, 54]] || io=[('open', ('image-file',), "
                           "{'mode': 'rb'}), 'enter', ('seek', (12,), {}), ('read', (300,), {}), 'exit']",
 'array rpc=None [[]]': "ndarray[<u2(0, 3)][] || io=[('open', ('image-file',), {'mode': 'rb'}), 'enter', "
                        "'exit']",
 'array rpc=None [[0]]': "ndarray[<u2(1, 3)][[0, 7, 14]] || io=[('open', ('image-file',), {'mode': 'rb'}), "
                         "'enter', ('seek', (12,), {}), ('read', (300,), {}), 'exit']",
 'array rpc=None [[3]]': "ndarray[<u2(1, 3)][[60, 67, 74]] || io=[('open', ('image-file',), {'mode': 'rb'}), "
                         "'enter', ('seek', (12,), {}), ('read', (300,), {}), 'exit']",
 'array rpc=None [[4]]': "ndarray[<u2(1, 3)][[80, 87, 94]] || io=[('open', ('image-file',), {'mode': 'rb'}), "
                         "'enter', ('seek', (12,), {}), ('read', (300,), {}), 'exit']",
 'array rpc=None [[0,2]]': "ndarray[<u2(2, 3)][[0, 7, 14], [40, 47, 54]] || io=[('open', ('image-file',), "
                           "{'mode': 'rb'}), 'enter', ('seek', (12,), {}), ('read', (300,), {}), 'exit']",
 'array rpc=None [[0,-1]]': "ndarray[<u2(2, 3)][[0, 7, 14], [100, 107, 114]] || io=[('open', "
                            "('image-file',), {'mode': 'rb'}), 'enter', ('seek', (12,), {}), ('read', "
                            "(300,), {}), 'exit']",
 'array rpc=None [[3,1,1,0]]': 'ndarray[<u2(4, 3)][[60, 67, 74], [20, 27, 34], [20, 27, 34], [0, 7, 14]] || '
                               "io=[('open', ('image-file',), {'mode': 'rb'}), 'enter', ('seek', (12,), {}), "
                               "('read', (300,), {}), 'exit']",
 'array rpc=None [[0,4]]': "ndarray[<u2(2, 3)][[0, 7, 14], [80, 87, 94]] || io=[('open', ('image-file',), "
                           "{'mode': 'rb'}), 'enter', ('seek', (12,), {}), ('read', (300,), {}), 'exit']",
 "array rpc=None [[4,'a']]": 'raise builtins.TypeError: list indices must be integers or slices, not str || '
                             'io=[]',
 "array rpc=None [['a',4]]": 'raise builtins.TypeError: list indices must be integers or slices, not str || '
                             'io=[]',
 "array rpc=None [[0,'a']]": 'raise builtins.TypeError: list indices must be integers or slices, not str || '
                             'io=[]',
 'array rpc=None [[0,None]]': 'raise builtins.TypeError: list indices must be integers or slices, not '
                              'NoneType || io=[]',
 'array rpc=None [[1.0]]': 'raise builtins.TypeError: list indices must be integers or slices, not float || '
                           'io=[]',
 'array rpc=None [[0,1.0]]': 'raise builtins.TypeError: list indices must be integers or slices, not float '
                             '|| io=[]',
 'array rpc=None [[True,False]]': "ndarray[<u2(2, 3)][[20, 27, 34], [0, 7, 14]] || io=[('open', "
                                  "('image-file',), {'mode': 'rb'}), 'enter', ('seek', (12,), {}), ('read', "
                                  "(300,), {}), 'exit']",
 'array rpc=None [[Index(2)]]': "ndarray[<u2(1, 3)][[40, 47, 54]] || io=[('open', ('image-file',), {'mode': "
                                "'rb'}), 'enter', ('seek', (12,), {}), ('read', (300,), {}), 'exit']",
 'array rpc=None [[Index(2),0]]': "ndarray[<u2(2, 3)][[40, 47, 54], [0, 7, 14]] || io=[('open', "
                                  "('image-file',), {'mode': 'rb'}), 'enter', ('seek', (12,), {}), ('read', "
                                  "(300,), {}), 'exit']",
 'array rpc=None [[np.int64(2),np.int64(0)]]': "ndarray[<u2(2, 3)][[40, 47, 54], [0, 7, 14]] || io=[('open', "
                                               "('image-file',), {'mode': 'rb'}), 'enter', ('seek', (12,), "
                                               "{}), ('read', (300,), {}), 'exit']",
 'array rpc=None [[slice]]': "raise builtins.TypeError: unsupported operand type(s) for //: 'tuple' and "
                             "'int' || io=[]",
 'array rpc=None [[0,slice]]': "raise builtins.TypeError: unsupported operand type(s) for //: 'tuple' and "
                               "'int' || io=[]",
 'array rpc=None [[[0,1]]]': 'raise builtins.TypeError: list indices must be integers or slices, not list || '
                             'io=[]',
 'array rpc=None [[[0],[1]]]': 'raise builtins.TypeError: list indices must be integers or slices, not list '
                               '|| io=[]',
 'array rpc=None [[(0,)]]': 'raise builtins.TypeError: list indices must be integers or slices, not tuple || '
                            'io=[]',
 'array rpc=None [(0,2)]': "ndarray[<u2(2, 3)][[0, 7, 14], [40, 47, 54]] || io=[('open', ('image-file',), "
                           "{'mode': 'rb'}), 'enter', ('seek', (12,), {}), ('read', (300,), {}), 'exit']",
 'array rpc=None [()]': "ndarray[<u2(0, 3)][] || io=[('open', ('image-file',), {'mode': 'rb'}), 'enter', "
                        "'exit']",
 'array rpc=None [(1,)]': "ndarray[<u2(1, 3)][[20, 27, 34]] || io=[('open', ('image-file',), {'mode': "
                          "'rb'}), 'enter', ('seek', (12,), {}), ('read', (300,), {}), 'exit']",
 'array rpc=None [array[2,0]]': "ndarray[<u2(2, 3)][[40, 47, 54], [0, 7, 14]] || io=[('open', "
                                "('image-file',), {'mode': 'rb'}), 'enter', ('seek', (12,), {}), ('read', "
                                "(300,), {}), 'exit']",
 'array rpc=None [array[]]': "ndarray[<u2(0, 3)][] || io=[('open', ('image-file',), {'mode': 'rb'}), "
                             "'enter', 'exit']",
 'array rpc=None [array[1.0]]': 'raise builtins.TypeError: list indices must be integers or slices, not '
                                'numpy.float64 || io=[]',
 'array rpc=None [array-bool]': 'raise builtins.TypeError: list indices must be integers or slices, not '
                                'numpy.bool || io=[]',
 'array rpc=None [array-0d]': 'raise builtins.TypeError: iteration over a 0-d array || io=[]',
 'array rpc=None [array-2d]': 'raise builtins.TypeError: only integer scalar arrays can be converted to a '
                              'scalar index || io=[]',
 'array rpc=None [range(1,3)]': "ndarray[<u2(2, 3)][[20, 27, 34], [40, 47, 54]] || io=[('open', "
                                "('image-file',), {'mode': 'rb'}), 'enter', ('seek', (12,), {}), ('read', "
                                "(300,), {}), 'exit']",
 'array rpc=None [range(3,-1,-1)]': 'ndarray[<u2(4, 3)][[60, 67, 74], [40, 47, 54], [20, 27, 34], [0, 7, '
                                    "14]] || io=[('open', ('image-file',), {'mode': 'rb'}), 'enter', "
                                    "('seek', (12,), {}), ('read', (300,), {}), 'exit']",
 'array rpc=None [gen]': "ndarray[<u2(2, 3)][[40, 47, 54], [0, 7, 14]] || io=[('open', ('image-file',), "
                         "{'mode': 'rb'}), 'enter', ('seek', (12,), {}), ('read', (300,), {}), 'exit']",
 'array rpc=None [set]': "ndarray[<u2(1, 3)][[20, 27, 34]] || io=[('open', ('image-file',), {'mode': 'rb'}), "
                         "'enter', ('seek', (12,), {}), ('read', (300,), {}), 'exit']",
 'array rpc=None [dict]': "ndarray[<u2(2, 3)][[20, 27, 34], [0, 7, 14]] || io=[('open', ('image-file',), "
                          "{'mode': 'rb'}), 'enter', ('seek', (12,), {}), ('read', (300,), {}), 'exit']",
 "array rpc=None ['12']": 'raise builtins.TypeError: list indices must be integers or slices, not str || '
                          'io=[]',
 "array rpc=None ['']": "ndarray[<u2(0, 3)][] || io=[('open', ('image-file',), {'mode': 'rb'}), 'enter', "
                        "'exit']",
 "array rpc=None [b'\\x01']": "ndarray[<u2(1, 3)][[20, 27, 34]] || io=[('open', ('image-file',), {'mode': "
                              "'rb'}), 'enter', ('seek', (12,), {}), ('read', (300,), {}), 'exit']",
 'array rpc=1 [0]': "ndarray[<u2(3,)][0, 7, 14] || io=[('open', ('image-file',), {'mode': 'rb'}), 'enter', "
                    "('seek', (12,), {}), ('read', (40,), {}), 'exit']",
 'array rpc=1 [2]': "ndarray[<u2(3,)][40, 47, 54] || io=[('open', ('image-file',), {'mode': 'rb'}), 'enter', "
                    "('seek', (116,), {}), ('read', (40,), {}), 'exit']",
 'array rpc=1 [-1]': "ndarray[<u2(3,)][100, 107, 114] || io=[('open', ('image-file',), {'mode': 'rb'}), "
                     "'enter', ('seek', (272,), {}), ('read', (40,), {}), 'exit']",
 'array rpc=1 [-4]': "ndarray[<u2(3,)][40, 47, 54] || io=[('open', ('image-file',), {'mode': 'rb'}), "
                     "'enter', ('seek', (116,), {}), ('read', (40,), {}), 'exit']",
 'array rpc=1 [4]': "ndarray[<u2(3,)][80, 87, 94] || io=[('open', ('image-file',), {'mode': 'rb'}), 'enter', "
                    "('seek', (220,), {}), ('read', (40,), {}), 'exit']",
 'array rpc=1 [-5]': "ndarray[<u2(3,)][20, 27, 34] || io=[('open', ('image-file',), {'mode': 'rb'}), "
                     "'enter', ('seek', (64,), {}), ('read', (40,), {}), 'exit']",
 'array rpc=1 [True]': "ndarray[<u2(3,)][20, 27, 34] || io=[('open', ('image-file',), {'mode': 'rb'}), "
                       "'enter', ('seek', (64,), {}), ('read', (40,), {}), 'exit']",
 'array rpc=1 [False]': "ndarray[<u2(3,)][0, 7, 14] || io=[('open', ('image-file',), {'mode': 'rb'}), "
                        "'enter', ('seek', (12,), {}), ('read', (40,), {}), 'exit']",
 'array rpc=1 [MyInt(1)]': "ndarray[<u2(3,)][20, 27, 34] || io=[('open', ('image-file',), {'mode': 'rb'}), "
                           "'enter', ('seek', (64,), {}), ('read', (40,), {}), 'exit']",
 'array rpc=1 [np.int64(1)]': "raise builtins.TypeError: 'numpy.int64' object is not iterable || io=[]",
 'array rpc=1 [np.uint8(3)]': "raise builtins.TypeError: 'numpy.uint8' object is not iterable || io=[]",
 'array rpc=1 [np.bool(True)]': "raise builtins.TypeError: 'numpy.bool' object is not iterable || io=[]",
 'array rpc=1 [Index(1)]': "raise builtins.TypeError: 'Index' object is not iterable || io=[]",
 'array rpc=1 [1.0]': "raise builtins.TypeError: 'float' object is not iterable || io=[]",
 'array rpc=1 [None]': "raise builtins.TypeError: 'NoneType' object is not iterable || io=[]",
 'array rpc=1 [Ellipsis]': "raise builtins.TypeError: 'ellipsis' object is not iterable || io=[]",
 'array rpc=1 [all]': 'ndarray[<u2(6, 3)][[0, 7, 14], [20, 27, 34], [40, 47, 54], [60, 67, 74], [80, 87, '
                      "94], [100, 107, 114]] || io=[('open', ('image-file',), {'mode': 'rb'}), 'enter', "
                      "('seek', (12,), {}), ('read', (40,), {}), ('seek', (64,), {}), ('read', (40,), {}), "
                      "('seek', (116,), {}), ('read', (40,), {}), ('seek', (168,), {}), ('read', (40,), {}), "
                      "('seek', (220,), {}), ('read', (40,), {}), ('seek', (272,), {}), ('read', (40,), {}), "
                      "'exit']",
 'array rpc=1 [0:1]': "ndarray[<u2(1, 3)][[0, 7, 14]] || io=[('open', ('image-file',), {'mode': 'rb'}), "
                      "'enter', ('seek', (12,), {}), ('read', (40,), {}), 'exit']",
 'array rpc=1 [2:]': 'ndarray[<u2(4, 3)][[40, 47, 54], [60, 67, 74], [80, 87, 94], [100, 107, 114]] || '
                     "io=[('open', ('image-file',), {'mode': 'rb'}), 'enter', ('seek', (116,), {}), ('read', "
                     "(40,), {}), ('seek', (168,), {}), ('read', (40,), {}), ('seek', (220,), {}), ('read', "
                     "(40,), {}), ('seek', (272,), {}), ('read', (40,), {}), 'exit']",
 'array rpc=1 [:2]': "ndarray[<u2(2, 3)][[0, 7, 14], [20, 27, 34]] || io=[('open', ('image-file',), {'mode': "
                     "'rb'}), 'enter', ('seek', (12,), {}), ('read', (40,), {}), ('seek', (64,), {}), "
                     "('read', (40,), {}), 'exit']",
 'array rpc=1 [-2:]': "ndarray[<u2(2, 3)][[80, 87, 94], [100, 107, 114]] || io=[('open', ('image-file',), "
                      "{'mode': 'rb'}), 'enter', ('seek', (220,), {}), ('read', (40,), {}), ('seek', (272,), "
                      "{}), ('read', (40,), {}), 'exit']",
 'array rpc=1 [:-2]': 'ndarray[<u2(4, 3)][[0, 7, 14], [20, 27, 34], [40, 47, 54], [60, 67, 74]] || '
                      "io=[('open', ('image-file',), {'mode': 'rb'}), 'enter', ('seek', (12,), {}), ('read', "
                      "(40,), {}), ('seek', (64,), {}), ('read', (40,), {}), ('seek', (116,), {}), ('read', "
                      "(40,), {}), ('seek', (168,), {}), ('read', (40,), {}), 'exit']",
 'array rpc=1 [::2]': "ndarray[<u2(3, 3)][[0, 7, 14], [40, 47, 54], [80, 87, 94]] || io=[('open', "
                      "('image-file',), {'mode': 'rb'}), 'enter', ('seek', (12,), {}), ('read', (40,), {}), "
                      "('seek', (116,), {}), ('read', (40,), {}), ('seek', (220,), {}), ('read', (40,), {}), "
                      "'exit']",
 'array rpc=1 [1::2]': "ndarray[<u2(3, 3)][[20, 27, 34], [60, 67, 74], [100, 107, 114]] || io=[('open', "
                       "('image-file',), {'mode': 'rb'}), 'enter', ('seek', (64,), {}), ('read', (40,), {}), "
                       "('seek', (168,), {}), ('read', (40,), {}), ('seek', (272,), {}), ('read', (40,), "
                       "{}), 'exit']",
 'array rpc=1 [::-1]': 'ndarray[<u2(6, 3)][[100, 107, 114], [80, 87, 94], [60, 67, 74], [40, 47, 54], [20, '
                       "27, 34], [0, 7, 14]] || io=[('open', ('image-file',), {'mode': 'rb'}), 'enter', "
                       "('seek', (272,), {}), ('read', (40,), {}), ('seek', (220,), {}), ('read', (40,), "
                       "{}), ('seek', (168,), {}), ('read', (40,), {}), ('seek', (116,), {}), ('read', "
                       "(40,), {}), ('seek', (64,), {}), ('read', (40,), {}), ('seek', (12,), {}), ('read', "
                       "(40,), {}), 'exit']",
 'array rpc=1 [-1::-2]': "ndarray[<u2(3, 3)][[100, 107, 114], [60, 67, 74], [20, 27, 34]] || io=[('open', "
                         "('image-file',), {'mode': 'rb'}), 'enter', ('seek', (272,), {}), ('read', (40,), "
                         "{}), ('seek', (168,), {}), ('read', (40,), {}), ('seek', (64,), {}), ('read', "
                         "(40,), {}), 'exit']",
 'array rpc=1 [3:0:-1]': "ndarray[<u2(3, 3)][[60, 67, 74], [40, 47, 54], [20, 27, 34]] || io=[('open', "
                         "('image-file',), {'mode': 'rb'}), 'enter', ('seek', (168,), {}), ('read', (40,), "
                         "{}), ('seek', (116,), {}), ('read', (40,), {}), ('seek', (64,), {}), ('read', "
                         "(40,), {}), 'exit']",
 'array rpc=1 [0:0]': "ndarray[<u2(0, 3)][] || io=[('open', ('image-file',), {'mode': 'rb'}), 'enter', "
                      "'exit']",
 'array rpc=1 [3:1]': "ndarray[<u2(0, 3)][] || io=[('open', ('image-file',), {'mode': 'rb'}), 'enter', "
                      "'exit']",
 'array rpc=1 [10:20]': "ndarray[<u2(0, 3)][] || io=[('open', ('image-file',), {'mode': 'rb'}), 'enter', "
                        "'exit']",
 'array rpc=1 [-10:10]': 'ndarray[<u2(6, 3)][[0, 7, 14], [20, 27, 34], [40, 47, 54], [60, 67, 74], [80, 87, '
                         "94], [100, 107, 114]] || io=[('open', ('image-file',), {'mode': 'rb'}), 'enter', "
                         "('seek', (12,), {}), ('read', (40,), {}), ('seek', (64,), {}), ('read', (40,), "
                         "{}), ('seek', (116,), {}), ('read', (40,), {}), ('seek', (168,), {}), ('read', "
                         "(40,), {}), ('seek', (220,), {}), ('read', (40,), {}), ('seek', (272,), {}), "
                         "('read', (40,), {}), 'exit']",
 'array rpc=1 [::0]': 'raise builtins.ValueError: slice step cannot be zero || io=[]',
 'array rpc=1 [1.5:]': 'raise builtins.TypeError: slice indices must be integers or None or have an '
                       '__index__ method || io=[]',
 "array rpc=1 ['a':]": 'raise builtins.TypeError: slice indices must be integers or None or have an '
                       '__index__ method || io=[]',
 'array rpc=1 [Index(1):Index(3)]': "ndarray[<u2(2, 3)][[20, 27, 34], [40, 47, 54]] || io=[('open', "
                                    "('image-file',), {'mode': 'rb'}), 'enter', ('seek', (64,), {}), "
                                    "('read', (40,), {}), ('seek', (116,), {}), ('read', (40,), {}), 'exit']",
 'array rpc=1 [np:np]': "ndarray[<u2(2, 3)][[20, 27, 34], [40, 47, 54]] || io=[('open', ('image-file',), "
                        "{'mode': 'rb'}), 'enter', ('seek', (64,), {}), ('read', (40,), {}), ('seek', "
                        "(116,), {}), ('read', (40,), {}), 'exit']",
 'array rpc=1 [[]]': "ndarray[<u2(0, 3)][] || io=[('open', ('image-file',), {'mode': 'rb'}), 'enter', "
                     "'exit']",
 'array rpc=1 [[0]]': "ndarray[<u2(1, 3)][[0, 7, 14]] || io=[('open', ('image-file',), {'mode': 'rb'}), "
                      "'enter', ('seek', (12,), {}), ('read', (40,), {}), 'exit']",
 'array rpc=1 [[3]]': "ndarray[<u2(1, 3)][[60, 67, 74]] || io=[('open', ('image-file',), {'mode': 'rb'}), "
                      "'enter', ('seek', (168,), {}), ('read', (40,), {}), 'exit']",
 'array rpc=1 [[4]]': "ndarray[<u2(1, 3)][[80, 87, 94]] || io=[('open', ('image-file',), {'mode': 'rb'}), "
                      "'enter', ('seek', (220,), {}), ('read', (40,), {}), 'exit']",
 'array rpc=1 [[0,2]]': "ndarray[<u2(2, 3)][[0, 7, 14], [40, 47, 54]] || io=[('open', ('image-file',), "
                        "{'mode': 'rb'}), 'enter', ('seek', (12,), {}), ('read', (40,), {}), ('seek', "
                        "(116,), {}), ('read', (40,), {}), 'exit']",
 'array rpc=1 [[0,-1]]': "ndarray[<u2(2, 3)][[0, 7, 14], [100, 107, 114]] || io=[('open', ('image-file',), "
                         "{'mode': 'rb'}), 'enter', ('seek', (12,), {}), ('read', (40,), {}), ('seek', "
                         "(272,), {}), ('read', (40,), {}), 'exit']",
 'array rpc=1 [[3,1,1,0]]': 'ndarray[<u2(4, 3)][[60, 67, 74], [20, 27, 34], [20, 27, 34], [0, 7, 14]] || '
                            "io=[('open', ('image-file',), {'mode': 'rb'}), 'enter', ('seek', (168,), {}), "
                            "('read', (40,), {}), ('seek', (64,), {}), ('read', (40,), {}), ('seek', (12,), "
                            "{}), ('read', (40,), {}), 'exit']",
 'array rpc=1 [[0,4]]': "ndarray[<u2(2, 3)][[0, 7, 14], [80, 87, 94]] || io=[('open', ('image-file',), "
                        "{'mode': 'rb'}), 'enter', ('seek', (12,), {}), ('read', (40,), {}), ('seek', "
                        "(220,), {}), ('read', (40,), {}), 'exit']",
 "array rpc=1 [[4,'a']]": 'raise builtins.TypeError: list indices must be integers or slices, not str || '
                          'io=[]',
 "array rpc=1 [['a',4]]": 'raise builtins.TypeError: list indices must be integers or slices, not str || '
                          'io=[]',
 "array rpc=1 [[0,'a']]": 'raise builtins.TypeError: list indices must be integers or slices, not str || '
                          'io=[]',
 'array rpc=1 [[0,None]]': 'raise builtins.TypeError: list indices must be integers or slices, not NoneType '
                           '|| io=[]',
 'array rpc=1 [[1.0]]': 'raise builtins.TypeError: list indices must be integers or slices, not float || '
                        'io=[]',
 'array rpc=1 [[0,1.0]]': 'raise builtins.TypeError: list indices must be integers or slices, not float || '
                          'io=[]',
 'array rpc=1 [[True,False]]': "ndarray[<u2(2, 3)][[20, 27, 34], [0, 7, 14]] || io=[('open', "
                               "('image-file',), {'mode': 'rb'}), 'enter', ('seek', (64,), {}), ('read', "
                               "(40,), {}), ('seek', (12,), {}), ('read', (40,), {}), 'exit']",
 'array rpc=1 [[Index(2)]]': "ndarray[<u2(1, 3)][[40, 47, 54]] || io=[('open', ('image-file',), {'mode': "
                             "'rb'}), 'enter', ('seek', (116,), {}), ('read', (40,), {}), 'exit']",
 'array rpc=1 [[Index(2),0]]': "ndarray[<u2(2, 3)][[40, 47, 54], [0, 7, 14]] || io=[('open', "
                               "('image-file',), {'mode': 'rb'}), 'enter', ('seek', (116,), {}), ('read', "
                               "(40,), {}), ('seek', (12,), {}), ('read', (40,), {}), 'exit']",
 'array rpc=1 [[np.int64(2),np.int64(0)]]': "ndarray[<u2(2, 3)][[40, 47, 54], [0, 7, 14]] || io=[('open', "
                                            "('image-file',), {'mode': 'rb'}), 'enter', ('seek', (116,), "
                                            "{}), ('read', (40,), {}), ('seek', (12,), {}), ('read', (40,), "
                                            "{}), 'exit']",
 'array rpc=1 [[slice]]': "raise builtins.TypeError: unsupported operand type(s) for //: 'tuple' and 'int' "
                          '|| io=[]',
 'array rpc=1 [[0,slice]]': "raise builtins.TypeError: unsupported operand type(s) for //: 'tuple' and 'int' "
                            '|| io=[]',
 'array rpc=1 [[[0,1]]]': 'raise builtins.TypeError: list indices must be integers or slices, not list || '
                          'io=[]',
 'array rpc=1 [[[0],[1]]]': 'raise builtins.TypeError: list indices must be integers or slices, not list || '
                            'io=[]',
 'array rpc=1 [[(0,)]]': 'raise builtins.TypeError: list indices must be integers or slices, not tuple || '
                         'io=[]',
 'array rpc=1 [(0,2)]': "ndarray[<u2(2, 3)][[0, 7, 14], [40, 47, 54]] || io=[('open', ('image-file',), "
                        "{'mode': 'rb'}), 'enter', ('seek', (12,), {}), ('read', (40,), {}), ('seek', "
                        "(116,), {}), ('read', (40,), {}), 'exit']",
 'array rpc=1 [()]': "ndarray[<u2(0, 3)][] || io=[('open', ('image-file',), {'mode': 'rb'}), 'enter', "
                     "'exit']",
 'array rpc=1 [(1,)]': "ndarray[<u2(1, 3)][[20, 27, 34]] || io=[('open', ('image-file',), {'mode': 'rb'}), "
                       "'enter', ('seek', (64,), {}), ('read', (40,), {}), 'exit']",
 'array rpc=1 [array[2,0]]': "ndarray[<u2(2, 3)][[40, 47, 54], [0, 7, 14]] || io=[('open', ('image-file',), "
                             "{'mode': 'rb'}), 'enter', ('seek', (116,), {}), ('read', (40,), {}), ('seek', "
                             "(12,), {}), ('read', (40,), {}), 'exit']",
 'array rpc=1 [array[]]': "ndarray[<u2(0, 3)][] || io=[('open', ('image-file',), {'mode': 'rb'}), 'enter', "
                          "'exit']",
 'array rpc=1 [array[1.0]]': 'raise builtins.TypeError: list indices must be integers or slices, not '
                             'numpy.float64 || io=[]',
 'array rpc=1 [array-bool]': 'raise builtins.TypeError: list indices must be integers or slices, not '
                             'numpy.bool || io=[]',
 'array rpc=1 [array-0d]': 'raise builtins.TypeError: iteration over a 0-d array || io=[]',
 'array rpc=1 [array-2d]': 'raise builtins.TypeError: only integer scalar arrays can be converted to a '
                           'scalar index || io=[]',
 'array rpc=1 [range(1,3)]': "ndarray[<u2(2, 3)][[20, 27, 34], [40, 47, 54]] || io=[('open', "
                             "('image-file',), {'mode': 'rb'}), 'enter', ('seek', (64,), {}), ('read', "
                             "(40,), {}), ('seek', (116,), {}), ('read', (40,), {}), 'exit']",
 'array rpc=1 [range(3,-1,-1)]': 'ndarray[<u2(4, 3)][[60, 67, 74], [40, 47, 54], [20, 27, 34], [0, 7, 14]] '
                                 "|| io=[('open', ('image-file',), {'mode': 'rb'}), 'enter', ('seek', "
                                 "(168,), {}), ('read', (40,), {}), ('seek', (116,), {}), ('read', (40,), "
                                 "{}), ('seek', (64,), {}), ('read', (40,), {}), ('seek', (12,), {}), "
                                 "('read', (40,), {}), 'exit']",
 'array rpc=1 [gen]': "ndarray[<u2(2, 3)][[40, 47, 54], [0, 7, 14]] || io=[('open', ('image-file',), "
                      "{'mode': 'rb'}), 'enter', ('seek', (116,), {}), ('read', (40,), {}), ('seek', (12,), "
                      "{}), ('read', (40,), {}), 'exit']",
 'array rpc=1 [set]': "ndarray[<u2(1, 3)][[20, 27, 34]] || io=[('open', ('image-file',), {'mode': 'rb'}), "
                      "'enter', ('seek', (64,), {}), ('read', (40,), {}), 'exit']",
 'array rpc=1 [dict]': "ndarray[<u2(2, 3)][[20, 27, 34], [0, 7, 14]] || io=[('open', ('image-file',), "
                       "{'mode': 'rb'}), 'enter', ('seek', (64,), {}), ('read', (40,), {}), ('seek', (12,), "
                       "{}), ('read', (40,), {}), 'exit']",
 "array rpc=1 ['12']": 'raise builtins.TypeError: list indices must be integers or slices, not str || io=[]',
 "array rpc=1 ['']": "ndarray[<u2(0, 3)][] || io=[('open', ('image-file',), {'mode': 'rb'}), 'enter', "
                     "'exit']",
 "array rpc=1 [b'\\x01']": "ndarray[<u2(1, 3)][[20, 27, 34]] || io=[('open', ('image-file',), {'mode': "
                           "'rb'}), 'enter', ('seek', (64,), {}), ('read', (40,), {}), 'exit']",
 'array rpc=2 [0]': "ndarray[<u2(3,)][0, 7, 14] || io=[('open', ('image-file',), {'mode': 'rb'}), 'enter', "
                    "('seek', (12,), {}), ('read', (92,), {}), 'exit']",
 'array rpc=2 [2]': "ndarray[<u2(3,)][40, 47, 54] || io=[('open', ('image-file',), {'mode': 'rb'}), 'enter', "
                    "('seek', (116,), {}), ('read', (92,), {}), 'exit']",
 'array rpc=2 [-1]': "ndarray[<u2(3,)][100, 107, 114] || io=[('open', ('image-file',), {'mode': 'rb'}), "
                     "'enter', ('seek', (220,), {}), ('read', (92,), {}), 'exit']",
 'array rpc=2 [-4]': "ndarray[<u2(3,)][40, 47, 54] || io=[('open', ('image-file',), {'mode': 'rb'}), "
                     "'enter', ('seek', (116,), {}), ('read', (92,), {}), 'exit']",
 'array rpc=2 [4]': "ndarray[<u2(3,)][80, 87, 94] || io=[('open', ('image-file',), {'mode': 'rb'}), 'enter', "
                    "('seek', (220,), {}), ('read', (92,), {}), 'exit']",
 'array rpc=2 [-5]': "ndarray[<u2(3,)][20, 27, 34] || io=[('open', ('image-file',), {'mode': 'rb'}), "
                     "'enter', ('seek', (12,), {}), ('read', (92,), {}), 'exit']",
 'array rpc=2 [True]': "ndarray[<u2(3,)][20, 27, 34] || io=[('open', ('image-file',), {'mode': 'rb'}), "
                       "'enter', ('seek', (12,), {}), ('read', (92,), {}), 'exit']",
 'array rpc=2 [False]': "ndarray[<u2(3,)][0, 7, 14] || io=[('open', ('image-file',), {'mode': 'rb'}), "
                        "'enter', ('seek', (12,), {}), ('read', (92,), {}), 'exit']",
 'array rpc=2 [MyInt(1)]': "ndarray[<u2(3,)][20, 27, 34] || io=[('open', ('image-file',), {'mode': 'rb'}), "
                           "'enter', ('seek', (12,), {}), ('read', (92,), {}), 'exit']",
 'array rpc=2 [np.int64(1)]': "raise builtins.TypeError: 'numpy.int64' object is not iterable || io=[]",
 'array rpc=2 [np.uint8(3)]': "raise builtins.TypeError: 'numpy.uint8' object is not iterable || io=[]",
 'array rpc=2 [np.bool(True)]': "raise builtins.TypeError: 'numpy.bool' object is not iterable || io=[]",
 'array rpc=2 [Index(1)]': "raise builtins.TypeError: 'Index' object is not iterable || io=[]",
 'array rpc=2 [1.0]': "raise builtins.TypeError: 'float' object is not iterable || io=[]",
 'array rpc=2 [None]': "raise builtins.TypeError: 'NoneType' object is not iterable || io=[]",
 'array rpc=2 [Ellipsis]': "raise builtins.TypeError: 'ellipsis' object is not iterable || io=[]",
 'array rpc=2 [all]': 'ndarray[<u2(6, 3)][[0, 7, 14], [20, 27, 34], [40, 47, 54], [60, 67, 74], [80, 87, '
                      "94], [100, 107, 114]] || io=[('open', ('image-file',), {'mode': 'rb'}), 'enter', "
                      "('seek', (12,), {}), ('read', (92,), {}), ('seek', (116,), {}), ('read', (92,), {}), "
                      "('seek', (220,), {}), ('read', (92,), {}), 'exit']",
 'array rpc=2 [0:1]': "ndarray[<u2(1, 3)][[0, 7, 14]] || io=[('open', ('image-file',), {'mode': 'rb'}), "
                      "'enter', ('seek', (12,), {}), ('read', (92,), {}), 'exit']",
 'array rpc=2 [2:]': 'ndarray[<u2(4, 3)][[40, 47, 54], [60, 67, 74], [80, 87, 94], [100, 107, 114]] || '
                     "io=[('open', ('image-file',), {'mode': 'rb'}), 'enter', ('seek', (116,), {}), ('read', "
                     "(92,), {}), ('seek', (220,), {}), ('read', (92,), {}), 'exit']",
 'array rpc=2 [:2]': "ndarray[<u2(2, 3)][[0, 7, 14], [20, 27, 34]] || io=[('open', ('image-file',), {'mode': "
                     "'rb'}), 'enter', ('seek', (12,), {}), ('read', (92,), {}), 'exit']",
 'array rpc=2 [-2:]': "ndarray[<u2(2, 3)][[80, 87, 94], [100, 107, 114]] || io=[('open', ('image-file',), "
                      "{'mode': 'rb'}), 'enter', ('seek', (220,), {}), ('read', (92,), {}), 'exit']",
 'array rpc=2 [:-2]': 'ndarray[<u2(4, 3)][[0, 7, 14], [20, 27, 34], [40, 47, 54], [60, 67, 74]] || '
                      "io=[('open', ('image-file',), {'mode': 'rb'}), 'enter', ('seek', (12,), {}), ('read', "
                      "(92,), {}), ('seek', (116,), {}), ('read', (92,), {}), 'exit']",
 'array rpc=2 [::2]': "ndarray[<u2(3, 3)][[0, 7, 14], [40, 47, 54], [80, 87, 94]] || io=[('open', "
                      "('image-file',), {'mode': 'rb'}), 'enter', ('seek', (12,), {}), ('read', (92,), {}), "
                      "('seek', (116,), {}), ('read', (92,), {}), ('seek', (220,), {}), ('read', (92,), {}), "
                      "'exit']",
 'array rpc=2 [1::2]': "ndarray[<u2(3, 3)][[20, 27, 34], [60, 67, 74], [100, 107, 114]] || io=[('open', "
                       "('image-file',), {'mode': 'rb'}), 'enter', ('seek', (12,), {}), ('read', (92,), {}), "
                       "('seek', (116,), {}), ('read', (92,), {}), ('seek', (220,), {}), ('read', (92,), "
                       "{}), 'exit']",
 'array rpc=2 [::-1]': 'ndarray[<u2(6, 3)][[100, 107, 114], [80, 87, 94], [60, 67, 74], [40, 47, 54], [20, '
                       "27, 34], [0, 7, 14]] || io=[('open', ('image-file',), {'mode': 'rb'}), 'enter', "
                       "('seek', (220,), {}), ('read', (92,), {}), ('seek', (116,), {}), ('read', (92,), "
                       "{}), ('seek', (12,), {}), ('read', (92,), {}), 'exit']",
 'array rpc=2 [-1::-2]': "ndarray[<u2(3, 3)][[100, 107, 114], [60, 67, 74], [20, 27, 34]] || io=[('open', "
                         "('image-file',), {'mode': 'rb'}), 'enter', ('seek', (220,), {}), ('read', (92,), "
                         "{}), ('seek', (116,), {}), ('read', (92,), {}), ('seek', (12,), {}), ('read', "
                         "(92,), {}), 'exit']",
 'array rpc=2 [3:0:-1]': "ndarray[<u2(3, 3)][[60, 67, 74], [40, 47, 54], [20, 27, 34]] || io=[('open', "
                         "('image-file',), {'mode': 'rb'}), 'enter', ('seek', (116,), {}), ('read', (92,), "
                         "{}), ('seek', (12,), {}), ('read', (92,), {}), 'exit']",
 'array rpc=2 [0:0]': "ndarray[<u2(0, 3)][] || io=[('open', ('image-file',), {'mode': 'rb'}), 'enter', "
                      "'exit']",
 'array rpc=2 [3:1]': "ndarray[<u2(0, 3)][] || io=[('open', ('image-file',), {'mode': 'rb'}), 'enter', "
                      "'exit']",
 'array rpc=2 [10:20]': "ndarray[<u2(0, 3)][] || io=[('open', ('image-file',), {'mode': 'rb'}), 'enter', "
                        "'exit']",
 'array rpc=2 [-10:10]': 'ndarray[<u2(6, 3)][[0, 7, 14], [20, 27, 34], [40, 47, 54], [60, 67, 74], [80, 87, '
                         "94], [100, 107, 114]] || io=[('open', ('image-file',), {'mode': 'rb'}), 'enter', "
                         "('seek', (12,), {}), ('read', (92,), {}), ('seek', (116,), {}), ('read', (92,), "
                         "{}), ('seek', (220,), {}), ('read', (92,), {}), 'exit']",
 'array rpc=2 [::0]': 'raise builtins.ValueError: slice step cannot be zero || io=[]',
 'array rpc=2 [1.5:]': 'raise builtins.TypeError: slice indices must be integers or None or have an '
                       '__index__ method || io=[]',
 "array rpc=2 ['a':]": 'raise builtins.TypeError: slice indices must be integers or None or have an '
                       '__index__ method || io=[]',
 'array rpc=2 [Index(1):Index(3)]': "ndarray[<u2(2, 3)][[20, 27, 34], [40, 47, 54]] || io=[('open', "
                                    "('image-file',), {'mode': 'rb'}), 'enter', ('seek', (12,), {}), "
                                    "('read', (92,), {}), ('seek', (116,), {}), ('read', (92,), {}), 'exit']",
 'array rpc=2 [np:np]': "ndarray[<u2(2, 3)][[20, 27, 34], [40, 47, 54]] || io=[('open', ('image-file',), "
                        "{'mode': 'rb'}), 'enter', ('seek', (12,), {}), ('read', (92,), {}), ('seek', "
                        "(116,), {}), ('read', (92,), {}), 'exit']",
 'array rpc=2 [[]]': "ndarray[<u2(0, 3)][] || io=[('open', ('image-file',), {'mode': 'rb'}), 'enter', "
                     "'exit']",
 'array rpc=2 [[0]]': "ndarray[<u2(1, 3)][[0, 7, 14]] || io=[('open', ('image-file',), {'mode': 'rb'}), "
                      "'enter', ('seek', (12,), {}), ('read', (92,), {}), 'exit']",
 'array rpc=2 [[3]]': "ndarray[<u2(1, 3)][[60, 67, 74]] || io=[('open', ('image-file',), {'mode': 'rb'}), "
                      "'enter', ('seek', (116,), {}), ('read', (92,), {}), 'exit']",
 'array rpc=2 [[4]]': "ndarray[<u2(1, 3)][[80, 87, 94]] || io=[('open', ('image-file',), {'mode': 'rb'}), "
                      "'enter', ('seek', (220,), {}), ('read', (92,), {}), 'exit']",
 'array rpc=2 [[0,2]]': "ndarray[<u2(2, 3)][[0, 7, 14], [40, 47, 54]] || io=[('open', ('image-file',), "
                        "{'mode': 'rb'}), 'enter', ('seek', (12,), {}), ('read', (92,), {}), ('seek', "
                        "(116,), {}), ('read', (92,), {}), 'exit']",
 'array rpc=2 [[0,-1]]': "ndarray[<u2(2, 3)][[0, 7, 14], [100, 107, 114]] || io=[('open', ('image-file',), "
                         "{'mode': 'rb'}), 'enter', ('seek', (12,), {}), ('read', (92,), {}), ('seek', "
                         "(220,), {}), ('read', (92,), {}), 'exit']",
 'array rpc=2 [[3,1,1,0]]': 'ndarray[<u2(4, 3)][[60, 67, 74], [20, 27, 34], [20, 27, 34], [0, 7, 14]] || '
                            "io=[('open', ('image-file',), {'mode': 'rb'}), 'enter', ('seek', (116,), {}), "
                            "('read', (92,), {}), ('seek', (12,), {}), ('read', (92,), {}), 'exit']",
 'array rpc=2 [[0,4]]': "ndarray[<u2(2, 3)][[0, 7, 14], [80, 87, 94]] || io=[('open', ('image-file',), "
                        "{'mode': 'rb'}), 'enter', ('seek', (12,), {}), ('read', (92,), {}), ('seek', "
                        "(220,), {}), ('read', (92,), {}), 'exit']",
 "array rpc=2 [[4,'a']]": 'raise builtins.TypeError: list indices must be integers or slices, not str || '
                          'io=[]',
 "array rpc=2 [['a',4]]": 'raise builtins.TypeError: list indices must be integers or slices, not str || '
                          'io=[]',
 "array rpc=2 [[0,'a']]": 'raise builtins.TypeError: list indices must be integers or slices, not str || '
                          'io=[]',
 'array rpc=2 [[0,None]]': 'raise builtins.TypeError: list indices must be integers or slices, not NoneType '
                           '|| io=[]',
 'array rpc=2 [[1.0]]': 'raise builtins.TypeError: list indices must be integers or slices, not float || '
                        'io=[]',
 'array rpc=2 [[0,1.0]]': 'raise builtins.TypeError: list indices must be integers or slices, not float || '
                          'io=[]',
 'array rpc=2 [[True,False]]': "ndarray[<u2(2, 3)][[20, 27, 34], [0, 7, 14]] || io=[('open', "
                               "('image-file',), {'mode': 'rb'}), 'enter', ('seek', (12,), {}), ('read', "
                               "(92,), {}), 'exit']",
 'array rpc=2 [[Index(2)]]': "ndarray[<u2(1, 3)][[40, 47, 54]] || io=[('open', ('image-file',), {'mode': "
                             "'rb'}), 'enter', ('seek', (116,), {}), ('read', (92,), {}), 'exit']",
 'array rpc=2 [[Index(2),0]]': "ndarray[<u2(2, 3)][[40, 47, 54], [0, 7, 14]] || io=[('open', "
                               "('image-file',), {'mode': 'rb'}), 'enter', ('seek', (116,), {}), ('read', "
                               "(92,), {}), ('seek', (12,), {}), ('read', (92,), {}), 'exit']",
 'array rpc=2 [[np.int64(2),np.int64(0)]]': "ndarray[<u2(2, 3)][[40, 47, 54], [0, 7, 14]] || io=[('open', "
                                            "('image-file',), {'mode': 'rb'}), 'enter', ('seek', (116,), "
                                            "{}), ('read', (92,), {}), ('seek', (12,), {}), ('read', (92,), "
                                            "{}), 'exit']",
 'array rpc=2 [[slice]]': "raise builtins.TypeError: unsupported operand type(s) for //: 'tuple' and 'int' "
                          '|| io=[]',
 'array rpc=2 [[0,slice]]': "raise builtins.TypeError: unsupported operand type(s) for //: 'tuple' and 'int' "
                            '|| io=[]',
 'array rpc=2 [[[0,1]]]': 'raise builtins.TypeError: list indices must be integers or slices, not list || '
                          'io=[]',
 'array rpc=2 [[[0],[1]]]': 'raise builtins.TypeError: list indices must be integers or slices, not list || '
                            'io=[]',
 'array rpc=2 [[(0,)]]': 'raise builtins.TypeError: list indices must be integers or slices, not tuple || '
                         'io=[]',
 'array rpc=2 [(0,2)]': "ndarray[<u2(2, 3)][[0, 7, 14], [40, 47, 54]] || io=[('open', ('image-file',), "
                        "{'mode': 'rb'}), 'enter', ('seek', (12,), {}), ('read', (92,), {}), ('seek', "
                        "(116,), {}), ('read', (92,), {}), 'exit']",
 'array rpc=2 [()]': "ndarray[<u2(0, 3)][] || io=[('open', ('image-file',), {'mode': 'rb'}), 'enter', "
                     "'exit']",
 'array rpc=2 [(1,)]': "ndarray[<u2(1, 3)][[20, 27, 34]] || io=[('open', ('image-file',), {'mode': 'rb'}), "
                       "'enter', ('seek', (12,), {}), ('read', (92,), {}), 'exit']",
 'array rpc=2 [array[2,0]]': "ndarray[<u2(2, 3)][[40, 47, 54], [0, 7, 14]] || io=[('open', ('image-file',), "
                             "{'mode': 'rb'}), 'enter', ('seek', (116,), {}), ('read', (92,), {}), ('seek', "
                             "(12,), {}), ('read', (92,), {}), 'exit']",
 'array rpc=2 [array[]]': "ndarray[<u2(0, 3)][] || io=[('open', ('image-file',), {'mode': 'rb'}), 'enter', "
                          "'exit']",
 'array rpc=2 [array[1.0]]': 'raise builtins.TypeError: list indices must be integers or slices, not '
                             'numpy.float64 || io=[]',
 'array rpc=2 [array-bool]': 'raise builtins.TypeError: list indices must be integers or slices, not '
                             'numpy.bool || io=[]',
 'array rpc=2 [array-0d]': 'raise builtins.TypeError: iteration over a 0-d array || io=[]',
 'array rpc=2 [array-2d]': 'raise builtins.TypeError: only integer scalar arrays can be converted to a '
                           'scalar index || io=[]',
 'array rpc=2 [range(1,3)]': "ndarray[<u2(2, 3)][[20, 27, 34], [40, 47, 54]] || io=[('open', "
                             "('image-file',), {'mode': 'rb'}), 'enter', ('seek', (12,), {}), ('read', "
                             "(92,), {}), ('seek', (116,), {}), ('read', (92,), {}), 'exit']",
 'array rpc=2 [range(3,-1,-1)]': 'ndarray[<u2(4, 3)][[60, 67, 74], [40, 47, 54], [20, 27, 34], [0, 7, 14]] '
                                 "|| io=[('open', ('image-file',), {'mode': 'rb'}), 'enter', ('seek', "
                                 "(116,), {}), ('read', (92,), {}), ('seek', (12,), {}), ('read', (92,), "
                                 "{}), 'exit']",
 'array rpc=2 [gen]': "ndarray[<u2(2, 3)][[40, 47, 54], [0, 7, 14]] || io=[('open', ('image-file',), "
                      "{'mode': 'rb'}), 'enter', ('seek', (116,), {}), ('read', (92,), {}), ('seek', (12,), "
                      "{}), ('read', (92,), {}), 'exit']",
 'array rpc=2 [set]': "ndarray[<u2(1, 3)][[20, 27, 34]] || io=[('open', ('image-file',), {'mode': 'rb'}), "
                      "'enter', ('seek', (12,), {}), ('read', (92,), {}), 'exit']",
 'array rpc=2 [dict]': "ndarray[<u2(2, 3)][[20, 27, 34], [0, 7, 14]] || io=[('open', ('image-file',), "
                       "{'mode': 'rb'}), 'enter', ('seek', (12,), {}), ('read', (92,), {}), 'exit']",
 "array rpc=2 ['12']": 'raise builtins.TypeError: list indices must be integers or slices, not str || io=[]',
 "array rpc=2 ['']": "ndarray[<u2(0, 3)][] || io=[('open', ('image-file',), {'mode': 'rb'}), 'enter', "
                     "'exit']",
 "array rpc=2 [b'\\x01']": "ndarray[<u2(1, 3)][[20, 27, 34]] || io=[('open', ('image-file',), {'mode': "
                           "'rb'}), 'enter', ('seek', (12,), {}), ('read', (92,), {}), 'exit']",
 'array rpc=4 [0]': "ndarray[<u2(3,)][0, 7, 14] || io=[('open', ('image-file',), {'mode': 'rb'}), 'enter', "
                    "('seek', (12,), {}), ('read', (196,), {}), 'exit']",
 'array rpc=4 [2]': "ndarray[<u2(3,)][40, 47, 54] || io=[('open', ('image-file',), {'mode': 'rb'}), 'enter', "
                    "('seek', (12,), {}), ('read', (196,), {}), 'exit']",
 'array rpc=4 [-1]': "ndarray[<u2(3,)][100, 107, 114] || io=[('open', ('image-file',), {'mode': 'rb'}), "
                     "'enter', ('seek', (220,), {}), ('read', (92,), {}), 'exit']",
 'array rpc=4 [-4]': "ndarray[<u2(3,)][40, 47, 54] || io=[('open', ('image-file',), {'mode': 'rb'}), "
                     "'enter', ('seek', (12,), {}), ('read', (196,), {}), 'exit']",
 'array rpc=4 [4]': "ndarray[<u2(3,)][80, 87, 94] || io=[('open', ('image-file',), {'mode': 'rb'}), 'enter', "
                    "('seek', (220,), {}), ('read', (92,), {}), 'exit']",
 'array rpc=4 [-5]': "ndarray[<u2(3,)][20, 27, 34] || io=[('open', ('image-file',), {'mode': 'rb'}), "
                     "'enter', ('seek', (12,), {}), ('read', (196,), {}), 'exit']",
 'array rpc=4 [True]': "ndarray[<u2(3,)][20, 27, 34] || io=[('open', ('image-file',), {'mode': 'rb'}), "
                       "'enter', ('seek', (12,), {}), ('read', (196,), {}), 'exit']",
 'array rpc=4 [False]': "ndarray[<u2(3,)][0, 7, 14] || io=[('open', ('image-file',), {'mode': 'rb'}), "
                        "'enter', ('seek', (12,), {}), ('read', (196,), {}), 'exit']",
 'array rpc=4 [MyInt(1)]': "ndarray[<u2(3,)][20, 27, 34] || io=[('open', ('image-file',), {'mode': 'rb'}), "
                           "'enter', ('seek', (12,), {}), ('read', (196,), {}), 'exit']",
 'array rpc=4 [np.int64(1)]': "raise builtins.TypeError: 'numpy.int64' object is not iterable || io=[]",
 'array rpc=4 [np.uint8(3)]': "raise builtins.TypeError: 'numpy.uint8' object is not iterable || io=[]",
 'array rpc=4 [np.bool(True)]': "raise builtins.TypeError: 'numpy.bool' object is not iterable || io=[]",
 'array rpc=4 [Index(1)]': "raise builtins.TypeError: 'Index' object is not iterable || io=[]",
 'array rpc=4 [1.0]': "raise builtins.TypeError: 'float' object is not iterable || io=[]",
 'array rpc=4 [None]': "raise builtins.TypeError: 'NoneType' object is not iterable || io=[]",
 'array rpc=4 [Ellipsis]': "raise builtins.TypeError: 'ellipsis' object is not iterable || io=[]",
 'array rpc=4 [all]': 'ndarray[<u2(6, 3)][[0, 7, 14], [20, 27, 34], [40, 47, 54], [60, 67, 74], [80, 87, '
                      "94], [100, 107, 114]] || io=[('open', ('image-file',), {'mode': 'rb'}), 'enter', "
                      "('seek', (12,), {}), ('read', (196,), {}), ('seek', (220,), {}), ('read', (92,), {}), "
                      "'exit']",
 'array rpc=4 [0:1]': "ndarray[<u2(1, 3)][[0, 7, 14]] || io=[('open', ('image-file',), {'mode': 'rb'}), "
                      "'enter', ('seek', (12,), {}), ('read', (196,), {}), 'exit']",
 'array rpc=4 [2:]': 'ndarray[<u2(4, 3)][[40, 47, 54], [60, 67, 74], [80, 87, 94], [100, 107, 114]] || '
                     "io=[('open', ('image-file',), {'mode': 'rb'}), 'enter', ('seek', (12,), {}), ('read', "
                     "(196,), {}), ('seek', (220,), {}), ('read', (92,), {}), 'exit']",
 'array rpc=4 [:2]': "ndarray[<u2(2, 3)][[0, 7, 14], [20, 27, 34]] || io=[('open', ('image-file',), {'mode': "
                     "'rb'}), 'enter', ('seek', (12,), {}), ('read', (196,), {}), 'exit']",
 'array rpc=4 [-2:]': "ndarray[<u2(2, 3)][[80, 87, 94], [100, 107, 114]] || io=[('open', ('image-file',), "
                      "{'mode': 'rb'}), 'enter', ('seek', (220,), {}), ('read', (92,), {}), 'exit']",
 'array rpc=4 [:-2]': 'ndarray[<u2(4, 3)][[0, 7, 14], [20, 27, 34], [40, 47, 54], [60, 67, 74]] || '
                      "io=[('open', ('image-file',), {'mode': 'rb'}), 'enter', ('seek', (12,), {}), ('read', "
                      "(196,), {}), 'exit']",
 'array rpc=4 [::2]': "ndarray[<u2(3, 3)][[0, 7, 14], [40, 47, 54], [80, 87, 94]] || io=[('open', "
                      "('image-file',), {'mode': 'rb'}), 'enter', ('seek', (12,), {}), ('read', (196,), {}), "
                      "('seek', (220,), {}), ('read', (92,), {}), 'exit']",
 'array rpc=4 [1::2]': "ndarray[<u2(3, 3)][[20, 27, 34], [60, 67, 74], [100, 107, 114]] || io=[('open', "
                       "('image-file',), {'mode': 'rb'}), 'enter', ('seek', (12,), {}), ('read', (196,), "
                       "{}), ('seek', (220,), {}), ('read', (92,), {}), 'exit']",
 'array rpc=4 [::-1]': 'ndarray[<u2(6, 3)][[100, 107, 114], [80, 87, 94], [60, 67, 74], [40, 47, 54], [20, '
                       "27, 34], [0, 7, 14]] || io=[('open', ('image-file',), {'mode': 'rb'}), 'enter', "
                       "('seek', (220,), {}), ('read', (92,), {}), ('seek', (12,), {}), ('read', (196,), "
                       "{}), 'exit']",
 'array rpc=4 [-1::-2]': "ndarray[<u2(3, 3)][[100, 107, 114], [60, 67, 74], [20, 27, 34]] || io=[('open', "
                         "('image-file',), {'mode': 'rb'}), 'enter', ('seek', (220,), {}), ('read', (92,), "
                         "{}), ('seek', (12,), {}), ('read', (196,), {}), 'exit']",
 'array rpc=4 [3:0:-1]': "ndarray[<u2(3, 3)][[60, 67, 74], [40, 47, 54], [20, 27, 34]] || io=[('open', "
                         "('image-file',), {'mode': 'rb'}), 'enter', ('seek', (12,), {}), ('read', (196,), "
                         "{}), 'exit']",
 'array rpc=4 [0:0]': "ndarray[<u2(0, 3)][] || io=[('open', ('image-file',), {'mode': 'rb'}), 'enter', "
                      "'exit']",
 'array rpc=4 [3:1]': "ndarray[<u2(0, 3)][] || io=[('open', ('image-file',), {'mode': 'rb'}), 'enter', "
                      "'exit']",
 'array rpc=4 [10:20]': "ndarray[<u2(0, 3)][] || io=[('open', ('image-file',), {'mode': 'rb'}), 'enter', "
                        "'exit']",
 'array rpc=4 [-10:10]': 'ndarray[<u2(6, 3)][[0, 7, 14], [20, 27, 34], [40, 47, 54], [60, 67, 74], [80, 87, '
                         "94], [100, 107, 114]] || io=[('open', ('image-file',), {'mode': 'rb'}), 'enter', "
                         "('seek', (12,), {}), ('read', (196,), {}), ('seek', (220,), {}), ('read', (92,), "
                         "{}), 'exit']",
 'array rpc=4 [::0]': 'raise builtins.ValueError: slice step cannot be zero || io=[]',
 'array rpc=4 [1.5:]': 'raise builtins.TypeError: slice indices must be integers or None or have an '
                       '__index__ method || io=[]',
 "array rpc=4 ['a':]": 'raise builtins.TypeError: slice indices must be integers or None or have an '
                       '__index__ method || io=[]',
 'array rpc=4 [Index(1):Index(3)]': "ndarray[<u2(2, 3)][[20, 27, 34], [40, 47, 54]] || io=[('open', "
                                    "('image-file',), {'mode': 'rb'}), 'enter', ('seek', (12,), {}), "
                                    "('read', (196,), {}), 'exit']",
 'array rpc=4 [np:np]': "ndarray[<u2(2, 3)][[20, 27, 34], [40, 47, 54]] || io=[('open', ('image-file',), "
                        "{'mode': 'rb'}), 'enter', ('seek', (12,), {}), ('read', (196,), {}), 'exit']",
 'array rpc=4 [[]]': "ndarray[<u2(0, 3)][] || io=[('open', ('image-file',), {'mode': 'rb'}), 'enter', "
                     "'exit']",
 'array rpc=4 [[0]]': "ndarray[<u2(1, 3)][[0, 7, 14]] || io=[('open', ('image-file',), {'mode': 'rb'}), "
                      "'enter', ('seek', (12,), {}), ('read', (196,), {}), 'exit']",
 'array rpc=4 [[3]]': "ndarray[<u2(1, 3)][[60, 67, 74]] || io=[('open', ('image-file',), {'mode': 'rb'}), "
                      "'enter', ('seek', (12,), {}), ('read', (196,), {}), 'exit']",
 'array rpc=4 [[4]]': "ndarray[<u2(1, 3)][[80, 87, 94]] || io=[('open', ('image-file',), {'mode': 'rb'}), "
                      "'enter', ('seek', (220,), {}), ('read', (92,), {}), 'exit']",
 'array rpc=4 [[0,2]]': "ndarray[<u2(2, 3)][[0, 7, 14], [40, 47, 54]] || io=[('open', ('image-file',), "
                        "{'mode': 'rb'}), 'enter', ('seek', (12,), {}), ('read', (196,), {}), 'exit']",
 'array rpc=4 [[0,-1]]': "ndarray[<u2(2, 3)][[0, 7, 14], [100, 107, 114]] || io=[('open', ('image-file',), "
                         "{'mode': 'rb'}), 'enter', ('seek', (12,), {}), ('read', (196,), {}), ('seek', "
                         "(220,), {}), ('read', (92,), {}), 'exit']",
 'array rpc=4 [[3,1,1,0]]': 'ndarray[<u2(4, 3)][[60, 67, 74], [20, 27, 34], [20, 27, 34], [0, 7, 14]] || '
                            "io=[('open', ('image-file',), {'mode': 'rb'}), 'enter', ('seek', (12,), {}), "
                            "('read', (196,), {}), 'exit']",
 'array rpc=4 [[0,4]]': "ndarray[<u2(2, 3)][[0, 7, 14], [80, 87, 94]] || io=[('open', ('image-file',), "
                        "{'mode': 'rb'}), 'enter', ('seek', (12,), {}), ('read', (196,), {}), ('seek', "
                        "(220,), {}), ('read', (92,), {}), 'exit']",
 "array rpc=4 [[4,'a']]": 'raise builtins.TypeError: list indices must be integers or slices, not str || '
                          'io=[]',
 "array rpc=4 [['a',4]]": 'raise builtins.TypeError: list indices must be integers or slices, not str || '
                          'io=[]',
 "array rpc=4 [[0,'a']]": 'raise builtins.TypeError: list indices must be integers or slices, not str || '
                          'io=[]',
 'array rpc=4 [[0,None]]': 'raise builtins.TypeError: list indices must be integers or slices, not NoneType '
                           '|| io=[]',
 'array rpc=4 [[1.0]]': 'raise builtins.TypeError: list indices must be integers or slices, not float || '
                        'io=[]',
 'array rpc=4 [[0,1.0]]': 'raise builtins.TypeError: list indices must be integers or slices, not float || '
                          'io=[]',
 'array rpc=4 [[True,False]]': "ndarray[<u2(2, 3)][[20, 27, 34], [0, 7, 14]] || io=[('open', "
                               "('image-file',), {'mode': 'rb'}), 'enter', ('seek', (12,), {}), ('read', "
                               "(196,), {}), 'exit']",
 'array rpc=4 [[Index(2)]]': "ndarray[<u2(1, 3)][[40, 47, 54]] || io=[('open', ('image-file',), {'mode': "
                             "'rb'}), 'enter', ('seek', (12,), {}), ('read', (196,), {}), 'exit']",
 'array rpc=4 [[Index(2),0]]': "ndarray[<u2(2, 3)][[40, 47, 54], [0, 7, 14]] || io=[('open', "
                               "('image-file',), {'mode': 'rb'}), 'enter', ('seek', (12,), {}), ('read', "
                               "(196,), {}), 'exit']",
 'array rpc=4 [[np.int64(2),np.int64(0)]]': "ndarray[<u2(2, 3)][[40, 47, 54], [0, 7, 14]] || io=[('open', "
                                            "('image-file',), {'mode': 'rb'}), 'enter', ('seek', (12,), {}), "
                                            "('read', (196,), {}), 'exit']",
 'array rpc=4 [[slice]]': "raise builtins.TypeError: unsupported operand type(s) for //: 'tuple' and 'int' "
                          '|| io=[]',
 'array rpc=4 [[0,slice]]': "raise builtins.TypeError: unsupported operand type(s) for //: 'tuple' and 'int' "
                            '|| io=[]',
 'array rpc=4 [[[0,1]]]': 'raise builtins.TypeError: list indices must be integers or slices, not list || '
                          'io=[]',
 'array rpc=4 [[[0],[1]]]': 'raise builtins.TypeError: list indices must be integers or slices, not list || '
                            'io=[]',
 'array rpc=4 [[(0,)]]': 'raise builtins.TypeError: list indices must be integers or slices, not tuple || '
                         'io=[]',
 'array rpc=4 [(0,2)]': "ndarray[<u2(2, 3)][[0, 7, 14], [40, 47, 54]] || io=[('open', ('image-file',), "
                        "{'mode': 'rb'}), 'enter', ('seek', (12,), {}), ('read', (196,), {}), 'exit']",
 'array rpc=4 [()]': "ndarray[<u2(0, 3)][] || io=[('open', ('image-file',), {'mode': 'rb'}), 'enter', "
                     "'exit']",
 'array rpc=4 [(1,)]': "ndarray[<u2(1, 3)][[20, 27, 34]] || io=[('open', ('image-file',), {'mode': 'rb'}), "
                       "'enter', ('seek', (12,), {}), ('read', (196,), {}), 'exit']",
 'array rpc=4 [array[2,0]]': "ndarray[<u2(2, 3)][[40, 47, 54], [0, 7, 14]] || io=[('open', ('image-file',), "
                             "{'mode': 'rb'}), 'enter', ('seek', (12,), {}), ('read', (196,), {}), 'exit']",
 'array rpc=4 [array[]]': "ndarray[<u2(0, 3)][] || io=[('open', ('image-file',), {'mode': 'rb'}), 'enter', "
                          "'exit']",
 'array rpc=4 [array[1.0]]': 'raise builtins.TypeError: list indices must be integers or slices, not '
                             'numpy.float64 || io=[]',
 'array rpc=4 [array-bool]': 'raise builtins.TypeError: list indices must be integers or slices, not '
                             'numpy.bool || io=[]',
 'array rpc=4 [array-0d]': 'raise builtins.TypeError: iteration over a 0-d array || io=[]',
 'array rpc=4 [array-2d]': 'raise builtins.TypeError: only integer scalar arrays can be converted to a '
                           'scalar index || io=[]',
 'array rpc=4 [range(1,3)]': "ndarray[<u2(2, 3)][[20, 27, 34], [40, 47, 54]] || io=[('open', "
                             "('image-file',), {'mode': 'rb'}), 'enter', ('seek', (12,), {}), ('read', "
                             "(196,), {}), 'exit']",
 'array rpc=4 [range(3,-1,-1)]': 'ndarray[<u2(4, 3)][[60, 67, 74], [40, 47, 54], [20, 27, 34], [0, 7, 14]] '
                                 "|| io=[('open', ('image-file',), {'mode': 'rb'}), 'enter', ('seek', (12,), "
                                 "{}), ('read', (196,), {}), 'exit']",
 'array rpc=4 [gen]': "ndarray[<u2(2, 3)][[40, 47, 54], [0, 7, 14]] || io=[('open', ('image-file',), "
                      "{'mode': 'rb'}), 'enter', ('seek', (12,), {}), ('read', (196,), {}), 'exit']",
 'array rpc=4 [set]': "ndarray[<u2(1, 3)][[20, 27, 34]] || io=[('open', ('image-file',), {'mode': 'rb'}), "
                      "'enter', ('seek', (12,), {}), ('read', (196,), {}), 'exit']",
 'array rpc=4 [dict]': "ndarray[<u2(2, 3)][[20, 27, 34], [0, 7, 14]] || io=[('open', ('image-file',), "
                       "{'mode': 'rb'}), 'enter', ('seek', (12,), {}), ('read', (196,), {}), 'exit']",
 "array rpc=4 ['12']": 'raise builtins.TypeError: list indices must be integers or slices, not str || io=[]',
 "array rpc=4 ['']": "ndarray[<u2(0, 3)][] || io=[('open', ('image-file',), {'mode': 'rb'}), 'enter', "
                     "'exit']",
 "array rpc=4 [b'\\x01']": "ndarray[<u2(1, 3)][[20, 27, 34]] || io=[('open', ('image-file',), {'mode': "
                           "'rb'}), 'enter', ('seek', (12,), {}), ('read', (196,), {}), 'exit']",
 'array rpc=6 [0]': "ndarray[<u2(3,)][0, 7, 14] || io=[('open', ('image-file',), {'mode': 'rb'}), 'enter', "
                    "('seek', (12,), {}), ('read', (300,), {}), 'exit']",
 'array rpc=6 [2]': "ndarray[<u2(3,)][40, 47, 54] || io=[('open', ('image-file',), {'mode': 'rb'}), 'enter', "
                    "('seek', (12,), {}), ('read', (300,), {}), 'exit']",
 'array rpc=6 [-1]': "ndarray[<u2(3,)][100, 107, 114] || io=[('open', ('image-file',), {'mode': 'rb'}), "
                     "'enter', ('seek', (12,), {}), ('read', (300,), {}), 'exit']",
 'array rpc=6 [-4]': "ndarray[<u2(3,)][40, 47, 54] || io=[('open', ('image-file',), {'mode': 'rb'}), "
                     "'enter', ('seek', (12,), {}), ('read', (300,), {}), 'exit']",
 'array rpc=6 [4]': "ndarray[<u2(3,)][80, 87, 94] || io=[('open', ('image-file',), {'mode': 'rb'}), 'enter', "
                    "('seek', (12,), {}), ('read', (300,), {}), 'exit']",
 'array rpc=6 [-5]': "ndarray[<u2(3,)][20, 27, 34] || io=[('open', ('image-file',), {'mode': 'rb'}), "
                     "'enter', ('seek', (12,), {}), ('read', (300,), {}), 'exit']",
 'array rpc=6 [True]': "ndarray[<u2(3,)][20, 27, 34] || io=[('open', ('image-file',), {'mode': 'rb'}), "
                       "'enter', ('seek', (12,), {}), ('read', (300,), {}), 'exit']",
 'array rpc=6 [False]': "ndarray[<u2(3,)][0, 7, 14] || io=[('open', ('image-file',), {'mode': 'rb'}), "
                        "'enter', ('seek', (12,), {}), ('read', (300,), {}), 'exit']",
 'array rpc=6 [MyInt(1)]': "ndarray[<u2(3,)][20, 27, 34] || io=[('open', ('image-file',), {'mode': 'rb'}), "
                           "'enter', ('seek', (12,), {}), ('read', (300,), {}), 'exit']",
 'array rpc=6 [np.int64(1)]': "raise builtins.TypeError: 'numpy.int64' object is not iterable || io=[]",
 'array rpc=6 [np.uint8(3)]': "raise builtins.TypeError: 'numpy.uint8' object is not iterable || io=[]",
 'array rpc=6 [np.bool(True)]': "raise builtins.TypeError: 'numpy.bool' object is not iterable || io=[]",
 'array rpc=6 [Index(1)]': "raise builtins.TypeError: 'Index' object is not iterable || io=[]",
 'array rpc=6 [1.0]': "raise builtins.TypeError: 'float' object is not iterable || io=[]",
 'array rpc=6 [None]': "raise builtins.TypeError: 'NoneType' object is not iterable || io=[]",
 'array rpc=6 [Ellipsis]': "raise builtins.TypeError: 'ellipsis' object is not iterable || io=[]",
 'array rpc=6 [all]': 'ndarray[<u2(6, 3)][[0, 7, 14], [20, 27, 34], [40, 47, 54], [60, 67, 74], [80, 87, '
                      "94], [100, 107, 114]] || io=[('open', ('image-file',), {'mode': 'rb'}), 'enter', "
                      "('seek', (12,), {}), ('read', (300,), {}), 'exit']",
 'array rpc=6 [0:1]': "ndarray[<u2(1, 3)][[0, 7, 14]] || io=[('open', ('image-file',), {'mode': 'rb'}), "
                      "'enter', ('seek', (12,), {}), ('read', (300,), {}), 'exit']",
 'array rpc=6 [2:]': 'ndarray[<u2(4, 3)][[40, 47, 54], [60, 67, 74], [80, 87, 94], [100, 107, 114]] || '
                     "io=[('open', ('image-file',), {'mode': 'rb'}), 'enter', ('seek', (12,), {}), ('read', "
                     "(300,), {}), 'exit']",
 'array rpc=6 [:2]': "ndarray[<u2(2, 3)][[0, 7, 14], [20, 27, 34]] || io=[('open', ('image-file',), {'mode': "
                     "'rb'}), 'enter', ('seek', (12,), {}), ('read', (300,), {}), 'exit']",
 'array rpc=6 [-2:]': "ndarray[<u2(2, 3)][[80, 87, 94], [100, 107, 114]] || io=[('open', ('image-file',), "
                      "{'mode': 'rb'}), 'enter', ('seek', (12,), {}), ('read', (300,), {}), 'exit']",
 'array rpc=6 [:-2]': 'ndarray[<u2(4, 3)][[0, 7, 14], [20, 27, 34], [40, 47, 54], [60, 67, 74]] || '
                      "io=[('open', ('image-file',), {'mode': 'rb'}), 'enter', ('seek', (12,), {}), ('read', "
                      "(300,), {}), 'exit']",
 'array rpc=6 [::2]': "ndarray[<u2(3, 3)][[0, 7, 14], [40, 47, 54], [80, 87, 94]] || io=[('open', "
                      "('image-file',), {'mode': 'rb'}), 'enter', ('seek', (12,), {}), ('read', (300,), {}), "
                      "'exit']",
 'array rpc=6 [1::2]': "ndarray[<u2(3, 3)][[20, 27, 34], [60, 67, 74], [100, 107, 114]] || io=[('open', "
                       "('image-file',), {'mode': 'rb'}), 'enter', ('seek', (12,), {}), ('read', (300,), "
                       "{}), 'exit']",
 'array rpc=6 [::-1]': 'ndarray[<u2(6, 3)][[100, 107, 114], [80, 87, 94], [60, 67, 74], [40, 47, 54], [20, '
                       "27, 34], [0, 7, 14]] || io=[('open', ('image-file',), {'mode': 'rb'}), 'enter', "
                       "('seek', (12,), {}), ('read', (300,), {}), 'exit']",
 'array rpc=6 [-1::-2]': "ndarray[<u2(3, 3)][[100, 107, 114], [60, 67, 74], [20, 27, 34]] || io=[('open', "
                         "('image-file',), {'mode': 'rb'}), 'enter', ('seek', (12,), {}), ('read', (300,), "
                         "{}), 'exit']",
 'array rpc=6 [3:0:-1]': "ndarray[<u2(3, 3)][[60, 67, 74], [40, 47, 54], [20, 27, 34]] || io=[('open', "
                         "('image-file',), {'mode': 'rb'}), 'enter', ('seek', (12,), {}), ('read', (300,), "
                         "{}), 'exit']",
 'array rpc=6 [0:0]': "ndarray[<u2(0, 3)][] || io=[('open', ('image-file',), {'mode': 'rb'}), 'enter', "
                      "'exit']",
 'array rpc=6 [3:1]': "ndarray[<u2(0, 3)][] || io=[('open', ('image-file',), {'mode': 'rb'}), 'enter', "
                      "'exit']",
 'array rpc=6 [10:20]': "ndarray[<u2(0, 3)][] || io=[('open', ('image-file',), {'mode': 'rb'}), 'enter', "
                        "'exit']",
 'array rpc=6 [-10:10]': 'ndarray[<u2(6, 3)][[0, 7, 14], [20, 27, 34], [40, 47, 54], [60, 67, 74], [80, 87, '
                         "94], [100, 107, 114]] || io=[('open', ('image-file',), {'mode': 'rb'}), 'enter', "
                         "('seek', (12,), {}), ('read', (300,), {}), 'exit']",
 'array rpc=6 [::0]': 'raise builtins.ValueError: slice step cannot be zero || io=[]',
 'array rpc=6 [1.5:]': 'raise builtins.TypeError: slice indices must be integers or None or have an '
                       '__index__ method || io=[]',
 "array rpc=6 ['a':]": 'raise builtins.TypeError: slice indices must be integers or None or have an '
                       '__index__ method || io=[]',
 'array rpc=6 [Index(1):Index(3)]': "ndarray[<u2(2, 3)][[20, 27, 34], [40, 47, 54]] || io=[('open', "
                                    "('image-file',), {'mode': 'rb'}), 'enter', ('seek', (12,), {}), "
                                    "('read', (300,), {}), 'exit']",
 'array rpc=6 [np:np]': "ndarray[<u2(2, 3)][[20, 27, 34], [40, 47, 54]] || io=[('open', ('image-file',), "
                        "{'mode': 'rb'}), 'enter', ('seek', (12,), {}), ('read', (300,), {}), 'exit']",
 'array rpc=6 [[]]': "ndarray[<u2(0, 3)][] || io=[('open', ('image-file',), {'mode': 'rb'}), 'enter', "
                     "'exit']",
 'array rpc=6 [[0]]': "ndarray[<u2(1, 3)][[0, 7, 14]] || io=[('open', ('image-file',), {'mode': 'rb'}), "
                      "'enter', ('seek', (12,), {}), ('read', (300,), {}), 'exit']",
 'array rpc=6 [[3]]': "ndarray[<u2(1, 3)][[60, 67, 74]] || io=[('open', ('image-file',), {'mode': 'rb'}), "
                      "'enter', ('seek', (12,), {}), ('read', (300,), {}), 'exit']",
 'array rpc=6 [[4]]': "ndarray[<u2(1, 3)][[80, 87, 94]] || io=[('open', ('image-file',), {'mode': 'rb'}), "
                      "'enter', ('seek', (12,), {}), ('read', (300,), {}), 'exit']",
 'array rpc=6 [[0,2]]': "ndarray[<u2(2, 3)][[0, 7, 14], [40, 47, 54]] || io=[('open', ('image-file',), "
                        "{'mode': 'rb'}), 'enter', ('seek', (12,), {}), ('read', (300,), {}), 'exit']",
 'array rpc=6 [[0,-1]]': "ndarray[<u2(2, 3)][[0, 7, 14], [100, 107, 114]] || io=[('open', ('image-file',), "
                         "{'mode': 'rb'}), 'enter', ('seek', (12,), {}), ('read', (300,), {}), 'exit']",
 'array rpc=6 [[3,1,1,0]]': 'ndarray[<u2(4, 3)][[60, 67, 74], [20, 27, 34], [20, 27, 34], [0, 7, 14]] || '
                            "io=[('open', ('image-file',), {'mode': 'rb'}), 'enter', ('seek', (12,), {}), "
                            "('read', (300,), {}), 'exit']",
 'array rpc=6 [[0,4]]': "ndarray[<u2(2, 3)][[0, 7, 14], [80, 87, 94]] || io=[('open', ('image-file',), "
                        "{'mode': 'rb'}), 'enter', ('seek', (12,), {}), ('read', (300,), {}), 'exit']",
 "array rpc=6 [[4,'a']]": 'raise builtins.TypeError: list indices must be integers or slices, not str || '
                          'io=[]',
 "array rpc=6 [['a',4]]": 'raise builtins.TypeError: list indices must be integers or slices, not str || '
                          'io=[]',
 "array rpc=6 [[0,'a']]": 'raise builtins.TypeError: list indices must be integers or slices, not str || '
                          'io=[]',
 'array rpc=6 [[0,None]]': 'raise builtins.TypeError: list indices must be integers or slices, not NoneType '
                           '|| io=[]',
 'array rpc=6 [[1.0]]': 'raise builtins.TypeError: list indices must be integers or slices, not float || '
                        'io=[]',
 'array rpc=6 [[0,1.0]]': 'raise builtins.TypeError: list indices must be integers or slices, not float || '
                          'io=[]',
 'array rpc=6 [[True,False]]': "ndarray[<u2(2, 3)][[20, 27, 34], [0, 7, 14]] || io=[('open', "
                               "('image-file',), {'mode': 'rb'}), 'enter', ('seek', (12,), {}), ('read', "
                               "(300,), {}), 'exit']",
 'array rpc=6 [[Index(2)]]': "ndarray[<u2(1, 3)][[40, 47, 54]] || io=[('open', ('image-file',), {'mode': "
                             "'rb'}), 'enter', ('seek', (12,), {}), ('read', (300,), {}), 'exit']",
 'array rpc=6 [[Index(2),0]]': "ndarray[<u2(2, 3)][[40, 47, 54], [0, 7, 14]] || io=[('open', "
                               "('image-file',), {'mode': 'rb'}), 'enter', ('seek', (12,), {}), ('read', "
                               "(300,), {}), 'exit']",
 'array rpc=6 [[np.int64(2),np.int64(0)]]': "ndarray[<u2(2, 3)][[40, 47, 54], [0, 7, 14]] || io=[('open', "
                                            "('image-file',), {'mode': 'rb'}), 'enter', ('seek', (12,), {}), "
                                            "('read', (300,), {}), 'exit']",
 'array rpc=6 [[slice]]': "raise builtins.TypeError: unsupported operand type(s) for //: 'tuple' and 'int' "
                          '|| io=[]',
 'array rpc=6 [[0,slice]]': "raise builtins.TypeError: unsupported operand type(s) for //: 'tuple' and 'int' "
                            '|| io=[]',
 'array rpc=6 [[[0,1]]]': 'raise builtins.TypeError: list indices must be integers or slices, not list || '
                          'io=[]',
 'array rpc=6 [[[0],[1]]]': 'raise builtins.TypeError: list indices must be integers or slices, not list || '
                            'io=[]',
 'array rpc=6 [[(0,)]]': 'raise builtins.TypeError: list indices must be integers or slices, not tuple || '
                         'io=[]',
 'array rpc=6 [(0,2)]': "ndarray[<u2(2, 3)][[0, 7, 14], [40, 47, 54]] || io=[('open', ('image-file',), "
                        "{'mode': 'rb'}), 'enter', ('seek', (12,), {}), ('read', (300,), {}), 'exit']",
 'array rpc=6 [()]': "ndarray[<u2(0, 3)][] || io=[('open', ('image-file',), {'mode': 'rb'}), 'enter', "
                     "'exit']",
 'array rpc=6 [(1,)]': "ndarray[<u2(1, 3)][[20, 27, 34]] || io=[('open', ('image-file',), {'mode': 'rb'}), "
                       "'enter', ('seek', (12,), {}), ('read', (300,), {}), 'exit']",
 'array rpc=6 [array[2,0]]': "ndarray[<u2(2, 3)][[40, 47, 54], [0, 7, 14]] || io=[('open', ('image-file',), "
                             "{'mode': 'rb'}), 'enter', ('seek', (12,), {}), ('read', (300,), {}), 'exit']",
 'array rpc=6 [array[]]': "ndarray[<u2(0, 3)][] || io=[('open', ('image-file',), {'mode': 'rb'}), 'enter', "
                          "'exit']",
 'array rpc=6 [array[1.0]]': 'raise builtins.TypeError: list indices must be integers or slices, not '
                             'numpy.float64 || io=[]',
 'array rpc=6 [array-bool]': 'raise builtins.TypeError: list indices must be integers or slices, not '
                             'numpy.bool || io=[]',
 'array rpc=6 [array-0d]': 'raise builtins.TypeError: iteration over a 0-d array || io=[]',
 'array rpc=6 [array-2d]': 'raise builtins.TypeError: only integer scalar arrays can be converted to a '
                           'scalar index || io=[]',
 'array rpc=6 [range(1,3)]': "ndarray[<u2(2, 3)][[20, 27, 34], [40, 47, 54]] || io=[('open', "
                             "('image-file',), {'mode': 'rb'}), 'enter', ('seek', (12,), {}), ('read', "
                             "(300,), {}), 'exit']",
 'array rpc=6 [range(3,-1,-1)]': 'ndarray[<u2(4, 3)][[60, 67, 74], [40, 47, 54], [20, 27, 34], [0, 7, 14]] '
                                 "|| io=[('open', ('image-file',), {'mode': 'rb'}), 'enter', ('seek', (12,), "
                                 "{}), ('read', (300,), {}), 'exit']",
 'array rpc=6 [gen]': "ndarray[<u2(2, 3)][[40, 47, 54], [0, 7, 14]] || io=[('open', ('image-file',), "
                      "{'mode': 'rb'}), 'enter', ('seek', (12,), {}), ('read', (300,), {}), 'exit']",
 'array rpc=6 [set]': "ndarray[<u2(1, 3)][[20, 27, 34]] || io=[('open', ('image-file',), {'mode': 'rb'}), "
                      "'enter', ('seek', (12,), {}), ('read', (300,), {}), 'exit']",
 'array rpc=6 [dict]': "ndarray[<u2(2, 3)][[20, 27, 34], [0, 7, 14]] || io=[('open', ('image-file',), "
                       "{'mode': 'rb'}), 'enter', ('seek', (12,), {}), ('read', (300,), {}), 'exit']",
 "array rpc=6 ['12']": 'raise builtins.TypeError: list indices must be integers or slices, not str || io=[]',
 "array rpc=6 ['']": "ndarray[<u2(0, 3)][] || io=[('open', ('image-file',), {'mode': 'rb'}), 'enter', "
                     "'exit']",
 "array rpc=6 [b'\\x01']": "ndarray[<u2(1, 3)][[20, 27, 34]] || io=[('open', ('image-file',), {'mode': "
                           "'rb'}), 'enter', ('seek', (12,), {}), ('read', (300,), {}), 'exit']",
 'array rpc=9 [0]': "ndarray[<u2(3,)][0, 7, 14] || io=[('open', ('image-file',), {'mode': 'rb'}), 'enter', "
                    "('seek', (12,), {}), ('read', (300,), {}), 'exit']",
 'array rpc=9 [2]': "ndarray[<u2(3,)][40, 47, 54] || io=[('open', ('image-file',), {'mode': 'rb'}), 'enter', "
                    "('seek', (12,), {}), ('read', (300,), {}), 'exit']",
 'array rpc=9 [-1]': "ndarray[<u2(3,)][100, 107, 114] || io=[('open', ('image-file',), {'mode': 'rb'}), "
                     "'enter', ('seek', (12,), {}), ('read', (300,), {}), 'exit']",
 'array rpc=9 [-4]': "ndarray[<u2(3,)][40, 47, 54] || io=[('open', ('image-file',), {'mode': 'rb'}), "
                     "'enter', ('seek', (12,), {}), ('read', (300,), {}), 'exit']",
 'array rpc=9 [4]': "ndarray[<u2(3,)][80, 87, 94] || io=[('open', ('image-file',), {'mode': 'rb'}), 'enter', "
                    "('seek', (12,), {}), ('read', (300,), {}), 'exit']",
 'array rpc=9 [-5]': "ndarray[<u2(3,)][20, 27, 34] || io=[('open', ('image-file',), {'mode': 'rb'}), "
                     "'enter', ('seek', (12,), {}), ('read', (300,), {}), 'exit']",
 'array rpc=9 [True]': "ndarray[<u2(3,)][20, 27, 34] || io=[('open', ('image-file',), {'mode': 'rb'}), "
                       "'enter', ('seek', (12,), {}), ('read', (300,), {}), 'exit']",
 'array rpc=9 [False]': "ndarray[<u2(3,)][0, 7, 14] || io=[('open', ('image-file',), {'mode': 'rb'}), "
                        "'enter', ('seek', (12,), {}), ('read', (300,), {}), 'exit']",
 'array rpc=9 [MyInt(1)]': "ndarray[<u2(3,)][20, 27, 34] || io=[('open', ('image-file',), {'mode': 'rb'}), "
                           "'enter', ('seek', (12,), {}), ('read', (300,), {}), 'exit']",
 'array rpc=9 [np.int64(1)]': "raise builtins.TypeError: 'numpy.int64' object is not iterable || io=[]",
 'array rpc=9 [np.uint8(3)]': "raise builtins.TypeError: 'numpy.uint8' object is not iterable || io=[]",
 'array rpc=9 [np.bool(True)]': "raise builtins.TypeError: 'numpy.bool' object is not iterable || io=[]",
 'array rpc=9 [Index(1)]': "raise builtins.TypeError: 'Index' object is not iterable || io=[]",
 'array rpc=9 [1.0]': "raise builtins.TypeError: 'float' object is not iterable || io=[]",
 'array rpc=9 [None]': "raise builtins.TypeError: 'NoneType' object is not iterable || io=[]",
 'array rpc=9 [Ellipsis]': "raise builtins.TypeError: 'ellipsis' object is not iterable || io=[]",
 'array rpc=9 [all]': 'ndarray[<u2(6, 3)][[0, 7, 14], [20, 27, 34], [40, 47, 54], [60, 67, 74], [80, 87, '
                      "94], [100, 107, 114]] || io=[('open', ('image-file',), {'mode': 'rb'}), 'enter', "
                      "('seek', (12,), {}), ('read', (300,), {}), 'exit']",
 'array rpc=9 [0:1]': "ndarray[<u2(1, 3)][[0, 7, 14]] || io=[('open', ('image-file',), {'mode': 'rb'}), "
                      "'enter', ('seek', (12,), {}), ('read', (300,), {}), 'exit']",
 'array rpc=9 [2:]': 'ndarray[<u2(4, 3)][[40, 47, 54], [60, 67, 74], [80, 87, 94], [100, 107, 114]] || '
                     "io=[('open', ('image-file',), {'mode': 'rb'}), 'enter', ('seek', (12,), {}), ('read', "
                     "(300,), {}), 'exit']",
 'array rpc=9 [:2]': "ndarray[<u2(2, 3)][[0, 7, 14], [20, 27, 34]] || io=[('open', ('image-file',), {'mode': "
                     "'rb'}), 'enter', ('seek', (12,), {}), ('read', (300,), {}), 'exit']",
 'array rpc=9 [-2:]': "ndarray[<u2(2, 3)][[80, 87, 94], [100, 107, 114]] || io=[('open', ('image-file',), "
                      "{'mode': 'rb'}), 'enter', ('seek', (12,), {}), ('read', (300,), {}), 'exit']",
 'array rpc=9 [:-2]': 'ndarray[<u2(4, 3)][[0, 7, 14], [20, 27, 34], [40, 47, 54], [60, 67, 74]] || '
                      "io=[('open', ('image-file',), {'mode': 'rb'}), 'enter', ('seek', (12,), {}), ('read', "
                      "(300,), {}), 'exit']",
 'array rpc=9 [::2]': "ndarray[<u2(3, 3)][[0, 7, 14], [40, 47, 54], [80, 87, 94]] || io=[('open', "
                      "('image-file',), {'mode': 'rb'}), 'enter', ('seek', (12,), {}), ('read', (300,), {}), "
                      "'exit']",
 'array rpc=9 [1::2]': "ndarray[<u2(3, 3)][[20, 27, 34], [60, 67, 74], [100, 107, 114]] || io=[('open', "
                       "('image-file',), {'mode': 'rb'}), 'enter', ('seek', (12,), {}), ('read', (300,), "
                       "{}), 'exit']",
 'array rpc=9 [::-1]': 'ndarray[<u2(6, 3)][[100, 107, 114], [80, 87, 94], [60, 67, 74], [40, 47, 54], [20, '
                       "27, 34], [0, 7, 14]] || io=[('open', ('image-file',), {'mode': 'rb'}), 'enter', "
                       "('seek', (12,), {}), ('read', (300,), {}), 'exit']",
 'array rpc=9 [-1::-2]': "ndarray[<u2(3, 3)][[100, 107, 114], [60, 67, 74], [20, 27, 34]] || io=[('open', "
                         "('image-file',), {'mode': 'rb'}), 'enter', ('seek', (12,), {}), ('read', (300,), "
                         "{}), 'exit']",
 'array rpc=9 [3:0:-1]': "ndarray[<u2(3, 3)][[60, 67, 74], [40, 47, 54], [20, 27, 34]] || io=[('open', "
                         "('image-file',), {'mode': 'rb'}), 'enter', ('seek', (12,), {}), ('read', (300,), "
                         "{}), 'exit']",
 'array rpc=9 [0:0]': "ndarray[<u2(0, 3)][] || io=[('open', ('image-file',), {'mode': 'rb'}), 'enter', "
                      "'exit']",
 'array rpc=9 [3:1]': "ndarray[<u2(0, 3)][] || io=[('open', ('image-file',), {'mode': 'rb'}), 'enter', "
                      "'exit']",
 'array rpc=9 [10:20]': "ndarray[<u2(0, 3)][] || io=[('open', ('image-file',), {'mode': 'rb'}), 'enter', "
                        "'exit']",
 'array rpc=9 [-10:10]': 'ndarray[<u2(6, 3)][[0, 7, 14], [20, 27, 34], [40, 47, 54], [60, 67, 74], [80, 87, '
                         "94], [100, 107, 114]] || io=[('open', ('image-file',), {'mode': 'rb'}), 'enter', "
                         "('seek', (12,), {}), ('read', (300,), {}), 'exit']",
 'array rpc=9 [::0]': 'raise builtins.ValueError: slice step cannot be zero || io=[]',
 'array rpc=9 [1.5:]': 'raise builtins.TypeError: slice indices must be integers or None or have an '
                       '__index__ method || io=[]',
 "array rpc=9 ['a':]": 'raise builtins.TypeError: slice indices must be integers or None or have an '
                       '__index__ method || io=[]',
 'array rpc=9 [Index(1):Index(3)]': "ndarray[<u2(2, 3)][[20, 27, 34], [40, 47, 54]] || io=[('open', "
                                    "('image-file',), {'mode': 'rb'}), 'enter', ('seek', (12,), {}), "
                                    "('read', (300,), {}), 'exit']",
 'array rpc=9 [np:np]': "ndarray[<u2(2, 3)][[20, 27, 34], [40, 47, 54]] || io=[('open', ('image-file',), "
                        "{'mode': 'rb'}), 'enter', ('seek', (12,), {}), ('read', (300,), {}), 'exit']",
 'array rpc=9 [[]]': "ndarray[<u2(0, 3)][] || io=[('open', ('image-file',), {'mode': 'rb'}), 'enter', "
                     "'exit']",
 'array rpc=9 [[0]]': "ndarray[<u2(1, 3)][[0, 7, 14]] || io=[('open', ('image-file',), {'mode': 'rb'}), "
                      "'enter', ('seek', (12,), {}), ('read', (300,), {}), 'exit']",
 'array rpc=9 [[3]]': "ndarray[<u2(1, 3)][[60, 67, 74]] || io=[('open', ('image-file',), {'mode': 'rb'}), "
                      "'enter', ('seek', (12,), {}), ('read', (300,), {}), 'exit']",
 'array rpc=9 [[4]]': "ndarray[<u2(1, 3)][[80, 87, 94]] || io=[('open', ('image-file',), {'mode': 'rb'}), "
                      "'enter', ('seek', (12,), {}), ('read', (300,), {}), 'exit']",
 'array rpc=9 [[0,2]]': "ndarray[<u2(2, 3)][[0, 7, 14], [40, 47, 54]] || io=[('open', ('image-file',), "
                        "{'mode': 'rb'}), 'enter', ('seek', (12,), {}), ('read', (300,), {}), 'exit']",
 'array rpc=9 [[0,-1]]': "ndarray[<u2(2, 3)][[0, 7, 14], [100, 107, 114]] || io=[('open', ('image-file',), "
                         "{'mode': 'rb'}), 'enter', ('seek', (12,), {}), ('read', (300,), {}), 'exit']",
 'array rpc=9 [[3,1,1,0]]': 'ndarray[<u2(4, 3)][[60, 67, 74], [20, 27, 34], [20, 27, 34], [0, 7, 14]] || '
                            "io=[('open', ('image-file',), {'mode': 'rb'}), 'enter', ('seek', (12,), {}), "
                            "('read', (300,), {}), 'exit']",
 'array rpc=9 [[0,4]]': "ndarray[<u2(2, 3)][[0, 7, 14], [80, 87, 94]] || io=[('open', ('image-file',), "
                        "{'mode': 'rb'}), 'enter', ('seek', (12,), {}), ('read', (300,), {}), 'exit']",
 "array rpc=9 [[4,'a']]": 'raise builtins.TypeError: list indices must be integers or slices, not str || '
                          'io=[]',
 "array rpc=9 [['a',4]]": 'raise builtins.TypeError: list indices must be integers or slices, not str || '
                          'io=[]',
 "array rpc=9 [[0,'a']]": 'raise builtins.TypeError: list indices must be integers or slices, not str || '
                          'io=[]',
 'array rpc=9 [[0,None]]': 'raise builtins.TypeError: list indices must be integers or slices, not NoneType '
                           '|| io=[]',
 'array rpc=9 [[1.0]]': 'raise builtins.TypeError: list indices must be integers or slices, not float || '
                        'io=[]',
 'array rpc=9 [[0,1.0]]': 'raise builtins.TypeError: list indices must be integers or slices, not float || '
                          'io=[]',
 'array rpc=9 [[True,False]]': "ndarray[<u2(2, 3)][[20, 27, 34], [0, 7, 14]] || io=[('open', "
                               "('image-file',), {'mode': 'rb'}), 'enter', ('seek', (12,), {}), ('read', "
                               "(300,), {}), 'exit']",
 'array rpc=9 [[Index(2)]]': "ndarray[<u2(1, 3)][[40, 47, 54]] || io=[('open', ('image-file',), {'mode': "
                             "'rb'}), 'enter', ('seek', (12,), {}), ('read', (300,), {}), 'exit']",
 'array rpc=9 [[Index(2),0]]': "ndarray[<u2(2, 3)][[40, 47, 54], [0, 7, 14]] || io=[('open', "
                               "('image-file',), {'mode': 'rb'}), 'enter', ('seek', (12,), {}), ('read', "
                               "(300,), {}), 'exit']",
 'array rpc=9 [[np.int64(2),np.int64(0)]]': "ndarray[<u2(2, 3)][[40, 47, 54], [0, 7, 14]] || io=[('open', "
                                            "('image-file',), {'mode': 'rb'}), 'enter', ('seek', (12,), {}), "
                                            "('read', (300,), {}), 'exit']",
 'array rpc=9 [[slice]]': "raise builtins.TypeError: unsupported operand type(s) for //: 'tuple' and 'int' "
                          '|| io=[]',
 'array rpc=9 [[0,slice]]': "raise builtins.TypeError: unsupported operand type(s) for //: 'tuple' and 'int' "
                            '|| io=[]',
 'array rpc=9 [[[0,1]]]': 'raise builtins.TypeError: list indices must be integers or slices, not list || '
                          'io=[]',
 'array rpc=9 [[[0],[1]]]': 'raise builtins.TypeError: list indices must be integers or slices, not list || '
                            'io=[]',
 'array rpc=9 [[(0,)]]': 'raise builtins.TypeError: list indices must be integers or slices, not tuple || '
                         'io=[]',
 'array rpc=9 [(0,2)]': "ndarray[<u2(2, 3)][[0, 7, 14], [40, 47, 54]] || io=[('open', ('image-file',), "
                        "{'mode': 'rb'}), 'enter', ('seek', (12,), {}), ('read', (300,), {}), 'exit']",
 'array rpc=9 [()]': "ndarray[<u2(0, 3)][] || io=[('open', ('image-file',), {'mode': 'rb'}), 'enter', "
                     "'exit']",
 'array rpc=9 [(1,)]': "ndarray[<u2(1, 3)][[20, 27, 34]] || io=[('open', ('image-file',), {'mode': 'rb'}), "
                       "'enter', ('seek', (12,), {}), ('read', (300,), {}), 'exit']",
 'array rpc=9 [array[2,0]]': "ndarray[<u2(2, 3)][[40, 47, 54], [0, 7, 14]] || io=[('open', ('image-file',), "
                             "{'mode': 'rb'}), 'enter', ('seek', (12,), {}), ('read', (300,), {}), 'exit']",
 'array rpc=9 [array[]]': "ndarray[<u2(0, 3)][] || io=[('open', ('image-file',), {'mode': 'rb'}), 'enter', "
                          "'exit']",
 'array rpc=9 [array[1.0]]': 'raise builtins.TypeError: list indices must be integers or slices, not '
                             'numpy.float64 || io=[]',
 'array rpc=9 [array-bool]': 'raise builtins.TypeError: list indices must be integers or slices, not '
                             'numpy.bool || io=[]',
 'array rpc=9 [array-0d]': 'raise builtins.TypeError: iteration over a 0-d array || io=[]',
 'array rpc=9 [array-2d]': 'raise builtins.TypeError: only integer scalar arrays can be converted to a '
                           'scalar index || io=[]',
 'array rpc=9 [range(1,3)]': "ndarray[<u2(2, 3)][[20, 27, 34], [40, 47, 54]] || io=[('open', "
                             "('image-file',), {'mode': 'rb'}), 'enter', ('seek', (12,), {}), ('read', "
                             "(300,), {}), 'exit']",
 'array rpc=9 [range(3,-1,-1)]': 'ndarray[<u2(4, 3)][[60, 67, 74], [40, 47, 54], [20, 27, 34], [0, 7, 14]] '
                                 "|| io=[('open', ('image-file',), {'mode': 'rb'}), 'enter', ('seek', (12,), "
                                 "{}), ('read', (300,), {}), 'exit']",
 'array rpc=9 [gen]': "ndarray[<u2(2, 3)][[40, 47, 54], [0, 7, 14]] || io=[('open', ('image-file',), "
                      "{'mode': 'rb'}), 'enter', ('seek', (12,), {}), ('read', (300,), {}), 'exit']",
 'array rpc=9 [set]': "ndarray[<u2(1, 3)][[20, 27, 34]] || io=[('open', ('image-file',), {'mode': 'rb'}), "
                      "'enter', ('seek', (12,), {}), ('read', (300,), {}), 'exit']",
 'array rpc=9 [dict]': "ndarray[<u2(2, 3)][[20, 27, 34], [0, 7, 14]] || io=[('open', ('image-file',), "
                       "{'mode': 'rb'}), 'enter', ('seek', (12,), {}), ('read', (300,), {}), 'exit']",
 "array rpc=9 ['12']": 'raise builtins.TypeError: list indices must be integers or slices, not str || io=[]',
 "array rpc=9 ['']": "ndarray[<u2(0, 3)][] || io=[('open', ('image-file',), {'mode': 'rb'}), 'enter', "
                     "'exit']",
 "array rpc=9 [b'\\x01']": "ndarray[<u2(1, 3)][[20, 27, 34]] || io=[('open', ('image-file',), {'mode': "
                           "'rb'}), 'enter', ('seek', (12,), {}), ('read', (300,), {}), 'exit']",
 "array rpc='80B' [0]": "ndarray[<u2(3,)][0, 7, 14] || io=[('open', ('image-file',), {'mode': 'rb'}), "
                        "'enter', ('seek', (12,), {}), ('read', (92,), {}), 'exit']",
 "array rpc='80B' [2]": "ndarray[<u2(3,)][40, 47, 54] || io=[('open', ('image-file',), {'mode': 'rb'}), "
                        "'enter', ('seek', (116,), {}), ('read', (92,), {}), 'exit']",
 "array rpc='80B' [-1]": "ndarray[<u2(3,)][100, 107, 114] || io=[('open', ('image-file',), {'mode': 'rb'}), "
                         "'enter', ('seek', (220,), {}), ('read', (92,), {}), 'exit']",
 "array rpc='80B' [-4]": "ndarray[<u2(3,)][40, 47, 54] || io=[('open', ('image-file',), {'mode': 'rb'}), "
                         "'enter', ('seek', (116,), {}), ('read', (92,), {}), 'exit']",
 "array rpc='80B' [4]": "ndarray[<u2(3,)][80, 87, 94] || io=[('open', ('image-file',), {'mode': 'rb'}), "
                        "'enter', ('seek', (220,), {}), ('read', (92,), {}), 'exit']",
 "array rpc='80B' [-5]": "ndarray[<u2(3,)][20, 27, 34] || io=[('open', ('image-file',), {'mode': 'rb'}), "
                         "'enter', ('seek', (12,), {}), ('read', (92,), {}), 'exit']",
 "array rpc='80B' [True]": "ndarray[<u2(3,)][20, 27, 34] || io=[('open', ('image-file',), {'mode': 'rb'}), "
                           "'enter', ('seek', (12,), {}), ('read', (92,), {}), 'exit']",
 "array rpc='80B' [False]": "ndarray[<u2(3,)][0, 7, 14] || io=[('open', ('image-file',), {'mode': 'rb'}), "
                            "'enter', ('seek', (12,), {}), ('read', (92,), {}), 'exit']",
 "array rpc='80B' [MyInt(1)]": "ndarray[<u2(3,)][20, 27, 34] || io=[('open', ('image-file',), {'mode': "
                               "'rb'}), 'enter', ('seek', (12,), {}), ('read', (92,), {}), 'exit']",
 "array rpc='80B' [np.int64(1)]": "raise builtins.TypeError: 'numpy.int64' object is not iterable || io=[]",
 "array rpc='80B' [np.uint8(3)]": "raise builtins.TypeError: 'numpy.uint8' object is not iterable || io=[]",
 "array rpc='80B' [np.bool(True)]": "raise builtins.TypeError: 'numpy.bool' object is not iterable || io=[]",
 "array rpc='80B' [Index(1)]": "raise builtins.TypeError: 'Index' object is not iterable || io=[]",
 "array rpc='80B' [1.0]": "raise builtins.TypeError: 'float' object is not iterable || io=[]",
 "array rpc='80B' [None]": "raise builtins.TypeError: 'NoneType' object is not iterable || io=[]",
 "array rpc='80B' [Ellipsis]": "raise builtins.TypeError: 'ellipsis' object is not iterable || io=[]",
 "array rpc='80B' [all]": 'ndarray[<u2(6, 3)][[0, 7, 14], [20, 27, 34], [40, 47, 54], [60, 67, 74], [80, 87, '
                          "94], [100, 107, 114]] || io=[('open', ('image-file',), {'mode': 'rb'}), 'enter', "
                          "('seek', (12,), {}), ('read', (92,), {}), ('seek', (116,), {}), ('read', (92,), "
                          "{}), ('seek', (220,), {}), ('read', (92,), {}), 'exit']",
 "array rpc='80B' [0:1]": "ndarray[<u2(1, 3)][[0, 7, 14]] || io=[('open', ('image-file',), {'mode': 'rb'}), "
                          "'enter', ('seek', (12,), {}), ('read', (92,), {}), 'exit']",
 "array rpc='80B' [2:]": 'ndarray[<u2(4, 3)][[40, 47, 54], [60, 67, 74], [80, 87, 94], [100, 107, 114]] || '
                         "io=[('open', ('image-file',), {'mode': 'rb'}), 'enter', ('seek', (116,), {}), "
                         "('read', (92,), {}), ('seek', (220,), {}), ('read', (92,), {}), 'exit']",
 "array rpc='80B' [:2]": "ndarray[<u2(2, 3)][[0, 7, 14], [20, 27, 34]] || io=[('open', ('image-file',), "
                         "{'mode': 'rb'}), 'enter', ('seek', (12,), {}), ('read', (92,), {}), 'exit']",
 "array rpc='80B' [-2:]": "ndarray[<u2(2, 3)][[80, 87, 94], [100, 107, 114]] || io=[('open', "
                          "('image-file',), {'mode': 'rb'}), 'enter', ('seek', (220,), {}), ('read', (92,), "
                          "{}), 'exit']",
 "array rpc='80B' [:-2]": 'ndarray[<u2(4, 3)][[0, 7, 14], [20, 27, 34], [40, 47, 54], [60, 67, 74]] || '
                          "io=[('open', ('image-file',), {'mode': 'rb'}), 'enter', ('seek', (12,), {}), "
                          "('read', (92,), {}), ('seek', (116,), {}), ('read', (92,), {}), 'exit']",
 "array rpc='80B' [::2]": "ndarray[<u2(3, 3)][[0, 7, 14], [40, 47, 54], [80, 87, 94]] || io=[('open', "
                          "('image-file',), {'mode': 'rb'}), 'enter', ('seek', (12,), {}), ('read', (92,), "
                          "{}), ('seek', (116,), {}), ('read', (92,), {}), ('seek', (220,), {}), ('read', "
                          "(92,), {}), 'exit']",
 "array rpc='80B' [1::2]": "ndarray[<u2(3, 3)][[20, 27, 34], [60, 67, 74], [100, 107, 114]] || io=[('open', "
                           "('image-file',), {'mode': 'rb'}), 'enter', ('seek', (12,), {}), ('read', (92,), "
                           "{}), ('seek', (116,), {}), ('read', (92,), {}), ('seek', (220,), {}), ('read', "
                           "(92,), {}), 'exit']",
 "array rpc='80B' [::-1]": 'ndarray[<u2(6, 3)][[100, 107, 114], [80, 87, 94], [60, 67, 74], [40, 47, 54], '
                           "[20, 27, 34], [0, 7, 14]] || io=[('open', ('image-file',), {'mode': 'rb'}), "
                           "'enter', ('seek', (220,), {}), ('read', (92,), {}), ('seek', (116,), {}), "
                           "('read', (92,), {}), ('seek', (12,), {}), ('read', (92,), {}), 'exit']",
 "array rpc='80B' [-1::-2]": 'ndarray[<u2(3, 3)][[100, 107, 114], [60, 67, 74], [20, 27, 34]] || '
                             "io=[('open', ('image-file',), {'mode': 'rb'}), 'enter', ('seek', (220,), {}), "
                             "('read', (92,), {}), ('seek', (116,), {}), ('read', (92,), {}), ('seek', "
                             "(12,), {}), ('read', (92,), {}), 'exit']",
 "array rpc='80B' [3:0:-1]": "ndarray[<u2(3, 3)][[60, 67, 74], [40, 47, 54], [20, 27, 34]] || io=[('open', "
                             "('image-file',), {'mode': 'rb'}), 'enter', ('seek', (116,), {}), ('read', "
                             "(92,), {}), ('seek', (12,), {}), ('read', (92,), {}), 'exit']",
 "array rpc='80B' [0:0]": "ndarray[<u2(0, 3)][] || io=[('open', ('image-file',), {'mode': 'rb'}), 'enter', "
                          "'exit']",
 "array rpc='80B' [3:1]": "ndarray[<u2(0, 3)][] || io=[('open', ('image-file',), {'mode': 'rb'}), 'enter', "
                          "'exit']",
 "array rpc='80B' [10:20]": "ndarray[<u2(0, 3)][] || io=[('open', ('image-file',), {'mode': 'rb'}), 'enter', "
                            "'exit']",
 "array rpc='80B' [-10:10]": 'ndarray[<u2(6, 3)][[0, 7, 14], [20, 27, 34], [40, 47, 54], [60, 67, 74], [80, '
                             "87, 94], [100, 107, 114]] || io=[('open', ('image-file',), {'mode': 'rb'}), "
                             "'enter', ('seek', (12,), {}), ('read', (92,), {}), ('seek', (116,), {}), "
                             "('read', (92,), {}), ('seek', (220,), {}), ('read', (92,), {}), 'exit']",
 "array rpc='80B' [::0]": 'raise builtins.ValueError: slice step cannot be zero || io=[]',
 "array rpc='80B' [1.5:]": 'raise builtins.TypeError: slice indices must be integers or None or have an '
                           '__index__ method || io=[]',
 "array rpc='80B' ['a':]": 'raise builtins.TypeError: slice indices must be integers or None or have an '
                           '__index__ method || io=[]',
 "array rpc='80B' [Index(1):Index(3)]": "ndarray[<u2(2, 3)][[20, 27, 34], [40, 47, 54]] || io=[('open', "
                                        "('image-file',), {'mode': 'rb'}), 'enter', ('seek', (12,), {}), "
                                        "('read', (92,), {}), ('seek', (116,), {}), ('read', (92,), {}), "
                                        "'exit']",
 "array rpc='80B' [np:np]": "ndarray[<u2(2, 3)][[20, 27, 34], [40, 47, 54]] || io=[('open', ('image-file',), "
                            "{'mode': 'rb'}), 'enter', ('seek', (12,), {}), ('read', (92,), {}), ('seek', "
                            "(116,), {}), ('read', (92,), {}), 'exit']",
 "array rpc='80B' [[]]": "ndarray[<u2(0, 3)][] || io=[('open', ('image-file',), {'mode': 'rb'}), 'enter', "
                         "'exit']",
 "array rpc='80B' [[0]]": "ndarray[<u2(1, 3)][[0, 7, 14]] || io=[('open', ('image-file',), {'mode': 'rb'}), "
                          "'enter', ('seek', (12,), {}), ('read', (92,), {}), 'exit']",
 "array rpc='80B' [[3]]": "ndarray[<u2(1, 3)][[60, 67, 74]] || io=[('open', ('image-file',), {'mode': "
                          "'rb'}), 'enter', ('seek', (116,), {}), ('read', (92,), {}), 'exit']",
 "array rpc='80B' [[4]]": "ndarray[<u2(1, 3)][[80, 87, 94]] || io=[('open', ('image-file',), {'mode': "
                          "'rb'}), 'enter', ('seek', (220,), {}), ('read', (92,), {}), 'exit']",
 "array rpc='80B' [[0,2]]": "ndarray[<u2(2, 3)][[0, 7, 14], [40, 47, 54]] || io=[('open', ('image-file',), "
                            "{'mode': 'rb'}), 'enter', ('seek', (12,), {}), ('read', (92,), {}), ('seek', "
                            "(116,), {}), ('read', (92,), {}), 'exit']",
 "array rpc='80B' [[0,-1]]": "ndarray[<u2(2, 3)][[0, 7, 14], [100, 107, 114]] || io=[('open', "
                             "('image-file',), {'mode': 'rb'}), 'enter', ('seek', (12,), {}), ('read', "
                             "(92,), {}), ('seek', (220,), {}), ('read', (92,), {}), 'exit']",
 "array rpc='80B' [[3,1,1,0]]": 'ndarray[<u2(4, 3)][[60, 67, 74], [20, 27, 34], [20, 27, 34], [0, 7, 14]] || '
                                "io=[('open', ('image-file',), {'mode': 'rb'}), 'enter', ('seek', (116,), "
                                "{}), ('read', (92,), {}), ('seek', (12,), {}), ('read', (92,), {}), 'exit']",
 "array rpc='80B' [[0,4]]": "ndarray[<u2(2, 3)][[0, 7, 14], [80, 87, 94]] || io=[('open', ('image-file',), "
                            "{'mode': 'rb'}), 'enter', ('seek', (12,), {}), ('read', (92,), {}), ('seek', "
                            "(220,), {}), ('read', (92,), {}), 'exit']",
 "array rpc='80B' [[4,'a']]": 'raise builtins.TypeError: list indices must be integers or slices, not str || '
                              'io=[]',
 "array rpc='80B' [['a',4]]": 'raise builtins.TypeError: list indices must be integers or slices, not str || '
                              'io=[]',
 "array rpc='80B' [[0,'a']]": 'raise builtins.TypeError: list indices must be integers or slices, not str || '
                              'io=[]',
 "array rpc='80B' [[0,None]]": 'raise builtins.TypeError: list indices must be integers or slices, not '
                               'NoneType || io=[]',
 "array rpc='80B' [[1.0]]": 'raise builtins.TypeError: list indices must be integers or slices, not float || '
                            'io=[]',
 "array rpc='80B' [[0,1.0]]": 'raise builtins.TypeError: list indices must be integers or slices, not float '
                              '|| io=[]',
 "array rpc='80B' [[True,False]]": "ndarray[<u2(2, 3)][[20, 27, 34], [0, 7, 14]] || io=[('open', "
                                   "('image-file',), {'mode': 'rb'}), 'enter', ('seek', (12,), {}), ('read', "
                                   "(92,), {}), 'exit']",
 "array rpc='80B' [[Index(2)]]": "ndarray[<u2(1, 3)][[40, 47, 54]] || io=[('open', ('image-file',), {'mode': "
                                 "'rb'}), 'enter', ('seek', (116,), {}), ('read', (92,), {}), 'exit']",
 "array rpc='80B' [[Index(2),0]]": "ndarray[<u2(2, 3)][[40, 47, 54], [0, 7, 14]] || io=[('open', "
                                   "('image-file',), {'mode': 'rb'}), 'enter', ('seek', (116,), {}), "
                                   "('read', (92,), {}), ('seek', (12,), {}), ('read', (92,), {}), 'exit']",
 "array rpc='80B' [[np.int64(2),np.int64(0)]]": 'ndarray[<u2(2, 3)][[40, 47, 54], [0, 7, 14]] || '
                                                "io=[('open', ('image-file',), {'mode': 'rb'}), 'enter', "
                                                "('seek', (116,), {}), ('read', (92,), {}), ('seek', (12,), "
                                                "{}), ('read', (92,), {}), 'exit']",
 "array rpc='80B' [[slice]]": 'raise builtins.ValueError: setting an array element with a sequence. The '
                              'requested array has an inhomogeneous shape after 1 dimensions. The detected '
                              'shape was (2,) + inhomogeneous part. || io=[]',
 "array rpc='80B' [[0,slice]]": 'raise builtins.ValueError: setting an array element with a sequence. The '
                                'requested array has an inhomogeneous shape after 1 dimensions. The detected '
                                'shape was (2,) + inhomogeneous part. || io=[]',
 "array rpc='80B' [[[0,1]]]": 'raise builtins.TypeError: list indices must be integers or slices, not list '
                              '|| io=[]',
 "array rpc='80B' [[[0],[1]]]": 'raise builtins.TypeError: list indices must be integers or slices, not list '
                                '|| io=[]',
 "array rpc='80B' [[(0,)]]": 'raise builtins.TypeError: list indices must be integers or slices, not tuple '
                             '|| io=[]',
 "array rpc='80B' [(0,2)]": "ndarray[<u2(2, 3)][[0, 7, 14], [40, 47, 54]] || io=[('open', ('image-file',), "
                            "{'mode': 'rb'}), 'enter', ('seek', (12,), {}), ('read', (92,), {}), ('seek', "
                            "(116,), {}), ('read', (92,), {}), 'exit']",
 "array rpc='80B' [()]": "ndarray[<u2(0, 3)][] || io=[('open', ('image-file',), {'mode': 'rb'}), 'enter', "
                         "'exit']",
 "array rpc='80B' [(1,)]": "ndarray[<u2(1, 3)][[20, 27, 34]] || io=[('open', ('image-file',), {'mode': "
                           "'rb'}), 'enter', ('seek', (12,), {}), ('read', (92,), {}), 'exit']",
 "array rpc='80B' [array[2,0]]": "ndarray[<u2(2, 3)][[40, 47, 54], [0, 7, 14]] || io=[('open', "
                                 "('image-file',), {'mode': 'rb'}), 'enter', ('seek', (116,), {}), ('read', "
                                 "(92,), {}), ('seek', (12,), {}), ('read', (92,), {}), 'exit']",
 "array rpc='80B' [array[]]": "ndarray[<u2(0, 3)][] || io=[('open', ('image-file',), {'mode': 'rb'}), "
                              "'enter', 'exit']",
 "array rpc='80B' [array[1.0]]": 'raise builtins.TypeError: list indices must be integers or slices, not '
                                 'numpy.float64 || io=[]',
 "array rpc='80B' [array-bool]": 'raise builtins.TypeError: list indices must be integers or slices, not '
                                 'numpy.bool || io=[]',
 "array rpc='80B' [array-0d]": 'raise builtins.TypeError: iteration over a 0-d array || io=[]',
 "array rpc='80B' [array-2d]": 'raise builtins.TypeError: only integer scalar arrays can be converted to a '
                               'scalar index || io=[]',
 "array rpc='80B' [range(1,3)]": "ndarray[<u2(2, 3)][[20, 27, 34], [40, 47, 54]] || io=[('open', "
                                 "('image-file',), {'mode': 'rb'}), 'enter', ('seek', (12,), {}), ('read', "
                                 "(92,), {}), ('seek', (116,), {}), ('read', (92,), {}), 'exit']",
 "array rpc='80B' [range(3,-1,-1)]": 'ndarray[<u2(4, 3)][[60, 67, 74], [40, 47, 54], [20, 27, 34], [0, 7, '
                                     "14]] || io=[('open', ('image-file',), {'mode': 'rb'}), 'enter', "
                                     "('seek', (116,), {}), ('read', (92,), {}), ('seek', (12,), {}), "
                                     "('read', (92,), {}), 'exit']",
 "array rpc='80B' [gen]": "ndarray[<u2(2, 3)][[40, 47, 54], [0, 7, 14]] || io=[('open', ('image-file',), "
                          "{'mode': 'rb'}), 'enter', ('seek', (116,), {}), ('read', (92,), {}), ('seek', "
                          "(12,), {}), ('read', (92,), {}), 'exit']",
 "array rpc='80B' [set]": "ndarray[<u2(1, 3)][[20, 27, 34]] || io=[('open', ('image-file',), {'mode': "
                          "'rb'}), 'enter', ('seek', (12,), {}), ('read', (92,), {}), 'exit']",
 "array rpc='80B' [dict]": "ndarray[<u2(2, 3)][[20, 27, 34], [0, 7, 14]] || io=[('open', ('image-file',), "
                           "{'mode': 'rb'}), 'enter', ('seek', (12,), {}), ('read', (92,), {}), 'exit']",
 "array rpc='80B' ['12']": 'raise builtins.TypeError: list indices must be integers or slices, not str || '
                           'io=[]',
 "array rpc='80B' ['']": "ndarray[<u2(0, 3)][] || io=[('open', ('image-file',), {'mode': 'rb'}), 'enter', "
                         "'exit']",
 "array rpc='80B' [b'\\x01']": "ndarray[<u2(1, 3)][[20, 27, 34]] || io=[('open', ('image-file',), {'mode': "
                               "'rb'}), 'enter', ('seek', (12,), {}), ('read', (92,), {}), 'exit']"}


def compare(actual, expected):
    problems = []
    for key in expected.keys() - actual.keys():
        problems.append(f"missing case: {key}")
    for key in actual.keys() - expected.keys():
        problems.append(f"unexpected case: {key}")
    for key in actual.keys() & expected.keys():
        if actual[key] != expected[key]:
            problems.append(f"{key}:\n  expected {expected[key]}\n  actual   {actual[key]}")
    return sorted(problems)


def test_equivalence():
    problems = compare(collect(), EXPECTED)
    assert not problems, "\n".join(problems)


if __name__ == "__main__":
    if "--record" in sys.argv:
        pprint.pprint(collect(), width=110, sort_dicts=False)
        sys.exit(0)

    problems = compare(collect(), EXPECTED)
    for problem in problems:
        print(problem)
    print(f"{len(EXPECTED)} recorded cases, {len(problems)} mismatches")
    sys.exit(1 if problems else 0)
