"""Equivalence check for refactoring 2 (lookup / decode_scan_info / decode_filename).

Run as:  PYTHONPATH=/tmp/wt9/e77 /venv/bin/python _eq/2/equiv.py
(or through pytest: the module exposes ``test_equivalence``).

``EXPECTED`` was recorded from the unchanged code (``--record`` prints it).
"""

import datetime
import pprint
import re
import sys

from tlz.functoolz import curry

from ceos_alos2 import decoders, summary
from ceos_alos2.hierarchy import Group
from ceos_alos2.sar_image import filename_to_groupname


def describe(obj):
    """value + exact types, recursively, as a compact string"""
    if isinstance(obj, dict):
        items = ", ".join(f"{describe(k)}: {describe(v)}" for k, v in obj.items())
        return f"{type(obj).__name__}{{{items}}}"
    if isinstance(obj, (list, tuple)):
        return f"{type(obj).__name__}[{', '.join(describe(v) for v in obj)}]"
    if isinstance(obj, Group):
        return f"Group({obj.path!r}, {obj.url!r}, {describe(dict(obj.data))}, {describe(dict(obj.attrs))})"
    if isinstance(obj, (str, int, float, type(None), datetime.datetime)) and type(obj).__module__ in (
        "builtins",
        "datetime",
    ):
        return ascii(obj)
    return f"{type(obj).__name__}:{obj!a}"


def describe_exception(exc):
    if exc is None:
        return "None"
    bases = ">".join(c.__name__ for c in type(exc).__mro__[1:-2])
    module = "<equiv>" if type(exc).__module__ == __name__ else type(exc).__module__
    text = f"{module}.{type(exc).__qualname__}({bases}) args={exc.args!a} str={str(exc)!a}"
    if exc.__cause__ is None and exc.__context__ is None and not exc.__suppress_context__:
        return text
    cause = describe_exception(exc.__cause__)
    context = "<cause>" if exc.__context__ is exc.__cause__ else describe_exception(exc.__context__)
    return f"{text} [cause={cause}; context={context}; suppress_context={exc.__suppress_context__}]"


def observe(func, *args, **kwargs):
    try:
        result = func(*args, **kwargs)
    except BaseException as e:  # noqa: B902
        return "RAISED " + describe_exception(e)
    return "RETURNED " + describe(result)


class Str(str):
    pass


class Weird:
    """matches no regex: fullmatch raises TypeError before any message is built"""

    def __str__(self):
        raise RuntimeError("__str__ called")

    def __repr__(self):
        raise RuntimeError("__repr__ called")

    def __format__(self, spec):
        raise RuntimeError("__format__ called")


class Loud(str):
    """a code whose repr differs from its str and from its format"""

    def __repr__(self):
        return "<Loud repr>"

    def __str__(self):
        return "<Loud str>"

    def __format__(self, spec):
        return "<Loud format>"


class NoGet:
    def __getitem__(self, key):
        return "value"


class RaisingGet:
    def get(self, key):
        raise LookupError(f"get({key!r})")


class Falsy(dict):
    """values that are falsy but not None are valid translations"""


mapping_names = [
    "observation_modes",
    "observation_directions",
    "processing_levels",
    "processing_options",
    "map_projections",
    "orbit_directions",
    "processing_methods",
    "resampling_methods",
    "processing_facilities",
]

codes = ["SBS", "WWD", "L", "R", "1.0", "1.5", "3.1", "G", "_", "U", "A", "D", "F", "B", "NN", "CC", "SCMO", "EICS",
         "", " ", "l", "1.6", "it's", 'say "hi"', "back\\slash", "new\nline", "caf\u00e9", "{}", "%s", "%(a)s",
         None, 0, 1.5, ("A",), ("A", "B"), b"A", True, Str("A"), Str("zz"), Loud("A"), Loud("zz")]

scan_infos = [None, "B4", "F0", "B0", "F9", "B9", "X1", "B", "4", "B10", "BB", "", " B4", "B4 ", "B4\n", "b4", "F٣",
              "B-1", "{}", Str("F7"), Str("Q7"), Loud("F7"), Loud("Q7"), 4, b"B4", ["B4"], Weird(), False, 0]

filenames = [
    "IMG-HV-ALOS2225333100-180726-WWDR1.1__D-B3",
    "IMG-HH-ALOS2225333100-180726-WWDR1.1__D-F1",
    "IMG-VV-ALOS2225333100-180726-FBDR1.1__A",
    "IMG-VH-ALOS2225333100-180726-FBDR1.5GUA",
    "IMG-HX-ALOS2225333100-180726-FBDR1.5GUA",
    "IMG-H-ALOS2225333100-180726-FBDR1.5GUA",
    "IMG-HHH-ALOS2225333100-180726-FBDR1.5GUA",
    "TRL-ALOS2225333100-180726-WWDR1.1__D",
    "LED-ALOS2290760600-191011-WWDR1.5RUA",
    "VOL-ALOS2290760600-191011-WWDR1.5RUA",
    "XYZ-ALOS2290760600-191011-WWDR1.5RUA",
    "LED-ALOS2290760600-191011-WWDR1.5RUA-F2",
    "LED-ALOS2290760600-191011-WWDR1.5RUA-X2",
    "LED-ALOS2290760600-191011-WWDR1.5RUA-B",
    "LED-ALOS2290760600-191011-WWDR1.5RUA-",
    "LED-ALOS2290760600-191311-WWDR1.5RUA",  # bad date -> chained error
    "LED-ALOS2290760600-191011-WXDR1.5RUA",  # bad mode -> chained error
    "LED-ALOS2290760600-191311-WXDR1.5RUA",  # both bad -> scene id reported
    "LED-ALOS2290760600-191011-WWDR1.6RUA",  # product id does not match its regex
    "LED-ALOS2290760600-191011-WWDX1.5RUA",
    "LED-ALOS2290760600-191011-wwdr1.5rua",
    "LED-ALOSX290760600-191011-WWDR1.5RUA",
    "LED-ALOS2_90760600-191011-WWDR1.5RUA",
    "LED-ALOS2290760600-191011-WWDR1.5RUA.gz",
    "LED-ALOS2290760600-191011-WWDR1.5RUA\n",
    " LED-ALOS2290760600-191011-WWDR1.5RUA",
    "led-ALOS2290760600-191011-WWDR1.5RUA",
    "LEDD-ALOS2290760600-191011-WWDR1.5RUA",
    "LED_ALOS2290760600_191011_WWDR1.5RUA",
    "path/LED-ALOS2290760600-191011-WWDR1.5RUA",
    "summary.txt",
    "",
    "{fname}",
    Str("TRL-ALOS2225333100-180726-WWDR1.1__D"),
    Str("nope"),
    Loud("TRL-ALOS2225333100-180726-WWDR1.1__D"),
    Loud("nope"),
    None,
    b"TRL-ALOS2225333100-180726-WWDR1.1__D",
    12,
    Weird(),
]


def label(value):
    if isinstance(value, Weird):
        return "Weird"
    return f"{type(value).__name__}:{str.__str__(value) if isinstance(value, str) else value!a}"


def run():
    observations = []

    # lookup: every table x a spread of codes
    for name in mapping_names:
        mapping = getattr(decoders, name)
        for code in codes:
            observations.append(("lookup", name, label(code), observe(decoders.lookup, mapping, code)))
        observations.append(("lookup-curried", name, observe(curry(decoders.lookup, mapping), "A")))
    for mapping in [
        {},
        {"a": None},
        Falsy({"a": 0, "b": "", "c": False, "d": (), "e": {}}),
        {None: "none", 1: "one", (1, 2): "tuple"},
    ]:
        for code in ["a", "b", "c", "d", "e", "z", None, 1, True, (1, 2)]:
            observations.append(("lookup-custom", repr(mapping), label(code), observe(decoders.lookup, mapping, code)))
    observations.append(("lookup-unhashable", observe(decoders.lookup, decoders.orbit_directions, ["A"])))
    observations.append(("lookup-unhashable-dict", observe(decoders.lookup, decoders.orbit_directions, {"A": 1})))
    observations.append(("lookup-weird", observe(decoders.lookup, decoders.orbit_directions, Weird())))
    observations.append(("lookup-noget", observe(decoders.lookup, NoGet(), "A")))
    observations.append(("lookup-raising-get", observe(decoders.lookup, RaisingGet(), "A")))
    observations.append(("lookup-none-mapping", observe(decoders.lookup, None, "A")))
    observations.append(("lookup-kw", observe(decoders.lookup, mapping=decoders.orbit_directions, code="A")))
    observations.append(("lookup-kw-missing", observe(decoders.lookup, code="Q", mapping=decoders.orbit_directions)))
    observations.append(("lookup-noarg", observe(decoders.lookup, {}).split(" args=")[0]))

    # the module level table was built from lookup at import time
    for name, translator in decoders.translations.items():
        for value in ["A", "WWD", "1.1", "_", "B", "180726", "zz"]:
            observations.append(("translations", name, value, observe(translator, value)))

    for scan_info in scan_infos:
        observations.append(("scan_info", label(scan_info), observe(decoders.decode_scan_info, scan_info)))
    observations.append(("scan_info-kw", observe(decoders.decode_scan_info, scan_info="F3")))
    observations.append(("scan_info-noarg", observe(decoders.decode_scan_info).split(" args=")[0]))

    for fname in filenames:
        observations.append(("filename", label(fname), observe(decoders.decode_filename, fname)))
        observations.append(("groupname", label(fname), observe(filename_to_groupname, fname)))
    observations.append(("filename-kw", observe(decoders.decode_filename, fname="TRL-ALOS2225333100-180726-WWDR1.1__D")))
    observations.append(("filename-noarg", observe(decoders.decode_filename).split(" args=")[0]))

    # order of the keys of the result: scalars first, then the merged groups
    result = decoders.decode_filename("IMG-HV-ALOS2225333100-180726-WWDR1.1__D-B3")
    observations.append(("filename-keys", list(result)))

    # globals are looked up when decoding
    saved = {
        name: getattr(decoders, name)
        for name in ["translations", "scan_info_re", "fname_re", "decode_scene_id", "decode_product_id",
                     "decode_scan_info", "valsplit", "merge", "passthrough"]
    }
    fname = "IMG-HV-ALOS2225333100-180726-WWDR1.1__D-B3"
    try:
        def fail(value):
            raise ValueError(f"no: {value}")

        decoders.translations = saved["translations"] | {"scan_number": int, "processing_method": str.lower}
        observations.append(("patched-translations", observe(decoders.decode_scan_info, "B4")))
        observations.append(("patched-translations", observe(decoders.decode_filename, fname)))
        decoders.translations = saved["translations"] | {"scan_number": fail}
        observations.append(("patched-translations-fail", observe(decoders.decode_scan_info, "B4")))
        observations.append(("patched-translations-fail", observe(decoders.decode_filename, fname)))
        decoders.translations = {k: v for k, v in saved["translations"].items() if k != "processing_method"}
        observations.append(("patched-translations-missing", observe(decoders.decode_scan_info, "B4")))
        decoders.translations = saved["translations"]

        decoders.scan_info_re = re.compile(r"(?P<scan_number>[0-9]+)")
        observations.append(("patched-scan-re", observe(decoders.decode_scan_info, "42")))
        observations.append(("patched-scan-re", observe(decoders.decode_scan_info, "B4")))
        observations.append(("patched-scan-re", observe(decoders.decode_filename, fname)))
        decoders.scan_info_re = saved["scan_info_re"]

        decoders.fname_re = re.compile(r"(?P<filetype>[a-z]+)\.(?P<scan_info>[A-Z][0-9])")
        observations.append(("patched-fname-re", observe(decoders.decode_filename, "abc.B4")))
        observations.append(("patched-fname-re", observe(decoders.decode_filename, "abc.Z4")))
        observations.append(("patched-fname-re", observe(decoders.decode_filename, fname)))
        decoders.fname_re = re.compile(r"(?P<filetype>[a-z]+)")  # no mappings at all: merge() without arguments
        observations.append(("patched-fname-re-scalars", observe(decoders.decode_filename, "abc")))
        decoders.fname_re = re.compile(r"(?P<unknown>[a-z]+)")
        observations.append(("patched-fname-re-unknown", observe(decoders.decode_filename, "abc")))
        decoders.fname_re = saved["fname_re"]

        calls = []

        def recording(name, result):
            def decoder(value):
                calls.append((name, value))
                if isinstance(result, Exception):
                    raise result
                return result

            return decoder

        decoders.decode_scene_id = recording("scene_id", {"s": 1, "shared": "scene"})
        decoders.decode_product_id = recording("product_id", {"p": 2, "shared": "product"})
        decoders.decode_scan_info = recording("scan_info", "scalar now")
        observations.append(("patched-decoders", observe(decoders.decode_filename, fname), list(calls)))
        del calls[:]
        decoders.decode_scene_id = recording("scene_id", KeyError("scene"))
        observations.append(("patched-decoders-fail", observe(decoders.decode_filename, fname), list(calls)))
        del calls[:]
        decoders.decode_scene_id = recording("scene_id", {"s": 1})
        decoders.decode_product_id = recording("product_id", ValueError("product"))
        observations.append(("patched-decoders-fail2", observe(decoders.decode_filename, fname), list(calls)))
        del calls[:]
    finally:
        for name, value in saved.items():
            setattr(decoders, name, value)

    # users in the package
    for section in [
        {"ProductID": "WWDR1.5RUA", "ResamplingMethod": "NN", "UTM_ZoneNo": "32", "PixelSpacing": "25.0"},
        {"ProductID": "WWDR1.5RUA", "ResamplingMethod": "XX"},
        {"ProductID": "WWDR1.5RUA", "ResamplingMethod": ""},
    ]:
        observations.append(("product_spec", observe(summary.transform_product_spec, section)))

    for name in [
        "decode_scene_id", "decode_product_id", "decode_scan_info", "decode_filename", "lookup",
        "parse_date", "translations", "scene_id_re", "product_id_re", "scan_info_re", "fname_re",
        "valsplit", "merge", "curry", "passthrough",
    ]:
        observations.append(("name", name, hasattr(decoders, name)))
    for func in [decoders.lookup, decoders.decode_scan_info, decoders.decode_filename]:
        observations.append(("function", func.__module__, func.__name__, func.__code__.co_varnames[: func.__code__.co_argcount]))

    return observations


# EXPECTED-BEGIN
EXPECTED = [['lookup', 'observation_modes', "str:'SBS'", "RETURNED 'spotlight mode'"],
 ['lookup', 'observation_modes', "str:'WWD'", "RETURNED 'ScanSAR nominal 28MHz mode dual polarization'"],
 ['lookup', 'observation_modes', "str:'L'", 'RAISED builtins.ValueError(Exception) args=("invalid code \'L\'",) str="invalid code \'L\'"'],
 ['lookup', 'observation_modes', "str:'R'", 'RAISED builtins.ValueError(Exception) args=("invalid code \'R\'",) str="invalid code \'R\'"'],
 ['lookup', 'observation_modes', "str:'1.0'", 'RAISED builtins.ValueError(Exception) args=("invalid code \'1.0\'",) str="invalid code \'1.0\'"'],
 ['lookup', 'observation_modes', "str:'1.5'", 'RAISED builtins.ValueError(Exception) args=("invalid code \'1.5\'",) str="invalid code \'1.5\'"'],
 ['lookup', 'observation_modes', "str:'3.1'", 'RAISED builtins.ValueError(Exception) args=("invalid code \'3.1\'",) str="invalid code \'3.1\'"'],
 ['lookup', 'observation_modes', "str:'G'", 'RAISED builtins.ValueError(Exception) args=("invalid code \'G\'",) str="invalid code \'G\'"'],
 ['lookup', 'observation_modes', "str:'_'", 'RAISED builtins.ValueError(Exception) args=("invalid code \'_\'",) str="invalid code \'_\'"'],
 ['lookup', 'observation_modes', "str:'U'", 'RAISED builtins.ValueError(Exception) args=("invalid code \'U\'",) str="invalid code \'U\'"'],
 ['lookup', 'observation_modes', "str:'A'", 'RAISED builtins.ValueError(Exception) args=("invalid code \'A\'",) str="invalid code \'A\'"'],
 ['lookup', 'observation_modes', "str:'D'", 'RAISED builtins.ValueError(Exception) args=("invalid code \'D\'",) str="invalid code \'D\'"'],
 ['lookup', 'observation_modes', "str:'F'", 'RAISED builtins.ValueError(Exception) args=("invalid code \'F\'",) str="invalid code \'F\'"'],
 ['lookup', 'observation_modes', "str:'B'", 'RAISED builtins.ValueError(Exception) args=("invalid code \'B\'",) str="invalid code \'B\'"'],
 ['lookup', 'observation_modes', "str:'NN'", 'RAISED builtins.ValueError(Exception) args=("invalid code \'NN\'",) str="invalid code \'NN\'"'],
 ['lookup', 'observation_modes', "str:'CC'", 'RAISED builtins.ValueError(Exception) args=("invalid code \'CC\'",) str="invalid code \'CC\'"'],
 ['lookup', 'observation_modes', "str:'SCMO'", 'RAISED builtins.ValueError(Exception) args=("invalid code \'SCMO\'",) str="invalid code \'SCMO\'"'],
 ['lookup', 'observation_modes', "str:'EICS'", 'RAISED builtins.ValueError(Exception) args=("invalid code \'EICS\'",) str="invalid code \'EICS\'"'],
 ['lookup', 'observation_modes', "str:''", 'RAISED builtins.ValueError(Exception) args=("invalid code \'\'",) str="invalid code \'\'"'],
 ['lookup', 'observation_modes', "str:' '", 'RAISED builtins.ValueError(Exception) args=("invalid code \' \'",) str="invalid code \' \'"'],
 ['lookup', 'observation_modes', "str:'l'", 'RAISED builtins.ValueError(Exception) args=("invalid code \'l\'",) str="invalid code \'l\'"'],
 ['lookup', 'observation_modes', "str:'1.6'", 'RAISED builtins.ValueError(Exception) args=("invalid code \'1.6\'",) str="invalid code \'1.6\'"'],
 ['lookup', 'observation_modes', 'str:"it\'s"', 'RAISED builtins.ValueError(Exception) args=(\'invalid code "it\\\'s"\',) str=\'invalid code "it\\\'s"\''],
 ['lookup',
  'observation_modes',
  'str:\'say "hi"\'',
  'RAISED builtins.ValueError(Exception) args=(\'invalid code \\\'say "hi"\\\'\',) str=\'invalid code \\\'say "hi"\\\'\''],
 ['lookup',
  'observation_modes',
  "str:'back\\\\slash'",
  'RAISED builtins.ValueError(Exception) args=("invalid code \'back\\\\\\\\slash\'",) str="invalid code \'back\\\\\\\\slash\'"'],
 ['lookup',
  'observation_modes',
  "str:'new\\nline'",
  'RAISED builtins.ValueError(Exception) args=("invalid code \'new\\\\nline\'",) str="invalid code \'new\\\\nline\'"'],
 ['lookup', 'observation_modes', "str:'caf\\xe9'", 'RAISED builtins.ValueError(Exception) args=("invalid code \'caf\\xe9\'",) str="invalid code \'caf\\xe9\'"'],
 ['lookup', 'observation_modes', "str:'{}'", 'RAISED builtins.ValueError(Exception) args=("invalid code \'{}\'",) str="invalid code \'{}\'"'],
 ['lookup', 'observation_modes', "str:'%s'", 'RAISED builtins.ValueError(Exception) args=("invalid code \'%s\'",) str="invalid code \'%s\'"'],
 ['lookup', 'observation_modes', "str:'%(a)s'", 'RAISED builtins.ValueError(Exception) args=("invalid code \'%(a)s\'",) str="invalid code \'%(a)s\'"'],
 ['lookup', 'observation_modes', 'NoneType:None', "RAISED builtins.ValueError(Exception) args=('invalid code None',) str='invalid code None'"],
 ['lookup', 'observation_modes', 'int:0', "RAISED builtins.ValueError(Exception) args=('invalid code 0',) str='invalid code 0'"],
 ['lookup', 'observation_modes', 'float:1.5', "RAISED builtins.ValueError(Exception) args=('invalid code 1.5',) str='invalid code 1.5'"],
 ['lookup', 'observation_modes', "tuple:('A',)", 'RAISED builtins.ValueError(Exception) args=("invalid code (\'A\',)",) str="invalid code (\'A\',)"'],
 ['lookup',
  'observation_modes',
  "tuple:('A', 'B')",
  'RAISED builtins.ValueError(Exception) args=("invalid code (\'A\', \'B\')",) str="invalid code (\'A\', \'B\')"'],
 ['lookup', 'observation_modes', "bytes:b'A'", 'RAISED builtins.ValueError(Exception) args=("invalid code b\'A\'",) str="invalid code b\'A\'"'],
 ['lookup', 'observation_modes', 'bool:True', "RAISED builtins.ValueError(Exception) args=('invalid code True',) str='invalid code True'"],
 ['lookup', 'observation_modes', "Str:'A'", 'RAISED builtins.ValueError(Exception) args=("invalid code \'A\'",) str="invalid code \'A\'"'],
 ['lookup', 'observation_modes', "Str:'zz'", 'RAISED builtins.ValueError(Exception) args=("invalid code \'zz\'",) str="invalid code \'zz\'"'],
 ['lookup', 'observation_modes', "Loud:'A'", "RAISED builtins.ValueError(Exception) args=('invalid code <Loud repr>',) str='invalid code <Loud repr>'"],
 ['lookup', 'observation_modes', "Loud:'zz'", "RAISED builtins.ValueError(Exception) args=('invalid code <Loud repr>',) str='invalid code <Loud repr>'"],
 ['lookup-curried', 'observation_modes', 'RAISED builtins.ValueError(Exception) args=("invalid code \'A\'",) str="invalid code \'A\'"'],
 ['lookup', 'observation_directions', "str:'SBS'", 'RAISED builtins.ValueError(Exception) args=("invalid code \'SBS\'",) str="invalid code \'SBS\'"'],
 ['lookup', 'observation_directions', "str:'WWD'", 'RAISED builtins.ValueError(Exception) args=("invalid code \'WWD\'",) str="invalid code \'WWD\'"'],
 ['lookup', 'observation_directions', "str:'L'", "RETURNED 'left looking'"],
 ['lookup', 'observation_directions', "str:'R'", "RETURNED 'right looking'"],
 ['lookup', 'observation_directions', "str:'1.0'", 'RAISED builtins.ValueError(Exception) args=("invalid code \'1.0\'",) str="invalid code \'1.0\'"'],
 ['lookup', 'observation_directions', "str:'1.5'", 'RAISED builtins.ValueError(Exception) args=("invalid code \'1.5\'",) str="invalid code \'1.5\'"'],
 ['lookup', 'observation_directions', "str:'3.1'", 'RAISED builtins.ValueError(Exception) args=("invalid code \'3.1\'",) str="invalid code \'3.1\'"'],
 ['lookup', 'observation_directions', "str:'G'", 'RAISED builtins.ValueError(Exception) args=("invalid code \'G\'",) str="invalid code \'G\'"'],
 ['lookup', 'observation_directions', "str:'_'", 'RAISED builtins.ValueError(Exception) args=("invalid code \'_\'",) str="invalid code \'_\'"'],
 ['lookup', 'observation_directions', "str:'U'", 'RAISED builtins.ValueError(Exception) args=("invalid code \'U\'",) str="invalid code \'U\'"'],
 ['lookup', 'observation_directions', "str:'A'", 'RAISED builtins.ValueError(Exception) args=("invalid code \'A\'",) str="invalid code \'A\'"'],
 ['lookup', 'observation_directions', "str:'D'", 'RAISED builtins.ValueError(Exception) args=("invalid code \'D\'",) str="invalid code \'D\'"'],
 ['lookup', 'observation_directions', "str:'F'", 'RAISED builtins.ValueError(Exception) args=("invalid code \'F\'",) str="invalid code \'F\'"'],
 ['lookup', 'observation_directions', "str:'B'", 'RAISED builtins.ValueError(Exception) args=("invalid code \'B\'",) str="invalid code \'B\'"'],
 ['lookup', 'observation_directions', "str:'NN'", 'RAISED builtins.ValueError(Exception) args=("invalid code \'NN\'",) str="invalid code \'NN\'"'],
 ['lookup', 'observation_directions', "str:'CC'", 'RAISED builtins.ValueError(Exception) args=("invalid code \'CC\'",) str="invalid code \'CC\'"'],
 ['lookup', 'observation_directions', "str:'SCMO'", 'RAISED builtins.ValueError(Exception) args=("invalid code \'SCMO\'",) str="invalid code \'SCMO\'"'],
 ['lookup', 'observation_directions', "str:'EICS'", 'RAISED builtins.ValueError(Exception) args=("invalid code \'EICS\'",) str="invalid code \'EICS\'"'],
 ['lookup', 'observation_directions', "str:''", 'RAISED builtins.ValueError(Exception) args=("invalid code \'\'",) str="invalid code \'\'"'],
 ['lookup', 'observation_directions', "str:' '", 'RAISED builtins.ValueError(Exception) args=("invalid code \' \'",) str="invalid code \' \'"'],
 ['lookup', 'observation_directions', "str:'l'", 'RAISED builtins.ValueError(Exception) args=("invalid code \'l\'",) str="invalid code \'l\'"'],
 ['lookup', 'observation_directions', "str:'1.6'", 'RAISED builtins.ValueError(Exception) args=("invalid code \'1.6\'",) str="invalid code \'1.6\'"'],
 ['lookup', 'observation_directions', 'str:"it\'s"', 'RAISED builtins.ValueError(Exception) args=(\'invalid code "it\\\'s"\',) str=\'invalid code "it\\\'s"\''],
 ['lookup',
  'observation_directions',
  'str:\'say "hi"\'',
  'RAISED builtins.ValueError(Exception) args=(\'invalid code \\\'say "hi"\\\'\',) str=\'invalid code \\\'say "hi"\\\'\''],
 ['lookup',
  'observation_directions',
  "str:'back\\\\slash'",
  'RAISED builtins.ValueError(Exception) args=("invalid code \'back\\\\\\\\slash\'",) str="invalid code \'back\\\\\\\\slash\'"'],
 ['lookup',
  'observation_directions',
  "str:'new\\nline'",
  'RAISED builtins.ValueError(Exception) args=("invalid code \'new\\\\nline\'",) str="invalid code \'new\\\\nline\'"'],
 ['lookup',
  'observation_directions',
  "str:'caf\\xe9'",
  'RAISED builtins.ValueError(Exception) args=("invalid code \'caf\\xe9\'",) str="invalid code \'caf\\xe9\'"'],
 ['lookup', 'observation_directions', "str:'{}'", 'RAISED builtins.ValueError(Exception) args=("invalid code \'{}\'",) str="invalid code \'{}\'"'],
 ['lookup', 'observation_directions', "str:'%s'", 'RAISED builtins.ValueError(Exception) args=("invalid code \'%s\'",) str="invalid code \'%s\'"'],
 ['lookup', 'observation_directions', "str:'%(a)s'", 'RAISED builtins.ValueError(Exception) args=("invalid code \'%(a)s\'",) str="invalid code \'%(a)s\'"'],
 ['lookup', 'observation_directions', 'NoneType:None', "RAISED builtins.ValueError(Exception) args=('invalid code None',) str='invalid code None'"],
 ['lookup', 'observation_directions', 'int:0', "RAISED builtins.ValueError(Exception) args=('invalid code 0',) str='invalid code 0'"],
 ['lookup', 'observation_directions', 'float:1.5', "RAISED builtins.ValueError(Exception) args=('invalid code 1.5',) str='invalid code 1.5'"],
 ['lookup', 'observation_directions', "tuple:('A',)", 'RAISED builtins.ValueError(Exception) args=("invalid code (\'A\',)",) str="invalid code (\'A\',)"'],
 ['lookup',
  'observation_directions',
  "tuple:('A', 'B')",
  'RAISED builtins.ValueError(Exception) args=("invalid code (\'A\', \'B\')",) str="invalid code (\'A\', \'B\')"'],
 ['lookup', 'observation_directions', "bytes:b'A'", 'RAISED builtins.ValueError(Exception) args=("invalid code b\'A\'",) str="invalid code b\'A\'"'],
 ['lookup', 'observation_directions', 'bool:True', "RAISED builtins.ValueError(Exception) args=('invalid code True',) str='invalid code True'"],
 ['lookup', 'observation_directions', "Str:'A'", 'RAISED builtins.ValueError(Exception) args=("invalid code \'A\'",) str="invalid code \'A\'"'],
 ['lookup', 'observation_directions', "Str:'zz'", 'RAISED builtins.ValueError(Exception) args=("invalid code \'zz\'",) str="invalid code \'zz\'"'],
 ['lookup', 'observation_directions', "Loud:'A'", "RAISED builtins.ValueError(Exception) args=('invalid code <Loud repr>',) str='invalid code <Loud repr>'"],
 ['lookup', 'observation_directions', "Loud:'zz'", "RAISED builtins.ValueError(Exception) args=('invalid code <Loud repr>',) str='invalid code <Loud repr>'"],
 ['lookup-curried', 'observation_directions', 'RAISED builtins.ValueError(Exception) args=("invalid code \'A\'",) str="invalid code \'A\'"'],
 ['lookup', 'processing_levels', "str:'SBS'", 'RAISED builtins.ValueError(Exception) args=("invalid code \'SBS\'",) str="invalid code \'SBS\'"'],
 ['lookup', 'processing_levels', "str:'WWD'", 'RAISED builtins.ValueError(Exception) args=("invalid code \'WWD\'",) str="invalid code \'WWD\'"'],
 ['lookup', 'processing_levels', "str:'L'", 'RAISED builtins.ValueError(Exception) args=("invalid code \'L\'",) str="invalid code \'L\'"'],
 ['lookup', 'processing_levels', "str:'R'", 'RAISED builtins.ValueError(Exception) args=("invalid code \'R\'",) str="invalid code \'R\'"'],
 ['lookup', 'processing_levels', "str:'1.0'", "RETURNED 'level 1.0'"],
 ['lookup', 'processing_levels', "str:'1.5'", "RETURNED 'level 1.5'"],
 ['lookup', 'processing_levels', "str:'3.1'", "RETURNED 'level 3.1'"],
 ['lookup', 'processing_levels', "str:'G'", 'RAISED builtins.ValueError(Exception) args=("invalid code \'G\'",) str="invalid code \'G\'"'],
 ['lookup', 'processing_levels', "str:'_'", 'RAISED builtins.ValueError(Exception) args=("invalid code \'_\'",) str="invalid code \'_\'"'],
 ['lookup', 'processing_levels', "str:'U'", 'RAISED builtins.ValueError(Exception) args=("invalid code \'U\'",) str="invalid code \'U\'"'],
 ['lookup', 'processing_levels', "str:'A'", 'RAISED builtins.ValueError(Exception) args=("invalid code \'A\'",) str="invalid code \'A\'"'],
 ['lookup', 'processing_levels', "str:'D'", 'RAISED builtins.ValueError(Exception) args=("invalid code \'D\'",) str="invalid code \'D\'"'],
 ['lookup', 'processing_levels', "str:'F'", 'RAISED builtins.ValueError(Exception) args=("invalid code \'F\'",) str="invalid code \'F\'"'],
 ['lookup', 'processing_levels', "str:'B'", 'RAISED builtins.ValueError(Exception) args=("invalid code \'B\'",) str="invalid code \'B\'"'],
 ['lookup', 'processing_levels', "str:'NN'", 'RAISED builtins.ValueError(Exception) args=("invalid code \'NN\'",) str="invalid code \'NN\'"'],
 ['lookup', 'processing_levels', "str:'CC'", 'RAISED builtins.ValueError(Exception) args=("invalid code \'CC\'",) str="invalid code \'CC\'"'],
 ['lookup', 'processing_levels', "str:'SCMO'", 'RAISED builtins.ValueError(Exception) args=("invalid code \'SCMO\'",) str="invalid code \'SCMO\'"'],
 ['lookup', 'processing_levels', "str:'EICS'", 'RAISED builtins.ValueError(Exception) args=("invalid code \'EICS\'",) str="invalid code \'EICS\'"'],
 ['lookup', 'processing_levels', "str:''", 'RAISED builtins.ValueError(Exception) args=("invalid code \'\'",) str="invalid code \'\'"'],
 ['lookup', 'processing_levels', "str:' '", 'RAISED builtins.ValueError(Exception) args=("invalid code \' \'",) str="invalid code \' \'"'],
 ['lookup', 'processing_levels', "str:'l'", 'RAISED builtins.ValueError(Exception) args=("invalid code \'l\'",) str="invalid code \'l\'"'],
 ['lookup', 'processing_levels', "str:'1.6'", 'RAISED builtins.ValueError(Exception) args=("invalid code \'1.6\'",) str="invalid code \'1.6\'"'],
 ['lookup', 'processing_levels', 'str:"it\'s"', 'RAISED builtins.ValueError(Exception) args=(\'invalid code "it\\\'s"\',) str=\'invalid code "it\\\'s"\''],
 ['lookup',
  'processing_levels',
  'str:\'say "hi"\'',
  'RAISED builtins.ValueError(Exception) args=(\'invalid code \\\'say "hi"\\\'\',) str=\'invalid code \\\'say "hi"\\\'\''],
 ['lookup',
  'processing_levels',
  "str:'back\\\\slash'",
  'RAISED builtins.ValueError(Exception) args=("invalid code \'back\\\\\\\\slash\'",) str="invalid code \'back\\\\\\\\slash\'"'],
 ['lookup',
  'processing_levels',
  "str:'new\\nline'",
  'RAISED builtins.ValueError(Exception) args=("invalid code \'new\\\\nline\'",) str="invalid code \'new\\\\nline\'"'],
 ['lookup', 'processing_levels', "str:'caf\\xe9'", 'RAISED builtins.ValueError(Exception) args=("invalid code \'caf\\xe9\'",) str="invalid code \'caf\\xe9\'"'],
 ['lookup', 'processing_levels', "str:'{}'", 'RAISED builtins.ValueError(Exception) args=("invalid code \'{}\'",) str="invalid code \'{}\'"'],
 ['lookup', 'processing_levels', "str:'%s'", 'RAISED builtins.ValueError(Exception) args=("invalid code \'%s\'",) str="invalid code \'%s\'"'],
 ['lookup', 'processing_levels', "str:'%(a)s'", 'RAISED builtins.ValueError(Exception) args=("invalid code \'%(a)s\'",) str="invalid code \'%(a)s\'"'],
 ['lookup', 'processing_levels', 'NoneType:None', "RAISED builtins.ValueError(Exception) args=('invalid code None',) str='invalid code None'"],
 ['lookup', 'processing_levels', 'int:0', "RAISED builtins.ValueError(Exception) args=('invalid code 0',) str='invalid code 0'"],
 ['lookup', 'processing_levels', 'float:1.5', "RAISED builtins.ValueError(Exception) args=('invalid code 1.5',) str='invalid code 1.5'"],
 ['lookup', 'processing_levels', "tuple:('A',)", 'RAISED builtins.ValueError(Exception) args=("invalid code (\'A\',)",) str="invalid code (\'A\',)"'],
 ['lookup',
  'processing_levels',
  "tuple:('A', 'B')",
  'RAISED builtins.ValueError(Exception) args=("invalid code (\'A\', \'B\')",) str="invalid code (\'A\', \'B\')"'],
 ['lookup', 'processing_levels', "bytes:b'A'", 'RAISED builtins.ValueError(Exception) args=("invalid code b\'A\'",) str="invalid code b\'A\'"'],
 ['lookup', 'processing_levels', 'bool:True', "RAISED builtins.ValueError(Exception) args=('invalid code True',) str='invalid code True'"],
 ['lookup', 'processing_levels', "Str:'A'", 'RAISED builtins.ValueError(Exception) args=("invalid code \'A\'",) str="invalid code \'A\'"'],
 ['lookup', 'processing_levels', "Str:'zz'", 'RAISED builtins.ValueError(Exception) args=("invalid code \'zz\'",) str="invalid code \'zz\'"'],
 ['lookup', 'processing_levels', "Loud:'A'", "RAISED builtins.ValueError(Exception) args=('invalid code <Loud repr>',) str='invalid code <Loud repr>'"],
 ['lookup', 'processing_levels', "Loud:'zz'", "RAISED builtins.ValueError(Exception) args=('invalid code <Loud repr>',) str='invalid code <Loud repr>'"],
 ['lookup-curried', 'processing_levels', 'RAISED builtins.ValueError(Exception) args=("invalid code \'A\'",) str="invalid code \'A\'"'],
 ['lookup', 'processing_options', "str:'SBS'", 'RAISED builtins.ValueError(Exception) args=("invalid code \'SBS\'",) str="invalid code \'SBS\'"'],
 ['lookup', 'processing_options', "str:'WWD'", 'RAISED builtins.ValueError(Exception) args=("invalid code \'WWD\'",) str="invalid code \'WWD\'"'],
 ['lookup', 'processing_options', "str:'L'", 'RAISED builtins.ValueError(Exception) args=("invalid code \'L\'",) str="invalid code \'L\'"'],
 ['lookup', 'processing_options', "str:'R'", "RETURNED 'geo-reference'"],
 ['lookup', 'processing_options', "str:'1.0'", 'RAISED builtins.ValueError(Exception) args=("invalid code \'1.0\'",) str="invalid code \'1.0\'"'],
 ['lookup', 'processing_options', "str:'1.5'", 'RAISED builtins.ValueError(Exception) args=("invalid code \'1.5\'",) str="invalid code \'1.5\'"'],
 ['lookup', 'processing_options', "str:'3.1'", 'RAISED builtins.ValueError(Exception) args=("invalid code \'3.1\'",) str="invalid code \'3.1\'"'],
 ['lookup', 'processing_options', "str:'G'", "RETURNED 'geo-code'"],
 ['lookup', 'processing_options', "str:'_'", "RETURNED 'not specified'"],
 ['lookup', 'processing_options', "str:'U'", 'RAISED builtins.ValueError(Exception) args=("invalid code \'U\'",) str="invalid code \'U\'"'],
 ['lookup', 'processing_options', "str:'A'", 'RAISED builtins.ValueError(Exception) args=("invalid code \'A\'",) str="invalid code \'A\'"'],
 ['lookup', 'processing_options', "str:'D'", 'RAISED builtins.ValueError(Exception) args=("invalid code \'D\'",) str="invalid code \'D\'"'],
 ['lookup', 'processing_options', "str:'F'", 'RAISED builtins.ValueError(Exception) args=("invalid code \'F\'",) str="invalid code \'F\'"'],
 ['lookup', 'processing_options', "str:'B'", 'RAISED builtins.ValueError(Exception) args=("invalid code \'B\'",) str="invalid code \'B\'"'],
 ['lookup', 'processing_options', "str:'NN'", 'RAISED builtins.ValueError(Exception) args=("invalid code \'NN\'",) str="invalid code \'NN\'"'],
 ['lookup', 'processing_options', "str:'CC'", 'RAISED builtins.ValueError(Exception) args=("invalid code \'CC\'",) str="invalid code \'CC\'"'],
 ['lookup', 'processing_options', "str:'SCMO'", 'RAISED builtins.ValueError(Exception) args=("invalid code \'SCMO\'",) str="invalid code \'SCMO\'"'],
 ['lookup', 'processing_options', "str:'EICS'", 'RAISED builtins.ValueError(Exception) args=("invalid code \'EICS\'",) str="invalid code \'EICS\'"'],
 ['lookup', 'processing_options', "str:''", 'RAISED builtins.ValueError(Exception) args=("invalid code \'\'",) str="invalid code \'\'"'],
 ['lookup', 'processing_options', "str:' '", 'RAISED builtins.ValueError(Exception) args=("invalid code \' \'",) str="invalid code \' \'"'],
 ['lookup', 'processing_options', "str:'l'", 'RAISED builtins.ValueError(Exception) args=("invalid code \'l\'",) str="invalid code \'l\'"'],
 ['lookup', 'processing_options', "str:'1.6'", 'RAISED builtins.ValueError(Exception) args=("invalid code \'1.6\'",) str="invalid code \'1.6\'"'],
 ['lookup', 'processing_options', 'str:"it\'s"', 'RAISED builtins.ValueError(Exception) args=(\'invalid code "it\\\'s"\',) str=\'invalid code "it\\\'s"\''],
 ['lookup',
  'processing_options',
  'str:\'say "hi"\'',
  'RAISED builtins.ValueError(Exception) args=(\'invalid code \\\'say "hi"\\\'\',) str=\'invalid code \\\'say "hi"\\\'\''],
 ['lookup',
  'processing_options',
  "str:'back\\\\slash'",
  'RAISED builtins.ValueError(Exception) args=("invalid code \'back\\\\\\\\slash\'",) str="invalid code \'back\\\\\\\\slash\'"'],
 ['lookup',
  'processing_options',
  "str:'new\\nline'",
  'RAISED builtins.ValueError(Exception) args=("invalid code \'new\\\\nline\'",) str="invalid code \'new\\\\nline\'"'],
 ['lookup',
  'processing_options',
  "str:'caf\\xe9'",
  'RAISED builtins.ValueError(Exception) args=("invalid code \'caf\\xe9\'",) str="invalid code \'caf\\xe9\'"'],
 ['lookup', 'processing_options', "str:'{}'", 'RAISED builtins.ValueError(Exception) args=("invalid code \'{}\'",) str="invalid code \'{}\'"'],
 ['lookup', 'processing_options', "str:'%s'", 'RAISED builtins.ValueError(Exception) args=("invalid code \'%s\'",) str="invalid code \'%s\'"'],
 ['lookup', 'processing_options', "str:'%(a)s'", 'RAISED builtins.ValueError(Exception) args=("invalid code \'%(a)s\'",) str="invalid code \'%(a)s\'"'],
 ['lookup', 'processing_options', 'NoneType:None', "RAISED builtins.ValueError(Exception) args=('invalid code None',) str='invalid code None'"],
 ['lookup', 'processing_options', 'int:0', "RAISED builtins.ValueError(Exception) args=('invalid code 0',) str='invalid code 0'"],
 ['lookup', 'processing_options', 'float:1.5', "RAISED builtins.ValueError(Exception) args=('invalid code 1.5',) str='invalid code 1.5'"],
 ['lookup', 'processing_options', "tuple:('A',)", 'RAISED builtins.ValueError(Exception) args=("invalid code (\'A\',)",) str="invalid code (\'A\',)"'],
 ['lookup',
  'processing_options',
  "tuple:('A', 'B')",
  'RAISED builtins.ValueError(Exception) args=("invalid code (\'A\', \'B\')",) str="invalid code (\'A\', \'B\')"'],
 ['lookup', 'processing_options', "bytes:b'A'", 'RAISED builtins.ValueError(Exception) args=("invalid code b\'A\'",) str="invalid code b\'A\'"'],
 ['lookup', 'processing_options', 'bool:True', "RAISED builtins.ValueError(Exception) args=('invalid code True',) str='invalid code True'"],
 ['lookup', 'processing_options', "Str:'A'", 'RAISED builtins.ValueError(Exception) args=("invalid code \'A\'",) str="invalid code \'A\'"'],
 ['lookup', 'processing_options', "Str:'zz'", 'RAISED builtins.ValueError(Exception) args=("invalid code \'zz\'",) str="invalid code \'zz\'"'],
 ['lookup', 'processing_options', "Loud:'A'", "RAISED builtins.ValueError(Exception) args=('invalid code <Loud repr>',) str='invalid code <Loud repr>'"],
 ['lookup', 'processing_options', "Loud:'zz'", "RAISED builtins.ValueError(Exception) args=('invalid code <Loud repr>',) str='invalid code <Loud repr>'"],
 ['lookup-curried', 'processing_options', 'RAISED builtins.ValueError(Exception) args=("invalid code \'A\'",) str="invalid code \'A\'"'],
 ['lookup', 'map_projections', "str:'SBS'", 'RAISED builtins.ValueError(Exception) args=("invalid code \'SBS\'",) str="invalid code \'SBS\'"'],
 ['lookup', 'map_projections', "str:'WWD'", 'RAISED builtins.ValueError(Exception) args=("invalid code \'WWD\'",) str="invalid code \'WWD\'"'],
 ['lookup', 'map_projections', "str:'L'", "RETURNED 'LCC'"],
 ['lookup', 'map_projections', "str:'R'", 'RAISED builtins.ValueError(Exception) args=("invalid code \'R\'",) str="invalid code \'R\'"'],
 ['lookup', 'map_projections', "str:'1.0'", 'RAISED builtins.ValueError(Exception) args=("invalid code \'1.0\'",) str="invalid code \'1.0\'"'],
 ['lookup', 'map_projections', "str:'1.5'", 'RAISED builtins.ValueError(Exception) args=("invalid code \'1.5\'",) str="invalid code \'1.5\'"'],
 ['lookup', 'map_projections', "str:'3.1'", 'RAISED builtins.ValueError(Exception) args=("invalid code \'3.1\'",) str="invalid code \'3.1\'"'],
 ['lookup', 'map_projections', "str:'G'", 'RAISED builtins.ValueError(Exception) args=("invalid code \'G\'",) str="invalid code \'G\'"'],
 ['lookup', 'map_projections', "str:'_'", "RETURNED 'not specified'"],
 ['lookup', 'map_projections', "str:'U'", "RETURNED 'UTM'"],
 ['lookup', 'map_projections', "str:'A'", 'RAISED builtins.ValueError(Exception) args=("invalid code \'A\'",) str="invalid code \'A\'"'],
 ['lookup', 'map_projections', "str:'D'", 'RAISED builtins.ValueError(Exception) args=("invalid code \'D\'",) str="invalid code \'D\'"'],
 ['lookup', 'map_projections', "str:'F'", 'RAISED builtins.ValueError(Exception) args=("invalid code \'F\'",) str="invalid code \'F\'"'],
 ['lookup', 'map_projections', "str:'B'", 'RAISED builtins.ValueError(Exception) args=("invalid code \'B\'",) str="invalid code \'B\'"'],
 ['lookup', 'map_projections', "str:'NN'", 'RAISED builtins.ValueError(Exception) args=("invalid code \'NN\'",) str="invalid code \'NN\'"'],
 ['lookup', 'map_projections', "str:'CC'", 'RAISED builtins.ValueError(Exception) args=("invalid code \'CC\'",) str="invalid code \'CC\'"'],
 ['lookup', 'map_projections', "str:'SCMO'", 'RAISED builtins.ValueError(Exception) args=("invalid code \'SCMO\'",) str="invalid code \'SCMO\'"'],
 ['lookup', 'map_projections', "str:'EICS'", 'RAISED builtins.ValueError(Exception) args=("invalid code \'EICS\'",) str="invalid code \'EICS\'"'],
 ['lookup', 'map_projections', "str:''", 'RAISED builtins.ValueError(Exception) args=("invalid code \'\'",) str="invalid code \'\'"'],
 ['lookup', 'map_projections', "str:' '", 'RAISED builtins.ValueError(Exception) args=("invalid code \' \'",) str="invalid code \' \'"'],
 ['lookup', 'map_projections', "str:'l'", 'RAISED builtins.ValueError(Exception) args=("invalid code \'l\'",) str="invalid code \'l\'"'],
 ['lookup', 'map_projections', "str:'1.6'", 'RAISED builtins.ValueError(Exception) args=("invalid code \'1.6\'",) str="invalid code \'1.6\'"'],
 ['lookup', 'map_projections', 'str:"it\'s"', 'RAISED builtins.ValueError(Exception) args=(\'invalid code "it\\\'s"\',) str=\'invalid code "it\\\'s"\''],
 ['lookup',
  'map_projections',
  'str:\'say "hi"\'',
  'RAISED builtins.ValueError(Exception) args=(\'invalid code \\\'say "hi"\\\'\',) str=\'invalid code \\\'say "hi"\\\'\''],
 ['lookup',
  'map_projections',
  "str:'back\\\\slash'",
  'RAISED builtins.ValueError(Exception) args=("invalid code \'back\\\\\\\\slash\'",) str="invalid code \'back\\\\\\\\slash\'"'],
 ['lookup',
  'map_projections',
  "str:'new\\nline'",
  'RAISED builtins.ValueError(Exception) args=("invalid code \'new\\\\nline\'",) str="invalid code \'new\\\\nline\'"'],
 ['lookup', 'map_projections', "str:'caf\\xe9'", 'RAISED builtins.ValueError(Exception) args=("invalid code \'caf\\xe9\'",) str="invalid code \'caf\\xe9\'"'],
 ['lookup', 'map_projections', "str:'{}'", 'RAISED builtins.ValueError(Exception) args=("invalid code \'{}\'",) str="invalid code \'{}\'"'],
 ['lookup', 'map_projections', "str:'%s'", 'RAISED builtins.ValueError(Exception) args=("invalid code \'%s\'",) str="invalid code \'%s\'"'],
 ['lookup', 'map_projections', "str:'%(a)s'", 'RAISED builtins.ValueError(Exception) args=("invalid code \'%(a)s\'",) str="invalid code \'%(a)s\'"'],
 ['lookup', 'map_projections', 'NoneType:None', "RAISED builtins.ValueError(Exception) args=('invalid code None',) str='invalid code None'"],
 ['lookup', 'map_projections', 'int:0', "RAISED builtins.ValueError(Exception) args=('invalid code 0',) str='invalid code 0'"],
 ['lookup', 'map_projections', 'float:1.5', "RAISED builtins.ValueError(Exception) args=('invalid code 1.5',) str='invalid code 1.5'"],
 ['lookup', 'map_projections', "tuple:('A',)", 'RAISED builtins.ValueError(Exception) args=("invalid code (\'A\',)",) str="invalid code (\'A\',)"'],
 ['lookup',
  'map_projections',
  "tuple:('A', 'B')",
  'RAISED builtins.ValueError(Exception) args=("invalid code (\'A\', \'B\')",) str="invalid code (\'A\', \'B\')"'],
 ['lookup', 'map_projections', "bytes:b'A'", 'RAISED builtins.ValueError(Exception) args=("invalid code b\'A\'",) str="invalid code b\'A\'"'],
 ['lookup', 'map_projections', 'bool:True', "RAISED builtins.ValueError(Exception) args=('invalid code True',) str='invalid code True'"],
 ['lookup', 'map_projections', "Str:'A'", 'RAISED builtins.ValueError(Exception) args=("invalid code \'A\'",) str="invalid code \'A\'"'],
 ['lookup', 'map_projections', "Str:'zz'", 'RAISED builtins.ValueError(Exception) args=("invalid code \'zz\'",) str="invalid code \'zz\'"'],
 ['lookup', 'map_projections', "Loud:'A'", "RAISED builtins.ValueError(Exception) args=('invalid code <Loud repr>',) str='invalid code <Loud repr>'"],
 ['lookup', 'map_projections', "Loud:'zz'", "RAISED builtins.ValueError(Exception) args=('invalid code <Loud repr>',) str='invalid code <Loud repr>'"],
 ['lookup-curried', 'map_projections', 'RAISED builtins.ValueError(Exception) args=("invalid code \'A\'",) str="invalid code \'A\'"'],
 ['lookup', 'orbit_directions', "str:'SBS'", 'RAISED builtins.ValueError(Exception) args=("invalid code \'SBS\'",) str="invalid code \'SBS\'"'],
 ['lookup', 'orbit_directions', "str:'WWD'", 'RAISED builtins.ValueError(Exception) args=("invalid code \'WWD\'",) str="invalid code \'WWD\'"'],
 ['lookup', 'orbit_directions', "str:'L'", 'RAISED builtins.ValueError(Exception) args=("invalid code \'L\'",) str="invalid code \'L\'"'],
 ['lookup', 'orbit_directions', "str:'R'", 'RAISED builtins.ValueError(Exception) args=("invalid code \'R\'",) str="invalid code \'R\'"'],
 ['lookup', 'orbit_directions', "str:'1.0'", 'RAISED builtins.ValueError(Exception) args=("invalid code \'1.0\'",) str="invalid code \'1.0\'"'],
 ['lookup', 'orbit_directions', "str:'1.5'", 'RAISED builtins.ValueError(Exception) args=("invalid code \'1.5\'",) str="invalid code \'1.5\'"'],
 ['lookup', 'orbit_directions', "str:'3.1'", 'RAISED builtins.ValueError(Exception) args=("invalid code \'3.1\'",) str="invalid code \'3.1\'"'],
 ['lookup', 'orbit_directions', "str:'G'", 'RAISED builtins.ValueError(Exception) args=("invalid code \'G\'",) str="invalid code \'G\'"'],
 ['lookup', 'orbit_directions', "str:'_'", 'RAISED builtins.ValueError(Exception) args=("invalid code \'_\'",) str="invalid code \'_\'"'],
 ['lookup', 'orbit_directions', "str:'U'", 'RAISED builtins.ValueError(Exception) args=("invalid code \'U\'",) str="invalid code \'U\'"'],
 ['lookup', 'orbit_directions', "str:'A'", "RETURNED 'ascending'"],
 ['lookup', 'orbit_directions', "str:'D'", "RETURNED 'descending'"],
 ['lookup', 'orbit_directions', "str:'F'", 'RAISED builtins.ValueError(Exception) args=("invalid code \'F\'",) str="invalid code \'F\'"'],
 ['lookup', 'orbit_directions', "str:'B'", 'RAISED builtins.ValueError(Exception) args=("invalid code \'B\'",) str="invalid code \'B\'"'],
 ['lookup', 'orbit_directions', "str:'NN'", 'RAISED builtins.ValueError(Exception) args=("invalid code \'NN\'",) str="invalid code \'NN\'"'],
 ['lookup', 'orbit_directions', "str:'CC'", 'RAISED builtins.ValueError(Exception) args=("invalid code \'CC\'",) str="invalid code \'CC\'"'],
 ['lookup', 'orbit_directions', "str:'SCMO'", 'RAISED builtins.ValueError(Exception) args=("invalid code \'SCMO\'",) str="invalid code \'SCMO\'"'],
 ['lookup', 'orbit_directions', "str:'EICS'", 'RAISED builtins.ValueError(Exception) args=("invalid code \'EICS\'",) str="invalid code \'EICS\'"'],
 ['lookup', 'orbit_directions', "str:''", 'RAISED builtins.ValueError(Exception) args=("invalid code \'\'",) str="invalid code \'\'"'],
 ['lookup', 'orbit_directions', "str:' '", 'RAISED builtins.ValueError(Exception) args=("invalid code \' \'",) str="invalid code \' \'"'],
 ['lookup', 'orbit_directions', "str:'l'", 'RAISED builtins.ValueError(Exception) args=("invalid code \'l\'",) str="invalid code \'l\'"'],
 ['lookup', 'orbit_directions', "str:'1.6'", 'RAISED builtins.ValueError(Exception) args=("invalid code \'1.6\'",) str="invalid code \'1.6\'"'],
 ['lookup', 'orbit_directions', 'str:"it\'s"', 'RAISED builtins.ValueError(Exception) args=(\'invalid code "it\\\'s"\',) str=\'invalid code "it\\\'s"\''],
 ['lookup',
  'orbit_directions',
  'str:\'say "hi"\'',
  'RAISED builtins.ValueError(Exception) args=(\'invalid code \\\'say "hi"\\\'\',) str=\'invalid code \\\'say "hi"\\\'\''],
 ['lookup',
  'orbit_directions',
  "str:'back\\\\slash'",
  'RAISED builtins.ValueError(Exception) args=("invalid code \'back\\\\\\\\slash\'",) str="invalid code \'back\\\\\\\\slash\'"'],
 ['lookup',
  'orbit_directions',
  "str:'new\\nline'",
  'RAISED builtins.ValueError(Exception) args=("invalid code \'new\\\\nline\'",) str="invalid code \'new\\\\nline\'"'],
 ['lookup', 'orbit_directions', "str:'caf\\xe9'", 'RAISED builtins.ValueError(Exception) args=("invalid code \'caf\\xe9\'",) str="invalid code \'caf\\xe9\'"'],
 ['lookup', 'orbit_directions', "str:'{}'", 'RAISED builtins.ValueError(Exception) args=("invalid code \'{}\'",) str="invalid code \'{}\'"'],
 ['lookup', 'orbit_directions', "str:'%s'", 'RAISED builtins.ValueError(Exception) args=("invalid code \'%s\'",) str="invalid code \'%s\'"'],
 ['lookup', 'orbit_directions', "str:'%(a)s'", 'RAISED builtins.ValueError(Exception) args=("invalid code \'%(a)s\'",) str="invalid code \'%(a)s\'"'],
 ['lookup', 'orbit_directions', 'NoneType:None', "RAISED builtins.ValueError(Exception) args=('invalid code None',) str='invalid code None'"],
 ['lookup', 'orbit_directions', 'int:0', "RAISED builtins.ValueError(Exception) args=('invalid code 0',) str='invalid code 0'"],
 ['lookup', 'orbit_directions', 'float:1.5', "RAISED builtins.ValueError(Exception) args=('invalid code 1.5',) str='invalid code 1.5'"],
 ['lookup', 'orbit_directions', "tuple:('A',)", 'RAISED builtins.ValueError(Exception) args=("invalid code (\'A\',)",) str="invalid code (\'A\',)"'],
 ['lookup',
  'orbit_directions',
  "tuple:('A', 'B')",
  'RAISED builtins.ValueError(Exception) args=("invalid code (\'A\', \'B\')",) str="invalid code (\'A\', \'B\')"'],
 ['lookup', 'orbit_directions', "bytes:b'A'", 'RAISED builtins.ValueError(Exception) args=("invalid code b\'A\'",) str="invalid code b\'A\'"'],
 ['lookup', 'orbit_directions', 'bool:True', "RAISED builtins.ValueError(Exception) args=('invalid code True',) str='invalid code True'"],
 ['lookup', 'orbit_directions', "Str:'A'", "RETURNED 'ascending'"],
 ['lookup', 'orbit_directions', "Str:'zz'", 'RAISED builtins.ValueError(Exception) args=("invalid code \'zz\'",) str="invalid code \'zz\'"'],
 ['lookup', 'orbit_directions', "Loud:'A'", "RETURNED 'ascending'"],
 ['lookup', 'orbit_directions', "Loud:'zz'", "RAISED builtins.ValueError(Exception) args=('invalid code <Loud repr>',) str='invalid code <Loud repr>'"],
 ['lookup-curried', 'orbit_directions', "RETURNED 'ascending'"],
 ['lookup', 'processing_methods', "str:'SBS'", 'RAISED builtins.ValueError(Exception) args=("invalid code \'SBS\'",) str="invalid code \'SBS\'"'],
 ['lookup', 'processing_methods', "str:'WWD'", 'RAISED builtins.ValueError(Exception) args=("invalid code \'WWD\'",) str="invalid code \'WWD\'"'],
 ['lookup', 'processing_methods', "str:'L'", 'RAISED builtins.ValueError(Exception) args=("invalid code \'L\'",) str="invalid code \'L\'"'],
 ['lookup', 'processing_methods', "str:'R'", 'RAISED builtins.ValueError(Exception) args=("invalid code \'R\'",) str="invalid code \'R\'"'],
 ['lookup', 'processing_methods', "str:'1.0'", 'RAISED builtins.ValueError(Exception) args=("invalid code \'1.0\'",) str="invalid code \'1.0\'"'],
 ['lookup', 'processing_methods', "str:'1.5'", 'RAISED builtins.ValueError(Exception) args=("invalid code \'1.5\'",) str="invalid code \'1.5\'"'],
 ['lookup', 'processing_methods', "str:'3.1'", 'RAISED builtins.ValueError(Exception) args=("invalid code \'3.1\'",) str="invalid code \'3.1\'"'],
 ['lookup', 'processing_methods', "str:'G'", 'RAISED builtins.ValueError(Exception) args=("invalid code \'G\'",) str="invalid code \'G\'"'],
 ['lookup', 'processing_methods', "str:'_'", 'RAISED builtins.ValueError(Exception) args=("invalid code \'_\'",) str="invalid code \'_\'"'],
 ['lookup', 'processing_methods', "str:'U'", 'RAISED builtins.ValueError(Exception) args=("invalid code \'U\'",) str="invalid code \'U\'"'],
 ['lookup', 'processing_methods', "str:'A'", 'RAISED builtins.ValueError(Exception) args=("invalid code \'A\'",) str="invalid code \'A\'"'],
 ['lookup', 'processing_methods', "str:'D'", 'RAISED builtins.ValueError(Exception) args=("invalid code \'D\'",) str="invalid code \'D\'"'],
 ['lookup', 'processing_methods', "str:'F'", "RETURNED 'full aperture_method'"],
 ['lookup', 'processing_methods', "str:'B'", "RETURNED 'SPECAN method'"],
 ['lookup', 'processing_methods', "str:'NN'", 'RAISED builtins.ValueError(Exception) args=("invalid code \'NN\'",) str="invalid code \'NN\'"'],
 ['lookup', 'processing_methods', "str:'CC'", 'RAISED builtins.ValueError(Exception) args=("invalid code \'CC\'",) str="invalid code \'CC\'"'],
 ['lookup', 'processing_methods', "str:'SCMO'", 'RAISED builtins.ValueError(Exception) args=("invalid code \'SCMO\'",) str="invalid code \'SCMO\'"'],
 ['lookup', 'processing_methods', "str:'EICS'", 'RAISED builtins.ValueError(Exception) args=("invalid code \'EICS\'",) str="invalid code \'EICS\'"'],
 ['lookup', 'processing_methods', "str:''", 'RAISED builtins.ValueError(Exception) args=("invalid code \'\'",) str="invalid code \'\'"'],
 ['lookup', 'processing_methods', "str:' '", 'RAISED builtins.ValueError(Exception) args=("invalid code \' \'",) str="invalid code \' \'"'],
 ['lookup', 'processing_methods', "str:'l'", 'RAISED builtins.ValueError(Exception) args=("invalid code \'l\'",) str="invalid code \'l\'"'],
 ['lookup', 'processing_methods', "str:'1.6'", 'RAISED builtins.ValueError(Exception) args=("invalid code \'1.6\'",) str="invalid code \'1.6\'"'],
 ['lookup', 'processing_methods', 'str:"it\'s"', 'RAISED builtins.ValueError(Exception) args=(\'invalid code "it\\\'s"\',) str=\'invalid code "it\\\'s"\''],
 ['lookup',
  'processing_methods',
  'str:\'say "hi"\'',
  'RAISED builtins.ValueError(Exception) args=(\'invalid code \\\'say "hi"\\\'\',) str=\'invalid code \\\'say "hi"\\\'\''],
 ['lookup',
  'processing_methods',
  "str:'back\\\\slash'",
  'RAISED builtins.ValueError(Exception) args=("invalid code \'back\\\\\\\\slash\'",) str="invalid code \'back\\\\\\\\slash\'"'],
 ['lookup',
  'processing_methods',
  "str:'new\\nline'",
  'RAISED builtins.ValueError(Exception) args=("invalid code \'new\\\\nline\'",) str="invalid code \'new\\\\nline\'"'],
 ['lookup',
  'processing_methods',
  "str:'caf\\xe9'",
  'RAISED builtins.ValueError(Exception) args=("invalid code \'caf\\xe9\'",) str="invalid code \'caf\\xe9\'"'],
 ['lookup', 'processing_methods', "str:'{}'", 'RAISED builtins.ValueError(Exception) args=("invalid code \'{}\'",) str="invalid code \'{}\'"'],
 ['lookup', 'processing_methods', "str:'%s'", 'RAISED builtins.ValueError(Exception) args=("invalid code \'%s\'",) str="invalid code \'%s\'"'],
 ['lookup', 'processing_methods', "str:'%(a)s'", 'RAISED builtins.ValueError(Exception) args=("invalid code \'%(a)s\'",) str="invalid code \'%(a)s\'"'],
 ['lookup', 'processing_methods', 'NoneType:None', "RAISED builtins.ValueError(Exception) args=('invalid code None',) str='invalid code None'"],
 ['lookup', 'processing_methods', 'int:0', "RAISED builtins.ValueError(Exception) args=('invalid code 0',) str='invalid code 0'"],
 ['lookup', 'processing_methods', 'float:1.5', "RAISED builtins.ValueError(Exception) args=('invalid code 1.5',) str='invalid code 1.5'"],
 ['lookup', 'processing_methods', "tuple:('A',)", 'RAISED builtins.ValueError(Exception) args=("invalid code (\'A\',)",) str="invalid code (\'A\',)"'],
 ['lookup',
  'processing_methods',
  "tuple:('A', 'B')",
  'RAISED builtins.ValueError(Exception) args=("invalid code (\'A\', \'B\')",) str="invalid code (\'A\', \'B\')"'],
 ['lookup', 'processing_methods', "bytes:b'A'", 'RAISED builtins.ValueError(Exception) args=("invalid code b\'A\'",) str="invalid code b\'A\'"'],
 ['lookup', 'processing_methods', 'bool:True', "RAISED builtins.ValueError(Exception) args=('invalid code True',) str='invalid code True'"],
 ['lookup', 'processing_methods', "Str:'A'", 'RAISED builtins.ValueError(Exception) args=("invalid code \'A\'",) str="invalid code \'A\'"'],
 ['lookup', 'processing_methods', "Str:'zz'", 'RAISED builtins.ValueError(Exception) args=("invalid code \'zz\'",) str="invalid code \'zz\'"'],
 ['lookup', 'processing_methods', "Loud:'A'", "RAISED builtins.ValueError(Exception) args=('invalid code <Loud repr>',) str='invalid code <Loud repr>'"],
 ['lookup', 'processing_methods', "Loud:'zz'", "RAISED builtins.ValueError(Exception) args=('invalid code <Loud repr>',) str='invalid code <Loud repr>'"],
 ['lookup-curried', 'processing_methods', 'RAISED builtins.ValueError(Exception) args=("invalid code \'A\'",) str="invalid code \'A\'"'],
 ['lookup', 'resampling_methods', "str:'SBS'", 'RAISED builtins.ValueError(Exception) args=("invalid code \'SBS\'",) str="invalid code \'SBS\'"'],
 ['lookup', 'resampling_methods', "str:'WWD'", 'RAISED builtins.ValueError(Exception) args=("invalid code \'WWD\'",) str="invalid code \'WWD\'"'],
 ['lookup', 'resampling_methods', "str:'L'", 'RAISED builtins.ValueError(Exception) args=("invalid code \'L\'",) str="invalid code \'L\'"'],
 ['lookup', 'resampling_methods', "str:'R'", 'RAISED builtins.ValueError(Exception) args=("invalid code \'R\'",) str="invalid code \'R\'"'],
 ['lookup', 'resampling_methods', "str:'1.0'", 'RAISED builtins.ValueError(Exception) args=("invalid code \'1.0\'",) str="invalid code \'1.0\'"'],
 ['lookup', 'resampling_methods', "str:'1.5'", 'RAISED builtins.ValueError(Exception) args=("invalid code \'1.5\'",) str="invalid code \'1.5\'"'],
 ['lookup', 'resampling_methods', "str:'3.1'", 'RAISED builtins.ValueError(Exception) args=("invalid code \'3.1\'",) str="invalid code \'3.1\'"'],
 ['lookup', 'resampling_methods', "str:'G'", 'RAISED builtins.ValueError(Exception) args=("invalid code \'G\'",) str="invalid code \'G\'"'],
 ['lookup', 'resampling_methods', "str:'_'", 'RAISED builtins.ValueError(Exception) args=("invalid code \'_\'",) str="invalid code \'_\'"'],
 ['lookup', 'resampling_methods', "str:'U'", 'RAISED builtins.ValueError(Exception) args=("invalid code \'U\'",) str="invalid code \'U\'"'],
 ['lookup', 'resampling_methods', "str:'A'", 'RAISED builtins.ValueError(Exception) args=("invalid code \'A\'",) str="invalid code \'A\'"'],
 ['lookup', 'resampling_methods', "str:'D'", 'RAISED builtins.ValueError(Exception) args=("invalid code \'D\'",) str="invalid code \'D\'"'],
 ['lookup', 'resampling_methods', "str:'F'", 'RAISED builtins.ValueError(Exception) args=("invalid code \'F\'",) str="invalid code \'F\'"'],
 ['lookup', 'resampling_methods', "str:'B'", 'RAISED builtins.ValueError(Exception) args=("invalid code \'B\'",) str="invalid code \'B\'"'],
 ['lookup', 'resampling_methods', "str:'NN'", "RETURNED 'nearest-neighbor'"],
 ['lookup', 'resampling_methods', "str:'CC'", "RETURNED 'cubic convolution'"],
 ['lookup', 'resampling_methods', "str:'SCMO'", 'RAISED builtins.ValueError(Exception) args=("invalid code \'SCMO\'",) str="invalid code \'SCMO\'"'],
 ['lookup', 'resampling_methods', "str:'EICS'", 'RAISED builtins.ValueError(Exception) args=("invalid code \'EICS\'",) str="invalid code \'EICS\'"'],
 ['lookup', 'resampling_methods', "str:''", 'RAISED builtins.ValueError(Exception) args=("invalid code \'\'",) str="invalid code \'\'"'],
 ['lookup', 'resampling_methods', "str:' '", 'RAISED builtins.ValueError(Exception) args=("invalid code \' \'",) str="invalid code \' \'"'],
 ['lookup', 'resampling_methods', "str:'l'", 'RAISED builtins.ValueError(Exception) args=("invalid code \'l\'",) str="invalid code \'l\'"'],
 ['lookup', 'resampling_methods', "str:'1.6'", 'RAISED builtins.ValueError(Exception) args=("invalid code \'1.6\'",) str="invalid code \'1.6\'"'],
 ['lookup', 'resampling_methods', 'str:"it\'s"', 'RAISED builtins.ValueError(Exception) args=(\'invalid code "it\\\'s"\',) str=\'invalid code "it\\\'s"\''],
 ['lookup',
  'resampling_methods',
  'str:\'say "hi"\'',
  'RAISED builtins.ValueError(Exception) args=(\'invalid code \\\'say "hi"\\\'\',) str=\'invalid code \\\'say "hi"\\\'\''],
 ['lookup',
  'resampling_methods',
  "str:'back\\\\slash'",
  'RAISED builtins.ValueError(Exception) args=("invalid code \'back\\\\\\\\slash\'",) str="invalid code \'back\\\\\\\\slash\'"'],
 ['lookup',
  'resampling_methods',
  "str:'new\\nline'",
  'RAISED builtins.ValueError(Exception) args=("invalid code \'new\\\\nline\'",) str="invalid code \'new\\\\nline\'"'],
 ['lookup',
  'resampling_methods',
  "str:'caf\\xe9'",
  'RAISED builtins.ValueError(Exception) args=("invalid code \'caf\\xe9\'",) str="invalid code \'caf\\xe9\'"'],
 ['lookup', 'resampling_methods', "str:'{}'", 'RAISED builtins.ValueError(Exception) args=("invalid code \'{}\'",) str="invalid code \'{}\'"'],
 ['lookup', 'resampling_methods', "str:'%s'", 'RAISED builtins.ValueError(Exception) args=("invalid code \'%s\'",) str="invalid code \'%s\'"'],
 ['lookup', 'resampling_methods', "str:'%(a)s'", 'RAISED builtins.ValueError(Exception) args=("invalid code \'%(a)s\'",) str="invalid code \'%(a)s\'"'],
 ['lookup', 'resampling_methods', 'NoneType:None', "RAISED builtins.ValueError(Exception) args=('invalid code None',) str='invalid code None'"],
 ['lookup', 'resampling_methods', 'int:0', "RAISED builtins.ValueError(Exception) args=('invalid code 0',) str='invalid code 0'"],
 ['lookup', 'resampling_methods', 'float:1.5', "RAISED builtins.ValueError(Exception) args=('invalid code 1.5',) str='invalid code 1.5'"],
 ['lookup', 'resampling_methods', "tuple:('A',)", 'RAISED builtins.ValueError(Exception) args=("invalid code (\'A\',)",) str="invalid code (\'A\',)"'],
 ['lookup',
  'resampling_methods',
  "tuple:('A', 'B')",
  'RAISED builtins.ValueError(Exception) args=("invalid code (\'A\', \'B\')",) str="invalid code (\'A\', \'B\')"'],
 ['lookup', 'resampling_methods', "bytes:b'A'", 'RAISED builtins.ValueError(Exception) args=("invalid code b\'A\'",) str="invalid code b\'A\'"'],
 ['lookup', 'resampling_methods', 'bool:True', "RAISED builtins.ValueError(Exception) args=('invalid code True',) str='invalid code True'"],
 ['lookup', 'resampling_methods', "Str:'A'", 'RAISED builtins.ValueError(Exception) args=("invalid code \'A\'",) str="invalid code \'A\'"'],
 ['lookup', 'resampling_methods', "Str:'zz'", 'RAISED builtins.ValueError(Exception) args=("invalid code \'zz\'",) str="invalid code \'zz\'"'],
 ['lookup', 'resampling_methods', "Loud:'A'", "RAISED builtins.ValueError(Exception) args=('invalid code <Loud repr>',) str='invalid code <Loud repr>'"],
 ['lookup', 'resampling_methods', "Loud:'zz'", "RAISED builtins.ValueError(Exception) args=('invalid code <Loud repr>',) str='invalid code <Loud repr>'"],
 ['lookup-curried', 'resampling_methods', 'RAISED builtins.ValueError(Exception) args=("invalid code \'A\'",) str="invalid code \'A\'"'],
 ['lookup', 'processing_facilities', "str:'SBS'", 'RAISED builtins.ValueError(Exception) args=("invalid code \'SBS\'",) str="invalid code \'SBS\'"'],
 ['lookup', 'processing_facilities', "str:'WWD'", 'RAISED builtins.ValueError(Exception) args=("invalid code \'WWD\'",) str="invalid code \'WWD\'"'],
 ['lookup', 'processing_facilities', "str:'L'", 'RAISED builtins.ValueError(Exception) args=("invalid code \'L\'",) str="invalid code \'L\'"'],
 ['lookup', 'processing_facilities', "str:'R'", 'RAISED builtins.ValueError(Exception) args=("invalid code \'R\'",) str="invalid code \'R\'"'],
 ['lookup', 'processing_facilities', "str:'1.0'", 'RAISED builtins.ValueError(Exception) args=("invalid code \'1.0\'",) str="invalid code \'1.0\'"'],
 ['lookup', 'processing_facilities', "str:'1.5'", 'RAISED builtins.ValueError(Exception) args=("invalid code \'1.5\'",) str="invalid code \'1.5\'"'],
 ['lookup', 'processing_facilities', "str:'3.1'", 'RAISED builtins.ValueError(Exception) args=("invalid code \'3.1\'",) str="invalid code \'3.1\'"'],
 ['lookup', 'processing_facilities', "str:'G'", 'RAISED builtins.ValueError(Exception) args=("invalid code \'G\'",) str="invalid code \'G\'"'],
 ['lookup', 'processing_facilities', "str:'_'", 'RAISED builtins.ValueError(Exception) args=("invalid code \'_\'",) str="invalid code \'_\'"'],
 ['lookup', 'processing_facilities', "str:'U'", 'RAISED builtins.ValueError(Exception) args=("invalid code \'U\'",) str="invalid code \'U\'"'],
 ['lookup', 'processing_facilities', "str:'A'", 'RAISED builtins.ValueError(Exception) args=("invalid code \'A\'",) str="invalid code \'A\'"'],
 ['lookup', 'processing_facilities', "str:'D'", 'RAISED builtins.ValueError(Exception) args=("invalid code \'D\'",) str="invalid code \'D\'"'],
 ['lookup', 'processing_facilities', "str:'F'", 'RAISED builtins.ValueError(Exception) args=("invalid code \'F\'",) str="invalid code \'F\'"'],
 ['lookup', 'processing_facilities', "str:'B'", 'RAISED builtins.ValueError(Exception) args=("invalid code \'B\'",) str="invalid code \'B\'"'],
 ['lookup', 'processing_facilities', "str:'NN'", 'RAISED builtins.ValueError(Exception) args=("invalid code \'NN\'",) str="invalid code \'NN\'"'],
 ['lookup', 'processing_facilities', "str:'CC'", 'RAISED builtins.ValueError(Exception) args=("invalid code \'CC\'",) str="invalid code \'CC\'"'],
 ['lookup', 'processing_facilities', "str:'SCMO'", "RETURNED 'spacecraft control mission operation system'"],
 ['lookup', 'processing_facilities', "str:'EICS'", "RETURNED 'earth intelligence collection and sharing system'"],
 ['lookup', 'processing_facilities', "str:''", 'RAISED builtins.ValueError(Exception) args=("invalid code \'\'",) str="invalid code \'\'"'],
 ['lookup', 'processing_facilities', "str:' '", 'RAISED builtins.ValueError(Exception) args=("invalid code \' \'",) str="invalid code \' \'"'],
 ['lookup', 'processing_facilities', "str:'l'", 'RAISED builtins.ValueError(Exception) args=("invalid code \'l\'",) str="invalid code \'l\'"'],
 ['lookup', 'processing_facilities', "str:'1.6'", 'RAISED builtins.ValueError(Exception) args=("invalid code \'1.6\'",) str="invalid code \'1.6\'"'],
 ['lookup', 'processing_facilities', 'str:"it\'s"', 'RAISED builtins.ValueError(Exception) args=(\'invalid code "it\\\'s"\',) str=\'invalid code "it\\\'s"\''],
 ['lookup',
  'processing_facilities',
  'str:\'say "hi"\'',
  'RAISED builtins.ValueError(Exception) args=(\'invalid code \\\'say "hi"\\\'\',) str=\'invalid code \\\'say "hi"\\\'\''],
 ['lookup',
  'processing_facilities',
  "str:'back\\\\slash'",
  'RAISED builtins.ValueError(Exception) args=("invalid code \'back\\\\\\\\slash\'",) str="invalid code \'back\\\\\\\\slash\'"'],
 ['lookup',
  'processing_facilities',
  "str:'new\\nline'",
  'RAISED builtins.ValueError(Exception) args=("invalid code \'new\\\\nline\'",) str="invalid code \'new\\\\nline\'"'],
 ['lookup',
  'processing_facilities',
  "str:'caf\\xe9'",
  'RAISED builtins.ValueError(Exception) args=("invalid code \'caf\\xe9\'",) str="invalid code \'caf\\xe9\'"'],
 ['lookup', 'processing_facilities', "str:'{}'", 'RAISED builtins.ValueError(Exception) args=("invalid code \'{}\'",) str="invalid code \'{}\'"'],
 ['lookup', 'processing_facilities', "str:'%s'", 'RAISED builtins.ValueError(Exception) args=("invalid code \'%s\'",) str="invalid code \'%s\'"'],
 ['lookup', 'processing_facilities', "str:'%(a)s'", 'RAISED builtins.ValueError(Exception) args=("invalid code \'%(a)s\'",) str="invalid code \'%(a)s\'"'],
 ['lookup', 'processing_facilities', 'NoneType:None', "RAISED builtins.ValueError(Exception) args=('invalid code None',) str='invalid code None'"],
 ['lookup', 'processing_facilities', 'int:0', "RAISED builtins.ValueError(Exception) args=('invalid code 0',) str='invalid code 0'"],
 ['lookup', 'processing_facilities', 'float:1.5', "RAISED builtins.ValueError(Exception) args=('invalid code 1.5',) str='invalid code 1.5'"],
 ['lookup', 'processing_facilities', "tuple:('A',)", 'RAISED builtins.ValueError(Exception) args=("invalid code (\'A\',)",) str="invalid code (\'A\',)"'],
 ['lookup',
  'processing_facilities',
  "tuple:('A', 'B')",
  'RAISED builtins.ValueError(Exception) args=("invalid code (\'A\', \'B\')",) str="invalid code (\'A\', \'B\')"'],
 ['lookup', 'processing_facilities', "bytes:b'A'", 'RAISED builtins.ValueError(Exception) args=("invalid code b\'A\'",) str="invalid code b\'A\'"'],
 ['lookup', 'processing_facilities', 'bool:True', "RAISED builtins.ValueError(Exception) args=('invalid code True',) str='invalid code True'"],
 ['lookup', 'processing_facilities', "Str:'A'", 'RAISED builtins.ValueError(Exception) args=("invalid code \'A\'",) str="invalid code \'A\'"'],
 ['lookup', 'processing_facilities', "Str:'zz'", 'RAISED builtins.ValueError(Exception) args=("invalid code \'zz\'",) str="invalid code \'zz\'"'],
 ['lookup', 'processing_facilities', "Loud:'A'", "RAISED builtins.ValueError(Exception) args=('invalid code <Loud repr>',) str='invalid code <Loud repr>'"],
 ['lookup', 'processing_facilities', "Loud:'zz'", "RAISED builtins.ValueError(Exception) args=('invalid code <Loud repr>',) str='invalid code <Loud repr>'"],
 ['lookup-curried', 'processing_facilities', 'RAISED builtins.ValueError(Exception) args=("invalid code \'A\'",) str="invalid code \'A\'"'],
 ['lookup-custom', '{}', "str:'a'", 'RAISED builtins.ValueError(Exception) args=("invalid code \'a\'",) str="invalid code \'a\'"'],
 ['lookup-custom', '{}', "str:'b'", 'RAISED builtins.ValueError(Exception) args=("invalid code \'b\'",) str="invalid code \'b\'"'],
 ['lookup-custom', '{}', "str:'c'", 'RAISED builtins.ValueError(Exception) args=("invalid code \'c\'",) str="invalid code \'c\'"'],
 ['lookup-custom', '{}', "str:'d'", 'RAISED builtins.ValueError(Exception) args=("invalid code \'d\'",) str="invalid code \'d\'"'],
 ['lookup-custom', '{}', "str:'e'", 'RAISED builtins.ValueError(Exception) args=("invalid code \'e\'",) str="invalid code \'e\'"'],
 ['lookup-custom', '{}', "str:'z'", 'RAISED builtins.ValueError(Exception) args=("invalid code \'z\'",) str="invalid code \'z\'"'],
 ['lookup-custom', '{}', 'NoneType:None', "RAISED builtins.ValueError(Exception) args=('invalid code None',) str='invalid code None'"],
 ['lookup-custom', '{}', 'int:1', "RAISED builtins.ValueError(Exception) args=('invalid code 1',) str='invalid code 1'"],
 ['lookup-custom', '{}', 'bool:True', "RAISED builtins.ValueError(Exception) args=('invalid code True',) str='invalid code True'"],
 ['lookup-custom', '{}', 'tuple:(1, 2)', "RAISED builtins.ValueError(Exception) args=('invalid code (1, 2)',) str='invalid code (1, 2)'"],
 ['lookup-custom', "{'a': None}", "str:'a'", 'RAISED builtins.ValueError(Exception) args=("invalid code \'a\'",) str="invalid code \'a\'"'],
 ['lookup-custom', "{'a': None}", "str:'b'", 'RAISED builtins.ValueError(Exception) args=("invalid code \'b\'",) str="invalid code \'b\'"'],
 ['lookup-custom', "{'a': None}", "str:'c'", 'RAISED builtins.ValueError(Exception) args=("invalid code \'c\'",) str="invalid code \'c\'"'],
 ['lookup-custom', "{'a': None}", "str:'d'", 'RAISED builtins.ValueError(Exception) args=("invalid code \'d\'",) str="invalid code \'d\'"'],
 ['lookup-custom', "{'a': None}", "str:'e'", 'RAISED builtins.ValueError(Exception) args=("invalid code \'e\'",) str="invalid code \'e\'"'],
 ['lookup-custom', "{'a': None}", "str:'z'", 'RAISED builtins.ValueError(Exception) args=("invalid code \'z\'",) str="invalid code \'z\'"'],
 ['lookup-custom', "{'a': None}", 'NoneType:None', "RAISED builtins.ValueError(Exception) args=('invalid code None',) str='invalid code None'"],
 ['lookup-custom', "{'a': None}", 'int:1', "RAISED builtins.ValueError(Exception) args=('invalid code 1',) str='invalid code 1'"],
 ['lookup-custom', "{'a': None}", 'bool:True', "RAISED builtins.ValueError(Exception) args=('invalid code True',) str='invalid code True'"],
 ['lookup-custom', "{'a': None}", 'tuple:(1, 2)', "RAISED builtins.ValueError(Exception) args=('invalid code (1, 2)',) str='invalid code (1, 2)'"],
 ['lookup-custom', "{'a': 0, 'b': '', 'c': False, 'd': (), 'e': {}}", "str:'a'", 'RETURNED 0'],
 ['lookup-custom', "{'a': 0, 'b': '', 'c': False, 'd': (), 'e': {}}", "str:'b'", "RETURNED ''"],
 ['lookup-custom', "{'a': 0, 'b': '', 'c': False, 'd': (), 'e': {}}", "str:'c'", 'RETURNED False'],
 ['lookup-custom', "{'a': 0, 'b': '', 'c': False, 'd': (), 'e': {}}", "str:'d'", 'RETURNED tuple[]'],
 ['lookup-custom', "{'a': 0, 'b': '', 'c': False, 'd': (), 'e': {}}", "str:'e'", 'RETURNED dict{}'],
 ['lookup-custom',
  "{'a': 0, 'b': '', 'c': False, 'd': (), 'e': {}}",
  "str:'z'",
  'RAISED builtins.ValueError(Exception) args=("invalid code \'z\'",) str="invalid code \'z\'"'],
 ['lookup-custom',
  "{'a': 0, 'b': '', 'c': False, 'd': (), 'e': {}}",
  'NoneType:None',
  "RAISED builtins.ValueError(Exception) args=('invalid code None',) str='invalid code None'"],
 ['lookup-custom',
  "{'a': 0, 'b': '', 'c': False, 'd': (), 'e': {}}",
  'int:1',
  "RAISED builtins.ValueError(Exception) args=('invalid code 1',) str='invalid code 1'"],
 ['lookup-custom',
  "{'a': 0, 'b': '', 'c': False, 'd': (), 'e': {}}",
  'bool:True',
  "RAISED builtins.ValueError(Exception) args=('invalid code True',) str='invalid code True'"],
 ['lookup-custom',
  "{'a': 0, 'b': '', 'c': False, 'd': (), 'e': {}}",
  'tuple:(1, 2)',
  "RAISED builtins.ValueError(Exception) args=('invalid code (1, 2)',) str='invalid code (1, 2)'"],
 ['lookup-custom',
  "{None: 'none', 1: 'one', (1, 2): 'tuple'}",
  "str:'a'",
  'RAISED builtins.ValueError(Exception) args=("invalid code \'a\'",) str="invalid code \'a\'"'],
 ['lookup-custom',
  "{None: 'none', 1: 'one', (1, 2): 'tuple'}",
  "str:'b'",
  'RAISED builtins.ValueError(Exception) args=("invalid code \'b\'",) str="invalid code \'b\'"'],
 ['lookup-custom',
  "{None: 'none', 1: 'one', (1, 2): 'tuple'}",
  "str:'c'",
  'RAISED builtins.ValueError(Exception) args=("invalid code \'c\'",) str="invalid code \'c\'"'],
 ['lookup-custom',
  "{None: 'none', 1: 'one', (1, 2): 'tuple'}",
  "str:'d'",
  'RAISED builtins.ValueError(Exception) args=("invalid code \'d\'",) str="invalid code \'d\'"'],
 ['lookup-custom',
  "{None: 'none', 1: 'one', (1, 2): 'tuple'}",
  "str:'e'",
  'RAISED builtins.ValueError(Exception) args=("invalid code \'e\'",) str="invalid code \'e\'"'],
 ['lookup-custom',
  "{None: 'none', 1: 'one', (1, 2): 'tuple'}",
  "str:'z'",
  'RAISED builtins.ValueError(Exception) args=("invalid code \'z\'",) str="invalid code \'z\'"'],
 ['lookup-custom', "{None: 'none', 1: 'one', (1, 2): 'tuple'}", 'NoneType:None', "RETURNED 'none'"],
 ['lookup-custom', "{None: 'none', 1: 'one', (1, 2): 'tuple'}", 'int:1', "RETURNED 'one'"],
 ['lookup-custom', "{None: 'none', 1: 'one', (1, 2): 'tuple'}", 'bool:True', "RETURNED 'one'"],
 ['lookup-custom', "{None: 'none', 1: 'one', (1, 2): 'tuple'}", 'tuple:(1, 2)', "RETURNED 'tuple'"],
 ['lookup-unhashable', 'RAISED builtins.TypeError(Exception) args=("unhashable type: \'list\'",) str="unhashable type: \'list\'"'],
 ['lookup-unhashable-dict', 'RAISED builtins.TypeError(Exception) args=("unhashable type: \'dict\'",) str="unhashable type: \'dict\'"'],
 ['lookup-weird', "RAISED builtins.RuntimeError(Exception) args=('__repr__ called',) str='__repr__ called'"],
 ['lookup-noget',
  'RAISED builtins.AttributeError(Exception) args=("\'NoGet\' object has no attribute \'get\'",) str="\'NoGet\' object has no attribute \'get\'"'],
 ['lookup-raising-get', 'RAISED builtins.LookupError(Exception) args=("get(\'A\')",) str="get(\'A\')"'],
 ['lookup-none-mapping',
  'RAISED builtins.AttributeError(Exception) args=("\'NoneType\' object has no attribute \'get\'",) str="\'NoneType\' object has no attribute \'get\'"'],
 ['lookup-kw', "RETURNED 'ascending'"],
 ['lookup-kw-missing', 'RAISED builtins.ValueError(Exception) args=("invalid code \'Q\'",) str="invalid code \'Q\'"'],
 ['lookup-noarg', 'RAISED builtins.TypeError(Exception)'],
 ['translations', 'observation_mode', 'A', 'RAISED builtins.ValueError(Exception) args=("invalid code \'A\'",) str="invalid code \'A\'"'],
 ['translations', 'observation_mode', 'WWD', "RETURNED 'ScanSAR nominal 28MHz mode dual polarization'"],
 ['translations', 'observation_mode', '1.1', 'RAISED builtins.ValueError(Exception) args=("invalid code \'1.1\'",) str="invalid code \'1.1\'"'],
 ['translations', 'observation_mode', '_', 'RAISED builtins.ValueError(Exception) args=("invalid code \'_\'",) str="invalid code \'_\'"'],
 ['translations', 'observation_mode', 'B', 'RAISED builtins.ValueError(Exception) args=("invalid code \'B\'",) str="invalid code \'B\'"'],
 ['translations', 'observation_mode', '180726', 'RAISED builtins.ValueError(Exception) args=("invalid code \'180726\'",) str="invalid code \'180726\'"'],
 ['translations', 'observation_mode', 'zz', 'RAISED builtins.ValueError(Exception) args=("invalid code \'zz\'",) str="invalid code \'zz\'"'],
 ['translations', 'observation_direction', 'A', 'RAISED builtins.ValueError(Exception) args=("invalid code \'A\'",) str="invalid code \'A\'"'],
 ['translations', 'observation_direction', 'WWD', 'RAISED builtins.ValueError(Exception) args=("invalid code \'WWD\'",) str="invalid code \'WWD\'"'],
 ['translations', 'observation_direction', '1.1', 'RAISED builtins.ValueError(Exception) args=("invalid code \'1.1\'",) str="invalid code \'1.1\'"'],
 ['translations', 'observation_direction', '_', 'RAISED builtins.ValueError(Exception) args=("invalid code \'_\'",) str="invalid code \'_\'"'],
 ['translations', 'observation_direction', 'B', 'RAISED builtins.ValueError(Exception) args=("invalid code \'B\'",) str="invalid code \'B\'"'],
 ['translations', 'observation_direction', '180726', 'RAISED builtins.ValueError(Exception) args=("invalid code \'180726\'",) str="invalid code \'180726\'"'],
 ['translations', 'observation_direction', 'zz', 'RAISED builtins.ValueError(Exception) args=("invalid code \'zz\'",) str="invalid code \'zz\'"'],
 ['translations', 'processing_level', 'A', 'RAISED builtins.ValueError(Exception) args=("invalid code \'A\'",) str="invalid code \'A\'"'],
 ['translations', 'processing_level', 'WWD', 'RAISED builtins.ValueError(Exception) args=("invalid code \'WWD\'",) str="invalid code \'WWD\'"'],
 ['translations', 'processing_level', '1.1', "RETURNED 'level 1.1'"],
 ['translations', 'processing_level', '_', 'RAISED builtins.ValueError(Exception) args=("invalid code \'_\'",) str="invalid code \'_\'"'],
 ['translations', 'processing_level', 'B', 'RAISED builtins.ValueError(Exception) args=("invalid code \'B\'",) str="invalid code \'B\'"'],
 ['translations', 'processing_level', '180726', 'RAISED builtins.ValueError(Exception) args=("invalid code \'180726\'",) str="invalid code \'180726\'"'],
 ['translations', 'processing_level', 'zz', 'RAISED builtins.ValueError(Exception) args=("invalid code \'zz\'",) str="invalid code \'zz\'"'],
 ['translations', 'processing_option', 'A', 'RAISED builtins.ValueError(Exception) args=("invalid code \'A\'",) str="invalid code \'A\'"'],
 ['translations', 'processing_option', 'WWD', 'RAISED builtins.ValueError(Exception) args=("invalid code \'WWD\'",) str="invalid code \'WWD\'"'],
 ['translations', 'processing_option', '1.1', 'RAISED builtins.ValueError(Exception) args=("invalid code \'1.1\'",) str="invalid code \'1.1\'"'],
 ['translations', 'processing_option', '_', "RETURNED 'not specified'"],
 ['translations', 'processing_option', 'B', 'RAISED builtins.ValueError(Exception) args=("invalid code \'B\'",) str="invalid code \'B\'"'],
 ['translations', 'processing_option', '180726', 'RAISED builtins.ValueError(Exception) args=("invalid code \'180726\'",) str="invalid code \'180726\'"'],
 ['translations', 'processing_option', 'zz', 'RAISED builtins.ValueError(Exception) args=("invalid code \'zz\'",) str="invalid code \'zz\'"'],
 ['translations', 'map_projection', 'A', 'RAISED builtins.ValueError(Exception) args=("invalid code \'A\'",) str="invalid code \'A\'"'],
 ['translations', 'map_projection', 'WWD', 'RAISED builtins.ValueError(Exception) args=("invalid code \'WWD\'",) str="invalid code \'WWD\'"'],
 ['translations', 'map_projection', '1.1', 'RAISED builtins.ValueError(Exception) args=("invalid code \'1.1\'",) str="invalid code \'1.1\'"'],
 ['translations', 'map_projection', '_', "RETURNED 'not specified'"],
 ['translations', 'map_projection', 'B', 'RAISED builtins.ValueError(Exception) args=("invalid code \'B\'",) str="invalid code \'B\'"'],
 ['translations', 'map_projection', '180726', 'RAISED builtins.ValueError(Exception) args=("invalid code \'180726\'",) str="invalid code \'180726\'"'],
 ['translations', 'map_projection', 'zz', 'RAISED builtins.ValueError(Exception) args=("invalid code \'zz\'",) str="invalid code \'zz\'"'],
 ['translations', 'orbit_direction', 'A', "RETURNED 'ascending'"],
 ['translations', 'orbit_direction', 'WWD', 'RAISED builtins.ValueError(Exception) args=("invalid code \'WWD\'",) str="invalid code \'WWD\'"'],
 ['translations', 'orbit_direction', '1.1', 'RAISED builtins.ValueError(Exception) args=("invalid code \'1.1\'",) str="invalid code \'1.1\'"'],
 ['translations', 'orbit_direction', '_', 'RAISED builtins.ValueError(Exception) args=("invalid code \'_\'",) str="invalid code \'_\'"'],
 ['translations', 'orbit_direction', 'B', 'RAISED builtins.ValueError(Exception) args=("invalid code \'B\'",) str="invalid code \'B\'"'],
 ['translations', 'orbit_direction', '180726', 'RAISED builtins.ValueError(Exception) args=("invalid code \'180726\'",) str="invalid code \'180726\'"'],
 ['translations', 'orbit_direction', 'zz', 'RAISED builtins.ValueError(Exception) args=("invalid code \'zz\'",) str="invalid code \'zz\'"'],
 ['translations',
  'date',
  'A',
  'RAISED builtins.ValueError(Exception) args=("time data \'A\' does not match format \'%y%m%d\'",) str="time data \'A\' does not match format \'%y%m%d\'"'],
 ['translations',
  'date',
  'WWD',
  'RAISED builtins.ValueError(Exception) args=("time data \'WWD\' does not match format \'%y%m%d\'",) str="time data \'WWD\' does not match format '
  '\'%y%m%d\'"'],
 ['translations',
  'date',
  '1.1',
  'RAISED builtins.ValueError(Exception) args=("time data \'1.1\' does not match format \'%y%m%d\'",) str="time data \'1.1\' does not match format '
  '\'%y%m%d\'"'],
 ['translations',
  'date',
  '_',
  'RAISED builtins.ValueError(Exception) args=("time data \'_\' does not match format \'%y%m%d\'",) str="time data \'_\' does not match format \'%y%m%d\'"'],
 ['translations',
  'date',
  'B',
  'RAISED builtins.ValueError(Exception) args=("time data \'B\' does not match format \'%y%m%d\'",) str="time data \'B\' does not match format \'%y%m%d\'"'],
 ['translations', 'date', '180726', 'RETURNED datetime.datetime(2018, 7, 26, 0, 0)'],
 ['translations',
  'date',
  'zz',
  'RAISED builtins.ValueError(Exception) args=("time data \'zz\' does not match format \'%y%m%d\'",) str="time data \'zz\' does not match format \'%y%m%d\'"'],
 ['translations', 'mission_name', 'A', "RETURNED 'A'"],
 ['translations', 'mission_name', 'WWD', "RETURNED 'WWD'"],
 ['translations', 'mission_name', '1.1', "RETURNED '1.1'"],
 ['translations', 'mission_name', '_', "RETURNED '_'"],
 ['translations', 'mission_name', 'B', "RETURNED 'B'"],
 ['translations', 'mission_name', '180726', "RETURNED '180726'"],
 ['translations', 'mission_name', 'zz', "RETURNED 'zz'"],
 ['translations', 'orbit_accumulation', 'A', "RETURNED 'A'"],
 ['translations', 'orbit_accumulation', 'WWD', "RETURNED 'WWD'"],
 ['translations', 'orbit_accumulation', '1.1', "RETURNED '1.1'"],
 ['translations', 'orbit_accumulation', '_', "RETURNED '_'"],
 ['translations', 'orbit_accumulation', 'B', "RETURNED 'B'"],
 ['translations', 'orbit_accumulation', '180726', "RETURNED '180726'"],
 ['translations', 'orbit_accumulation', 'zz', "RETURNED 'zz'"],
 ['translations', 'scene_frame', 'A', "RETURNED 'A'"],
 ['translations', 'scene_frame', 'WWD', "RETURNED 'WWD'"],
 ['translations', 'scene_frame', '1.1', "RETURNED '1.1'"],
 ['translations', 'scene_frame', '_', "RETURNED '_'"],
 ['translations', 'scene_frame', 'B', "RETURNED 'B'"],
 ['translations', 'scene_frame', '180726', "RETURNED '180726'"],
 ['translations', 'scene_frame', 'zz', "RETURNED 'zz'"],
 ['translations', 'processing_method', 'A', 'RAISED builtins.ValueError(Exception) args=("invalid code \'A\'",) str="invalid code \'A\'"'],
 ['translations', 'processing_method', 'WWD', 'RAISED builtins.ValueError(Exception) args=("invalid code \'WWD\'",) str="invalid code \'WWD\'"'],
 ['translations', 'processing_method', '1.1', 'RAISED builtins.ValueError(Exception) args=("invalid code \'1.1\'",) str="invalid code \'1.1\'"'],
 ['translations', 'processing_method', '_', 'RAISED builtins.ValueError(Exception) args=("invalid code \'_\'",) str="invalid code \'_\'"'],
 ['translations', 'processing_method', 'B', "RETURNED 'SPECAN method'"],
 ['translations', 'processing_method', '180726', 'RAISED builtins.ValueError(Exception) args=("invalid code \'180726\'",) str="invalid code \'180726\'"'],
 ['translations', 'processing_method', 'zz', 'RAISED builtins.ValueError(Exception) args=("invalid code \'zz\'",) str="invalid code \'zz\'"'],
 ['translations', 'scan_number', 'A', "RETURNED 'A'"],
 ['translations', 'scan_number', 'WWD', "RETURNED 'WWD'"],
 ['translations', 'scan_number', '1.1', "RETURNED '1.1'"],
 ['translations', 'scan_number', '_', "RETURNED '_'"],
 ['translations', 'scan_number', 'B', "RETURNED 'B'"],
 ['translations', 'scan_number', '180726', "RETURNED '180726'"],
 ['translations', 'scan_number', 'zz', "RETURNED 'zz'"],
 ['scan_info', 'NoneType:None', 'RETURNED dict{}'],
 ['scan_info', "str:'B4'", "RETURNED dict{'processing_method': 'SPECAN method', 'scan_number': '4'}"],
 ['scan_info', "str:'F0'", "RETURNED dict{'processing_method': 'full aperture_method', 'scan_number': '0'}"],
 ['scan_info', "str:'B0'", "RETURNED dict{'processing_method': 'SPECAN method', 'scan_number': '0'}"],
 ['scan_info', "str:'F9'", "RETURNED dict{'processing_method': 'full aperture_method', 'scan_number': '9'}"],
 ['scan_info', "str:'B9'", "RETURNED dict{'processing_method': 'SPECAN method', 'scan_number': '9'}"],
 ['scan_info', "str:'X1'", "RAISED builtins.ValueError(Exception) args=('invalid scan info: X1',) str='invalid scan info: X1'"],
 ['scan_info', "str:'B'", "RAISED builtins.ValueError(Exception) args=('invalid scan info: B',) str='invalid scan info: B'"],
 ['scan_info', "str:'4'", "RAISED builtins.ValueError(Exception) args=('invalid scan info: 4',) str='invalid scan info: 4'"],
 ['scan_info', "str:'B10'", "RAISED builtins.ValueError(Exception) args=('invalid scan info: B10',) str='invalid scan info: B10'"],
 ['scan_info', "str:'BB'", "RAISED builtins.ValueError(Exception) args=('invalid scan info: BB',) str='invalid scan info: BB'"],
 ['scan_info', "str:''", "RAISED builtins.ValueError(Exception) args=('invalid scan info: ',) str='invalid scan info: '"],
 ['scan_info', "str:' B4'", "RAISED builtins.ValueError(Exception) args=('invalid scan info:  B4',) str='invalid scan info:  B4'"],
 ['scan_info', "str:'B4 '", "RAISED builtins.ValueError(Exception) args=('invalid scan info: B4 ',) str='invalid scan info: B4 '"],
 ['scan_info', "str:'B4\\n'", "RAISED builtins.ValueError(Exception) args=('invalid scan info: B4\\n',) str='invalid scan info: B4\\n'"],
 ['scan_info', "str:'b4'", "RAISED builtins.ValueError(Exception) args=('invalid scan info: b4',) str='invalid scan info: b4'"],
 ['scan_info', "str:'F\\u0663'", "RAISED builtins.ValueError(Exception) args=('invalid scan info: F\\u0663',) str='invalid scan info: F\\u0663'"],
 ['scan_info', "str:'B-1'", "RAISED builtins.ValueError(Exception) args=('invalid scan info: B-1',) str='invalid scan info: B-1'"],
 ['scan_info', "str:'{}'", "RAISED builtins.ValueError(Exception) args=('invalid scan info: {}',) str='invalid scan info: {}'"],
 ['scan_info', "Str:'F7'", "RETURNED dict{'processing_method': 'full aperture_method', 'scan_number': '7'}"],
 ['scan_info', "Str:'Q7'", "RAISED builtins.ValueError(Exception) args=('invalid scan info: Q7',) str='invalid scan info: Q7'"],
 ['scan_info', "Loud:'F7'", "RETURNED dict{'processing_method': 'full aperture_method', 'scan_number': '7'}"],
 ['scan_info', "Loud:'Q7'", "RAISED builtins.ValueError(Exception) args=('invalid scan info: <Loud format>',) str='invalid scan info: <Loud format>'"],
 ['scan_info',
  'int:4',
  'RAISED builtins.TypeError(Exception) args=("expected string or bytes-like object, got \'int\'",) str="expected string or bytes-like object, got \'int\'"'],
 ['scan_info',
  "bytes:b'B4'",
  "RAISED builtins.TypeError(Exception) args=('cannot use a string pattern on a bytes-like object',) str='cannot use a string pattern on a bytes-like object'"],
 ['scan_info',
  "list:['B4']",
  'RAISED builtins.TypeError(Exception) args=("expected string or bytes-like object, got \'list\'",) str="expected string or bytes-like object, got \'list\'"'],
 ['scan_info',
  'Weird',
  'RAISED builtins.TypeError(Exception) args=("expected string or bytes-like object, got \'Weird\'",) str="expected string or bytes-like object, got '
  '\'Weird\'"'],
 ['scan_info',
  'bool:False',
  'RAISED builtins.TypeError(Exception) args=("expected string or bytes-like object, got \'bool\'",) str="expected string or bytes-like object, got \'bool\'"'],
 ['scan_info',
  'int:0',
  'RAISED builtins.TypeError(Exception) args=("expected string or bytes-like object, got \'int\'",) str="expected string or bytes-like object, got \'int\'"'],
 ['scan_info-kw', "RETURNED dict{'processing_method': 'full aperture_method', 'scan_number': '3'}"],
 ['scan_info-noarg', 'RAISED builtins.TypeError(Exception)'],
 ['filename',
  "str:'IMG-HV-ALOS2225333100-180726-WWDR1.1__D-B3'",
  "RETURNED dict{'filetype': 'IMG', 'polarization': 'HV', 'mission_name': 'ALOS2', 'orbit_accumulation': '22533', 'scene_frame': '3100', 'date': "
  "datetime.datetime(2018, 7, 26, 0, 0), 'observation_mode': 'ScanSAR nominal 28MHz mode dual polarization', 'observation_direction': 'right looking', "
  "'processing_level': 'level 1.1', 'processing_option': 'not specified', 'map_projection': 'not specified', 'orbit_direction': 'descending', "
  "'processing_method': 'SPECAN method', 'scan_number': '3'}"],
 ['groupname', "str:'IMG-HV-ALOS2225333100-180726-WWDR1.1__D-B3'", "RETURNED 'HV_scan3'"],
 ['filename',
  "str:'IMG-HH-ALOS2225333100-180726-WWDR1.1__D-F1'",
  "RETURNED dict{'filetype': 'IMG', 'polarization': 'HH', 'mission_name': 'ALOS2', 'orbit_accumulation': '22533', 'scene_frame': '3100', 'date': "
  "datetime.datetime(2018, 7, 26, 0, 0), 'observation_mode': 'ScanSAR nominal 28MHz mode dual polarization', 'observation_direction': 'right looking', "
  "'processing_level': 'level 1.1', 'processing_option': 'not specified', 'map_projection': 'not specified', 'orbit_direction': 'descending', "
  "'processing_method': 'full aperture_method', 'scan_number': '1'}"],
 ['groupname', "str:'IMG-HH-ALOS2225333100-180726-WWDR1.1__D-F1'", "RETURNED 'HH_scan1'"],
 ['filename',
  "str:'IMG-VV-ALOS2225333100-180726-FBDR1.1__A'",
  "RETURNED dict{'filetype': 'IMG', 'polarization': 'VV', 'mission_name': 'ALOS2', 'orbit_accumulation': '22533', 'scene_frame': '3100', 'date': "
  "datetime.datetime(2018, 7, 26, 0, 0), 'observation_mode': 'fine mode dual polarization', 'observation_direction': 'right looking', 'processing_level': "
  "'level 1.1', 'processing_option': 'not specified', 'map_projection': 'not specified', 'orbit_direction': 'ascending'}"],
 ['groupname', "str:'IMG-VV-ALOS2225333100-180726-FBDR1.1__A'", "RETURNED 'VV'"],
 ['filename',
  "str:'IMG-VH-ALOS2225333100-180726-FBDR1.5GUA'",
  "RETURNED dict{'filetype': 'IMG', 'polarization': 'VH', 'mission_name': 'ALOS2', 'orbit_accumulation': '22533', 'scene_frame': '3100', 'date': "
  "datetime.datetime(2018, 7, 26, 0, 0), 'observation_mode': 'fine mode dual polarization', 'observation_direction': 'right looking', 'processing_level': "
  "'level 1.5', 'processing_option': 'geo-code', 'map_projection': 'UTM', 'orbit_direction': 'ascending'}"],
 ['groupname', "str:'IMG-VH-ALOS2225333100-180726-FBDR1.5GUA'", "RETURNED 'VH'"],
 ['filename',
  "str:'IMG-HX-ALOS2225333100-180726-FBDR1.5GUA'",
  "RAISED builtins.ValueError(Exception) args=('invalid file name: IMG-HX-ALOS2225333100-180726-FBDR1.5GUA',) str='invalid file name: "
  "IMG-HX-ALOS2225333100-180726-FBDR1.5GUA'"],
 ['groupname',
  "str:'IMG-HX-ALOS2225333100-180726-FBDR1.5GUA'",
  "RAISED builtins.ValueError(Exception) args=('invalid file name: IMG-HX-ALOS2225333100-180726-FBDR1.5GUA',) str='invalid file name: "
  "IMG-HX-ALOS2225333100-180726-FBDR1.5GUA'"],
 ['filename',
  "str:'IMG-H-ALOS2225333100-180726-FBDR1.5GUA'",
  "RAISED builtins.ValueError(Exception) args=('invalid file name: IMG-H-ALOS2225333100-180726-FBDR1.5GUA',) str='invalid file name: "
  "IMG-H-ALOS2225333100-180726-FBDR1.5GUA'"],
 ['groupname',
  "str:'IMG-H-ALOS2225333100-180726-FBDR1.5GUA'",
  "RAISED builtins.ValueError(Exception) args=('invalid file name: IMG-H-ALOS2225333100-180726-FBDR1.5GUA',) str='invalid file name: "
  "IMG-H-ALOS2225333100-180726-FBDR1.5GUA'"],
 ['filename',
  "str:'IMG-HHH-ALOS2225333100-180726-FBDR1.5GUA'",
  "RAISED builtins.ValueError(Exception) args=('invalid file name: IMG-HHH-ALOS2225333100-180726-FBDR1.5GUA',) str='invalid file name: "
  "IMG-HHH-ALOS2225333100-180726-FBDR1.5GUA'"],
 ['groupname',
  "str:'IMG-HHH-ALOS2225333100-180726-FBDR1.5GUA'",
  "RAISED builtins.ValueError(Exception) args=('invalid file name: IMG-HHH-ALOS2225333100-180726-FBDR1.5GUA',) str='invalid file name: "
  "IMG-HHH-ALOS2225333100-180726-FBDR1.5GUA'"],
 ['filename',
  "str:'TRL-ALOS2225333100-180726-WWDR1.1__D'",
  "RETURNED dict{'filetype': 'TRL', 'polarization': None, 'mission_name': 'ALOS2', 'orbit_accumulation': '22533', 'scene_frame': '3100', 'date': "
  "datetime.datetime(2018, 7, 26, 0, 0), 'observation_mode': 'ScanSAR nominal 28MHz mode dual polarization', 'observation_direction': 'right looking', "
  "'processing_level': 'level 1.1', 'processing_option': 'not specified', 'map_projection': 'not specified', 'orbit_direction': 'descending'}"],
 ['groupname', "str:'TRL-ALOS2225333100-180726-WWDR1.1__D'", "RETURNED ''"],
 ['filename',
  "str:'LED-ALOS2290760600-191011-WWDR1.5RUA'",
  "RETURNED dict{'filetype': 'LED', 'polarization': None, 'mission_name': 'ALOS2', 'orbit_accumulation': '29076', 'scene_frame': '0600', 'date': "
  "datetime.datetime(2019, 10, 11, 0, 0), 'observation_mode': 'ScanSAR nominal 28MHz mode dual polarization', 'observation_direction': 'right looking', "
  "'processing_level': 'level 1.5', 'processing_option': 'geo-reference', 'map_projection': 'UTM', 'orbit_direction': 'ascending'}"],
 ['groupname', "str:'LED-ALOS2290760600-191011-WWDR1.5RUA'", "RETURNED ''"],
 ['filename',
  "str:'VOL-ALOS2290760600-191011-WWDR1.5RUA'",
  "RETURNED dict{'filetype': 'VOL', 'polarization': None, 'mission_name': 'ALOS2', 'orbit_accumulation': '29076', 'scene_frame': '0600', 'date': "
  "datetime.datetime(2019, 10, 11, 0, 0), 'observation_mode': 'ScanSAR nominal 28MHz mode dual polarization', 'observation_direction': 'right looking', "
  "'processing_level': 'level 1.5', 'processing_option': 'geo-reference', 'map_projection': 'UTM', 'orbit_direction': 'ascending'}"],
 ['groupname', "str:'VOL-ALOS2290760600-191011-WWDR1.5RUA'", "RETURNED ''"],
 ['filename',
  "str:'XYZ-ALOS2290760600-191011-WWDR1.5RUA'",
  "RETURNED dict{'filetype': 'XYZ', 'polarization': None, 'mission_name': 'ALOS2', 'orbit_accumulation': '29076', 'scene_frame': '0600', 'date': "
  "datetime.datetime(2019, 10, 11, 0, 0), 'observation_mode': 'ScanSAR nominal 28MHz mode dual polarization', 'observation_direction': 'right looking', "
  "'processing_level': 'level 1.5', 'processing_option': 'geo-reference', 'map_projection': 'UTM', 'orbit_direction': 'ascending'}"],
 ['groupname', "str:'XYZ-ALOS2290760600-191011-WWDR1.5RUA'", "RETURNED ''"],
 ['filename',
  "str:'LED-ALOS2290760600-191011-WWDR1.5RUA-F2'",
  "RETURNED dict{'filetype': 'LED', 'polarization': None, 'mission_name': 'ALOS2', 'orbit_accumulation': '29076', 'scene_frame': '0600', 'date': "
  "datetime.datetime(2019, 10, 11, 0, 0), 'observation_mode': 'ScanSAR nominal 28MHz mode dual polarization', 'observation_direction': 'right looking', "
  "'processing_level': 'level 1.5', 'processing_option': 'geo-reference', 'map_projection': 'UTM', 'orbit_direction': 'ascending', 'processing_method': 'full "
  "aperture_method', 'scan_number': '2'}"],
 ['groupname', "str:'LED-ALOS2290760600-191011-WWDR1.5RUA-F2'", "RETURNED 'scan2'"],
 ['filename',
  "str:'LED-ALOS2290760600-191011-WWDR1.5RUA-X2'",
  "RAISED builtins.ValueError(Exception) args=('invalid file name: LED-ALOS2290760600-191011-WWDR1.5RUA-X2',) str='invalid file name: "
  "LED-ALOS2290760600-191011-WWDR1.5RUA-X2'"],
 ['groupname',
  "str:'LED-ALOS2290760600-191011-WWDR1.5RUA-X2'",
  "RAISED builtins.ValueError(Exception) args=('invalid file name: LED-ALOS2290760600-191011-WWDR1.5RUA-X2',) str='invalid file name: "
  "LED-ALOS2290760600-191011-WWDR1.5RUA-X2'"],
 ['filename',
  "str:'LED-ALOS2290760600-191011-WWDR1.5RUA-B'",
  "RAISED builtins.ValueError(Exception) args=('invalid file name: LED-ALOS2290760600-191011-WWDR1.5RUA-B',) str='invalid file name: "
  "LED-ALOS2290760600-191011-WWDR1.5RUA-B'"],
 ['groupname',
  "str:'LED-ALOS2290760600-191011-WWDR1.5RUA-B'",
  "RAISED builtins.ValueError(Exception) args=('invalid file name: LED-ALOS2290760600-191011-WWDR1.5RUA-B',) str='invalid file name: "
  "LED-ALOS2290760600-191011-WWDR1.5RUA-B'"],
 ['filename',
  "str:'LED-ALOS2290760600-191011-WWDR1.5RUA-'",
  "RAISED builtins.ValueError(Exception) args=('invalid file name: LED-ALOS2290760600-191011-WWDR1.5RUA-',) str='invalid file name: "
  "LED-ALOS2290760600-191011-WWDR1.5RUA-'"],
 ['groupname',
  "str:'LED-ALOS2290760600-191011-WWDR1.5RUA-'",
  "RAISED builtins.ValueError(Exception) args=('invalid file name: LED-ALOS2290760600-191011-WWDR1.5RUA-',) str='invalid file name: "
  "LED-ALOS2290760600-191011-WWDR1.5RUA-'"],
 ['filename',
  "str:'LED-ALOS2290760600-191311-WWDR1.5RUA'",
  "RAISED builtins.ValueError(Exception) args=('invalid scene id: ALOS2290760600-191311',) str='invalid scene id: ALOS2290760600-191311' "
  "[cause=builtins.ValueError(Exception) args=('unconverted data remains: 1',) str='unconverted data remains: 1'; context=<cause>; suppress_context=True]"],
 ['groupname',
  "str:'LED-ALOS2290760600-191311-WWDR1.5RUA'",
  "RAISED builtins.ValueError(Exception) args=('invalid scene id: ALOS2290760600-191311',) str='invalid scene id: ALOS2290760600-191311' "
  "[cause=builtins.ValueError(Exception) args=('unconverted data remains: 1',) str='unconverted data remains: 1'; context=<cause>; suppress_context=True]"],
 ['filename',
  "str:'LED-ALOS2290760600-191011-WXDR1.5RUA'",
  "RAISED builtins.ValueError(Exception) args=('invalid product id: WXDR1.5RUA',) str='invalid product id: WXDR1.5RUA' [cause=builtins.ValueError(Exception) "
  'args=("invalid code \'WXD\'",) str="invalid code \'WXD\'"; context=<cause>; suppress_context=True]'],
 ['groupname',
  "str:'LED-ALOS2290760600-191011-WXDR1.5RUA'",
  "RAISED builtins.ValueError(Exception) args=('invalid product id: WXDR1.5RUA',) str='invalid product id: WXDR1.5RUA' [cause=builtins.ValueError(Exception) "
  'args=("invalid code \'WXD\'",) str="invalid code \'WXD\'"; context=<cause>; suppress_context=True]'],
 ['filename',
  "str:'LED-ALOS2290760600-191311-WXDR1.5RUA'",
  "RAISED builtins.ValueError(Exception) args=('invalid scene id: ALOS2290760600-191311',) str='invalid scene id: ALOS2290760600-191311' "
  "[cause=builtins.ValueError(Exception) args=('unconverted data remains: 1',) str='unconverted data remains: 1'; context=<cause>; suppress_context=True]"],
 ['groupname',
  "str:'LED-ALOS2290760600-191311-WXDR1.5RUA'",
  "RAISED builtins.ValueError(Exception) args=('invalid scene id: ALOS2290760600-191311',) str='invalid scene id: ALOS2290760600-191311' "
  "[cause=builtins.ValueError(Exception) args=('unconverted data remains: 1',) str='unconverted data remains: 1'; context=<cause>; suppress_context=True]"],
 ['filename',
  "str:'LED-ALOS2290760600-191011-WWDR1.6RUA'",
  "RAISED builtins.ValueError(Exception) args=('invalid product id: WWDR1.6RUA',) str='invalid product id: WWDR1.6RUA'"],
 ['groupname',
  "str:'LED-ALOS2290760600-191011-WWDR1.6RUA'",
  "RAISED builtins.ValueError(Exception) args=('invalid product id: WWDR1.6RUA',) str='invalid product id: WWDR1.6RUA'"],
 ['filename',
  "str:'LED-ALOS2290760600-191011-WWDX1.5RUA'",
  "RAISED builtins.ValueError(Exception) args=('invalid product id: WWDX1.5RUA',) str='invalid product id: WWDX1.5RUA'"],
 ['groupname',
  "str:'LED-ALOS2290760600-191011-WWDX1.5RUA'",
  "RAISED builtins.ValueError(Exception) args=('invalid product id: WWDX1.5RUA',) str='invalid product id: WWDX1.5RUA'"],
 ['filename',
  "str:'LED-ALOS2290760600-191011-wwdr1.5rua'",
  "RAISED builtins.ValueError(Exception) args=('invalid file name: LED-ALOS2290760600-191011-wwdr1.5rua',) str='invalid file name: "
  "LED-ALOS2290760600-191011-wwdr1.5rua'"],
 ['groupname',
  "str:'LED-ALOS2290760600-191011-wwdr1.5rua'",
  "RAISED builtins.ValueError(Exception) args=('invalid file name: LED-ALOS2290760600-191011-wwdr1.5rua',) str='invalid file name: "
  "LED-ALOS2290760600-191011-wwdr1.5rua'"],
 ['filename',
  "str:'LED-ALOSX290760600-191011-WWDR1.5RUA'",
  "RETURNED dict{'filetype': 'LED', 'polarization': None, 'mission_name': 'ALOSX', 'orbit_accumulation': '29076', 'scene_frame': '0600', 'date': "
  "datetime.datetime(2019, 10, 11, 0, 0), 'observation_mode': 'ScanSAR nominal 28MHz mode dual polarization', 'observation_direction': 'right looking', "
  "'processing_level': 'level 1.5', 'processing_option': 'geo-reference', 'map_projection': 'UTM', 'orbit_direction': 'ascending'}"],
 ['groupname', "str:'LED-ALOSX290760600-191011-WWDR1.5RUA'", "RETURNED ''"],
 ['filename',
  "str:'LED-ALOS2_90760600-191011-WWDR1.5RUA'",
  "RAISED builtins.ValueError(Exception) args=('invalid file name: LED-ALOS2_90760600-191011-WWDR1.5RUA',) str='invalid file name: "
  "LED-ALOS2_90760600-191011-WWDR1.5RUA'"],
 ['groupname',
  "str:'LED-ALOS2_90760600-191011-WWDR1.5RUA'",
  "RAISED builtins.ValueError(Exception) args=('invalid file name: LED-ALOS2_90760600-191011-WWDR1.5RUA',) str='invalid file name: "
  "LED-ALOS2_90760600-191011-WWDR1.5RUA'"],
 ['filename',
  "str:'LED-ALOS2290760600-191011-WWDR1.5RUA.gz'",
  "RAISED builtins.ValueError(Exception) args=('invalid file name: LED-ALOS2290760600-191011-WWDR1.5RUA.gz',) str='invalid file name: "
  "LED-ALOS2290760600-191011-WWDR1.5RUA.gz'"],
 ['groupname',
  "str:'LED-ALOS2290760600-191011-WWDR1.5RUA.gz'",
  "RAISED builtins.ValueError(Exception) args=('invalid file name: LED-ALOS2290760600-191011-WWDR1.5RUA.gz',) str='invalid file name: "
  "LED-ALOS2290760600-191011-WWDR1.5RUA.gz'"],
 ['filename',
  "str:'LED-ALOS2290760600-191011-WWDR1.5RUA\\n'",
  "RAISED builtins.ValueError(Exception) args=('invalid file name: LED-ALOS2290760600-191011-WWDR1.5RUA\\n',) str='invalid file name: "
  "LED-ALOS2290760600-191011-WWDR1.5RUA\\n'"],
 ['groupname',
  "str:'LED-ALOS2290760600-191011-WWDR1.5RUA\\n'",
  "RAISED builtins.ValueError(Exception) args=('invalid file name: LED-ALOS2290760600-191011-WWDR1.5RUA\\n',) str='invalid file name: "
  "LED-ALOS2290760600-191011-WWDR1.5RUA\\n'"],
 ['filename',
  "str:' LED-ALOS2290760600-191011-WWDR1.5RUA'",
  "RAISED builtins.ValueError(Exception) args=('invalid file name:  LED-ALOS2290760600-191011-WWDR1.5RUA',) str='invalid file name:  "
  "LED-ALOS2290760600-191011-WWDR1.5RUA'"],
 ['groupname',
  "str:' LED-ALOS2290760600-191011-WWDR1.5RUA'",
  "RAISED builtins.ValueError(Exception) args=('invalid file name:  LED-ALOS2290760600-191011-WWDR1.5RUA',) str='invalid file name:  "
  "LED-ALOS2290760600-191011-WWDR1.5RUA'"],
 ['filename',
  "str:'led-ALOS2290760600-191011-WWDR1.5RUA'",
  "RAISED builtins.ValueError(Exception) args=('invalid file name: led-ALOS2290760600-191011-WWDR1.5RUA',) str='invalid file name: "
  "led-ALOS2290760600-191011-WWDR1.5RUA'"],
 ['groupname',
  "str:'led-ALOS2290760600-191011-WWDR1.5RUA'",
  "RAISED builtins.ValueError(Exception) args=('invalid file name: led-ALOS2290760600-191011-WWDR1.5RUA',) str='invalid file name: "
  "led-ALOS2290760600-191011-WWDR1.5RUA'"],
 ['filename',
  "str:'LEDD-ALOS2290760600-191011-WWDR1.5RUA'",
  "RAISED builtins.ValueError(Exception) args=('invalid file name: LEDD-ALOS2290760600-191011-WWDR1.5RUA',) str='invalid file name: "
  "LEDD-ALOS2290760600-191011-WWDR1.5RUA'"],
 ['groupname',
  "str:'LEDD-ALOS2290760600-191011-WWDR1.5RUA'",
  "RAISED builtins.ValueError(Exception) args=('invalid file name: LEDD-ALOS2290760600-191011-WWDR1.5RUA',) str='invalid file name: "
  "LEDD-ALOS2290760600-191011-WWDR1.5RUA'"],
 ['filename',
  "str:'LED_ALOS2290760600_191011_WWDR1.5RUA'",
  "RAISED builtins.ValueError(Exception) args=('invalid file name: LED_ALOS2290760600_191011_WWDR1.5RUA',) str='invalid file name: "
  "LED_ALOS2290760600_191011_WWDR1.5RUA'"],
 ['groupname',
  "str:'LED_ALOS2290760600_191011_WWDR1.5RUA'",
  "RAISED builtins.ValueError(Exception) args=('invalid file name: LED_ALOS2290760600_191011_WWDR1.5RUA',) str='invalid file name: "
  "LED_ALOS2290760600_191011_WWDR1.5RUA'"],
 ['filename',
  "str:'path/LED-ALOS2290760600-191011-WWDR1.5RUA'",
  "RAISED builtins.ValueError(Exception) args=('invalid file name: path/LED-ALOS2290760600-191011-WWDR1.5RUA',) str='invalid file name: "
  "path/LED-ALOS2290760600-191011-WWDR1.5RUA'"],
 ['groupname',
  "str:'path/LED-ALOS2290760600-191011-WWDR1.5RUA'",
  "RAISED builtins.ValueError(Exception) args=('invalid file name: path/LED-ALOS2290760600-191011-WWDR1.5RUA',) str='invalid file name: "
  "path/LED-ALOS2290760600-191011-WWDR1.5RUA'"],
 ['filename', "str:'summary.txt'", "RAISED builtins.ValueError(Exception) args=('invalid file name: summary.txt',) str='invalid file name: summary.txt'"],
 ['groupname', "str:'summary.txt'", "RAISED builtins.ValueError(Exception) args=('invalid file name: summary.txt',) str='invalid file name: summary.txt'"],
 ['filename', "str:''", "RAISED builtins.ValueError(Exception) args=('invalid file name: ',) str='invalid file name: '"],
 ['groupname', "str:''", "RAISED builtins.ValueError(Exception) args=('invalid file name: ',) str='invalid file name: '"],
 ['filename', "str:'{fname}'", "RAISED builtins.ValueError(Exception) args=('invalid file name: {fname}',) str='invalid file name: {fname}'"],
 ['groupname', "str:'{fname}'", "RAISED builtins.ValueError(Exception) args=('invalid file name: {fname}',) str='invalid file name: {fname}'"],
 ['filename',
  "Str:'TRL-ALOS2225333100-180726-WWDR1.1__D'",
  "RETURNED dict{'filetype': 'TRL', 'polarization': None, 'mission_name': 'ALOS2', 'orbit_accumulation': '22533', 'scene_frame': '3100', 'date': "
  "datetime.datetime(2018, 7, 26, 0, 0), 'observation_mode': 'ScanSAR nominal 28MHz mode dual polarization', 'observation_direction': 'right looking', "
  "'processing_level': 'level 1.1', 'processing_option': 'not specified', 'map_projection': 'not specified', 'orbit_direction': 'descending'}"],
 ['groupname', "Str:'TRL-ALOS2225333100-180726-WWDR1.1__D'", "RETURNED ''"],
 ['filename', "Str:'nope'", "RAISED builtins.ValueError(Exception) args=('invalid file name: nope',) str='invalid file name: nope'"],
 ['groupname', "Str:'nope'", "RAISED builtins.ValueError(Exception) args=('invalid file name: nope',) str='invalid file name: nope'"],
 ['filename',
  "Loud:'TRL-ALOS2225333100-180726-WWDR1.1__D'",
  "RETURNED dict{'filetype': 'TRL', 'polarization': None, 'mission_name': 'ALOS2', 'orbit_accumulation': '22533', 'scene_frame': '3100', 'date': "
  "datetime.datetime(2018, 7, 26, 0, 0), 'observation_mode': 'ScanSAR nominal 28MHz mode dual polarization', 'observation_direction': 'right looking', "
  "'processing_level': 'level 1.1', 'processing_option': 'not specified', 'map_projection': 'not specified', 'orbit_direction': 'descending'}"],
 ['groupname', "Loud:'TRL-ALOS2225333100-180726-WWDR1.1__D'", "RETURNED ''"],
 ['filename', "Loud:'nope'", "RAISED builtins.ValueError(Exception) args=('invalid file name: <Loud format>',) str='invalid file name: <Loud format>'"],
 ['groupname', "Loud:'nope'", "RAISED builtins.ValueError(Exception) args=('invalid file name: <Loud format>',) str='invalid file name: <Loud format>'"],
 ['filename',
  'NoneType:None',
  'RAISED builtins.TypeError(Exception) args=("expected string or bytes-like object, got \'NoneType\'",) str="expected string or bytes-like object, got '
  '\'NoneType\'"'],
 ['groupname',
  'NoneType:None',
  'RAISED builtins.TypeError(Exception) args=("expected string or bytes-like object, got \'NoneType\'",) str="expected string or bytes-like object, got '
  '\'NoneType\'"'],
 ['filename',
  "bytes:b'TRL-ALOS2225333100-180726-WWDR1.1__D'",
  "RAISED builtins.TypeError(Exception) args=('cannot use a string pattern on a bytes-like object',) str='cannot use a string pattern on a bytes-like object'"],
 ['groupname',
  "bytes:b'TRL-ALOS2225333100-180726-WWDR1.1__D'",
  "RAISED builtins.TypeError(Exception) args=('cannot use a string pattern on a bytes-like object',) str='cannot use a string pattern on a bytes-like object'"],
 ['filename',
  'int:12',
  'RAISED builtins.TypeError(Exception) args=("expected string or bytes-like object, got \'int\'",) str="expected string or bytes-like object, got \'int\'"'],
 ['groupname',
  'int:12',
  'RAISED builtins.TypeError(Exception) args=("expected string or bytes-like object, got \'int\'",) str="expected string or bytes-like object, got \'int\'"'],
 ['filename',
  'Weird',
  'RAISED builtins.TypeError(Exception) args=("expected string or bytes-like object, got \'Weird\'",) str="expected string or bytes-like object, got '
  '\'Weird\'"'],
 ['groupname',
  'Weird',
  'RAISED builtins.TypeError(Exception) args=("expected string or bytes-like object, got \'Weird\'",) str="expected string or bytes-like object, got '
  '\'Weird\'"'],
 ['filename-kw',
  "RETURNED dict{'filetype': 'TRL', 'polarization': None, 'mission_name': 'ALOS2', 'orbit_accumulation': '22533', 'scene_frame': '3100', 'date': "
  "datetime.datetime(2018, 7, 26, 0, 0), 'observation_mode': 'ScanSAR nominal 28MHz mode dual polarization', 'observation_direction': 'right looking', "
  "'processing_level': 'level 1.1', 'processing_option': 'not specified', 'map_projection': 'not specified', 'orbit_direction': 'descending'}"],
 ['filename-noarg', 'RAISED builtins.TypeError(Exception)'],
 ['filename-keys',
  ['filetype',
   'polarization',
   'mission_name',
   'orbit_accumulation',
   'scene_frame',
   'date',
   'observation_mode',
   'observation_direction',
   'processing_level',
   'processing_option',
   'map_projection',
   'orbit_direction',
   'processing_method',
   'scan_number']],
 ['patched-translations', "RETURNED dict{'processing_method': 'b', 'scan_number': 4}"],
 ['patched-translations',
  "RETURNED dict{'filetype': 'IMG', 'polarization': 'HV', 'mission_name': 'ALOS2', 'orbit_accumulation': '22533', 'scene_frame': '3100', 'date': "
  "datetime.datetime(2018, 7, 26, 0, 0), 'observation_mode': 'ScanSAR nominal 28MHz mode dual polarization', 'observation_direction': 'right looking', "
  "'processing_level': 'level 1.1', 'processing_option': 'not specified', 'map_projection': 'not specified', 'orbit_direction': 'descending', "
  "'processing_method': 'b', 'scan_number': 3}"],
 ['patched-translations-fail', "RAISED builtins.ValueError(Exception) args=('no: 4',) str='no: 4'"],
 ['patched-translations-fail', "RAISED builtins.ValueError(Exception) args=('no: 3',) str='no: 3'"],
 ['patched-translations-missing', 'RAISED builtins.KeyError(LookupError>Exception) args=(\'processing_method\',) str="\'processing_method\'"'],
 ['patched-scan-re', "RETURNED dict{'scan_number': '42'}"],
 ['patched-scan-re', "RAISED builtins.ValueError(Exception) args=('invalid scan info: B4',) str='invalid scan info: B4'"],
 ['patched-scan-re', "RAISED builtins.ValueError(Exception) args=('invalid scan info: B3',) str='invalid scan info: B3'"],
 ['patched-fname-re', "RETURNED dict{'filetype': 'abc', 'processing_method': 'SPECAN method', 'scan_number': '4'}"],
 ['patched-fname-re', "RAISED builtins.ValueError(Exception) args=('invalid scan info: Z4',) str='invalid scan info: Z4'"],
 ['patched-fname-re',
  "RAISED builtins.ValueError(Exception) args=('invalid file name: IMG-HV-ALOS2225333100-180726-WWDR1.1__D-B3',) str='invalid file name: "
  "IMG-HV-ALOS2225333100-180726-WWDR1.1__D-B3'"],
 ['patched-fname-re-scalars', "RETURNED dict{'filetype': 'abc'}"],
 ['patched-fname-re-unknown', 'RAISED builtins.KeyError(LookupError>Exception) args=(\'unknown\',) str="\'unknown\'"'],
 ['patched-decoders',
  "RETURNED dict{'filetype': 'IMG', 'polarization': 'HV', 'scan_info': 'scalar now', 's': 1, 'shared': 'product', 'p': 2}",
  [('scene_id', 'ALOS2225333100-180726'), ('product_id', 'WWDR1.1__D'), ('scan_info', 'B3')]],
 ['patched-decoders-fail', 'RAISED builtins.KeyError(LookupError>Exception) args=(\'scene\',) str="\'scene\'"', [('scene_id', 'ALOS2225333100-180726')]],
 ['patched-decoders-fail2',
  "RAISED builtins.ValueError(Exception) args=('product',) str='product'",
  [('scene_id', 'ALOS2225333100-180726'), ('product_id', 'WWDR1.1__D')]],
 ['product_spec',
  "RETURNED Group('/', None, dict{}, dict{'observation_mode': 'ScanSAR nominal 28MHz mode dual polarization', 'observation_direction': 'right looking', "
  "'processing_level': 'level 1.5', 'processing_option': 'geo-reference', 'map_projection': 'UTM', 'orbit_direction': 'ascending', 'ResamplingMethod': "
  "'nearest-neighbor', 'UTM_ZoneNo': 32, 'PixelSpacing': 25.0})"],
 ['product_spec', 'RAISED builtins.ValueError(Exception) args=("invalid code \'XX\'",) str="invalid code \'XX\'"'],
 ['product_spec', 'RAISED builtins.ValueError(Exception) args=("invalid code \'\'",) str="invalid code \'\'"'],
 ['name', 'decode_scene_id', True],
 ['name', 'decode_product_id', True],
 ['name', 'decode_scan_info', True],
 ['name', 'decode_filename', True],
 ['name', 'lookup', True],
 ['name', 'parse_date', True],
 ['name', 'translations', True],
 ['name', 'scene_id_re', True],
 ['name', 'product_id_re', True],
 ['name', 'scan_info_re', True],
 ['name', 'fname_re', True],
 ['name', 'valsplit', True],
 ['name', 'merge', True],
 ['name', 'curry', True],
 ['name', 'passthrough', True],
 ['function', 'ceos_alos2.decoders', 'lookup', ['mapping', 'code']],
 ['function', 'ceos_alos2.decoders', 'decode_scan_info', ['scan_info']],
 ['function', 'ceos_alos2.decoders', 'decode_filename', ['fname']]]
# EXPECTED-END


def normalize(entry):
    return [list(item) if isinstance(item, tuple) else item for item in entry]


def test_equivalence():
    observations = [normalize(entry) for entry in run()]

    assert len(observations) == len(EXPECTED), (len(observations), len(EXPECTED))
    for actual, expected in zip(observations, EXPECTED):
        assert actual == expected, f"\nactual:   {actual}\nexpected: {expected}"

    # a few literal spot checks on top of the recorded table
    assert decoders.lookup(decoders.orbit_directions, "A") == "ascending"
    assert decoders.decode_scan_info(None) == {}
    assert decoders.decode_scan_info("B4") == {"processing_method": "SPECAN method", "scan_number": "4"}
    assert list(decoders.decode_filename("IMG-HV-ALOS2225333100-180726-WWDR1.1__D-B3").items()) == [
        ("filetype", "IMG"),
        ("polarization", "HV"),
        ("mission_name", "ALOS2"),
        ("orbit_accumulation", "22533"),
        ("scene_frame", "3100"),
        ("date", datetime.datetime(2018, 7, 26, 0, 0)),
        ("observation_mode", "ScanSAR nominal 28MHz mode dual polarization"),
        ("observation_direction", "right looking"),
        ("processing_level", "level 1.1"),
        ("processing_option", "not specified"),
        ("map_projection", "not specified"),
        ("orbit_direction", "descending"),
        ("processing_method", "SPECAN method"),
        ("scan_number", "3"),
    ]
    for func, args, message in [
        (decoders.lookup, (decoders.orbit_directions, "it's"), 'invalid code "it\'s"'),
        (decoders.lookup, (decoders.orbit_directions, None), "invalid code None"),
        (decoders.lookup, (decoders.orbit_directions, ("A",)), "invalid code ('A',)"),
        (decoders.decode_scan_info, ("Ac",), "invalid scan info: Ac"),
        (decoders.decode_filename, ("summary.txt",), "invalid file name: summary.txt"),
    ]:
        try:
            func(*args)
        except ValueError as e:
            assert type(e) is ValueError and e.args == (message,), e.args
            assert e.__cause__ is None and e.__context__ is None and e.__suppress_context__ is False
        else:
            raise AssertionError(f"{args}: did not raise")


if __name__ == "__main__":
    if "--record" in sys.argv:
        print("EXPECTED = " + pprint.pformat([normalize(entry) for entry in run()], width=160))
    else:
        test_equivalence()
        print("OK", len(EXPECTED), "observations")
