"""Equivalence check for refactoring 4 (``ceos_alos2.sar_image.open_image``).

Usage::

    PYTHONPATH=<worktree> python _eq/4/equiv.py            # check against the recorded outcomes
    PYTHONPATH=<worktree> python _eq/4/equiv.py --record   # print the outcomes (run on clean HEAD)

It is also collectable by pytest (``test_equivalence``).

The outcomes in ``EXPECTED`` were recorded from the unchanged code (HEAD). An outcome consists of
the canonical form of the returned hierarchy (or the exception chain), the ordered log of
everything requested from the mapper / file system / file objects, the order and (normalised)
arguments of the calls to the collaborators, and the state of the local cache directory.
"""

import hashlib
import inspect
import pathlib
import shutil
import struct
import sys
import tempfile

import fsspec
import numpy as np
from fsspec.implementations.memory import MemoryFileSystem

from ceos_alos2 import sar_image
from ceos_alos2.array import Array
from ceos_alos2.hierarchy import Group, Variable
from ceos_alos2.sar_image import caching
from ceos_alos2.sar_image.caching import path as cache_path


# --------------------------------------------------------------------------- canonical forms
def canon(obj):
    tname = type(obj).__name__
    if isinstance(obj, Group):
        return (
            "Group",
            obj.path,
            obj.url,
            canon(obj.attrs),
            [(name, canon(item)) for name, item in obj.data.items()],
        )
    if isinstance(obj, Variable):
        return ("Variable", canon(obj.dims), canon(obj.data), canon(obj.attrs))
    if isinstance(obj, Array):
        return (
            "Array",
            type(obj.fs).__name__,
            getattr(obj.fs, "path", None),
            type(getattr(obj.fs, "fs", None)).__name__,
            obj.url,
            canon(obj.byte_ranges),
            canon(obj.shape),
            canon(obj.dtype),
            obj.type_code,
            canon(obj.records_per_chunk),
            canon(obj.chunk_offsets),
        )
    if isinstance(obj, np.ndarray):
        return ("ndarray", str(obj.dtype), obj.shape, obj.tolist())
    if isinstance(obj, dict):
        return (tname, [(k, canon(v)) for k, v in obj.items()])
    if isinstance(obj, (list, tuple)):
        return (tname, [canon(v) for v in obj])
    return (tname, repr(obj))


def exc_chain(e):
    parts = []
    while e is not None:
        parts.append((type(e).__module__, type(e).__qualname__, str(e)))
        e = e.__cause__ or e.__context__
    return parts


class Normalizer:
    def __init__(self, replacements):
        self.replacements = replacements

    def __call__(self, obj):
        text = repr(obj)
        for old, new in self.replacements.items():
            text = text.replace(old, new)
        if len(text) <= 600:
            return text
        return "sha256:" + hashlib.sha256(text.encode()).hexdigest() + f":{len(text)}"


# --------------------------------------------------------------------------- synthetic product
FIELDS = {
    "number_of_sar_data_records": (180, 6),
    "sar_data_record_length": (186, 6),
    "number_of_lines_per_dataset": (236, 8),
    "number_of_data_groups_per_line": (248, 8),
    "interleaving_id": (268, 4),
    "sar_data_format_type_code": (428, 4),
    "maximum_data_range_of_pixel": (440, 8),
    "number_of_burst_data": (448, 4),
    "number_of_lines_per_burst": (452, 4),
    "number_of_overlap_lines_with_adjacent_bursts": (456, 4),
}
HEADER_SIZES = {10: 544, 11: 192}


def descriptor(**values):
    raw = bytearray(struct.pack(">IBBBBI", 1, 50, 192, 18, 18, 720) + b" " * 708)
    for name, value in values.items():
        offset, width = FIELDS[name]
        raw[offset : offset + width] = str(value).rjust(width).encode("ascii")[:width]
    return bytes(raw)


def record(seq, rtype, line, payload):
    length = HEADER_SIZES[rtype] + len(payload)
    hdr = struct.pack(">IBBBBI", seq, 50, rtype, 18, 20, length)
    body = struct.pack(">IIIIII", line, 1, 0, 4, 0, 1) + struct.pack(">III", 2020, 32, 1000 * line)
    raw = hdr + body
    return raw + bytes(HEADER_SIZES[rtype] - len(raw)) + payload


def image(rtype=11, n=5, columns=3, type_code="C*8", **header):
    itemsize = {"C*8": 8, "IU2": 2}.get(type_code, 4)
    payloads = [
        bytes((17 * row + col) % 256 for col in range(columns * itemsize)) for row in range(n)
    ]
    if type_code == "C*8":
        payloads = [
            np.arange(row, row + 2 * columns, dtype=">f4").tobytes() for row in range(n)
        ]
    values = {
        "number_of_sar_data_records": n,
        "sar_data_record_length": HEADER_SIZES[rtype] + columns * itemsize,
        "number_of_lines_per_dataset": n,
        "number_of_data_groups_per_line": columns,
        "sar_data_format_type_code": type_code,
    }
    values.update(header)
    body = b"".join(record(i + 1, rtype, i + 1, payloads[i]) for i in range(n))
    return descriptor(**values) + body


NAME_HH = "IMG-HH-ALOS2225333100-180726-WWDR1.1__D-B3"
NAME_HV = "IMG-HV-ALOS2290760600-191011-WWDR1.5RUA"
NAME_NOPOL = "IMG-ALOS2290760600-191011-WWDR1.5RUA"
NAME_INVALID = "image.bin"


# --------------------------------------------------------------------------- logging doubles
class FileProxy:
    def __init__(self, raw, log, label):
        self._raw = raw
        self._log = log
        self._label = label

    def __enter__(self):
        self._log.append(("file.enter", self._label))
        self._raw.__enter__()
        return self

    def __exit__(self, *exc):
        self._log.append(("file.exit", self._label, getattr(exc[0], "__name__", None)))
        return self._raw.__exit__(*exc)

    def read(self, *args, **kwargs):
        self._log.append(("file.read", self._label, args, tuple(kwargs.items()), self._raw.tell()))
        return self._raw.read(*args, **kwargs)

    def seek(self, *args, **kwargs):
        self._log.append(("file.seek", self._label, args, tuple(kwargs.items())))
        return self._raw.seek(*args, **kwargs)

    def close(self):
        self._log.append(("file.close", self._label))
        return self._raw.close()

    def __getattr__(self, name):
        self._log.append(("file.getattr", self._label, name))
        return getattr(self._raw, name)


class LoggingMemoryFileSystem(MemoryFileSystem):
    """memory file system with its own store, logging every ``open``"""

    store = {}
    pseudo_dirs = [""]
    cachable = False
    protocol = "logmem"

    def __init__(self, log, **kwargs):
        super().__init__(**kwargs)
        self.log = log

    def open(self, path, *args, **kwargs):
        self.log.append(("fs.open", path, args, tuple(sorted(kwargs.items()))))
        f = super().open(path, *args, **kwargs)
        return FileProxy(f, self.log, path)


class LoggingMapper:
    """the part of the FSMap interface used by open_image / the caching module"""

    def __init__(self, fs, root, log):
        self._fs = fs
        self._root = root
        self._log = log

    @property
    def root(self):
        self._log.append(("mapper.root",))
        return self._root

    @property
    def fs(self):
        self._log.append(("mapper.fs",))
        return self._fs

    def _key(self, key):
        return f"{self._root}/{key}"

    def __contains__(self, key):
        self._log.append(("mapper.contains", key))
        return self._fs.isfile(self._key(key))

    def __getitem__(self, key):
        self._log.append(("mapper.getitem", key))
        try:
            return self._fs.cat_file(self._key(key))
        except FileNotFoundError as e:
            raise KeyError(key) from e

    def __setitem__(self, key, value):
        self._fs.pipe_file(self._key(key), value)


def describe(value):
    if isinstance(value, (bytes, list, tuple, dict)):
        return (type(value).__name__, len(value))
    if value is None or isinstance(value, (bool, int, float, str)):
        return value
    return type(value).__name__


class Spies:
    """wrap the collaborators of open_image (looked up at call time) to log the calls"""

    targets = (
        (sar_image, "read_metadata"),
        (sar_image, "transform_metadata"),
        (sar_image, "filename_to_groupname"),
        (sar_image, "Array"),
        (sar_image, "Variable"),
        (caching, "read_cache"),
        (caching, "create_cache"),
    )

    def __init__(self, log, objects):
        self.log = log
        self.saved = []
        self.objects = objects

    def _wrap(self, name, func):
        signature = inspect.signature(func)

        def wrapper(*args, **kwargs):
            # positional / keyword passing is normalised through the signature
            bound = signature.bind(*args, **kwargs)
            self.log.append(
                ("call", name, tuple((k, describe(v)) for k, v in bound.arguments.items()))
            )
            try:
                result = func(*args, **kwargs)
            except BaseException as e:  # noqa: B902
                self.log.append(("raised", name, type(e).__name__))
                raise
            self.log.append(("returned", name, describe(result)))
            self.objects.setdefault(name, []).append((bound.arguments, result))
            return result

        return wrapper

    def __enter__(self):
        for module, name in self.targets:
            original = getattr(module, name)
            self.saved.append((module, name, original))
            setattr(module, name, self._wrap(name, original))
        return self

    def __exit__(self, *exc):
        for module, name, original in self.saved:
            setattr(module, name, original)


# --------------------------------------------------------------------------- scenarios
def tree(root, tmp):
    """files below the cache root: name, digest and size of the (normalised) content"""
    root = pathlib.Path(root)
    if not root.exists():
        return []

    def content(p):
        return p.read_bytes().replace(str(tmp).encode(), b"<TMP>")

    return sorted(
        (
            "/".join(("<hash>",) + p.relative_to(root).parts[1:]),
            hashlib.sha256(content(p)).hexdigest()[:16],
            len(content(p)),
        )
        for p in root.rglob("*")
        if p.is_file()
    )


class Scenario:
    def __init__(self, tmp):
        self.tmp = pathlib.Path(tmp)
        self.normalize = Normalizer({str(self.tmp): "<TMP>"})
        self.counter = 0

    def fresh_cache_root(self):
        self.counter += 1
        root = self.tmp / f"cache{self.counter}"
        cache_path.cache_root = root
        return root

    def logged(self, files, path, *, spy=True, local_cache=None, call=None, **kwargs):
        """open_image on the logging memory file system"""
        log = []
        objects = {}
        LoggingMemoryFileSystem.store = {}
        LoggingMemoryFileSystem.pseudo_dirs = [""]
        fs = LoggingMemoryFileSystem(log)
        mapper = LoggingMapper(fs, "/product", log)
        for name, content in files.items():
            mapper[name] = content
        del log[:]  # drop the requests of the set-up
        cache_root = self.fresh_cache_root()
        if local_cache is not None:
            target = cache_path.local_cache_location("/product", path)
            target.parent.mkdir(parents=True, exist_ok=True)
            target.write_text(local_cache)

        def default_call():
            return sar_image.open_image(mapper, path, **kwargs)

        try:
            if spy:
                with Spies(log, objects):
                    result = default_call() if call is None else call(mapper)
            else:
                result = default_call() if call is None else call(mapper)
        except BaseException as e:  # noqa: B902
            outcome = ("raise", exc_chain(e))
            result = None
        else:
            outcome = ("ok", canon(result))

        main_log = list(log)
        extra = []
        if result is not None and spy:
            # the cached object is the returned object
            for arguments, _ in objects.get("create_cache", []):
                extra.append(("create_cache gets result", arguments["data"] is result))
            for arguments, _ in objects.get("Array", []):
                extra.append(("array fs", type(arguments["fs"]).__name__, arguments["fs"].path))
                extra.append(("array fs.fs is mapper.fs", arguments["fs"].fs is fs))
            for arguments, variable in objects.get("Variable", []):
                extra.append(("variable in group", result["data"] == variable))
        if result is not None and isinstance(result.data.get("data"), Variable):
            array = result["data"].data
            if isinstance(array, Array) and array.fs.fs is fs:
                mark = len(log)
                for label, indexers in (
                    ("values", (slice(None), slice(None))),
                    ("row", (1, slice(0, 2))),
                ):
                    try:
                        extra.append((label, canon(array[indexers])))
                    except BaseException as e:  # noqa: B902
                        extra.append((label, "raise", exc_chain(e)))
                extra.append(("value requests", log[mark:]))

        return (
            self.normalize(outcome),
            self.normalize(main_log),
            self.normalize(extra),
            self.normalize(tree(cache_root, self.tmp)),
        )

    def local(self, files, path, steps):
        """sequence of open_image calls on a local directory (real FSMap, cache round trips)"""
        self.counter += 1
        root = self.tmp / f"product{self.counter}"
        root.mkdir()
        for name, content in files.items():
            (root / name).write_bytes(content)
        mapper = fsspec.get_mapper(str(root))
        cache_root = self.fresh_cache_root()

        results = []
        for kwargs in steps:
            action = kwargs.pop("action", None)
            if action == "remove-image":
                (root / path).unlink()
                results.append("removed")
                continue
            if action == "corrupt-local-cache":
                for p in cache_root.rglob("*.index"):
                    p.write_text(p.read_text()[:50])
                results.append("corrupted")
                continue
            if action == "move-cache-to-remote":
                for p in cache_root.rglob("*.index"):
                    shutil.move(str(p), str(root / p.name))
                results.append("moved")
                continue
            try:
                group = sar_image.open_image(mapper, path, **kwargs)
            except BaseException as e:  # noqa: B902
                results.append(("raise", exc_chain(e)))
                continue
            entry = [("ok", canon(group))]
            array = group["data"].data
            try:
                entry.append(("values", canon(array[(slice(None), slice(None))])))
            except BaseException as e:  # noqa: B902
                entry.append(("values raise", exc_chain(e)))
            entry.append(("cache", tree(cache_root, self.tmp)))
            entry.append(("files", sorted(p.name for p in root.iterdir())))
            results.append(entry)

        return self.normalize(results)


def cases():
    out = {}
    saved_root = cache_path.cache_root
    tmp = tempfile.mkdtemp(prefix="eq4-")
    scenario = Scenario(tmp)

    def add(name, value):
        assert name not in out, name
        out[name] = value

    try:
        processed = image(11, 5, 3, "C*8")
        signal = image(10, 4, 6, "IU2", maximum_data_range_of_pixel=1000, number_of_burst_data=2)
        unknown_code = image(11, 5, 3, "F*4")

        # ---- no cache involved
        for label, content, name in (
            ("processed", processed, NAME_HV),
            ("signal", signal, NAME_HH),
            ("nopol", processed, NAME_NOPOL),
        ):
            for rpc in (1, 2, 3, 5, 1024, -1):
                add(
                    f"plain-{label}-rpc{rpc}",
                    scenario.logged({name: content}, name, use_cache=False, records_per_chunk=rpc),
                )
        add("plain-default-rpc", scenario.logged({NAME_HV: processed}, NAME_HV, use_cache=False))
        add(
            "plain-explicit-none",
            scenario.logged({NAME_HV: processed}, NAME_HV, use_cache=False, records_per_chunk=None),
        )
        for rpc in ("auto", "1MB", 0, 2.0, True):
            add(
                f"plain-rpc-{rpc!r}",
                scenario.logged({NAME_HV: processed}, NAME_HV, use_cache=False, records_per_chunk=rpc),
            )
        add(
            "plain-nospy",
            scenario.logged(
                {NAME_HV: processed}, NAME_HV, spy=False, use_cache=False, records_per_chunk=2
            ),
        )
        add(
            "plain-create-cache-false-explicit",
            scenario.logged(
                {NAME_HV: processed},
                NAME_HV,
                use_cache=False,
                create_cache=False,
                records_per_chunk=2,
            ),
        )
        add(
            "plain-empty-image",
            scenario.logged({NAME_HV: image(11, 0, 3)}, NAME_HV, use_cache=False, records_per_chunk=2),
        )

        # ---- failures at the different stages
        add(
            "fail-missing-file",
            scenario.logged({}, NAME_HV, use_cache=False, records_per_chunk=2),
        )
        add(
            "fail-missing-file-with-cache-lookup",
            scenario.logged({}, NAME_HV, records_per_chunk=2),
        )
        add(
            "fail-truncated-header",
            scenario.logged({NAME_HV: processed[:300]}, NAME_HV, use_cache=False, records_per_chunk=2),
        )
        add(
            "fail-truncated-records",
            scenario.logged({NAME_HV: processed[:-5]}, NAME_HV, use_cache=False, records_per_chunk=2),
        )
        add(
            "fail-type-code",
            scenario.logged({NAME_HV: unknown_code}, NAME_HV, use_cache=False, records_per_chunk=2),
        )
        add(
            "fail-type-code-create-cache",
            scenario.logged(
                {NAME_HV: unknown_code},
                NAME_HV,
                use_cache=False,
                create_cache=True,
                records_per_chunk=2,
            ),
        )
        add(
            "fail-invalid-name",
            scenario.logged(
                {NAME_INVALID: processed}, NAME_INVALID, use_cache=False, records_per_chunk=2
            ),
        )
        add(
            "fail-invalid-name-create-cache",
            scenario.logged(
                {NAME_INVALID: processed},
                NAME_INVALID,
                use_cache=False,
                create_cache=True,
                records_per_chunk=2,
            ),
        )
        add(
            "fail-invalid-name-with-cache-lookup",
            scenario.logged({NAME_INVALID: processed}, NAME_INVALID, records_per_chunk=2),
        )
        add(
            "fail-rpc-none-create-cache",
            scenario.logged({NAME_HV: processed}, NAME_HV, use_cache=False, create_cache=True),
        )

        # ---- argument handling
        add(
            "args-positional-flags",
            scenario.logged(
                {NAME_HV: processed}, NAME_HV, call=lambda m: sar_image.open_image(m, NAME_HV, False)
            ),
        )
        add(
            "args-keywords-only",
            scenario.logged(
                {NAME_HV: processed},
                NAME_HV,
                call=lambda m: sar_image.open_image(
                    mapper=m, path=NAME_HV, use_cache=0, create_cache=0, records_per_chunk=4
                ),
            ),
        )
        add(
            "args-truthy-flags",
            scenario.logged(
                {NAME_HV: processed},
                NAME_HV,
                call=lambda m: sar_image.open_image(
                    m, NAME_HV, use_cache="yes", create_cache=[1], records_per_chunk=4
                ),
            ),
        )
        add("signature", str(inspect.signature(sar_image.open_image)))

        # ---- cache lookup (use_cache=True is the default)
        add("cache-miss-default", scenario.logged({NAME_HV: processed}, NAME_HV, records_per_chunk=2))
        add(
            "cache-miss-create",
            scenario.logged({NAME_HV: processed}, NAME_HV, records_per_chunk=2, create_cache=True),
        )
        add(
            "cache-skip-create",
            scenario.logged(
                {NAME_HV: processed}, NAME_HV, use_cache=False, records_per_chunk=3, create_cache=True
            ),
        )
        add(
            "cache-signal-create",
            scenario.logged(
                {NAME_HH: signal}, NAME_HH, use_cache=False, records_per_chunk=3, create_cache=True
            ),
        )

        # produce a valid cache document to plant as remote / local cache
        mapper = fsspec.get_mapper("memory://eq4-seed")
        mapper[NAME_HV] = processed
        seed = sar_image.open_image(mapper, NAME_HV, use_cache=False, records_per_chunk=2)
        document = caching.encode(seed)
        add("cache-document", scenario.normalize(document))

        for label, index in (
            ("valid", document),
            ("invalid-json", document[:40]),
            ("empty", ""),
            ("other-json", "[1, 2, 3]"),
            ("json-null", "null"),
        ):
            add(
                f"cache-remote-{label}",
                scenario.logged(
                    {NAME_HV: processed, NAME_HV + ".index": index.encode()},
                    NAME_HV,
                    records_per_chunk=2,
                ),
            )
            add(
                f"cache-local-{label}",
                scenario.logged({NAME_HV: processed}, NAME_HV, local_cache=index, records_per_chunk=2),
            )
            add(
                f"cache-remote-{label}-create",
                scenario.logged(
                    {NAME_HV: processed, NAME_HV + ".index": index.encode()},
                    NAME_HV,
                    records_per_chunk=2,
                    create_cache=True,
                ),
            )
            add(
                f"cache-remote-{label}-ignored",
                scenario.logged(
                    {NAME_HV: processed, NAME_HV + ".index": index.encode()},
                    NAME_HV,
                    use_cache=False,
                    records_per_chunk=2,
                ),
            )
        add(
            "cache-remote-valid-no-image",
            scenario.logged({NAME_HV + ".index": document.encode()}, NAME_HV, records_per_chunk=5),
        )
        add(
            "cache-remote-valid-rpc-none",
            scenario.logged({NAME_HV + ".index": document.encode()}, NAME_HV),
        )
        add(
            "cache-local-and-remote",
            scenario.logged(
                {NAME_HV: processed, NAME_HV + ".index": b"broken"},
                NAME_HV,
                local_cache=document,
                records_per_chunk=2,
            ),
        )

        # ---- round trips on a local directory
        add(
            "local-roundtrip",
            scenario.local(
                {NAME_HV: processed},
                NAME_HV,
                [
                    {"records_per_chunk": 2},
                    {"records_per_chunk": 2, "create_cache": True},
                    {"records_per_chunk": 3},
                    {"action": "remove-image"},
                    {"records_per_chunk": 3},
                    {"records_per_chunk": 3, "use_cache": False},
                    {"action": "corrupt-local-cache"},
                    {"records_per_chunk": 3},
                ],
            ),
        )
        add(
            "local-remote-cache",
            scenario.local(
                {NAME_HH: signal},
                NAME_HH,
                [
                    {"records_per_chunk": 1024, "use_cache": False, "create_cache": True},
                    {"action": "move-cache-to-remote"},
                    {"records_per_chunk": 2},
                    {"records_per_chunk": 2, "create_cache": True},
                    {"action": "remove-image"},
                    {"records_per_chunk": 1},
                    {"use_cache": False, "records_per_chunk": 1},
                ],
            ),
        )
    finally:
        cache_path.cache_root = saved_root
        shutil.rmtree(tmp, ignore_errors=True)

    return out


EXPECTED = {
 'plain-processed-rpc1': ('sha256:1623e3b35b9d34764bb911b0e4697e84be409912a286b50e4c4c1692fbb11a19:7512',
                          'sha256:da684949d210ca5604d196d844eb38ede0d01c2bfb09490cf863ffa4d969b557:1546',
                          'sha256:8118fc42beb9de426e10935872d44d728c57540479cd0272bb82ceb1b7aeb834:1803',
                          '[]'),
 'plain-processed-rpc2': ('sha256:2d6ddffcd94554bbfc4c3f45e1d638e2ce68c25163e752b9a9ced43bf71b1433:7372',
                          'sha256:677a26729b2f6ff7fa3a0c7fec000bbc09cfbdc5555257f69ebda62dfe9043df:1377',
                          'sha256:4806ffe7c2157aa58eca55528194ff6e5085f0e7100ee156c9b27d870e7b7ea2:1476',
                          '[]'),
 'plain-processed-rpc3': ('sha256:97f6f576d262bfbbadbe99c92607b3328fe3570662f2cb309dd96b6d95af1f8f:7301',
                          'sha256:24a104c8f55d665a052112f23537d26de6e2c429d6b925804d6b07271613b1c7:1292',
                          'sha256:d695cd6ecb611e3932bd24a11a9b242459ebf9e8bb2cc1cef99ddc522dc73fc7:1312',
                          '[]'),
 'plain-processed-rpc5': ('sha256:5688cc757baa70bdcae8e1f9d8720abb55a44f2421113760aff52d0e5c0e2308:7229',
                          'sha256:318add756474c9c6f273042be4025fe672e7fec825b89c7c257f2daf3d6f0da6:1208',
                          'sha256:24668a50902f0c3e0b4d1baf8fca135a53419f11046092e110172c890f9181d9:1147',
                          '[]'),
 'plain-processed-rpc1024': ('sha256:5688cc757baa70bdcae8e1f9d8720abb55a44f2421113760aff52d0e5c0e2308:7229',
                             'sha256:5b1805bf9289a387df929e902a06f95ffe358f2cb918677b776e99cc9a1eb26e:1214',
                             'sha256:24668a50902f0c3e0b4d1baf8fca135a53419f11046092e110172c890f9181d9:1147',
                             '[]'),
 'plain-processed-rpc-1': ("('ok', ('Group', 'HV', None, ('dict', [('interleaving_id', ('str', "
                           '"\'\'")), (\'coordinates\', (\'list\', []))]), [(\'data\', '
                           '(\'Variable\', (\'list\', [(\'str\', "\'rows\'"), (\'str\', '
                           '"\'columns\'")]), (\'Array\', \'DirFileSystem\', \'/product\', '
                           "'LoggingMemoryFileSystem', "
                           "'IMG-HV-ALOS2290760600-191011-WWDR1.5RUA', ('list', []), ('tuple', "
                           '[(\'int\', \'5\'), (\'int\', \'3\')]), (\'str\', "\'complex64\'"), '
                           "'C*8', ('int', '5'), ('dict', [])), ('dict', [])))]))",
                           'sha256:5fd699e1156e2393008487dbf800e030c6f4bafafd226da10e18fafe0e38ce9a:1125',
                           "[('array fs', 'DirFileSystem', '/product'), ('array fs.fs is "
                           "mapper.fs', True), ('variable in group', True), ('values', "
                           "('ndarray', 'complex64', (0, 3), [])), ('row', 'raise', "
                           "[('builtins', 'IndexError', 'list index out of range'), ('builtins', "
                           "'TypeError', 'list indices must be integers or slices, not list')]), "
                           "('value requests', [('fs.open', "
                           "'/product/IMG-HV-ALOS2290760600-191011-WWDR1.5RUA', (), (('mode', "
                           "'rb'),)), ('file.enter', "
                           "'/product/IMG-HV-ALOS2290760600-191011-WWDR1.5RUA'), ('file.exit', "
                           "'/product/IMG-HV-ALOS2290760600-191011-WWDR1.5RUA', None)])]",
                           '[]'),
 'plain-signal-rpc1': ('sha256:a319eadb0c9d9206296f3f3824c1061024bb58263fcae421dedf12f7153e857d:12336',
                       'sha256:1177b18c460e4289eccf1401a7b1769205e3cd5f9b5abd4c335a16e876f4c0d3:1495',
                       'sha256:47d59420a1c979f481d42219fe0138382a7e81479ee98f483b5f5de4364950bc:1710',
                       '[]'),
 'plain-signal-rpc2': ('sha256:88fa370ab3b88e88787cea8ed9a2fad5ab30e49b468ad9ea2736fdefe9ebd259:12196',
                       'sha256:9860fd73a4a1a99491fc84e13ed04f198cfa231b87dd49cb1f538b40e0877134:1321',
                       'sha256:6575426a15e17bf65a6950ecdf61c3eee9b6ed3c069b15cfbc7f329864bf4123:1373',
                       '[]'),
 'plain-signal-rpc3': ('sha256:7c46bd8023aa1f95f8d3e0b8aee570e142971358cda2a5be3fbe642a956f0447:12196',
                       'sha256:b2d8574ac408e36070a4de796ebc5f71024878a2c9f43dade62098538d7cebad:1320',
                       'sha256:b243da464b344b36fd60a3ca44356cb1ae0491a2ef76e806edba5fc0e2b39026:1374',
                       '[]'),
 'plain-signal-rpc5': ('sha256:50f85d187e6d426fa988bb8ba92fecd89ba863dcc9fc8f50012c622b52a15060:12125',
                       'sha256:2d4a192d028319aeb4e2ea85634083d4044e24b7fff474be2538c88bad02d6fc:1232',
                       'sha256:310fb422d3a28385a2fefbc1e3ad7f3c4a17474b195cec88cdb7249f42b48da9:1204',
                       '[]'),
 'plain-signal-rpc1024': ('sha256:50f85d187e6d426fa988bb8ba92fecd89ba863dcc9fc8f50012c622b52a15060:12125',
                          'sha256:41515f4ecffa00f3734dfe68357bac3b0bfc700f5eaa3610610939e8a648e2e4:1238',
                          'sha256:310fb422d3a28385a2fefbc1e3ad7f3c4a17474b195cec88cdb7249f42b48da9:1204',
                          '[]'),
 'plain-signal-rpc-1': ("('ok', ('Group', 'HH_scan3', None, ('dict', [('interleaving_id', "
                        '(\'str\', "\'\'")), (\'valid_range\', (\'list\', [(\'int\', \'0\'), '
                        "('int', '1000')])), ('number_of_burst_data', ('int', '2')), "
                        "('coordinates', ('list', []))]), [('data', ('Variable', ('list', "
                        '[(\'str\', "\'rows\'"), (\'str\', "\'columns\'")]), (\'Array\', '
                        "'DirFileSystem', '/product', 'LoggingMemoryFileSystem', "
                        "'IMG-HH-ALOS2225333100-180726-WWDR1.1__D-B3', ('list', []), ('tuple', "
                        '[(\'int\', \'4\'), (\'int\', \'6\')]), (\'str\', "\'uint16\'"), '
                        "'IU2', ('int', '4'), ('dict', [])), ('dict', [])))]))",
                        'sha256:718e249dcc1912afcab8fd13dd491ee401a3bc093e2c80b13049b502c8afe99d:1146',
                        "[('array fs', 'DirFileSystem', '/product'), ('array fs.fs is "
                        "mapper.fs', True), ('variable in group', True), ('values', ('ndarray', "
                        "'uint16', (0, 6), [])), ('row', 'raise', [('builtins', 'IndexError', "
                        "'list index out of range'), ('builtins', 'TypeError', 'list indices "
                        "must be integers or slices, not list')]), ('value requests', "
                        "[('fs.open', '/product/IMG-HH-ALOS2225333100-180726-WWDR1.1__D-B3', (), "
                        "(('mode', 'rb'),)), ('file.enter', "
                        "'/product/IMG-HH-ALOS2225333100-180726-WWDR1.1__D-B3'), ('file.exit', "
                        "'/product/IMG-HH-ALOS2225333100-180726-WWDR1.1__D-B3', None)])]",
                        '[]'),
 'plain-nopol-rpc1': ('sha256:3fab3c09685a63be0756ecab858fa412e455aeaba34a80c14777b811421da5d1:7507',
                      'sha256:9e100b987650d7e5bdbd3178efa6b2a0fb0a35b5a66eae9605ee76e0c5b1ae50:1511',
                      'sha256:07c243d3fb9e5db0c46ba962370865b7fca7ae609d59220b34098700267fe2d4:1749',
                      '[]'),
 'plain-nopol-rpc2': ('sha256:119ed7c4b917ac40a43bd908f0d97b8c0a67a5e349f7c3710f7904027645a6eb:7367',
                      'sha256:d4310cb4f59f3df493cf0c6eb7154dc46bd991c1c47d71f47921ed5557110aea:1348',
                      'sha256:5a07ef15c8437717124a1e62b080d67b7c614e8ee3b4b97b99461b671c67e61a:1434',
                      '[]'),
 'plain-nopol-rpc3': ('sha256:ab8cbd137023f0275705caa304b52e4a50210f8627093212c4e034798e70ca4b:7296',
                      'sha256:6fe8dea99ea7d9b8c48bfa0258dd5a20900bd2d39a33549e05075a31d2108ab3:1266',
                      'sha256:3e65c1faf88243a1cebfa55f4d99d41bcbc6e5612cdc70982b10b38173014193:1276',
                      '[]'),
 'plain-nopol-rpc5': ('sha256:06e49c5cc696e82a41f36da576ab5d14f898b390a00810d046447059adfb2799:7224',
                      'sha256:0c57527b013beb9fa3eb671f2a747dbc9bc839216c35ffd9e33162f38ce4e231:1185',
                      'sha256:b14a13af77a4caa477db4e732f23f3fe33e1976d8ffdbc968dd58241fbad3bf5:1117',
                      '[]'),
 'plain-nopol-rpc1024': ('sha256:06e49c5cc696e82a41f36da576ab5d14f898b390a00810d046447059adfb2799:7224',
                         'sha256:a70913cb8c055755eda70722c5b1ea731834c89357a41fd3a3980c27d3e50571:1191',
                         'sha256:b14a13af77a4caa477db4e732f23f3fe33e1976d8ffdbc968dd58241fbad3bf5:1117',
                         '[]'),
 'plain-nopol-rpc-1': ("('ok', ('Group', '', None, ('dict', [('interleaving_id', ('str', "
                       '"\'\'")), (\'coordinates\', (\'list\', []))]), [(\'data\', '
                       '(\'Variable\', (\'list\', [(\'str\', "\'rows\'"), (\'str\', '
                       '"\'columns\'")]), (\'Array\', \'DirFileSystem\', \'/product\', '
                       "'LoggingMemoryFileSystem', 'IMG-ALOS2290760600-191011-WWDR1.5RUA', "
                       "('list', []), ('tuple', [('int', '5'), ('int', '3')]), ('str', "
                       '"\'complex64\'"), \'C*8\', (\'int\', \'5\'), (\'dict\', [])), (\'dict\', '
                       '[])))]))',
                       'sha256:d1a43d41c0c196b86682d2c35d226f98d88322a75c41c63b37145f9d04712e46:1105',
                       "[('array fs', 'DirFileSystem', '/product'), ('array fs.fs is mapper.fs', "
                       "True), ('variable in group', True), ('values', ('ndarray', 'complex64', "
                       "(0, 3), [])), ('row', 'raise', [('builtins', 'IndexError', 'list index "
                       "out of range'), ('builtins', 'TypeError', 'list indices must be integers "
                       "or slices, not list')]), ('value requests', [('fs.open', "
                       "'/product/IMG-ALOS2290760600-191011-WWDR1.5RUA', (), (('mode', 'rb'),)), "
                       "('file.enter', '/product/IMG-ALOS2290760600-191011-WWDR1.5RUA'), "
                       "('file.exit', '/product/IMG-ALOS2290760600-191011-WWDR1.5RUA', None)])]",
                       '[]'),
 'plain-default-rpc': ('(\'raise\', [(\'builtins\', \'TypeError\', "unsupported operand type(s) '
                       'for /: \'int\' and \'NoneType\'")])',
                       "[('mapper.root',), ('mapper.fs',), ('fs.open', "
                       "'/product/IMG-HV-ALOS2290760600-191011-WWDR1.5RUA', (), (('mode', "
                       "'rb'),)), ('file.enter', "
                       "'/product/IMG-HV-ALOS2290760600-191011-WWDR1.5RUA'), ('call', "
                       "'read_metadata', (('f', 'FileProxy'), ('records_per_chunk', None))), "
                       "('file.read', '/product/IMG-HV-ALOS2290760600-191011-WWDR1.5RUA', "
                       "(720,), (), 0), ('raised', 'read_metadata', 'TypeError'), ('file.exit', "
                       "'/product/IMG-HV-ALOS2290760600-191011-WWDR1.5RUA', 'TypeError')]",
                       '[]',
                       '[]'),
 'plain-explicit-none': ('(\'raise\', [(\'builtins\', \'TypeError\', "unsupported operand '
                         'type(s) for /: \'int\' and \'NoneType\'")])',
                         "[('mapper.root',), ('mapper.fs',), ('fs.open', "
                         "'/product/IMG-HV-ALOS2290760600-191011-WWDR1.5RUA', (), (('mode', "
                         "'rb'),)), ('file.enter', "
                         "'/product/IMG-HV-ALOS2290760600-191011-WWDR1.5RUA'), ('call', "
                         "'read_metadata', (('f', 'FileProxy'), ('records_per_chunk', None))), "
                         "('file.read', '/product/IMG-HV-ALOS2290760600-191011-WWDR1.5RUA', "
                         "(720,), (), 0), ('raised', 'read_metadata', 'TypeError'), "
                         "('file.exit', '/product/IMG-HV-ALOS2290760600-191011-WWDR1.5RUA', "
                         "'TypeError')]",
                         '[]',
                         '[]'),
 "plain-rpc-'auto'": ('(\'raise\', [(\'builtins\', \'TypeError\', "unsupported operand type(s) '
                      'for /: \'int\' and \'str\'")])',
                      "[('mapper.root',), ('mapper.fs',), ('fs.open', "
                      "'/product/IMG-HV-ALOS2290760600-191011-WWDR1.5RUA', (), (('mode', "
                      "'rb'),)), ('file.enter', "
                      "'/product/IMG-HV-ALOS2290760600-191011-WWDR1.5RUA'), ('call', "
                      "'read_metadata', (('f', 'FileProxy'), ('records_per_chunk', 'auto'))), "
                      "('file.read', '/product/IMG-HV-ALOS2290760600-191011-WWDR1.5RUA', (720,), "
                      "(), 0), ('raised', 'read_metadata', 'TypeError'), ('file.exit', "
                      "'/product/IMG-HV-ALOS2290760600-191011-WWDR1.5RUA', 'TypeError')]",
                      '[]',
                      '[]'),
 "plain-rpc-'1MB'": ('(\'raise\', [(\'builtins\', \'TypeError\', "unsupported operand type(s) '
                     'for /: \'int\' and \'str\'")])',
                     "[('mapper.root',), ('mapper.fs',), ('fs.open', "
                     "'/product/IMG-HV-ALOS2290760600-191011-WWDR1.5RUA', (), (('mode', "
                     "'rb'),)), ('file.enter', "
                     "'/product/IMG-HV-ALOS2290760600-191011-WWDR1.5RUA'), ('call', "
                     "'read_metadata', (('f', 'FileProxy'), ('records_per_chunk', '1MB'))), "
                     "('file.read', '/product/IMG-HV-ALOS2290760600-191011-WWDR1.5RUA', (720,), "
                     "(), 0), ('raised', 'read_metadata', 'TypeError'), ('file.exit', "
                     "'/product/IMG-HV-ALOS2290760600-191011-WWDR1.5RUA', 'TypeError')]",
                     '[]',
                     '[]'),
 'plain-rpc-0': ("('raise', [('builtins', 'ZeroDivisionError', 'division by zero')])",
                 "[('mapper.root',), ('mapper.fs',), ('fs.open', "
                 "'/product/IMG-HV-ALOS2290760600-191011-WWDR1.5RUA', (), (('mode', 'rb'),)), "
                 "('file.enter', '/product/IMG-HV-ALOS2290760600-191011-WWDR1.5RUA'), ('call', "
                 "'read_metadata', (('f', 'FileProxy'), ('records_per_chunk', 0))), "
                 "('file.read', '/product/IMG-HV-ALOS2290760600-191011-WWDR1.5RUA', (720,), (), "
                 "0), ('raised', 'read_metadata', 'ZeroDivisionError'), ('file.exit', "
                 "'/product/IMG-HV-ALOS2290760600-191011-WWDR1.5RUA', 'ZeroDivisionError')]",
                 '[]',
                 '[]'),
 'plain-rpc-2.0': ('(\'raise\', [(\'builtins\', \'TypeError\', "argument should be integer or '
                   'None, not \'float\'")])',
                   "[('mapper.root',), ('mapper.fs',), ('fs.open', "
                   "'/product/IMG-HV-ALOS2290760600-191011-WWDR1.5RUA', (), (('mode', 'rb'),)), "
                   "('file.enter', '/product/IMG-HV-ALOS2290760600-191011-WWDR1.5RUA'), ('call', "
                   "'read_metadata', (('f', 'FileProxy'), ('records_per_chunk', 2.0))), "
                   "('file.read', '/product/IMG-HV-ALOS2290760600-191011-WWDR1.5RUA', (720,), "
                   "(), 0), ('file.read', '/product/IMG-HV-ALOS2290760600-191011-WWDR1.5RUA', "
                   "(432.0,), (), 720), ('raised', 'read_metadata', 'TypeError'), ('file.exit', "
                   "'/product/IMG-HV-ALOS2290760600-191011-WWDR1.5RUA', 'TypeError')]",
                   '[]',
                   '[]'),
 'plain-rpc-True': ('sha256:1108fbc520f89a113877820f01f61d3a7161e5fb5d695673596f3bb19d0a6e49:7516',
                    'sha256:571988a83524ea23fd31c2a3f5887010a4bf3b7d64c55f9dca0e43d39159806d:1552',
                    'sha256:8118fc42beb9de426e10935872d44d728c57540479cd0272bb82ceb1b7aeb834:1803',
                    '[]'),
 'plain-nospy': ('sha256:2d6ddffcd94554bbfc4c3f45e1d638e2ce68c25163e752b9a9ced43bf71b1433:7372',
                 "[('mapper.root',), ('mapper.fs',), ('fs.open', "
                 "'/product/IMG-HV-ALOS2290760600-191011-WWDR1.5RUA', (), (('mode', 'rb'),)), "
                 "('file.enter', '/product/IMG-HV-ALOS2290760600-191011-WWDR1.5RUA'), "
                 "('file.read', '/product/IMG-HV-ALOS2290760600-191011-WWDR1.5RUA', (720,), (), "
                 "0), ('file.read', '/product/IMG-HV-ALOS2290760600-191011-WWDR1.5RUA', (432,), "
                 "(), 720), ('file.read', '/product/IMG-HV-ALOS2290760600-191011-WWDR1.5RUA', "
                 "(432,), (), 1152), ('file.read', "
                 "'/product/IMG-HV-ALOS2290760600-191011-WWDR1.5RUA', (216,), (), 1584), "
                 "('file.exit', '/product/IMG-HV-ALOS2290760600-191011-WWDR1.5RUA', None)]",
                 'sha256:22451ec4d8d238c8a76497dbc4796def8b2b8966f8d785d3960e34e3728d4533:1368',
                 '[]'),
 'plain-create-cache-false-explicit': ('sha256:2d6ddffcd94554bbfc4c3f45e1d638e2ce68c25163e752b9a9ced43bf71b1433:7372',
                                       'sha256:677a26729b2f6ff7fa3a0c7fec000bbc09cfbdc5555257f69ebda62dfe9043df:1377',
                                       'sha256:4806ffe7c2157aa58eca55528194ff6e5085f0e7100ee156c9b27d870e7b7ea2:1476',
                                       '[]'),
 'plain-empty-image': ("('ok', ('Group', 'HV', None, ('dict', [('interleaving_id', ('str', "
                       '"\'\'")), (\'coordinates\', (\'list\', []))]), [(\'data\', '
                       '(\'Variable\', (\'list\', [(\'str\', "\'rows\'"), (\'str\', '
                       '"\'columns\'")]), (\'Array\', \'DirFileSystem\', \'/product\', '
                       "'LoggingMemoryFileSystem', 'IMG-HV-ALOS2290760600-191011-WWDR1.5RUA', "
                       "('list', []), ('tuple', [('int', '0'), ('int', '3')]), ('str', "
                       '"\'complex64\'"), \'C*8\', (\'int\', \'0\'), (\'dict\', [])), (\'dict\', '
                       '[])))]))',
                       'sha256:761744fe6f9ba150d228f8508d0fa88e3a27d9e8ee62a013f93ede8c8b095c88:1123',
                       "[('array fs', 'DirFileSystem', '/product'), ('array fs.fs is mapper.fs', "
                       "True), ('variable in group', True), ('values', ('ndarray', 'complex64', "
                       "(0, 3), [])), ('row', 'raise', [('builtins', 'IndexError', 'list index "
                       "out of range'), ('builtins', 'TypeError', 'list indices must be integers "
                       "or slices, not list')]), ('value requests', [('fs.open', "
                       "'/product/IMG-HV-ALOS2290760600-191011-WWDR1.5RUA', (), (('mode', "
                       "'rb'),)), ('file.enter', "
                       "'/product/IMG-HV-ALOS2290760600-191011-WWDR1.5RUA'), ('file.exit', "
                       "'/product/IMG-HV-ALOS2290760600-191011-WWDR1.5RUA', None)])]",
                       '[]'),
 'fail-missing-file': ("('raise', [('builtins', 'FileNotFoundError', "
                       "'/product/IMG-HV-ALOS2290760600-191011-WWDR1.5RUA')])",
                       "[('mapper.root',), ('mapper.fs',), ('fs.open', "
                       "'/product/IMG-HV-ALOS2290760600-191011-WWDR1.5RUA', (), (('mode', "
                       "'rb'),))]",
                       '[]',
                       '[]'),
 'fail-missing-file-with-cache-lookup': ("('raise', [('builtins', 'FileNotFoundError', "
                                         "'/product/IMG-HV-ALOS2290760600-191011-WWDR1.5RUA')])",
                                         "[('call', 'read_cache', (('mapper', 'LoggingMapper'), "
                                         "('path', 'IMG-HV-ALOS2290760600-191011-WWDR1.5RUA'), "
                                         "('records_per_chunk', 2))), ('mapper.root',), "
                                         "('mapper.root',), ('mapper.contains', "
                                         "'IMG-HV-ALOS2290760600-191011-WWDR1.5RUA.index'), "
                                         "('raised', 'read_cache', 'CachingError'), "
                                         "('mapper.root',), ('mapper.fs',), ('fs.open', "
                                         "'/product/IMG-HV-ALOS2290760600-191011-WWDR1.5RUA', "
                                         "(), (('mode', 'rb'),))]",
                                         '[]',
                                         '[]'),
 'fail-truncated-header': ("('raise', [('construct.core', 'StreamError', 'Error in path "
                           '(parsing) -> prefix_suffix_data_locators -> '
                           'sample_data_line_number_locator\\nstream read less than specified '
                           "amount, expected 8, found 4')])",
                           "[('mapper.root',), ('mapper.fs',), ('fs.open', "
                           "'/product/IMG-HV-ALOS2290760600-191011-WWDR1.5RUA', (), (('mode', "
                           "'rb'),)), ('file.enter', "
                           "'/product/IMG-HV-ALOS2290760600-191011-WWDR1.5RUA'), ('call', "
                           "'read_metadata', (('f', 'FileProxy'), ('records_per_chunk', 2))), "
                           "('file.read', '/product/IMG-HV-ALOS2290760600-191011-WWDR1.5RUA', "
                           "(720,), (), 0), ('raised', 'read_metadata', 'StreamError'), "
                           "('file.exit', '/product/IMG-HV-ALOS2290760600-191011-WWDR1.5RUA', "
                           "'StreamError')]",
                           '[]',
                           '[]'),
 'fail-truncated-records': ("('raise', [('builtins', 'ValueError', 'sizes mismatch: chunksize is "
                            "0 but got 211 bytes')])",
                            'sha256:f753ca5ba3f1dcc93f9096a2e54f561a5b64232ec20934182149650f3ebd10aa:725',
                            '[]',
                            '[]'),
 'fail-type-code': ("('raise', [('builtins', 'ValueError', 'unknown type code: F*4')])",
                    'sha256:17e9915487e9ede492bd49afc1ba23cdc9c572803002dadea802d4ad1eca53b3:862',
                    '[]',
                    '[]'),
 'fail-type-code-create-cache': ("('raise', [('builtins', 'ValueError', 'unknown type code: "
                                 "F*4')])",
                                 'sha256:17e9915487e9ede492bd49afc1ba23cdc9c572803002dadea802d4ad1eca53b3:862',
                                 '[]',
                                 '[]'),
 'fail-invalid-name': ("('raise', [('builtins', 'ValueError', 'invalid file name: image.bin')])",
                       'sha256:f3c8aa1480ac1803aa06b2884bc229831fd6808b54fdd546d42e23a9c765359f:1113',
                       '[]',
                       '[]'),
 'fail-invalid-name-create-cache': ("('raise', [('builtins', 'ValueError', 'invalid file name: "
                                    "image.bin')])",
                                    'sha256:f3c8aa1480ac1803aa06b2884bc229831fd6808b54fdd546d42e23a9c765359f:1113',
                                    '[]',
                                    '[]'),
 'fail-invalid-name-with-cache-lookup': ("('raise', [('builtins', 'ValueError', 'invalid file "
                                         "name: image.bin')])",
                                         'sha256:9195ccfebe2963eb816dcbfb9c728c7052e527928e1f0bc131c2644781e24d38:1335',
                                         '[]',
                                         '[]'),
 'fail-rpc-none-create-cache': ('(\'raise\', [(\'builtins\', \'TypeError\', "unsupported operand '
                                'type(s) for /: \'int\' and \'NoneType\'")])',
                                "[('mapper.root',), ('mapper.fs',), ('fs.open', "
                                "'/product/IMG-HV-ALOS2290760600-191011-WWDR1.5RUA', (), "
                                "(('mode', 'rb'),)), ('file.enter', "
                                "'/product/IMG-HV-ALOS2290760600-191011-WWDR1.5RUA'), ('call', "
                                "'read_metadata', (('f', 'FileProxy'), ('records_per_chunk', "
                                "None))), ('file.read', "
                                "'/product/IMG-HV-ALOS2290760600-191011-WWDR1.5RUA', (720,), (), "
                                "0), ('raised', 'read_metadata', 'TypeError'), ('file.exit', "
                                "'/product/IMG-HV-ALOS2290760600-191011-WWDR1.5RUA', "
                                "'TypeError')]",
                                '[]',
                                '[]'),
 'args-positional-flags': ("('raise', [('builtins', 'TypeError', 'open_image() takes 2 "
                           "positional arguments but 3 were given')])",
                           '[]',
                           '[]',
                           '[]'),
 'args-keywords-only': ('sha256:3afa999322ae02cab60b4b601ec88b8b8b4417d73ef7f1238afb91b89dcb01cf:7300',
                        'sha256:efa366699752d6948311cec17922d6fd3d26aa6012d28e24e65dfe8f65cd8bf4:1292',
                        'sha256:be48306860c769bb651d0405d087f3b71d35a50e792bd92134cb1cf593b59bd6:1311',
                        '[]'),
 'args-truthy-flags': ('sha256:3afa999322ae02cab60b4b601ec88b8b8b4417d73ef7f1238afb91b89dcb01cf:7300',
                       'sha256:fcb2b418b80d6996f1293481ddd6611b538914295472d9d64c73f7d35595ec3f:1757',
                       'sha256:fd2bf200f524175a7d819445043677b7bf6b68b456334c3be9f570f4860fb03f:1347',
                       "[('<hash>/IMG-HV-ALOS2290760600-191011-WWDR1.5RUA.index', "
                       "'d757f4a153f021e6', 6490)]"),
 'signature': '(mapper, path, *, use_cache=True, create_cache=False, records_per_chunk=None)',
 'cache-miss-default': ('sha256:2d6ddffcd94554bbfc4c3f45e1d638e2ce68c25163e752b9a9ced43bf71b1433:7372',
                        'sha256:24304fb6ef883781656452cb39e7d4157f04145de3ed19afa64965c00ef75607:1659',
                        'sha256:4806ffe7c2157aa58eca55528194ff6e5085f0e7100ee156c9b27d870e7b7ea2:1476',
                        '[]'),
 'cache-miss-create': ('sha256:2d6ddffcd94554bbfc4c3f45e1d638e2ce68c25163e752b9a9ced43bf71b1433:7372',
                       'sha256:0293929ac76bf24af268770ab75f49140370f03f7de5fdba17c8924d236ebded:1842',
                       'sha256:9745bcde8e0bff3f3d34fa8bc62bd37c2179d3609ffaee5ffd347de3bf9e3468:1512',
                       "[('<hash>/IMG-HV-ALOS2290760600-191011-WWDR1.5RUA.index', "
                       "'d757f4a153f021e6', 6490)]"),
 'cache-skip-create': ('sha256:97f6f576d262bfbbadbe99c92607b3328fe3570662f2cb309dd96b6d95af1f8f:7301',
                       'sha256:21c331b8bc105b1a425c094278902e92cfc942228f1c07d32a06e374f5cb5538:1475',
                       'sha256:e35d91c537bc2954a76ed50508431bbbd86c7c4ede45c4fb57287005c448f717:1348',
                       "[('<hash>/IMG-HV-ALOS2290760600-191011-WWDR1.5RUA.index', "
                       "'d757f4a153f021e6', 6490)]"),
 'cache-signal-create': ('sha256:7c46bd8023aa1f95f8d3e0b8aee570e142971358cda2a5be3fbe642a956f0447:12196',
                         'sha256:cd9a8fae8a3ce313855078e07c4e0fab3f1fc51b13abe8b4697e5ea02e188dae:1506',
                         'sha256:ec5032ddbe9947c01aa45a74c3983e94f9e40153f1b0f5f906eadd2c665bcc27:1410',
                         "[('<hash>/IMG-HH-ALOS2225333100-180726-WWDR1.1__D-B3.index', "
                         "'64c2ebd4b35177fb', 10871)]"),
 'cache-document': 'sha256:1acc944004fe6f59140f87adeb0c2bed78eb4fedb4290c404d5010788b4b618d:6493',
 'cache-remote-valid': ('sha256:6ce20cb1a5246316f5027260ae9216e59790d106c8fd26c1753a407069386c3a:6373',
                        "[('call', 'read_cache', (('mapper', 'LoggingMapper'), ('path', "
                        "'IMG-HV-ALOS2290760600-191011-WWDR1.5RUA'), ('records_per_chunk', 2))), "
                        "('mapper.root',), ('mapper.root',), ('mapper.contains', "
                        "'IMG-HV-ALOS2290760600-191011-WWDR1.5RUA.index'), ('mapper.getitem', "
                        "'IMG-HV-ALOS2290760600-191011-WWDR1.5RUA.index'), ('returned', "
                        "'read_cache', 'Group')]",
                        '[]',
                        '[]'),
 'cache-local-valid': ('sha256:6ce20cb1a5246316f5027260ae9216e59790d106c8fd26c1753a407069386c3a:6373',
                       "[('call', 'read_cache', (('mapper', 'LoggingMapper'), ('path', "
                       "'IMG-HV-ALOS2290760600-191011-WWDR1.5RUA'), ('records_per_chunk', 2))), "
                       "('mapper.root',), ('mapper.root',), ('returned', 'read_cache', 'Group')]",
                       '[]',
                       "[('<hash>/IMG-HV-ALOS2290760600-191011-WWDR1.5RUA.index', "
                       "'992f5c62ef1e00c8', 6491)]"),
 'cache-remote-valid-create': ('sha256:6ce20cb1a5246316f5027260ae9216e59790d106c8fd26c1753a407069386c3a:6373',
                               "[('call', 'read_cache', (('mapper', 'LoggingMapper'), ('path', "
                               "'IMG-HV-ALOS2290760600-191011-WWDR1.5RUA'), "
                               "('records_per_chunk', 2))), ('mapper.root',), ('mapper.root',), "
                               "('mapper.contains', "
                               "'IMG-HV-ALOS2290760600-191011-WWDR1.5RUA.index'), "
                               "('mapper.getitem', "
                               "'IMG-HV-ALOS2290760600-191011-WWDR1.5RUA.index'), ('returned', "
                               "'read_cache', 'Group')]",
                               '[]',
                               '[]'),
 'cache-remote-valid-ignored': ('sha256:2d6ddffcd94554bbfc4c3f45e1d638e2ce68c25163e752b9a9ced43bf71b1433:7372',
                                'sha256:677a26729b2f6ff7fa3a0c7fec000bbc09cfbdc5555257f69ebda62dfe9043df:1377',
                                'sha256:4806ffe7c2157aa58eca55528194ff6e5085f0e7100ee156c9b27d870e7b7ea2:1476',
                                '[]'),
 'cache-remote-invalid-json': ('sha256:2d6ddffcd94554bbfc4c3f45e1d638e2ce68c25163e752b9a9ced43bf71b1433:7372',
                               'sha256:4fc43d86e68f98bf446d40d04147711300a7ead0378a2102139ac49eed7908a3:1728',
                               'sha256:4806ffe7c2157aa58eca55528194ff6e5085f0e7100ee156c9b27d870e7b7ea2:1476',
                               '[]'),
 'cache-local-invalid-json': ('sha256:2d6ddffcd94554bbfc4c3f45e1d638e2ce68c25163e752b9a9ced43bf71b1433:7372',
                              'sha256:5d73cf4271157227a9ed7dc05a4fb7f0b84156536cc9b51e10e03ffd4c64c381:1589',
                              'sha256:4806ffe7c2157aa58eca55528194ff6e5085f0e7100ee156c9b27d870e7b7ea2:1476',
                              "[('<hash>/IMG-HV-ALOS2290760600-191011-WWDR1.5RUA.index', "
                              "'54ee25d308174bb2', 40)]"),
 'cache-remote-invalid-json-create': ('sha256:2d6ddffcd94554bbfc4c3f45e1d638e2ce68c25163e752b9a9ced43bf71b1433:7372',
                                      'sha256:90c939883838b1159acead912b71a74ddb0ff7ccbe72d8e2a81eb562c690aff7:1911',
                                      'sha256:9745bcde8e0bff3f3d34fa8bc62bd37c2179d3609ffaee5ffd347de3bf9e3468:1512',
                                      "[('<hash>/IMG-HV-ALOS2290760600-191011-WWDR1.5RUA.index', "
                                      "'d757f4a153f021e6', 6490)]"),
 'cache-remote-invalid-json-ignored': ('sha256:2d6ddffcd94554bbfc4c3f45e1d638e2ce68c25163e752b9a9ced43bf71b1433:7372',
                                       'sha256:677a26729b2f6ff7fa3a0c7fec000bbc09cfbdc5555257f69ebda62dfe9043df:1377',
                                       'sha256:4806ffe7c2157aa58eca55528194ff6e5085f0e7100ee156c9b27d870e7b7ea2:1476',
                                       '[]'),
 'cache-remote-empty': ('sha256:2d6ddffcd94554bbfc4c3f45e1d638e2ce68c25163e752b9a9ced43bf71b1433:7372',
                        'sha256:4fc43d86e68f98bf446d40d04147711300a7ead0378a2102139ac49eed7908a3:1728',
                        'sha256:4806ffe7c2157aa58eca55528194ff6e5085f0e7100ee156c9b27d870e7b7ea2:1476',
                        '[]'),
 'cache-local-empty': ('sha256:2d6ddffcd94554bbfc4c3f45e1d638e2ce68c25163e752b9a9ced43bf71b1433:7372',
                       'sha256:5d73cf4271157227a9ed7dc05a4fb7f0b84156536cc9b51e10e03ffd4c64c381:1589',
                       'sha256:4806ffe7c2157aa58eca55528194ff6e5085f0e7100ee156c9b27d870e7b7ea2:1476',
                       "[('<hash>/IMG-HV-ALOS2290760600-191011-WWDR1.5RUA.index', "
                       "'e3b0c44298fc1c14', 0)]"),
 'cache-remote-empty-create': ('sha256:2d6ddffcd94554bbfc4c3f45e1d638e2ce68c25163e752b9a9ced43bf71b1433:7372',
                               'sha256:90c939883838b1159acead912b71a74ddb0ff7ccbe72d8e2a81eb562c690aff7:1911',
                               'sha256:9745bcde8e0bff3f3d34fa8bc62bd37c2179d3609ffaee5ffd347de3bf9e3468:1512',
                               "[('<hash>/IMG-HV-ALOS2290760600-191011-WWDR1.5RUA.index', "
                               "'d757f4a153f021e6', 6490)]"),
 'cache-remote-empty-ignored': ('sha256:2d6ddffcd94554bbfc4c3f45e1d638e2ce68c25163e752b9a9ced43bf71b1433:7372',
                                'sha256:677a26729b2f6ff7fa3a0c7fec000bbc09cfbdc5555257f69ebda62dfe9043df:1377',
                                'sha256:4806ffe7c2157aa58eca55528194ff6e5085f0e7100ee156c9b27d870e7b7ea2:1476',
                                '[]'),
 'cache-remote-other-json': ('(\'raise\', [(\'builtins\', \'AttributeError\', "\'list\' object '
                             'has no attribute \'get\'")])',
                             "[('call', 'read_cache', (('mapper', 'LoggingMapper'), ('path', "
                             "'IMG-HV-ALOS2290760600-191011-WWDR1.5RUA'), ('records_per_chunk', "
                             "2))), ('mapper.root',), ('mapper.root',), ('mapper.contains', "
                             "'IMG-HV-ALOS2290760600-191011-WWDR1.5RUA.index'), "
                             "('mapper.getitem', "
                             "'IMG-HV-ALOS2290760600-191011-WWDR1.5RUA.index'), ('raised', "
                             "'read_cache', 'AttributeError')]",
                             '[]',
                             '[]'),
 'cache-local-other-json': ('(\'raise\', [(\'builtins\', \'AttributeError\', "\'list\' object '
                            'has no attribute \'get\'")])',
                            "[('call', 'read_cache', (('mapper', 'LoggingMapper'), ('path', "
                            "'IMG-HV-ALOS2290760600-191011-WWDR1.5RUA'), ('records_per_chunk', "
                            "2))), ('mapper.root',), ('mapper.root',), ('raised', 'read_cache', "
                            "'AttributeError')]",
                            '[]',
                            "[('<hash>/IMG-HV-ALOS2290760600-191011-WWDR1.5RUA.index', "
                            "'a36b1f2c3f84522d', 9)]"),
 'cache-remote-other-json-create': ('(\'raise\', [(\'builtins\', \'AttributeError\', "\'list\' '
                                    'object has no attribute \'get\'")])',
                                    "[('call', 'read_cache', (('mapper', 'LoggingMapper'), "
                                    "('path', 'IMG-HV-ALOS2290760600-191011-WWDR1.5RUA'), "
                                    "('records_per_chunk', 2))), ('mapper.root',), "
                                    "('mapper.root',), ('mapper.contains', "
                                    "'IMG-HV-ALOS2290760600-191011-WWDR1.5RUA.index'), "
                                    "('mapper.getitem', "
                                    "'IMG-HV-ALOS2290760600-191011-WWDR1.5RUA.index'), "
                                    "('raised', 'read_cache', 'AttributeError')]",
                                    '[]',
                                    '[]'),
 'cache-remote-other-json-ignored': ('sha256:2d6ddffcd94554bbfc4c3f45e1d638e2ce68c25163e752b9a9ced43bf71b1433:7372',
                                     'sha256:677a26729b2f6ff7fa3a0c7fec000bbc09cfbdc5555257f69ebda62dfe9043df:1377',
                                     'sha256:4806ffe7c2157aa58eca55528194ff6e5085f0e7100ee156c9b27d870e7b7ea2:1476',
                                     '[]'),
 'cache-remote-json-null': ('(\'raise\', [(\'builtins\', \'AttributeError\', "\'NoneType\' '
                            'object has no attribute \'get\'")])',
                            "[('call', 'read_cache', (('mapper', 'LoggingMapper'), ('path', "
                            "'IMG-HV-ALOS2290760600-191011-WWDR1.5RUA'), ('records_per_chunk', "
                            "2))), ('mapper.root',), ('mapper.root',), ('mapper.contains', "
                            "'IMG-HV-ALOS2290760600-191011-WWDR1.5RUA.index'), "
                            "('mapper.getitem', "
                            "'IMG-HV-ALOS2290760600-191011-WWDR1.5RUA.index'), ('raised', "
                            "'read_cache', 'AttributeError')]",
                            '[]',
                            '[]'),
 'cache-local-json-null': ('(\'raise\', [(\'builtins\', \'AttributeError\', "\'NoneType\' object '
                           'has no attribute \'get\'")])',
                           "[('call', 'read_cache', (('mapper', 'LoggingMapper'), ('path', "
                           "'IMG-HV-ALOS2290760600-191011-WWDR1.5RUA'), ('records_per_chunk', "
                           "2))), ('mapper.root',), ('mapper.root',), ('raised', 'read_cache', "
                           "'AttributeError')]",
                           '[]',
                           "[('<hash>/IMG-HV-ALOS2290760600-191011-WWDR1.5RUA.index', "
                           "'74234e98afe7498f', 4)]"),
 'cache-remote-json-null-create': ("('raise', [('builtins', 'AttributeError', "
                                   '"\'NoneType\' object has no attribute \'get\'")])',
                                   "[('call', 'read_cache', (('mapper', 'LoggingMapper'), "
                                   "('path', 'IMG-HV-ALOS2290760600-191011-WWDR1.5RUA'), "
                                   "('records_per_chunk', 2))), ('mapper.root',), "
                                   "('mapper.root',), ('mapper.contains', "
                                   "'IMG-HV-ALOS2290760600-191011-WWDR1.5RUA.index'), "
                                   "('mapper.getitem', "
                                   "'IMG-HV-ALOS2290760600-191011-WWDR1.5RUA.index'), ('raised', "
                                   "'read_cache', 'AttributeError')]",
                                   '[]',
                                   '[]'),
 'cache-remote-json-null-ignored': ('sha256:2d6ddffcd94554bbfc4c3f45e1d638e2ce68c25163e752b9a9ced43bf71b1433:7372',
                                    'sha256:677a26729b2f6ff7fa3a0c7fec000bbc09cfbdc5555257f69ebda62dfe9043df:1377',
                                    'sha256:4806ffe7c2157aa58eca55528194ff6e5085f0e7100ee156c9b27d870e7b7ea2:1476',
                                    '[]'),
 'cache-remote-valid-no-image': ('sha256:7acd255e3a647c1f924b07579f5fec5a63cacd1d3f53fe1238f7601a75b652d1:6230',
                                 "[('call', 'read_cache', (('mapper', 'LoggingMapper'), ('path', "
                                 "'IMG-HV-ALOS2290760600-191011-WWDR1.5RUA'), "
                                 "('records_per_chunk', 5))), ('mapper.root',), "
                                 "('mapper.root',), ('mapper.contains', "
                                 "'IMG-HV-ALOS2290760600-191011-WWDR1.5RUA.index'), "
                                 "('mapper.getitem', "
                                 "'IMG-HV-ALOS2290760600-191011-WWDR1.5RUA.index'), ('returned', "
                                 "'read_cache', 'Group')]",
                                 '[]',
                                 '[]'),
 'cache-remote-valid-rpc-none': ('sha256:77df4f7848d3b9dffc967f8dfca001884c3ad788128e85cad205418d59c8a945:6233',
                                 "[('call', 'read_cache', (('mapper', 'LoggingMapper'), ('path', "
                                 "'IMG-HV-ALOS2290760600-191011-WWDR1.5RUA'), "
                                 "('records_per_chunk', None))), ('mapper.root',), "
                                 "('mapper.root',), ('mapper.contains', "
                                 "'IMG-HV-ALOS2290760600-191011-WWDR1.5RUA.index'), "
                                 "('mapper.getitem', "
                                 "'IMG-HV-ALOS2290760600-191011-WWDR1.5RUA.index'), ('returned', "
                                 "'read_cache', 'Group')]",
                                 '[]',
                                 '[]'),
 'cache-local-and-remote': ('sha256:6ce20cb1a5246316f5027260ae9216e59790d106c8fd26c1753a407069386c3a:6373',
                            "[('call', 'read_cache', (('mapper', 'LoggingMapper'), ('path', "
                            "'IMG-HV-ALOS2290760600-191011-WWDR1.5RUA'), ('records_per_chunk', "
                            "2))), ('mapper.root',), ('mapper.root',), ('returned', "
                            "'read_cache', 'Group')]",
                            '[]',
                            "[('<hash>/IMG-HV-ALOS2290760600-191011-WWDR1.5RUA.index', "
                            "'992f5c62ef1e00c8', 6491)]"),
 'local-roundtrip': 'sha256:845b0aef5056375f40154f5db2513bf5c9c40522f88754e0bb2ab04170cb0c46:28854',
 'local-remote-cache': 'sha256:96002211f61e1da956112f58e7679e4fdb93e4cee5516f3bcabbd26ec03de50b:40478',
}


def test_equivalence():
    actual = cases()
    assert set(actual) == set(EXPECTED)
    different = {k: (actual[k], EXPECTED[k]) for k in actual if actual[k] != EXPECTED[k]}
    assert not different, different


if __name__ == "__main__":
    if "--record" in sys.argv:
        import pprint

        pprint.pprint(cases(), width=100, sort_dicts=False)
    else:
        test_equivalence()
        print(f"OK: {len(EXPECTED)} outcomes identical ({sar_image.__file__})")
