"""Equivalence check for refactoring 6: results recorded from the unchanged code.

Run: cd /tmp/wt6/e44 && PYTHONPATH=/tmp/wt6/e44 /venv/bin/python _eq/6/equiv.py
(also collectable by pytest: `pytest _eq/6/equiv.py`).
"""
import datetime
import sys

from ceos_alos2.hierarchy import Group, Variable

try:
    ExceptionGroup
except NameError:  # pragma: no cover
    from exceptiongroup import ExceptionGroup


def canon(obj):
    """Canonical, type- and order-preserving text form of a result."""
    if isinstance(obj, Group):
        return (
            f"Group(path={obj.path!r}, url={obj.url!r}, "
            f"data={canon(obj.data)}, attrs={canon(obj.attrs)})"
        )
    if isinstance(obj, Variable):  # pragma: no cover
        return f"Variable(dims={obj.dims!r}, data={obj.data!r}, attrs={canon(obj.attrs)})"
    if type(obj) is dict:
        return "{" + ", ".join(f"{canon(k)}: {canon(v)}" for k, v in obj.items()) + "}"
    if type(obj) is list:
        return "[" + ", ".join(canon(v) for v in obj) + "]"
    if type(obj) is tuple:
        return "(" + ", ".join(canon(v) for v in obj) + ",)"
    if isinstance(obj, (str, bytes, int, float, bool, type(None), datetime.datetime)):
        return f"{type(obj).__name__}:{obj!r}"
    return f"<{type(obj).__qualname__}>:{obj!r}"


def canon_exc(e):
    text = f"{type(e).__name__}{e.args!r}"
    if isinstance(e, ExceptionGroup):
        text += "[" + "; ".join(canon_exc(sub) for sub in e.exceptions) + "]"
    if e.__cause__ is not None:
        text += f" from {canon_exc(e.__cause__)}"
    return text


def outcome(func, *args, **kwargs):
    try:
        result = func(*args, **kwargs)
    except BaseException as e:  # noqa: B902 - StopIteration etc. are part of the record
        return "RAISES " + canon_exc(e)
    return "RETURNS " + canon(result)


def check(cases, expected, run):
    """Run every case; with --record print the table, otherwise compare."""
    actual = {name: run(*case) for name, case in cases.items()}
    if "--record" in sys.argv:
        print("EXPECTED = {")
        for name, value in actual.items():
            print(f"    {name!r}: (\n        {value!r}\n    ),")
        print("}")
        return 0

    assert list(actual) == list(expected), "case list and EXPECTED are out of sync"
    failures = [name for name in cases if actual[name] != expected[name]]
    for name in failures:
        print(f"MISMATCH {name}\n  expected: {expected[name]}\n  actual:   {actual[name]}")
    assert not failures, f"{len(failures)} of {len(cases)} cases differ"
    print(f"ok: {len(cases)} cases identical to the recorded behaviour")
    return 0


import inspect

import fsspec

import ceos_alos2.xarray  # noqa: F401 - not used, only checks that the import chain is intact
from ceos_alos2 import io, sar_image, summary

SUMMARY_TEXT = "\n".join(
    [
        'Scs_SceneID="ALOS2290760600-191011"',
        'Pds_ProductID="WWDR1.1__D"',
        'Pdi_ProductFormat="CEOS"',
        'Pdi_CntOfL11ProductFileName="5"',
        'Pdi_L11ProductFileName01="VOL-ALOS2290760600-191011-WWDR1.1__D"',
        'Pdi_L11ProductFileName02="LED-ALOS2290760600-191011-WWDR1.1__D"',
        'Pdi_L11ProductFileName03="IMG-HH-ALOS2290760600-191011-WWDR1.1__D-F1"',
        'Pdi_L11ProductFileName04="IMG-HV-ALOS2290760600-191011-WWDR1.1__D-F1"',
        'Pdi_L11ProductFileName05="TRL-ALOS2290760600-191011-WWDR1.1__D"',
        'Lbi_ProcessFacility="SCMO"',
    ]
)


class Boom(Exception):
    pass


class Names:
    """Iterable and nothing else (no len, no indexing), with a stable repr."""

    def __init__(self, *names):
        self.names = names

    def __iter__(self):
        return iter(self.names)

    def __repr__(self):
        return f"Names{self.names!r}"


def fake_summary(files):
    return Group(
        path="summary",
        url=None,
        data={
            "product_information": Group(
                path=None,
                url=None,
                data={"data_files": Group(path=None, url=None, data={}, attrs=files)},
                attrs={"BitPixel": 16},
            )
        },
        attrs={},
    )


def files(*imagery, **extra):
    return {"volume_directory": "VOL", "sar_leader": "LED", "sar_imagery": list(imagery), "sar_trailer": "TRL"} | extra


def scenario(
    files=files("IMG-HH", "IMG-HV"),
    summary=None,
    vol_attrs=None,
    fail_at=None,
    error=Boom,
    call=None,
    real_summary=False,
    image_names=None,
    image_url=None,
):
    return dict(
        files=files,
        summary=summary,
        vol_attrs={"volume_id": "A", "created": "2019"} if vol_attrs is None else vol_attrs,
        fail_at=fail_at,
        error=error,
        call=call if call is not None else ((), {}),
        real_summary=real_summary,
        image_names=image_names or {},
        image_url=image_url,
    )


CASES = {
    "defaults": (scenario(),),
    "no_images": (scenario(files=files()),),
    "one_image": (scenario(files=files("IMG-VV")),),
    "four_images": (scenario(files=files("IMG-HH-F1", "IMG-HV-F1", "IMG-HH-F2", "IMG-HV-F2")),),
    "imagery_is_a_tuple": (scenario(files=files() | {"sar_imagery": ("a", "b")}),),
    "imagery_is_only_iterable": (scenario(files=files() | {"sar_imagery": Names("a", "b")}),),
    "imagery_is_a_string": (scenario(files=files() | {"sar_imagery": "xy"}),),
    "duplicate_image_files": (scenario(files=files("IMG-HH", "IMG-HH")),),
    "images_sharing_a_group_name": (
        scenario(files=files("a", "b", "c"), image_names={"a": "same", "c": "same"}),
    ),
    "nested_image_names": (scenario(files=files("a", "b"), image_names={"a": "x/y", "b": "/abs"}),),
    "images_with_own_url": (scenario(image_url="s3://elsewhere"),),
    "options_all": (
        scenario(call=((), dict(create_cache=True, use_cache=False, records_per_chunk=7))),
    ),
    "options_rpc_none": (scenario(call=((), dict(records_per_chunk=None))),),
    "options_create_cache_only": (scenario(call=((), dict(create_cache=True))),),
    "options_truthy_values": (scenario(call=((), dict(create_cache="yes", use_cache=0))),),
    "storage_options": (scenario(call=((), dict(storage_options={"marker": 1}))),),
    "storage_options_empty": (scenario(call=((), dict(storage_options={}))),),
    "vol_attrs_empty": (scenario(vol_attrs={}),),
    "vol_attrs_with_reference_document": (
        scenario(vol_attrs={"a": 1, "reference_document": "old", "z": 2}),
    ),
    "real_summary": (scenario(real_summary=True),),
    "real_summary_options": (
        scenario(real_summary=True, call=((), dict(use_cache=False, records_per_chunk=2048))),
    ),
    # failures: what has been requested before the failure is part of the record
    "fail_summary": (scenario(fail_at="summary"),),
    "fail_summary_missing_file": (scenario(real_summary="missing"),),
    "fail_volume_directory": (scenario(fail_at="volume_directory"),),
    "fail_sar_leader": (scenario(fail_at="sar_leader"),),
    "fail_first_image": (scenario(fail_at="image:IMG-HH"),),
    "fail_second_image": (scenario(fail_at="image:IMG-HV"),),
    "fail_second_image_type_error": (scenario(fail_at="image:IMG-HV", error=TypeError),),
    "fail_first_image_key_error": (scenario(fail_at="image:IMG-HH", error=KeyError),),
    "fail_leader_type_error": (scenario(fail_at="sar_leader", error=TypeError),),
    "no_product_information": (scenario(summary=Group("summary", None, {}, {})),),
    "no_data_files": (
        scenario(
            summary=Group(
                "summary", None, {"product_information": Group(None, None, {}, {})}, {}
            )
        ),
    ),
    "files_without_volume_directory": (scenario(files={"sar_leader": "LED", "sar_imagery": []}),),
    "files_without_leader": (scenario(files={"volume_directory": "VOL", "sar_imagery": ["a"]}),),
    "files_without_imagery": (scenario(files={"volume_directory": "VOL", "sar_leader": "LED"}),),
    "files_without_trailer": (
        scenario(files={"volume_directory": "VOL", "sar_leader": "LED", "sar_imagery": ["a"]}),
    ),
    "imagery_not_iterable": (scenario(files=files() | {"sar_imagery": None}),),
    "vol_attrs_not_a_dict": (scenario(vol_attrs=["a"]),),
    # calling conventions
    "options_positional": (scenario(call=(({},), {})),),
    "unknown_option": (scenario(call=((), dict(chunks=1))),),
    "storage_options_none": (scenario(call=((), dict(storage_options=None))),),
}


def run(spec):
    log = []
    fs = fsspec.filesystem("memory")
    fs.store.clear()
    fs.pipe_file("/product/placeholder", b"")
    if spec["real_summary"] is True:
        fs.pipe_file("/product/summary.txt", SUMMARY_TEXT.encode())

    def fail(stage):
        if spec["fail_at"] == stage:
            raise spec["error"](f"failed at {stage}")

    real_get_mapper = fsspec.get_mapper

    def get_mapper(*args, **kwargs):
        log.append(("get_mapper", args, kwargs))
        kwargs.pop("marker", None)
        return real_get_mapper(*args, **kwargs)

    # error messages name the function: keep them independent of how this file is run
    get_mapper.__module__, get_mapper.__qualname__ = "fsspec.mapping", "get_mapper"

    def open_summary(mapper, path):
        log.append(("summary", mapper.root, path))
        fail("summary")
        if spec["real_summary"]:
            return summary.open_summary(mapper, path)
        if spec["summary"] is not None:
            return spec["summary"]
        return fake_summary(spec["files"])

    def open_volume_directory(mapper, path):
        log.append(("volume_directory", mapper.root, path))
        fail("volume_directory")
        return Group(path=None, url=mapper.root, data={}, attrs=spec["vol_attrs"])

    def open_sar_leader(mapper, path):
        log.append(("sar_leader", mapper.root, path))
        fail("sar_leader")
        return Group(path=None, url=mapper.root, data={}, attrs={"leader": path})

    # same signature as the real one
    def open_image(mapper, path, *, use_cache=True, create_cache=False, records_per_chunk=None):
        options = dict(
            use_cache=use_cache, create_cache=create_cache, records_per_chunk=records_per_chunk
        )
        log.append(("image", mapper.root, path, options))
        fail(f"image:{path}")
        name = spec["image_names"].get(path, path)
        return Group(path=name, url=spec["image_url"], data={}, attrs={"file": path} | options)

    assert inspect.signature(open_image) == inspect.signature(REAL["open_image"])

    patches = [
        (fsspec, "get_mapper", get_mapper),
        (io, "open_summary", open_summary),
        (io, "open_volume_directory", open_volume_directory),
        (io, "open_sar_leader", open_sar_leader),
        (sar_image, "open_image", open_image),
    ]
    args, kwargs = spec["call"]
    for owner, name, replacement in patches:
        setattr(owner, name, replacement)
    try:
        result = outcome(io.open, "memory://product", *args, **kwargs)
    finally:
        setattr(fsspec, "get_mapper", real_get_mapper)
        setattr(io, "open_summary", REAL["open_summary"])
        setattr(io, "open_volume_directory", REAL["open_volume_directory"])
        setattr(io, "open_sar_leader", REAL["open_sar_leader"])
        setattr(sar_image, "open_image", REAL["open_image"])

    return f"{result} AFTER {canon(log)} SIGNATURE {inspect.signature(io.open)}"


REAL = {
    "open_summary": io.open_summary,
    "open_volume_directory": io.open_volume_directory,
    "open_sar_leader": io.open_sar_leader,
    "open_image": sar_image.open_image,
}

# fmt: off
EXPECTED = {
    'defaults': (
        "RETURNS Group(path='/', url='/product', data={str:'summary': Group(path='/summary', url='/product', data={str:'product_information': Group(path='/summary/product_information', url='/product', data={str:'data_files': Group(path='/summary/product_information/data_files', url='/product', data={}, attrs={str:'volume_directory': str:'VOL', str:'sar_leader': str:'LED', str:'sar_imagery': [str:'IMG-HH', str:'IMG-HV'], str:'sar_trailer': str:'TRL'})}, attrs={str:'BitPixel': int:16})}, attrs={}), str:'metadata': Group(path='/metadata', url='/product', data={}, attrs={str:'leader': str:'LED'}), str:'imagery': Group(path='/imagery', url='/product', data={str:'IMG-HH': Group(path='/imagery/IMG-HH', url='/product', data={}, attrs={str:'file': str:'IMG-HH', str:'use_cache': bool:True, str:'create_cache': bool:False, str:'records_per_chunk': int:1024}), str:'IMG-HV': Group(path='/imagery/IMG-HV', url='/product', data={}, attrs={str:'file': str:'IMG-HV', str:'use_cache': bool:True, str:'create_cache': bool:False, str:'records_per_chunk': int:1024})}, attrs={})}, attrs={str:'volume_id': str:'A', str:'created': str:'2019', str:'reference_document': str:'https://www.eorc.jaxa.jp/ALOS-2/en/doc/fdata/PALSAR-2_xx_Format_CEOS_E_f.pdf'}) AFTER [(str:'get_mapper', (str:'memory://product',), {},), (str:'summary', str:'/product', str:'summary.txt',), (str:'volume_directory', str:'/product', str:'VOL',), (str:'sar_leader', str:'/product', str:'LED',), (str:'image', str:'/product', str:'IMG-HH', {str:'use_cache': bool:True, str:'create_cache': bool:False, str:'records_per_chunk': int:1024},), (str:'image', str:'/product', str:'IMG-HV', {str:'use_cache': bool:True, str:'create_cache': bool:False, str:'records_per_chunk': int:1024},)] SIGNATURE (path, *, storage_options={}, create_cache=False, use_cache=True, records_per_chunk=1024)"
    ),
    'no_images': (
        "RETURNS Group(path='/', url='/product', data={str:'summary': Group(path='/summary', url='/product', data={str:'product_information': Group(path='/summary/product_information', url='/product', data={str:'data_files': Group(path='/summary/product_information/data_files', url='/product', data={}, attrs={str:'volume_directory': str:'VOL', str:'sar_leader': str:'LED', str:'sar_imagery': [], str:'sar_trailer': str:'TRL'})}, attrs={str:'BitPixel': int:16})}, attrs={}), str:'metadata': Group(path='/metadata', url='/product', data={}, attrs={str:'leader': str:'LED'}), str:'imagery': Group(path='/imagery', url='/product', data={}, attrs={})}, attrs={str:'volume_id': str:'A', str:'created': str:'2019', str:'reference_document': str:'https://www.eorc.jaxa.jp/ALOS-2/en/doc/fdata/PALSAR-2_xx_Format_CEOS_E_f.pdf'}) AFTER [(str:'get_mapper', (str:'memory://product',), {},), (str:'summary', str:'/product', str:'summary.txt',), (str:'volume_directory', str:'/product', str:'VOL',), (str:'sar_leader', str:'/product', str:'LED',)] SIGNATURE (path, *, storage_options={}, create_cache=False, use_cache=True, records_per_chunk=1024)"
    ),
    'one_image': (
        "RETURNS Group(path='/', url='/product', data={str:'summary': Group(path='/summary', url='/product', data={str:'product_information': Group(path='/summary/product_information', url='/product', data={str:'data_files': Group(path='/summary/product_information/data_files', url='/product', data={}, attrs={str:'volume_directory': str:'VOL', str:'sar_leader': str:'LED', str:'sar_imagery': [str:'IMG-VV'], str:'sar_trailer': str:'TRL'})}, attrs={str:'BitPixel': int:16})}, attrs={}), str:'metadata': Group(path='/metadata', url='/product', data={}, attrs={str:'leader': str:'LED'}), str:'imagery': Group(path='/imagery', url='/product', data={str:'IMG-VV': Group(path='/imagery/IMG-VV', url='/product', data={}, attrs={str:'file': str:'IMG-VV', str:'use_cache': bool:True, str:'create_cache': bool:False, str:'records_per_chunk': int:1024})}, attrs={})}, attrs={str:'volume_id': str:'A', str:'created': str:'2019', str:'reference_document': str:'https://www.eorc.jaxa.jp/ALOS-2/en/doc/fdata/PALSAR-2_xx_Format_CEOS_E_f.pdf'}) AFTER [(str:'get_mapper', (str:'memory://product',), {},), (str:'summary', str:'/product', str:'summary.txt',), (str:'volume_directory', str:'/product', str:'VOL',), (str:'sar_leader', str:'/product', str:'LED',), (str:'image', str:'/product', str:'IMG-VV', {str:'use_cache': bool:True, str:'create_cache': bool:False, str:'records_per_chunk': int:1024},)] SIGNATURE (path, *, storage_options={}, create_cache=False, use_cache=True, records_per_chunk=1024)"
    ),
    'four_images': (
        "RETURNS Group(path='/', url='/product', data={str:'summary': Group(path='/summary', url='/product', data={str:'product_information': Group(path='/summary/product_information', url='/product', data={str:'data_files': Group(path='/summary/product_information/data_files', url='/product', data={}, attrs={str:'volume_directory': str:'VOL', str:'sar_leader': str:'LED', str:'sar_imagery': [str:'IMG-HH-F1', str:'IMG-HV-F1', str:'IMG-HH-F2', str:'IMG-HV-F2'], str:'sar_trailer': str:'TRL'})}, attrs={str:'BitPixel': int:16})}, attrs={}), str:'metadata': Group(path='/metadata', url='/product', data={}, attrs={str:'leader': str:'LED'}), str:'imagery': Group(path='/imagery', url='/product', data={str:'IMG-HH-F1': Group(path='/imagery/IMG-HH-F1', url='/product', data={}, attrs={str:'file': str:'IMG-HH-F1', str:'use_cache': bool:True, str:'create_cache': bool:False, str:'records_per_chunk': int:1024}), str:'IMG-HV-F1': Group(path='/imagery/IMG-HV-F1', url='/product', data={}, attrs={str:'file': str:'IMG-HV-F1', str:'use_cache': bool:True, str:'create_cache': bool:False, str:'records_per_chunk': int:1024}), str:'IMG-HH-F2': Group(path='/imagery/IMG-HH-F2', url='/product', data={}, attrs={str:'file': str:'IMG-HH-F2', str:'use_cache': bool:True, str:'create_cache': bool:False, str:'records_per_chunk': int:1024}), str:'IMG-HV-F2': Group(path='/imagery/IMG-HV-F2', url='/product', data={}, attrs={str:'file': str:'IMG-HV-F2', str:'use_cache': bool:True, str:'create_cache': bool:False, str:'records_per_chunk': int:1024})}, attrs={})}, attrs={str:'volume_id': str:'A', str:'created': str:'2019', str:'reference_document': str:'https://www.eorc.jaxa.jp/ALOS-2/en/doc/fdata/PALSAR-2_xx_Format_CEOS_E_f.pdf'}) AFTER [(str:'get_mapper', (str:'memory://product',), {},), (str:'summary', str:'/product', str:'summary.txt',), (str:'volume_directory', str:'/product', str:'VOL',), (str:'sar_leader', str:'/product', str:'LED',), (str:'image', str:'/product', str:'IMG-HH-F1', {str:'use_cache': bool:True, str:'create_cache': bool:False, str:'records_per_chunk': int:1024},), (str:'image', str:'/product', str:'IMG-HV-F1', {str:'use_cache': bool:True, str:'create_cache': bool:False, str:'records_per_chunk': int:1024},), (str:'image', str:'/product', str:'IMG-HH-F2', {str:'use_cache': bool:True, str:'create_cache': bool:False, str:'records_per_chunk': int:1024},), (str:'image', str:'/product', str:'IMG-HV-F2', {str:'use_cache': bool:True, str:'create_cache': bool:False, str:'records_per_chunk': int:1024},)] SIGNATURE (path, *, storage_options={}, create_cache=False, use_cache=True, records_per_chunk=1024)"
    ),
    'imagery_is_a_tuple': (
        "RETURNS Group(path='/', url='/product', data={str:'summary': Group(path='/summary', url='/product', data={str:'product_information': Group(path='/summary/product_information', url='/product', data={str:'data_files': Group(path='/summary/product_information/data_files', url='/product', data={}, attrs={str:'volume_directory': str:'VOL', str:'sar_leader': str:'LED', str:'sar_imagery': (str:'a', str:'b',), str:'sar_trailer': str:'TRL'})}, attrs={str:'BitPixel': int:16})}, attrs={}), str:'metadata': Group(path='/metadata', url='/product', data={}, attrs={str:'leader': str:'LED'}), str:'imagery': Group(path='/imagery', url='/product', data={str:'a': Group(path='/imagery/a', url='/product', data={}, attrs={str:'file': str:'a', str:'use_cache': bool:True, str:'create_cache': bool:False, str:'records_per_chunk': int:1024}), str:'b': Group(path='/imagery/b', url='/product', data={}, attrs={str:'file': str:'b', str:'use_cache': bool:True, str:'create_cache': bool:False, str:'records_per_chunk': int:1024})}, attrs={})}, attrs={str:'volume_id': str:'A', str:'created': str:'2019', str:'reference_document': str:'https://www.eorc.jaxa.jp/ALOS-2/en/doc/fdata/PALSAR-2_xx_Format_CEOS_E_f.pdf'}) AFTER [(str:'get_mapper', (str:'memory://product',), {},), (str:'summary', str:'/product', str:'summary.txt',), (str:'volume_directory', str:'/product', str:'VOL',), (str:'sar_leader', str:'/product', str:'LED',), (str:'image', str:'/product', str:'a', {str:'use_cache': bool:True, str:'create_cache': bool:False, str:'records_per_chunk': int:1024},), (str:'image', str:'/product', str:'b', {str:'use_cache': bool:True, str:'create_cache': bool:False, str:'records_per_chunk': int:1024},)] SIGNATURE (path, *, storage_options={}, create_cache=False, use_cache=True, records_per_chunk=1024)"
    ),
    'imagery_is_only_iterable': (
        "RETURNS Group(path='/', url='/product', data={str:'summary': Group(path='/summary', url='/product', data={str:'product_information': Group(path='/summary/product_information', url='/product', data={str:'data_files': Group(path='/summary/product_information/data_files', url='/product', data={}, attrs={str:'volume_directory': str:'VOL', str:'sar_leader': str:'LED', str:'sar_imagery': <Names>:Names('a', 'b'), str:'sar_trailer': str:'TRL'})}, attrs={str:'BitPixel': int:16})}, attrs={}), str:'metadata': Group(path='/metadata', url='/product', data={}, attrs={str:'leader': str:'LED'}), str:'imagery': Group(path='/imagery', url='/product', data={str:'a': Group(path='/imagery/a', url='/product', data={}, attrs={str:'file': str:'a', str:'use_cache': bool:True, str:'create_cache': bool:False, str:'records_per_chunk': int:1024}), str:'b': Group(path='/imagery/b', url='/product', data={}, attrs={str:'file': str:'b', str:'use_cache': bool:True, str:'create_cache': bool:False, str:'records_per_chunk': int:1024})}, attrs={})}, attrs={str:'volume_id': str:'A', str:'created': str:'2019', str:'reference_document': str:'https://www.eorc.jaxa.jp/ALOS-2/en/doc/fdata/PALSAR-2_xx_Format_CEOS_E_f.pdf'}) AFTER [(str:'get_mapper', (str:'memory://product',), {},), (str:'summary', str:'/product', str:'summary.txt',), (str:'volume_directory', str:'/product', str:'VOL',), (str:'sar_leader', str:'/product', str:'LED',), (str:'image', str:'/product', str:'a', {str:'use_cache': bool:True, str:'create_cache': bool:False, str:'records_per_chunk': int:1024},), (str:'image', str:'/product', str:'b', {str:'use_cache': bool:True, str:'create_cache': bool:False, str:'records_per_chunk': int:1024},)] SIGNATURE (path, *, storage_options={}, create_cache=False, use_cache=True, records_per_chunk=1024)"
    ),
    'imagery_is_a_string': (
        "RETURNS Group(path='/', url='/product', data={str:'summary': Group(path='/summary', url='/product', data={str:'product_information': Group(path='/summary/product_information', url='/product', data={str:'data_files': Group(path='/summary/product_information/data_files', url='/product', data={}, attrs={str:'volume_directory': str:'VOL', str:'sar_leader': str:'LED', str:'sar_imagery': str:'xy', str:'sar_trailer': str:'TRL'})}, attrs={str:'BitPixel': int:16})}, attrs={}), str:'metadata': Group(path='/metadata', url='/product', data={}, attrs={str:'leader': str:'LED'}), str:'imagery': Group(path='/imagery', url='/product', data={str:'x': Group(path='/imagery/x', url='/product', data={}, attrs={str:'file': str:'x', str:'use_cache': bool:True, str:'create_cache': bool:False, str:'records_per_chunk': int:1024}), str:'y': Group(path='/imagery/y', url='/product', data={}, attrs={str:'file': str:'y', str:'use_cache': bool:True, str:'create_cache': bool:False, str:'records_per_chunk': int:1024})}, attrs={})}, attrs={str:'volume_id': str:'A', str:'created': str:'2019', str:'reference_document': str:'https://www.eorc.jaxa.jp/ALOS-2/en/doc/fdata/PALSAR-2_xx_Format_CEOS_E_f.pdf'}) AFTER [(str:'get_mapper', (str:'memory://product',), {},), (str:'summary', str:'/product', str:'summary.txt',), (str:'volume_directory', str:'/product', str:'VOL',), (str:'sar_leader', str:'/product', str:'LED',), (str:'image', str:'/product', str:'x', {str:'use_cache': bool:True, str:'create_cache': bool:False, str:'records_per_chunk': int:1024},), (str:'image', str:'/product', str:'y', {str:'use_cache': bool:True, str:'create_cache': bool:False, str:'records_per_chunk': int:1024},)] SIGNATURE (path, *, storage_options={}, create_cache=False, use_cache=True, records_per_chunk=1024)"
    ),
    'duplicate_image_files': (
        "RETURNS Group(path='/', url='/product', data={str:'summary': Group(path='/summary', url='/product', data={str:'product_information': Group(path='/summary/product_information', url='/product', data={str:'data_files': Group(path='/summary/product_information/data_files', url='/product', data={}, attrs={str:'volume_directory': str:'VOL', str:'sar_leader': str:'LED', str:'sar_imagery': [str:'IMG-HH', str:'IMG-HH'], str:'sar_trailer': str:'TRL'})}, attrs={str:'BitPixel': int:16})}, attrs={}), str:'metadata': Group(path='/metadata', url='/product', data={}, attrs={str:'leader': str:'LED'}), str:'imagery': Group(path='/imagery', url='/product', data={str:'IMG-HH': Group(path='/imagery/IMG-HH', url='/product', data={}, attrs={str:'file': str:'IMG-HH', str:'use_cache': bool:True, str:'create_cache': bool:False, str:'records_per_chunk': int:1024})}, attrs={})}, attrs={str:'volume_id': str:'A', str:'created': str:'2019', str:'reference_document': str:'https://www.eorc.jaxa.jp/ALOS-2/en/doc/fdata/PALSAR-2_xx_Format_CEOS_E_f.pdf'}) AFTER [(str:'get_mapper', (str:'memory://product',), {},), (str:'summary', str:'/product', str:'summary.txt',), (str:'volume_directory', str:'/product', str:'VOL',), (str:'sar_leader', str:'/product', str:'LED',), (str:'image', str:'/product', str:'IMG-HH', {str:'use_cache': bool:True, str:'create_cache': bool:False, str:'records_per_chunk': int:1024},), (str:'image', str:'/product', str:'IMG-HH', {str:'use_cache': bool:True, str:'create_cache': bool:False, str:'records_per_chunk': int:1024},)] SIGNATURE (path, *, storage_options={}, create_cache=False, use_cache=True, records_per_chunk=1024)"
    ),
    'images_sharing_a_group_name': (
        "RETURNS Group(path='/', url='/product', data={str:'summary': Group(path='/summary', url='/product', data={str:'product_information': Group(path='/summary/product_information', url='/product', data={str:'data_files': Group(path='/summary/product_information/data_files', url='/product', data={}, attrs={str:'volume_directory': str:'VOL', str:'sar_leader': str:'LED', str:'sar_imagery': [str:'a', str:'b', str:'c'], str:'sar_trailer': str:'TRL'})}, attrs={str:'BitPixel': int:16})}, attrs={}), str:'metadata': Group(path='/metadata', url='/product', data={}, attrs={str:'leader': str:'LED'}), str:'imagery': Group(path='/imagery', url='/product', data={str:'same': Group(path='/imagery/same', url='/product', data={}, attrs={str:'file': str:'c', str:'use_cache': bool:True, str:'create_cache': bool:False, str:'records_per_chunk': int:1024}), str:'b': Group(path='/imagery/b', url='/product', data={}, attrs={str:'file': str:'b', str:'use_cache': bool:True, str:'create_cache': bool:False, str:'records_per_chunk': int:1024})}, attrs={})}, attrs={str:'volume_id': str:'A', str:'created': str:'2019', str:'reference_document': str:'https://www.eorc.jaxa.jp/ALOS-2/en/doc/fdata/PALSAR-2_xx_Format_CEOS_E_f.pdf'}) AFTER [(str:'get_mapper', (str:'memory://product',), {},), (str:'summary', str:'/product', str:'summary.txt',), (str:'volume_directory', str:'/product', str:'VOL',), (str:'sar_leader', str:'/product', str:'LED',), (str:'image', str:'/product', str:'a', {str:'use_cache': bool:True, str:'create_cache': bool:False, str:'records_per_chunk': int:1024},), (str:'image', str:'/product', str:'b', {str:'use_cache': bool:True, str:'create_cache': bool:False, str:'records_per_chunk': int:1024},), (str:'image', str:'/product', str:'c', {str:'use_cache': bool:True, str:'create_cache': bool:False, str:'records_per_chunk': int:1024},)] SIGNATURE (path, *, storage_options={}, create_cache=False, use_cache=True, records_per_chunk=1024)"
    ),
    'nested_image_names': (
        "RETURNS Group(path='/', url='/product', data={str:'summary': Group(path='/summary', url='/product', data={str:'product_information': Group(path='/summary/product_information', url='/product', data={str:'data_files': Group(path='/summary/product_information/data_files', url='/product', data={}, attrs={str:'volume_directory': str:'VOL', str:'sar_leader': str:'LED', str:'sar_imagery': [str:'a', str:'b'], str:'sar_trailer': str:'TRL'})}, attrs={str:'BitPixel': int:16})}, attrs={}), str:'metadata': Group(path='/metadata', url='/product', data={}, attrs={str:'leader': str:'LED'}), str:'imagery': Group(path='/imagery', url='/product', data={str:'y': Group(path='/imagery/y', url='/product', data={}, attrs={str:'file': str:'a', str:'use_cache': bool:True, str:'create_cache': bool:False, str:'records_per_chunk': int:1024}), str:'abs': Group(path='/imagery/abs', url='/product', data={}, attrs={str:'file': str:'b', str:'use_cache': bool:True, str:'create_cache': bool:False, str:'records_per_chunk': int:1024})}, attrs={})}, attrs={str:'volume_id': str:'A', str:'created': str:'2019', str:'reference_document': str:'https://www.eorc.jaxa.jp/ALOS-2/en/doc/fdata/PALSAR-2_xx_Format_CEOS_E_f.pdf'}) AFTER [(str:'get_mapper', (str:'memory://product',), {},), (str:'summary', str:'/product', str:'summary.txt',), (str:'volume_directory', str:'/product', str:'VOL',), (str:'sar_leader', str:'/product', str:'LED',), (str:'image', str:'/product', str:'a', {str:'use_cache': bool:True, str:'create_cache': bool:False, str:'records_per_chunk': int:1024},), (str:'image', str:'/product', str:'b', {str:'use_cache': bool:True, str:'create_cache': bool:False, str:'records_per_chunk': int:1024},)] SIGNATURE (path, *, storage_options={}, create_cache=False, use_cache=True, records_per_chunk=1024)"
    ),
    'images_with_own_url': (
        "RETURNS Group(path='/', url='/product', data={str:'summary': Group(path='/summary', url='/product', data={str:'product_information': Group(path='/summary/product_information', url='/product', data={str:'data_files': Group(path='/summary/product_information/data_files', url='/product', data={}, attrs={str:'volume_directory': str:'VOL', str:'sar_leader': str:'LED', str:'sar_imagery': [str:'IMG-HH', str:'IMG-HV'], str:'sar_trailer': str:'TRL'})}, attrs={str:'BitPixel': int:16})}, attrs={}), str:'metadata': Group(path='/metadata', url='/product', data={}, attrs={str:'leader': str:'LED'}), str:'imagery': Group(path='/imagery', url='/product', data={str:'IMG-HH': Group(path='/imagery/IMG-HH', url='s3://elsewhere', data={}, attrs={str:'file': str:'IMG-HH', str:'use_cache': bool:True, str:'create_cache': bool:False, str:'records_per_chunk': int:1024}), str:'IMG-HV': Group(path='/imagery/IMG-HV', url='s3://elsewhere', data={}, attrs={str:'file': str:'IMG-HV', str:'use_cache': bool:True, str:'create_cache': bool:False, str:'records_per_chunk': int:1024})}, attrs={})}, attrs={str:'volume_id': str:'A', str:'created': str:'2019', str:'reference_document': str:'https://www.eorc.jaxa.jp/ALOS-2/en/doc/fdata/PALSAR-2_xx_Format_CEOS_E_f.pdf'}) AFTER [(str:'get_mapper', (str:'memory://product',), {},), (str:'summary', str:'/product', str:'summary.txt',), (str:'volume_directory', str:'/product', str:'VOL',), (str:'sar_leader', str:'/product', str:'LED',), (str:'image', str:'/product', str:'IMG-HH', {str:'use_cache': bool:True, str:'create_cache': bool:False, str:'records_per_chunk': int:1024},), (str:'image', str:'/product', str:'IMG-HV', {str:'use_cache': bool:True, str:'create_cache': bool:False, str:'records_per_chunk': int:1024},)] SIGNATURE (path, *, storage_options={}, create_cache=False, use_cache=True, records_per_chunk=1024)"
    ),
    'options_all': (
        "RETURNS Group(path='/', url='/product', data={str:'summary': Group(path='/summary', url='/product', data={str:'product_information': Group(path='/summary/product_information', url='/product', data={str:'data_files': Group(path='/summary/product_information/data_files', url='/product', data={}, attrs={str:'volume_directory': str:'VOL', str:'sar_leader': str:'LED', str:'sar_imagery': [str:'IMG-HH', str:'IMG-HV'], str:'sar_trailer': str:'TRL'})}, attrs={str:'BitPixel': int:16})}, attrs={}), str:'metadata': Group(path='/metadata', url='/product', data={}, attrs={str:'leader': str:'LED'}), str:'imagery': Group(path='/imagery', url='/product', data={str:'IMG-HH': Group(path='/imagery/IMG-HH', url='/product', data={}, attrs={str:'file': str:'IMG-HH', str:'use_cache': bool:False, str:'create_cache': bool:True, str:'records_per_chunk': int:7}), str:'IMG-HV': Group(path='/imagery/IMG-HV', url='/product', data={}, attrs={str:'file': str:'IMG-HV', str:'use_cache': bool:False, str:'create_cache': bool:True, str:'records_per_chunk': int:7})}, attrs={})}, attrs={str:'volume_id': str:'A', str:'created': str:'2019', str:'reference_document': str:'https://www.eorc.jaxa.jp/ALOS-2/en/doc/fdata/PALSAR-2_xx_Format_CEOS_E_f.pdf'}) AFTER [(str:'get_mapper', (str:'memory://product',), {},), (str:'summary', str:'/product', str:'summary.txt',), (str:'volume_directory', str:'/product', str:'VOL',), (str:'sar_leader', str:'/product', str:'LED',), (str:'image', str:'/product', str:'IMG-HH', {str:'use_cache': bool:False, str:'create_cache': bool:True, str:'records_per_chunk': int:7},), (str:'image', str:'/product', str:'IMG-HV', {str:'use_cache': bool:False, str:'create_cache': bool:True, str:'records_per_chunk': int:7},)] SIGNATURE (path, *, storage_options={}, create_cache=False, use_cache=True, records_per_chunk=1024)"
    ),
    'options_rpc_none': (
        "RETURNS Group(path='/', url='/product', data={str:'summary': Group(path='/summary', url='/product', data={str:'product_information': Group(path='/summary/product_information', url='/product', data={str:'data_files': Group(path='/summary/product_information/data_files', url='/product', data={}, attrs={str:'volume_directory': str:'VOL', str:'sar_leader': str:'LED', str:'sar_imagery': [str:'IMG-HH', str:'IMG-HV'], str:'sar_trailer': str:'TRL'})}, attrs={str:'BitPixel': int:16})}, attrs={}), str:'metadata': Group(path='/metadata', url='/product', data={}, attrs={str:'leader': str:'LED'}), str:'imagery': Group(path='/imagery', url='/product', data={str:'IMG-HH': Group(path='/imagery/IMG-HH', url='/product', data={}, attrs={str:'file': str:'IMG-HH', str:'use_cache': bool:True, str:'create_cache': bool:False, str:'records_per_chunk': NoneType:None}), str:'IMG-HV': Group(path='/imagery/IMG-HV', url='/product', data={}, attrs={str:'file': str:'IMG-HV', str:'use_cache': bool:True, str:'create_cache': bool:False, str:'records_per_chunk': NoneType:None})}, attrs={})}, attrs={str:'volume_id': str:'A', str:'created': str:'2019', str:'reference_document': str:'https://www.eorc.jaxa.jp/ALOS-2/en/doc/fdata/PALSAR-2_xx_Format_CEOS_E_f.pdf'}) AFTER [(str:'get_mapper', (str:'memory://product',), {},), (str:'summary', str:'/product', str:'summary.txt',), (str:'volume_directory', str:'/product', str:'VOL',), (str:'sar_leader', str:'/product', str:'LED',), (str:'image', str:'/product', str:'IMG-HH', {str:'use_cache': bool:True, str:'create_cache': bool:False, str:'records_per_chunk': NoneType:None},), (str:'image', str:'/product', str:'IMG-HV', {str:'use_cache': bool:True, str:'create_cache': bool:False, str:'records_per_chunk': NoneType:None},)] SIGNATURE (path, *, storage_options={}, create_cache=False, use_cache=True, records_per_chunk=1024)"
    ),
    'options_create_cache_only': (
        "RETURNS Group(path='/', url='/product', data={str:'summary': Group(path='/summary', url='/product', data={str:'product_information': Group(path='/summary/product_information', url='/product', data={str:'data_files': Group(path='/summary/product_information/data_files', url='/product', data={}, attrs={str:'volume_directory': str:'VOL', str:'sar_leader': str:'LED', str:'sar_imagery': [str:'IMG-HH', str:'IMG-HV'], str:'sar_trailer': str:'TRL'})}, attrs={str:'BitPixel': int:16})}, attrs={}), str:'metadata': Group(path='/metadata', url='/product', data={}, attrs={str:'leader': str:'LED'}), str:'imagery': Group(path='/imagery', url='/product', data={str:'IMG-HH': Group(path='/imagery/IMG-HH', url='/product', data={}, attrs={str:'file': str:'IMG-HH', str:'use_cache': bool:True, str:'create_cache': bool:True, str:'records_per_chunk': int:1024}), str:'IMG-HV': Group(path='/imagery/IMG-HV', url='/product', data={}, attrs={str:'file': str:'IMG-HV', str:'use_cache': bool:True, str:'create_cache': bool:True, str:'records_per_chunk': int:1024})}, attrs={})}, attrs={str:'volume_id': str:'A', str:'created': str:'2019', str:'reference_document': str:'https://www.eorc.jaxa.jp/ALOS-2/en/doc/fdata/PALSAR-2_xx_Format_CEOS_E_f.pdf'}) AFTER [(str:'get_mapper', (str:'memory://product',), {},), (str:'summary', str:'/product', str:'summary.txt',), (str:'volume_directory', str:'/product', str:'VOL',), (str:'sar_leader', str:'/product', str:'LED',), (str:'image', str:'/product', str:'IMG-HH', {str:'use_cache': bool:True, str:'create_cache': bool:True, str:'records_per_chunk': int:1024},), (str:'image', str:'/product', str:'IMG-HV', {str:'use_cache': bool:True, str:'create_cache': bool:True, str:'records_per_chunk': int:1024},)] SIGNATURE (path, *, storage_options={}, create_cache=False, use_cache=True, records_per_chunk=1024)"
    ),
    'options_truthy_values': (
        "RETURNS Group(path='/', url='/product', data={str:'summary': Group(path='/summary', url='/product', data={str:'product_information': Group(path='/summary/product_information', url='/product', data={str:'data_files': Group(path='/summary/product_information/data_files', url='/product', data={}, attrs={str:'volume_directory': str:'VOL', str:'sar_leader': str:'LED', str:'sar_imagery': [str:'IMG-HH', str:'IMG-HV'], str:'sar_trailer': str:'TRL'})}, attrs={str:'BitPixel': int:16})}, attrs={}), str:'metadata': Group(path='/metadata', url='/product', data={}, attrs={str:'leader': str:'LED'}), str:'imagery': Group(path='/imagery', url='/product', data={str:'IMG-HH': Group(path='/imagery/IMG-HH', url='/product', data={}, attrs={str:'file': str:'IMG-HH', str:'use_cache': int:0, str:'create_cache': str:'yes', str:'records_per_chunk': int:1024}), str:'IMG-HV': Group(path='/imagery/IMG-HV', url='/product', data={}, attrs={str:'file': str:'IMG-HV', str:'use_cache': int:0, str:'create_cache': str:'yes', str:'records_per_chunk': int:1024})}, attrs={})}, attrs={str:'volume_id': str:'A', str:'created': str:'2019', str:'reference_document': str:'https://www.eorc.jaxa.jp/ALOS-2/en/doc/fdata/PALSAR-2_xx_Format_CEOS_E_f.pdf'}) AFTER [(str:'get_mapper', (str:'memory://product',), {},), (str:'summary', str:'/product', str:'summary.txt',), (str:'volume_directory', str:'/product', str:'VOL',), (str:'sar_leader', str:'/product', str:'LED',), (str:'image', str:'/product', str:'IMG-HH', {str:'use_cache': int:0, str:'create_cache': str:'yes', str:'records_per_chunk': int:1024},), (str:'image', str:'/product', str:'IMG-HV', {str:'use_cache': int:0, str:'create_cache': str:'yes', str:'records_per_chunk': int:1024},)] SIGNATURE (path, *, storage_options={}, create_cache=False, use_cache=True, records_per_chunk=1024)"
    ),
    'storage_options': (
        "RETURNS Group(path='/', url='/product', data={str:'summary': Group(path='/summary', url='/product', data={str:'product_information': Group(path='/summary/product_information', url='/product', data={str:'data_files': Group(path='/summary/product_information/data_files', url='/product', data={}, attrs={str:'volume_directory': str:'VOL', str:'sar_leader': str:'LED', str:'sar_imagery': [str:'IMG-HH', str:'IMG-HV'], str:'sar_trailer': str:'TRL'})}, attrs={str:'BitPixel': int:16})}, attrs={}), str:'metadata': Group(path='/metadata', url='/product', data={}, attrs={str:'leader': str:'LED'}), str:'imagery': Group(path='/imagery', url='/product', data={str:'IMG-HH': Group(path='/imagery/IMG-HH', url='/product', data={}, attrs={str:'file': str:'IMG-HH', str:'use_cache': bool:True, str:'create_cache': bool:False, str:'records_per_chunk': int:1024}), str:'IMG-HV': Group(path='/imagery/IMG-HV', url='/product', data={}, attrs={str:'file': str:'IMG-HV', str:'use_cache': bool:True, str:'create_cache': bool:False, str:'records_per_chunk': int:1024})}, attrs={})}, attrs={str:'volume_id': str:'A', str:'created': str:'2019', str:'reference_document': str:'https://www.eorc.jaxa.jp/ALOS-2/en/doc/fdata/PALSAR-2_xx_Format_CEOS_E_f.pdf'}) AFTER [(str:'get_mapper', (str:'memory://product',), {},), (str:'summary', str:'/product', str:'summary.txt',), (str:'volume_directory', str:'/product', str:'VOL',), (str:'sar_leader', str:'/product', str:'LED',), (str:'image', str:'/product', str:'IMG-HH', {str:'use_cache': bool:True, str:'create_cache': bool:False, str:'records_per_chunk': int:1024},), (str:'image', str:'/product', str:'IMG-HV', {str:'use_cache': bool:True, str:'create_cache': bool:False, str:'records_per_chunk': int:1024},)] SIGNATURE (path, *, storage_options={}, create_cache=False, use_cache=True, records_per_chunk=1024)"
    ),
    'storage_options_empty': (
        "RETURNS Group(path='/', url='/product', data={str:'summary': Group(path='/summary', url='/product', data={str:'product_information': Group(path='/summary/product_information', url='/product', data={str:'data_files': Group(path='/summary/product_information/data_files', url='/product', data={}, attrs={str:'volume_directory': str:'VOL', str:'sar_leader': str:'LED', str:'sar_imagery': [str:'IMG-HH', str:'IMG-HV'], str:'sar_trailer': str:'TRL'})}, attrs={str:'BitPixel': int:16})}, attrs={}), str:'metadata': Group(path='/metadata', url='/product', data={}, attrs={str:'leader': str:'LED'}), str:'imagery': Group(path='/imagery', url='/product', data={str:'IMG-HH': Group(path='/imagery/IMG-HH', url='/product', data={}, attrs={str:'file': str:'IMG-HH', str:'use_cache': bool:True, str:'create_cache': bool:False, str:'records_per_chunk': int:1024}), str:'IMG-HV': Group(path='/imagery/IMG-HV', url='/product', data={}, attrs={str:'file': str:'IMG-HV', str:'use_cache': bool:True, str:'create_cache': bool:False, str:'records_per_chunk': int:1024})}, attrs={})}, attrs={str:'volume_id': str:'A', str:'created': str:'2019', str:'reference_document': str:'https://www.eorc.jaxa.jp/ALOS-2/en/doc/fdata/PALSAR-2_xx_Format_CEOS_E_f.pdf'}) AFTER [(str:'get_mapper', (str:'memory://product',), {},), (str:'summary', str:'/product', str:'summary.txt',), (str:'volume_directory', str:'/product', str:'VOL',), (str:'sar_leader', str:'/product', str:'LED',), (str:'image', str:'/product', str:'IMG-HH', {str:'use_cache': bool:True, str:'create_cache': bool:False, str:'records_per_chunk': int:1024},), (str:'image', str:'/product', str:'IMG-HV', {str:'use_cache': bool:True, str:'create_cache': bool:False, str:'records_per_chunk': int:1024},)] SIGNATURE (path, *, storage_options={}, create_cache=False, use_cache=True, records_per_chunk=1024)"
    ),
    'vol_attrs_empty': (
        "RETURNS Group(path='/', url='/product', data={str:'summary': Group(path='/summary', url='/product', data={str:'product_information': Group(path='/summary/product_information', url='/product', data={str:'data_files': Group(path='/summary/product_information/data_files', url='/product', data={}, attrs={str:'volume_directory': str:'VOL', str:'sar_leader': str:'LED', str:'sar_imagery': [str:'IMG-HH', str:'IMG-HV'], str:'sar_trailer': str:'TRL'})}, attrs={str:'BitPixel': int:16})}, attrs={}), str:'metadata': Group(path='/metadata', url='/product', data={}, attrs={str:'leader': str:'LED'}), str:'imagery': Group(path='/imagery', url='/product', data={str:'IMG-HH': Group(path='/imagery/IMG-HH', url='/product', data={}, attrs={str:'file': str:'IMG-HH', str:'use_cache': bool:True, str:'create_cache': bool:False, str:'records_per_chunk': int:1024}), str:'IMG-HV': Group(path='/imagery/IMG-HV', url='/product', data={}, attrs={str:'file': str:'IMG-HV', str:'use_cache': bool:True, str:'create_cache': bool:False, str:'records_per_chunk': int:1024})}, attrs={})}, attrs={str:'reference_document': str:'https://www.eorc.jaxa.jp/ALOS-2/en/doc/fdata/PALSAR-2_xx_Format_CEOS_E_f.pdf'}) AFTER [(str:'get_mapper', (str:'memory://product',), {},), (str:'summary', str:'/product', str:'summary.txt',), (str:'volume_directory', str:'/product', str:'VOL',), (str:'sar_leader', str:'/product', str:'LED',), (str:'image', str:'/product', str:'IMG-HH', {str:'use_cache': bool:True, str:'create_cache': bool:False, str:'records_per_chunk': int:1024},), (str:'image', str:'/product', str:'IMG-HV', {str:'use_cache': bool:True, str:'create_cache': bool:False, str:'records_per_chunk': int:1024},)] SIGNATURE (path, *, storage_options={}, create_cache=False, use_cache=True, records_per_chunk=1024)"
    ),
    'vol_attrs_with_reference_document': (
        "RETURNS Group(path='/', url='/product', data={str:'summary': Group(path='/summary', url='/product', data={str:'product_information': Group(path='/summary/product_information', url='/product', data={str:'data_files': Group(path='/summary/product_information/data_files', url='/product', data={}, attrs={str:'volume_directory': str:'VOL', str:'sar_leader': str:'LED', str:'sar_imagery': [str:'IMG-HH', str:'IMG-HV'], str:'sar_trailer': str:'TRL'})}, attrs={str:'BitPixel': int:16})}, attrs={}), str:'metadata': Group(path='/metadata', url='/product', data={}, attrs={str:'leader': str:'LED'}), str:'imagery': Group(path='/imagery', url='/product', data={str:'IMG-HH': Group(path='/imagery/IMG-HH', url='/product', data={}, attrs={str:'file': str:'IMG-HH', str:'use_cache': bool:True, str:'create_cache': bool:False, str:'records_per_chunk': int:1024}), str:'IMG-HV': Group(path='/imagery/IMG-HV', url='/product', data={}, attrs={str:'file': str:'IMG-HV', str:'use_cache': bool:True, str:'create_cache': bool:False, str:'records_per_chunk': int:1024})}, attrs={})}, attrs={str:'a': int:1, str:'reference_document': str:'https://www.eorc.jaxa.jp/ALOS-2/en/doc/fdata/PALSAR-2_xx_Format_CEOS_E_f.pdf', str:'z': int:2}) AFTER [(str:'get_mapper', (str:'memory://product',), {},), (str:'summary', str:'/product', str:'summary.txt',), (str:'volume_directory', str:'/product', str:'VOL',), (str:'sar_leader', str:'/product', str:'LED',), (str:'image', str:'/product', str:'IMG-HH', {str:'use_cache': bool:True, str:'create_cache': bool:False, str:'records_per_chunk': int:1024},), (str:'image', str:'/product', str:'IMG-HV', {str:'use_cache': bool:True, str:'create_cache': bool:False, str:'records_per_chunk': int:1024},)] SIGNATURE (path, *, storage_options={}, create_cache=False, use_cache=True, records_per_chunk=1024)"
    ),
    'real_summary': (
        "RETURNS Group(path='/', url='/product', data={str:'summary': Group(path='/summary', url='/product', data={str:'scene_specification': Group(path='/summary/scene_specification', url='/product', data={}, attrs={str:'mission_name': str:'ALOS2', str:'orbit_accumulation': int:29076, str:'scene_frame': int:600, str:'date': str:'2019-10-11'}), str:'product_specification': Group(path='/summary/product_specification', url='/product', data={}, attrs={str:'observation_mode': str:'ScanSAR nominal 28MHz mode dual polarization', str:'observation_direction': str:'right looking', str:'processing_level': str:'level 1.1', str:'processing_option': str:'not specified', str:'map_projection': str:'not specified', str:'orbit_direction': str:'descending'}), str:'product_information': Group(path='/summary/product_information', url='/product', data={str:'data_files': Group(path='/summary/product_information/data_files', url='/product', data={}, attrs={str:'volume_directory': str:'VOL-ALOS2290760600-191011-WWDR1.1__D', str:'sar_leader': str:'LED-ALOS2290760600-191011-WWDR1.1__D', str:'sar_imagery': [str:'IMG-HH-ALOS2290760600-191011-WWDR1.1__D-F1', str:'IMG-HV-ALOS2290760600-191011-WWDR1.1__D-F1'], str:'sar_trailer': str:'TRL-ALOS2290760600-191011-WWDR1.1__D'})}, attrs={str:'ProductFormat': str:'CEOS'}), str:'label_information': Group(path='/summary/label_information', url='/product', data={}, attrs={str:'ProcessFacility': str:'spacecraft control mission operation system'})}, attrs={}), str:'metadata': Group(path='/metadata', url='/product', data={}, attrs={str:'leader': str:'LED-ALOS2290760600-191011-WWDR1.1__D'}), str:'imagery': Group(path='/imagery', url='/product', data={str:'IMG-HH-ALOS2290760600-191011-WWDR1.1__D-F1': Group(path='/imagery/IMG-HH-ALOS2290760600-191011-WWDR1.1__D-F1', url='/product', data={}, attrs={str:'file': str:'IMG-HH-ALOS2290760600-191011-WWDR1.1__D-F1', str:'use_cache': bool:True, str:'create_cache': bool:False, str:'records_per_chunk': int:1024}), str:'IMG-HV-ALOS2290760600-191011-WWDR1.1__D-F1': Group(path='/imagery/IMG-HV-ALOS2290760600-191011-WWDR1.1__D-F1', url='/product', data={}, attrs={str:'file': str:'IMG-HV-ALOS2290760600-191011-WWDR1.1__D-F1', str:'use_cache': bool:True, str:'create_cache': bool:False, str:'records_per_chunk': int:1024})}, attrs={})}, attrs={str:'volume_id': str:'A', str:'created': str:'2019', str:'reference_document': str:'https://www.eorc.jaxa.jp/ALOS-2/en/doc/fdata/PALSAR-2_xx_Format_CEOS_E_f.pdf'}) AFTER [(str:'get_mapper', (str:'memory://product',), {},), (str:'summary', str:'/product', str:'summary.txt',), (str:'volume_directory', str:'/product', str:'VOL-ALOS2290760600-191011-WWDR1.1__D',), (str:'sar_leader', str:'/product', str:'LED-ALOS2290760600-191011-WWDR1.1__D',), (str:'image', str:'/product', str:'IMG-HH-ALOS2290760600-191011-WWDR1.1__D-F1', {str:'use_cache': bool:True, str:'create_cache': bool:False, str:'records_per_chunk': int:1024},), (str:'image', str:'/product', str:'IMG-HV-ALOS2290760600-191011-WWDR1.1__D-F1', {str:'use_cache': bool:True, str:'create_cache': bool:False, str:'records_per_chunk': int:1024},)] SIGNATURE (path, *, storage_options={}, create_cache=False, use_cache=True, records_per_chunk=1024)"
    ),
    'real_summary_options': (
        "RETURNS Group(path='/', url='/product', data={str:'summary': Group(path='/summary', url='/product', data={str:'scene_specification': Group(path='/summary/scene_specification', url='/product', data={}, attrs={str:'mission_name': str:'ALOS2', str:'orbit_accumulation': int:29076, str:'scene_frame': int:600, str:'date': str:'2019-10-11'}), str:'product_specification': Group(path='/summary/product_specification', url='/product', data={}, attrs={str:'observation_mode': str:'ScanSAR nominal 28MHz mode dual polarization', str:'observation_direction': str:'right looking', str:'processing_level': str:'level 1.1', str:'processing_option': str:'not specified', str:'map_projection': str:'not specified', str:'orbit_direction': str:'descending'}), str:'product_information': Group(path='/summary/product_information', url='/product', data={str:'data_files': Group(path='/summary/product_information/data_files', url='/product', data={}, attrs={str:'volume_directory': str:'VOL-ALOS2290760600-191011-WWDR1.1__D', str:'sar_leader': str:'LED-ALOS2290760600-191011-WWDR1.1__D', str:'sar_imagery': [str:'IMG-HH-ALOS2290760600-191011-WWDR1.1__D-F1', str:'IMG-HV-ALOS2290760600-191011-WWDR1.1__D-F1'], str:'sar_trailer': str:'TRL-ALOS2290760600-191011-WWDR1.1__D'})}, attrs={str:'ProductFormat': str:'CEOS'}), str:'label_information': Group(path='/summary/label_information', url='/product', data={}, attrs={str:'ProcessFacility': str:'spacecraft control mission operation system'})}, attrs={}), str:'metadata': Group(path='/metadata', url='/product', data={}, attrs={str:'leader': str:'LED-ALOS2290760600-191011-WWDR1.1__D'}), str:'imagery': Group(path='/imagery', url='/product', data={str:'IMG-HH-ALOS2290760600-191011-WWDR1.1__D-F1': Group(path='/imagery/IMG-HH-ALOS2290760600-191011-WWDR1.1__D-F1', url='/product', data={}, attrs={str:'file': str:'IMG-HH-ALOS2290760600-191011-WWDR1.1__D-F1', str:'use_cache': bool:False, str:'create_cache': bool:False, str:'records_per_chunk': int:2048}), str:'IMG-HV-ALOS2290760600-191011-WWDR1.1__D-F1': Group(path='/imagery/IMG-HV-ALOS2290760600-191011-WWDR1.1__D-F1', url='/product', data={}, attrs={str:'file': str:'IMG-HV-ALOS2290760600-191011-WWDR1.1__D-F1', str:'use_cache': bool:False, str:'create_cache': bool:False, str:'records_per_chunk': int:2048})}, attrs={})}, attrs={str:'volume_id': str:'A', str:'created': str:'2019', str:'reference_document': str:'https://www.eorc.jaxa.jp/ALOS-2/en/doc/fdata/PALSAR-2_xx_Format_CEOS_E_f.pdf'}) AFTER [(str:'get_mapper', (str:'memory://product',), {},), (str:'summary', str:'/product', str:'summary.txt',), (str:'volume_directory', str:'/product', str:'VOL-ALOS2290760600-191011-WWDR1.1__D',), (str:'sar_leader', str:'/product', str:'LED-ALOS2290760600-191011-WWDR1.1__D',), (str:'image', str:'/product', str:'IMG-HH-ALOS2290760600-191011-WWDR1.1__D-F1', {str:'use_cache': bool:False, str:'create_cache': bool:False, str:'records_per_chunk': int:2048},), (str:'image', str:'/product', str:'IMG-HV-ALOS2290760600-191011-WWDR1.1__D-F1', {str:'use_cache': bool:False, str:'create_cache': bool:False, str:'records_per_chunk': int:2048},)] SIGNATURE (path, *, storage_options={}, create_cache=False, use_cache=True, records_per_chunk=1024)"
    ),
    'fail_summary': (
        "RAISES Boom('failed at summary',) AFTER [(str:'get_mapper', (str:'memory://product',), {},), (str:'summary', str:'/product', str:'summary.txt',)] SIGNATURE (path, *, storage_options={}, create_cache=False, use_cache=True, records_per_chunk=1024)"
    ),
    'fail_summary_missing_file': (
        "RAISES OSError('Cannot find the summary file (`summary.txt`). Make sure the dataset at /product is complete and in the JAXA CEOS format.',) from KeyError('summary.txt',) from FileNotFoundError('/product/summary.txt',) from KeyError('/product/summary.txt',) AFTER [(str:'get_mapper', (str:'memory://product',), {},), (str:'summary', str:'/product', str:'summary.txt',)] SIGNATURE (path, *, storage_options={}, create_cache=False, use_cache=True, records_per_chunk=1024)"
    ),
    'fail_volume_directory': (
        "RAISES Boom('failed at volume_directory',) AFTER [(str:'get_mapper', (str:'memory://product',), {},), (str:'summary', str:'/product', str:'summary.txt',), (str:'volume_directory', str:'/product', str:'VOL',)] SIGNATURE (path, *, storage_options={}, create_cache=False, use_cache=True, records_per_chunk=1024)"
    ),
    'fail_sar_leader': (
        "RAISES Boom('failed at sar_leader',) AFTER [(str:'get_mapper', (str:'memory://product',), {},), (str:'summary', str:'/product', str:'summary.txt',), (str:'volume_directory', str:'/product', str:'VOL',), (str:'sar_leader', str:'/product', str:'LED',)] SIGNATURE (path, *, storage_options={}, create_cache=False, use_cache=True, records_per_chunk=1024)"
    ),
    'fail_first_image': (
        "RAISES Boom('failed at image:IMG-HH',) AFTER [(str:'get_mapper', (str:'memory://product',), {},), (str:'summary', str:'/product', str:'summary.txt',), (str:'volume_directory', str:'/product', str:'VOL',), (str:'sar_leader', str:'/product', str:'LED',), (str:'image', str:'/product', str:'IMG-HH', {str:'use_cache': bool:True, str:'create_cache': bool:False, str:'records_per_chunk': int:1024},)] SIGNATURE (path, *, storage_options={}, create_cache=False, use_cache=True, records_per_chunk=1024)"
    ),
    'fail_second_image': (
        "RAISES Boom('failed at image:IMG-HV',) AFTER [(str:'get_mapper', (str:'memory://product',), {},), (str:'summary', str:'/product', str:'summary.txt',), (str:'volume_directory', str:'/product', str:'VOL',), (str:'sar_leader', str:'/product', str:'LED',), (str:'image', str:'/product', str:'IMG-HH', {str:'use_cache': bool:True, str:'create_cache': bool:False, str:'records_per_chunk': int:1024},), (str:'image', str:'/product', str:'IMG-HV', {str:'use_cache': bool:True, str:'create_cache': bool:False, str:'records_per_chunk': int:1024},)] SIGNATURE (path, *, storage_options={}, create_cache=False, use_cache=True, records_per_chunk=1024)"
    ),
    'fail_second_image_type_error': (
        "RAISES TypeError('failed at image:IMG-HV',) AFTER [(str:'get_mapper', (str:'memory://product',), {},), (str:'summary', str:'/product', str:'summary.txt',), (str:'volume_directory', str:'/product', str:'VOL',), (str:'sar_leader', str:'/product', str:'LED',), (str:'image', str:'/product', str:'IMG-HH', {str:'use_cache': bool:True, str:'create_cache': bool:False, str:'records_per_chunk': int:1024},), (str:'image', str:'/product', str:'IMG-HV', {str:'use_cache': bool:True, str:'create_cache': bool:False, str:'records_per_chunk': int:1024},)] SIGNATURE (path, *, storage_options={}, create_cache=False, use_cache=True, records_per_chunk=1024)"
    ),
    'fail_first_image_key_error': (
        "RAISES KeyError('failed at image:IMG-HH',) AFTER [(str:'get_mapper', (str:'memory://product',), {},), (str:'summary', str:'/product', str:'summary.txt',), (str:'volume_directory', str:'/product', str:'VOL',), (str:'sar_leader', str:'/product', str:'LED',), (str:'image', str:'/product', str:'IMG-HH', {str:'use_cache': bool:True, str:'create_cache': bool:False, str:'records_per_chunk': int:1024},)] SIGNATURE (path, *, storage_options={}, create_cache=False, use_cache=True, records_per_chunk=1024)"
    ),
    'fail_leader_type_error': (
        "RAISES TypeError('failed at sar_leader',) AFTER [(str:'get_mapper', (str:'memory://product',), {},), (str:'summary', str:'/product', str:'summary.txt',), (str:'volume_directory', str:'/product', str:'VOL',), (str:'sar_leader', str:'/product', str:'LED',)] SIGNATURE (path, *, storage_options={}, create_cache=False, use_cache=True, records_per_chunk=1024)"
    ),
    'no_product_information': (
        "RAISES KeyError('product_information',) AFTER [(str:'get_mapper', (str:'memory://product',), {},), (str:'summary', str:'/product', str:'summary.txt',)] SIGNATURE (path, *, storage_options={}, create_cache=False, use_cache=True, records_per_chunk=1024)"
    ),
    'no_data_files': (
        "RAISES KeyError('data_files',) AFTER [(str:'get_mapper', (str:'memory://product',), {},), (str:'summary', str:'/product', str:'summary.txt',)] SIGNATURE (path, *, storage_options={}, create_cache=False, use_cache=True, records_per_chunk=1024)"
    ),
    'files_without_volume_directory': (
        "RAISES KeyError('volume_directory',) AFTER [(str:'get_mapper', (str:'memory://product',), {},), (str:'summary', str:'/product', str:'summary.txt',)] SIGNATURE (path, *, storage_options={}, create_cache=False, use_cache=True, records_per_chunk=1024)"
    ),
    'files_without_leader': (
        "RAISES KeyError('sar_leader',) AFTER [(str:'get_mapper', (str:'memory://product',), {},), (str:'summary', str:'/product', str:'summary.txt',), (str:'volume_directory', str:'/product', str:'VOL',)] SIGNATURE (path, *, storage_options={}, create_cache=False, use_cache=True, records_per_chunk=1024)"
    ),
    'files_without_imagery': (
        "RAISES KeyError('sar_imagery',) AFTER [(str:'get_mapper', (str:'memory://product',), {},), (str:'summary', str:'/product', str:'summary.txt',), (str:'volume_directory', str:'/product', str:'VOL',), (str:'sar_leader', str:'/product', str:'LED',)] SIGNATURE (path, *, storage_options={}, create_cache=False, use_cache=True, records_per_chunk=1024)"
    ),
    'files_without_trailer': (
        "RETURNS Group(path='/', url='/product', data={str:'summary': Group(path='/summary', url='/product', data={str:'product_information': Group(path='/summary/product_information', url='/product', data={str:'data_files': Group(path='/summary/product_information/data_files', url='/product', data={}, attrs={str:'volume_directory': str:'VOL', str:'sar_leader': str:'LED', str:'sar_imagery': [str:'a']})}, attrs={str:'BitPixel': int:16})}, attrs={}), str:'metadata': Group(path='/metadata', url='/product', data={}, attrs={str:'leader': str:'LED'}), str:'imagery': Group(path='/imagery', url='/product', data={str:'a': Group(path='/imagery/a', url='/product', data={}, attrs={str:'file': str:'a', str:'use_cache': bool:True, str:'create_cache': bool:False, str:'records_per_chunk': int:1024})}, attrs={})}, attrs={str:'volume_id': str:'A', str:'created': str:'2019', str:'reference_document': str:'https://www.eorc.jaxa.jp/ALOS-2/en/doc/fdata/PALSAR-2_xx_Format_CEOS_E_f.pdf'}) AFTER [(str:'get_mapper', (str:'memory://product',), {},), (str:'summary', str:'/product', str:'summary.txt',), (str:'volume_directory', str:'/product', str:'VOL',), (str:'sar_leader', str:'/product', str:'LED',), (str:'image', str:'/product', str:'a', {str:'use_cache': bool:True, str:'create_cache': bool:False, str:'records_per_chunk': int:1024},)] SIGNATURE (path, *, storage_options={}, create_cache=False, use_cache=True, records_per_chunk=1024)"
    ),
    'imagery_not_iterable': (
        'RAISES TypeError("\'NoneType\' object is not iterable",) AFTER [(str:\'get_mapper\', (str:\'memory://product\',), {},), (str:\'summary\', str:\'/product\', str:\'summary.txt\',), (str:\'volume_directory\', str:\'/product\', str:\'VOL\',), (str:\'sar_leader\', str:\'/product\', str:\'LED\',)] SIGNATURE (path, *, storage_options={}, create_cache=False, use_cache=True, records_per_chunk=1024)'
    ),
    'vol_attrs_not_a_dict': (
        'RAISES TypeError("unsupported operand type(s) for |: \'list\' and \'dict\'",) AFTER [(str:\'get_mapper\', (str:\'memory://product\',), {},), (str:\'summary\', str:\'/product\', str:\'summary.txt\',), (str:\'volume_directory\', str:\'/product\', str:\'VOL\',), (str:\'sar_leader\', str:\'/product\', str:\'LED\',), (str:\'image\', str:\'/product\', str:\'IMG-HH\', {str:\'use_cache\': bool:True, str:\'create_cache\': bool:False, str:\'records_per_chunk\': int:1024},), (str:\'image\', str:\'/product\', str:\'IMG-HV\', {str:\'use_cache\': bool:True, str:\'create_cache\': bool:False, str:\'records_per_chunk\': int:1024},)] SIGNATURE (path, *, storage_options={}, create_cache=False, use_cache=True, records_per_chunk=1024)'
    ),
    'options_positional': (
        "RAISES TypeError('open() takes 1 positional argument but 2 were given',) AFTER [] SIGNATURE (path, *, storage_options={}, create_cache=False, use_cache=True, records_per_chunk=1024)"
    ),
    'unknown_option': (
        'RAISES TypeError("open() got an unexpected keyword argument \'chunks\'",) AFTER [] SIGNATURE (path, *, storage_options={}, create_cache=False, use_cache=True, records_per_chunk=1024)'
    ),
    'storage_options_none': (
        "RAISES TypeError('fsspec.mapping.get_mapper() argument after ** must be a mapping, not NoneType',) AFTER [] SIGNATURE (path, *, storage_options={}, create_cache=False, use_cache=True, records_per_chunk=1024)"
    ),
}
# fmt: on


def test_equivalence():
    check(CASES, EXPECTED, run)


if __name__ == "__main__":
    check(CASES, EXPECTED, run)
